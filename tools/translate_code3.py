#!/venv/bin/python
"""GenCode3.v generator: the method BODIES of class Duration -> Gallina (fail closed).

Phase 1 (translate_code.py) translates module-level pure integer helpers and
rejects methods because they read object state.  This generator translates the
pure methods of class Duration (data.py) over an explicit object-state record

    Record pyDuration := { s_years s_months s_weeks s_days : option Z;
                           s_hours s_minutes s_seconds : option Q }

(one field per entry of Duration.__slots__, `None` = Python None) into an
exception monad `exc A := Ok a | Raise TypeError | Raise ZeroDivisionError`, so
that coq/Proofs/GenCode3Ok.v can PROVE every hand-written model function of
coq/Model/Duration.v equal to what the source says on this run, for every
state `rep x` (x : dur).  See notes/GENCODE3_REPORT.md.

Numeric convention (the model's own, DESIGN.md section 3): int-valued slots and
int parameters are Z; the three time slots are exact rationals Q (ideal float);
an int meeting a Q is injected; `/` is exact division in Q; `//`, `%`, `divmod`
are floor division / modulo (quotient typed Z: the int/float distinction of an
integral value is not modelled); int(x) truncates toward zero; comparisons are
exact; division by zero raises.  None as an arithmetic/ordering operand raises
TypeError; `==` between None and a number is False.

Accepted subset (anything else raises Reject):
  methods `def m(self, p...)` of class Duration, decorators none or `property`,
  parameter types fixed per entry point (Duration object, int);
  statements: x = e | a, b = e | a = b = e (e once, then left to right) |
      x op= e | obj._slot = e | obj._slot op= e |
      (obj._a, obj._b) = (e1, e2) | setattr(obj, <static str>, e) |
      if/elif/else (continuation passing when a branch returns, merge of the
      assigned locals otherwise) | return e | raise TypeError(...) |
      for a in <obj>.__slots__ / [<string constants>]: unrolled statically;
      stores only to an OWNED object (a local bound to x._copy(), to
      cls(_is_empty_instance=True) whose slots are all assigned before any
      other use, or `self` inside __init__), so value semantics is sound;
  expressions: int/float/bool/None constants, locals, + - * / // %, unary -,
      one comparison (numbers, None-able numbers under ==, tuples
      lexicographically as CPython does), and/or/not with short circuit,
      conditional expressions (also of tuples), tuples (one-element ones
      included), tuple + tuple, CALENDAR.X, obj._slot, obj.__slots__,
      getattr(obj, <static str>[, None]), isinstance (decided statically from
      the entry-point types; a tuple of classes = or), any/all(e for a in
      <static list of strings>) (unrolled, short circuit), abs, int, divmod,
      sum([...]), hash(e) directly
      under `return` (translated as e: the hashed key), method calls on
      Duration objects, Duration(k=v...) (through __init__, standardize off),
      operators + - * on Duration objects through __add__/__sub__/__mul__/
      __rmul__.
"""
import ast
import os
import sys
from fractions import Fraction

sys.path.insert(0, os.path.dirname(os.path.abspath(__file__)))
import translate  # noqa: E402
from translate import Reject, write_if_changed, coq_str  # noqa: E402
import translate_code  # noqa: E402  (also redirects translate.OUT for VERIF_GEN_OUT)
from translate_code import zlit, clean  # noqa: E402

SRC = os.path.join(translate.REPO, "metomi", "isodatetime")
CLS = "Duration"

Z, Q, B, NONE = "Z", "Q", "B", "NONE"


def OPT(t):
    return ("OPT", t)


def T(*ts):
    return ("T", tuple(ts))


OBJ = ("OBJ", CLS)

# the object state: Duration.__slots__ must be exactly this (fail closed), and
# the int / int-or-float typing is re-derived from __init__'s _type_checker call
SLOTS = [("_years", Z), ("_months", Z), ("_weeks", Z), ("_days", Z),
         ("_hours", Q), ("_minutes", Q), ("_seconds", Q)]
SLOT_TY = dict(SLOTS)
# CALENDAR attributes assigned by Calendar.set_mode that the subset may read:
# explicit parameters, in this order
MODE_ATTRS = ["SECONDS_IN_HOUR", "SECONDS_IN_DAY", "ROUGH_DAYS_IN_YEAR",
              "DAYS_IN_YEAR", "DAYS_IN_YEAR_LEAP"]
CLASS_CONSTS = ["SECONDS_IN_MINUTE", "MINUTES_IN_HOUR", "HOURS_IN_DAY",
                "DAYS_IN_WEEK", "ROUGH_DAYS_IN_MONTH", "MAX_WEEKS_IN_YEAR"]


def fld(slot):
    return "s" + slot          # _years -> s_years


def setter(slot):
    return "set" + slot        # _years -> set_years


def is_opt(t):
    return isinstance(t, tuple) and t[0] == "OPT"


def is_tuple(t):
    return isinstance(t, tuple) and t[0] == "T"


def is_static(t):
    return isinstance(t, tuple) and t[0] in ("STR", "STRLIST", "SB")


def coq_type(t):
    if t == Z:
        return "Z"
    if t == Q:
        return "Q"
    if t == B:
        return "bool"
    if t == OBJ:
        return "pyDuration"
    if is_opt(t):
        return "(option %s)" % coq_type(t[1])
    if is_tuple(t):
        return "(" + " * ".join(coq_type(x) for x in t[1]) + ")"
    raise Reject("no Coq type for %r" % (t,))


def join(a, b):
    """Least common type (with coercions Z -> Q, t -> option t, None -> option t)."""
    if a == b:
        return a
    if {a, b} == {Z, Q}:
        return Q
    if a == NONE:
        return b if is_opt(b) else OPT(b)
    if b == NONE:
        return a if is_opt(a) else OPT(a)
    if is_opt(a) or is_opt(b):
        ia = a[1] if is_opt(a) else a
        ib = b[1] if is_opt(b) else b
        return OPT(join(ia, ib))
    if is_tuple(a) and is_tuple(b) and len(a[1]) == len(b[1]):
        return T(*[join(x, y) for x, y in zip(a[1], b[1])])
    raise Reject("no common type for %r and %r" % (a, b))


class Val:
    def __init__(self, text, ty, parts=None, static=None, kind=None):
        self.text = text          # Coq term (None for static strings)
        self.ty = ty
        self.parts = parts        # component Vals of a syntactic tuple
        self.static = static      # statically known truth value
        self.kind = kind          # for objects: "fresh" | "self" | "alias"


def qlit(fr):
    return "(Qmake %s %d)" % (zlit(fr.numerator), fr.denominator)


def tuple_parts(v):
    if v.parts is not None:
        return v.parts
    n = len(v.ty[1])
    out = []
    for i, ty in enumerate(v.ty[1]):      # left-nested pairs
        t = v.text
        for _ in range(n - 1 - i if i > 0 else n - 1):
            t = "(fst %s)" % t
        if i > 0:
            t = "(snd %s)" % t
        out.append(Val(t, ty))
    return out


def coerce(v, to):
    if v.ty == to:
        return v
    if to == Q and v.ty == Z:
        return Val("(inject_Z %s)" % v.text, Q)
    if is_opt(to):
        if v.ty == NONE:
            return Val("None", to)
        if is_opt(v.ty):
            inner = coerce(Val("x_", v.ty[1]), to[1])
            return Val("(option_map (fun x_ => %s) %s)" % (inner.text, v.text), to)
        return Val("(Some %s)" % coerce(v, to[1]).text, to)
    if is_tuple(to) and is_tuple(v.ty) and len(to[1]) == len(v.ty[1]):
        ps = [coerce(p, t) for p, t in zip(tuple_parts(v), to[1])]
        return Val("(" + ", ".join(p.text for p in ps) + ")", to, parts=ps)
    raise Reject("cannot use a %r where a %r is expected" % (v.ty, to))


class Static:
    """Pseudo statement of an unrolled `for`: bind/unbind the loop variable."""

    def __init__(self, name, value):
        self.name, self.value = name, value


class Env:
    def __init__(self):
        self.ty = {}        # local -> type
        self.owned = set()  # locals holding an object no other name can reach
        self.partial = {}   # owned local under construction -> frozenset of assigned slots

    def copy(self):
        e = Env()
        e.ty, e.owned, e.partial = dict(self.ty), set(self.owned), dict(self.partial)
        return e

    def drop(self, name):
        self.ty.pop(name, None)
        self.owned.discard(name)
        self.partial.pop(name, None)


def assigned_names(stmts):
    out = []

    def add(t):
        if isinstance(t, ast.Name):
            if t.id not in out:
                out.append(t.id)
        elif isinstance(t, ast.Tuple):
            for e in t.elts:
                add(e)
        elif isinstance(t, ast.Attribute) and isinstance(t.value, ast.Name):
            add(t.value)
        else:
            raise Reject("store to %s" % type(t).__name__)

    def walk(ss):
        for s in ss:
            if isinstance(s, Static):
                continue
            if isinstance(s, ast.Assign):
                for t in s.targets:
                    add(t)
            elif isinstance(s, ast.AugAssign):
                add(s.target)
            elif isinstance(s, ast.If):
                walk(s.body)
                walk(s.orelse)
            elif isinstance(s, ast.For):
                add(s.target)
                walk(s.body)
                walk(s.orelse)
            elif isinstance(s, ast.Expr):
                c = s.value
                if isinstance(c, ast.Call) and isinstance(c.func, ast.Name) \
                        and c.func.id == "setattr" and c.args and isinstance(c.args[0], ast.Name):
                    add(c.args[0])
            elif isinstance(s, (ast.Return, ast.Pass, ast.Raise)):
                pass
            else:
                raise Reject("statement %s" % type(s).__name__)
    walk(stmts)
    return out


def contains(stmts, kinds):
    return any(isinstance(n, kinds) for s in stmts if not isinstance(s, Static)
               for n in ast.walk(s))


def always_returns(stmts):
    stmts = [s for s in stmts if not isinstance(s, Static)]
    if not stmts:
        return False
    last = stmts[-1]
    if isinstance(last, (ast.Return, ast.Raise)):
        return True
    if isinstance(last, ast.If):
        return always_returns(last.body) and always_returns(last.orelse)
    return False


class Fn:
    def __init__(self, name, ctor):
        self.name = name
        self.ctor = ctor          # translating __init__: `self` is the object under construction
        self.ret = None           # join of the return types seen
        self.ret_expect = None    # second pass: coerce every return to this
        self.ret_kinds = set()
        self.mode = set()
        self.n = 0
        self.top = ()
        self.hash_key = False

    def fresh(self):
        self.n += 1
        return "t%d" % self.n


class ClassUnit:
    def __init__(self):
        with open(os.path.join(SRC, "data.py")) as fh:
            self.tree = ast.parse(fh.read())
        self.cal = translate_code.calendar_info(self)   # (class constants, set_mode-assigned)
        self.cls = None
        for node in self.tree.body:
            if isinstance(node, ast.ClassDef) and node.name == CLS:
                if self.cls is not None:
                    raise Reject("class %s defined twice" % CLS)
                self.cls = node
        if self.cls is None:
            raise Reject("class %s not found" % CLS)
        if self.cls.bases or self.cls.keywords or self.cls.decorator_list:
            raise Reject("class %s has bases/decorators" % CLS)
        self.methods = {}
        self.slots = None
        for st in self.cls.body:
            if isinstance(st, ast.FunctionDef):
                self.methods[st.name] = None if st.name in self.methods else st
            elif isinstance(st, ast.Assign):
                for t in st.targets:
                    if isinstance(t, ast.Name) and t.id == "__slots__":
                        if not (isinstance(st.value, ast.List) and all(
                                isinstance(e, ast.Constant) and isinstance(e.value, str)
                                for e in st.value.elts)):
                            raise Reject("__slots__ is not a list of string constants")
                        if self.slots is not None:
                            raise Reject("__slots__ assigned twice")
                        self.slots = [e.value for e in st.value.elts]
                    else:
                        raise Reject("class-level assignment to %s" % ast.unparse(t))
            elif isinstance(st, ast.Expr) and isinstance(st.value, ast.Constant):
                pass
            else:
                raise Reject("class body statement %s" % type(st).__name__)
        # methods that would change what attribute access, construction or the
        # translated operators mean
        for bad in ("__getattr__", "__getattribute__", "__setattr__", "__delattr__", "__new__",
                    "__init_subclass__", "__class_getitem__", "__radd__", "__rsub__", "__iadd__",
                    "__isub__", "__imul__", "__ifloordiv__"):
            if bad in self.methods:
                raise Reject("class defines %s" % bad)
        if self.slots != [s for s, _ in SLOTS]:
            raise Reject("Duration.__slots__ is %r, the state record is %r"
                         % (self.slots, [s for s, _ in SLOTS]))
        self.check_slot_types()
        self.done = {}
        self.busy = set()
        self.order = []

    # ------------------------------------------------------------ slot typing
    def check_slot_types(self):
        """int / int-or-float typing, from __init__'s _type_checker call alone.

        The call fixes the run-time type of every constructor parameter: exactly
        (int[, None]) -> Z, exactly (int, float[, None]) -> Q.  The REQUIRED
        constructor entry point must be typed with exactly these types.  Which
        parameter ends up in which slot is NOT read off syntactically: __init__
        is translated with these parameter types into the record, and `store`
        rejects an int-or-float value going into an int slot (Q -> option Z has
        no coercion), so whatever shape the body has (hoisted locals, chained
        assignments), an accepted __init__ writes only well-typed slots; that it
        writes the RIGHT ones is the lemma gen3_init (= dur_make)."""
        init = self.methods.get("__init__")
        if init is None:
            raise Reject("no unique __init__")
        calls = [n for n in ast.walk(init) if isinstance(n, ast.Call)
                 and isinstance(n.func, ast.Name) and n.func.id == "_type_checker"]
        top = [st.value for st in init.body if isinstance(st, ast.Expr) and st.value in calls]
        if len(calls) != 1 or len(top) != 1:
            raise Reject("__init__ must call _type_checker exactly once, as a top-level statement")
        allowed = {}
        for a in calls[0].args:
            if not (isinstance(a, ast.Tuple) and len(a.elts) >= 3 and isinstance(a.elts[0], ast.Name)):
                raise Reject("_type_checker argument shape")
            if a.elts[0].id in allowed:
                raise Reject("_type_checker lists %s twice" % a.elts[0].id)
            allowed[a.elts[0].id] = sorted(ast.unparse(e) for e in a.elts[2:])
        ptypes = {}
        for p, al in allowed.items():
            core = [x for x in al if x != "None"]
            if core == ["int"]:
                ptypes[p] = Z
            elif core == ["float", "int"]:
                ptypes[p] = Q
            else:
                raise Reject("_type_checker allows %r for %s: neither int nor int-or-float" % (al, p))
        entry = [r for r in REQUIRED if r[0] == "__init__" and r[2]]
        if len(entry) != 1 or dict(entry[0][1]) != ptypes:
            raise Reject("_type_checker types the constructor parameters %r, the entry point says %r"
                         % (sorted(ptypes.items()), sorted(entry[0][1]) if entry else None))
        self.init_allowed = allowed
        self.init_ptypes = ptypes

    # ------------------------------------------------------------ helpers
    def num(self, v, fx, binds, what):
        """A Python number operand: None raises TypeError."""
        if v.ty in (Z, Q):
            return v
        if is_opt(v.ty) and v.ty[1] in (Z, Q):
            t = fx.fresh()
            binds.append("%s <- need %s" % (t, v.text))
            return Val(t, v.ty[1])
        raise Reject("%s on a %r" % (what, v.ty))

    def bind_call(self, fx, binds, text, ty, kind=None):
        t = fx.fresh()
        binds.append("%s <- %s" % (t, text))
        return Val(t, ty, kind=kind)

    @staticmethod
    def wrap(binds, tail):
        return "".join(b + " ;; " for b in binds) + tail

    # ------------------------------------------------------------ expressions
    def expr(self, n, env, fx):
        """-> (binds, Val).  binds: monadic bindings, in Python evaluation order."""
        if isinstance(n, ast.Constant):
            v = n.value
            if v is True:
                return [], Val("true", B, static=True)
            if v is False:
                return [], Val("false", B, static=False)
            if v is None:
                return [], Val("tt", NONE, static=False)
            if type(v) is int:
                return [], Val(zlit(v), Z)
            if type(v) is float:
                return [], Val(qlit(Fraction(repr(v))), Q)
            if isinstance(v, str):
                return [], Val(None, ("STR", v))
            raise Reject("constant %r" % (v,))
        if isinstance(n, ast.Name):
            if n.id in env.ty:
                ty = env.ty[n.id]
                if n.id in env.partial:
                    raise Reject("object %s used before all its slots are assigned" % n.id)
                if is_static(ty):
                    return [], Val(None, ty, static=(ty[1] if ty[0] == "SB" else None))
                kind = None
                if ty == OBJ:     # what the object may alias
                    if n.id in env.owned:
                        kind = {"owned:" + n.id}
                    elif n.id == "self":
                        kind = {"self"}
                    elif n.id in fx.params:
                        kind = {"param%d" % fx.params.index(n.id)}
                    else:
                        kind = {"alias"}
                return [], Val("v_" + n.id, ty, kind=kind)
            raise Reject("name %s is not a (definitely) bound local" % n.id)
        if isinstance(n, ast.UnaryOp):
            if isinstance(n.op, ast.USub):
                if isinstance(n.operand, ast.Constant) and type(n.operand.value) is int:
                    return [], Val(zlit(-n.operand.value), Z)
                binds, v = self.expr(n.operand, env, fx)
                v = self.num(v, fx, binds, "unary minus")
                return binds, (Val("(- %s)" % v.text, Z) if v.ty == Z else Val("(- %s)%%Q" % v.text, Q))
            if isinstance(n.op, ast.Not):
                binds, t, c = self.test(n.operand, env, fx)
                if c is not None:
                    return [], Val("false" if c else "true", B, static=(not c))
                return binds, Val("(negb %s)" % t, B)
            raise Reject("unary operator %s" % type(n.op).__name__)
        if isinstance(n, ast.BinOp):
            return self.binop(n, env, fx)
        if isinstance(n, ast.Compare):
            return self.compare(n, env, fx)
        if isinstance(n, ast.BoolOp):
            ops = []
            for v in n.values:
                b, val = self.expr(v, env, fx)
                if val.ty != B:
                    raise Reject("and/or of a non-bool outside test position")
                ops.append((b, val.text, val.static))
            binds, t, c = self.shortcut(ops, isinstance(n.op, ast.And), fx)
            return binds, Val(t, B, static=c)
        if isinstance(n, ast.IfExp):
            cb, c, k = self.test(n.test, env, fx)
            if k is not None:
                return self.expr(n.body if k else n.orelse, env, fx)
            ab, a = self.expr(n.body, env, fx)
            bb, b = self.expr(n.orelse, env, fx)
            ty = join(a.ty, b.ty)
            a, b = coerce(a, ty), coerce(b, ty)
            if not ab and not bb:
                return cb, Val("(if %s then %s else %s)" % (c, a.text, b.text), ty)
            t = fx.fresh()
            cb.append("%s <- (if %s then %s else %s)" % (
                t, c, self.wrap(ab, "Ok " + a.text), self.wrap(bb, "Ok " + b.text)))
            return cb, Val(t, ty)
        if isinstance(n, ast.Tuple):
            if len(n.elts) < 1:
                raise Reject("empty tuple")
            # a one-element tuple (x,) is represented by x itself, typed T(type of x)
            binds, parts = [], []
            for e in n.elts:
                b, v = self.expr(e, env, fx)
                if v.text is None or v.ty == OBJ:
                    raise Reject("tuple component of type %r" % (v.ty,))
                binds += b
                parts.append(v)
            if any(p.ty == NONE for p in parts):
                # keep None components typed by the context (joined later)
                pass
            return binds, Val("(" + ", ".join(p.text for p in parts) + ")",
                              T(*[p.ty for p in parts]), parts=parts)
        if isinstance(n, ast.Attribute):
            return self.attribute(n, env, fx)
        if isinstance(n, ast.Call):
            return self.call(n, env, fx)
        raise Reject("expression %s" % type(n).__name__)

    def shortcut(self, ops, is_and, fx):
        """ops: [(binds, bool text, static)] -> (binds, text, static) with Python's short circuit."""
        kept = []
        for b, t, c in ops:
            if c is not None:
                if c == (not is_and):           # deciding operand: the rest is never evaluated
                    if not kept:
                        return [], t, c
                    kept.append((b, t))
                    break
                continue                        # neutral operand
            kept.append((b, t))
        if not kept:
            return [], ("true" if is_and else "false"), is_and
        if len(kept) == 1:
            return kept[0][0], kept[0][1], None
        sym = " && " if is_and else " || "
        if not any(b for b, _ in kept[1:]):
            return list(kept[0][0]), "(" + sym.join(t for _, t in kept) + ")", None

        def build(i):
            b, t = kept[i]
            if i == len(kept) - 1:
                return self.wrap(b, "Ok " + t)
            if not any(bb for bb, _ in kept[i + 1:]):
                return self.wrap(b, "Ok (" + sym.join(tt for _, tt in kept[i:]) + ")")
            if is_and:
                return self.wrap(b, "(if %s then %s else Ok false)" % (t, build(i + 1)))
            return self.wrap(b, "(if %s then Ok true else %s)" % (t, build(i + 1)))
        first_b, first_t = kept[0]
        binds = list(first_b)
        tmp = fx.fresh()
        if is_and:
            binds.append("%s <- (if %s then %s else Ok false)" % (tmp, first_t, build(1)))
        else:
            binds.append("%s <- (if %s then Ok true else %s)" % (tmp, first_t, build(1)))
        return binds, tmp, None

    def test(self, n, env, fx):
        """An expression in truth-value position -> (binds, bool text, static value)."""
        if isinstance(n, ast.BoolOp):
            ops = [self.test(v, env, fx) for v in n.values]
            return self.shortcut(ops, isinstance(n.op, ast.And), fx)
        if isinstance(n, ast.UnaryOp) and isinstance(n.op, ast.Not):
            b, t, c = self.test(n.operand, env, fx)
            if c is not None:
                return [], ("false" if c else "true"), (not c)
            return b, "(negb %s)" % t, None
        b, v = self.expr(n, env, fx)
        return (b,) + self.truth(v)

    @staticmethod
    def truth(v):
        if v.ty == B:
            return v.text, v.static
        if v.ty == ("SB", True) or v.ty == ("SB", False):
            return ("true" if v.ty[1] else "false"), v.ty[1]
        if v.ty == NONE:
            return "false", False
        if v.ty == Z:
            return "(truthy_Z %s)" % v.text, None
        if v.ty == Q:
            return "(truthy_Q %s)" % v.text, None
        if v.ty == OPT(Z):
            return "(truthy_opt truthy_Z %s)" % v.text, None
        if v.ty == OPT(Q):
            return "(truthy_opt truthy_Q %s)" % v.text, None
        raise Reject("truth value of %r" % (v.ty,))

    # -- arithmetic
    def binop(self, n, env, fx):
        ab, a = self.expr(n.left, env, fx)
        bb, b = self.expr(n.right, env, fx)
        binds = ab + bb
        if is_tuple(a.ty) and is_tuple(b.ty) and isinstance(n.op, ast.Add):
            # tuple concatenation: the lengths are static, the components are pure terms
            parts = tuple_parts(a) + tuple_parts(b)
            return binds, Val("(" + ", ".join(p.text for p in parts) + ")",
                              T(*[p.ty for p in parts]), parts=parts)
        if a.ty == OBJ or b.ty == OBJ:
            # operator dispatch on Duration objects (receiver class exactly Duration)
            if a.ty == OBJ and b.ty == OBJ and isinstance(n.op, ast.Add):
                return binds, self.method_call("__add__", a, [b], fx, binds)
            if a.ty == OBJ and b.ty == OBJ and isinstance(n.op, ast.Sub):
                return binds, self.method_call("__sub__", a, [b], fx, binds)
            if a.ty == OBJ and b.ty == Z and isinstance(n.op, ast.Mult):
                return binds, self.method_call("__mul__", a, [b], fx, binds)
            if a.ty == Z and b.ty == OBJ and isinstance(n.op, ast.Mult):
                # int.__mul__(a, b) is NotImplemented for a Duration b -> b.__rmul__(a)
                return binds, self.method_call("__rmul__", b, [a], fx, binds)
            raise Reject("operator %s on %r, %r" % (type(n.op).__name__, a.ty, b.ty))
        what = "operator " + type(n.op).__name__
        a = self.num(a, fx, binds, what)
        b = self.num(b, fx, binds, what)
        return binds, self.arith(type(n.op), a, b, fx, binds)

    def arith(self, op, a, b, fx, binds):
        both_z = a.ty == Z and b.ty == Z
        if op in (ast.Add, ast.Sub, ast.Mult):
            sym = {ast.Add: "+", ast.Sub: "-", ast.Mult: "*"}[op]
            if both_z:
                return Val("(%s %s %s)" % (a.text, sym, b.text), Z)
            return Val("(%s %s %s)%%Q" % (coerce(a, Q).text, sym, coerce(b, Q).text), Q)
        if op is ast.Div:
            return self.bind_call(fx, binds, "py_truediv %s %s" % (
                coerce(a, Q).text, coerce(b, Q).text), Q)
        if op is ast.FloorDiv:
            if both_z:
                return self.bind_call(fx, binds, "py_floordiv_Z %s %s" % (a.text, b.text), Z)
            return self.bind_call(fx, binds, "py_floordiv_Q %s %s" % (
                coerce(a, Q).text, coerce(b, Q).text), Z)
        if op is ast.Mod:
            if both_z:
                return self.bind_call(fx, binds, "py_mod_Z %s %s" % (a.text, b.text), Z)
            return self.bind_call(fx, binds, "py_mod_Q %s %s" % (
                coerce(a, Q).text, coerce(b, Q).text), Q)
        raise Reject("binary operator %s" % op.__name__)

    # -- comparison
    def eq_text(self, a, b):
        """Python == (never raises on the accepted types) -> (text, static)."""
        if a.ty == NONE and b.ty == NONE:
            return "true", True
        if NONE in (a.ty, b.ty):
            o = b if a.ty == NONE else a
            if is_opt(o.ty):
                return "(is_none %s)" % o.text, None
            if o.ty in (Z, Q, B) or is_tuple(o.ty):
                return "false", False
            raise Reject("== between None and %r" % (o.ty,))
        if a.ty == Z and b.ty == Z:
            return "(%s =? %s)" % (a.text, b.text), None
        if a.ty in (Z, Q) and b.ty in (Z, Q):
            return "(Qeq_bool %s %s)" % (coerce(a, Q).text, coerce(b, Q).text), None
        if a.ty == B and b.ty == B:
            return "(Bool.eqb %s %s)" % (a.text, b.text), None
        if is_opt(a.ty) or is_opt(b.ty):
            ty = join(a.ty, b.ty)
            if ty[1] not in (Z, Q):
                raise Reject("== on %r" % (ty,))
            f = "Z.eqb" if ty[1] == Z else "Qeq_bool"
            return "(opt_eqb %s %s %s)" % (f, coerce(a, ty).text, coerce(b, ty).text), None
        if is_tuple(a.ty) and is_tuple(b.ty):
            if len(a.ty[1]) != len(b.ty[1]):
                return "false", False
            ts = [self.eq_text(x, y) for x, y in zip(tuple_parts(a), tuple_parts(b))]
            if any(c is False for _, c in ts):
                return "false", False
            return "(" + " && ".join(t for t, _ in ts) + ")", None
        raise Reject("== between %r and %r" % (a.ty, b.ty))

    def ord_text(self, op, a, b):
        """a op b for numbers; the strict/non-strict orders of Z and Q."""
        if a.ty == Z and b.ty == Z:
            f = {ast.Lt: "(%s <? %s)", ast.LtE: "(%s <=? %s)"}
            if op in f:
                return f[op] % (a.text, b.text)
            return {ast.Gt: "(%s <? %s)", ast.GtE: "(%s <=? %s)"}[op] % (b.text, a.text)
        if a.ty in (Z, Q) and b.ty in (Z, Q):
            x, y = coerce(a, Q).text, coerce(b, Q).text
            if op is ast.Lt:
                return "(Qlt_bool %s %s)" % (x, y)
            if op is ast.LtE:
                return "(Qle_bool %s %s)" % (x, y)
            if op is ast.Gt:
                return "(Qlt_bool %s %s)" % (y, x)
            return "(Qle_bool %s %s)" % (y, x)
        raise Reject("ordering between %r and %r" % (a.ty, b.ty))

    def compare(self, n, env, fx):
        if len(n.ops) != 1:
            raise Reject("chained comparison")
        op = type(n.ops[0])
        ab, a = self.expr(n.left, env, fx)
        bb, b = self.expr(n.comparators[0], env, fx)
        binds = ab + bb
        if a.text is None or b.text is None or OBJ in (a.ty, b.ty):
            raise Reject("comparison of %r with %r" % (a.ty, b.ty))
        if op in (ast.Is, ast.IsNot):
            if b.ty != NONE:
                raise Reject("`is` with something other than None")
            if a.ty == NONE:
                r = True
            elif is_opt(a.ty):
                t = "(is_none %s)" % a.text
                return binds, Val(t if op is ast.Is else "(negb %s)" % t, B)
            else:
                r = False
            r = r == (op is ast.Is)
            return binds, Val("true" if r else "false", B, static=r)
        if op in (ast.Eq, ast.NotEq):
            t, c = self.eq_text(a, b)
            if c is not None:
                c = c == (op is ast.Eq)
                return binds, Val("true" if c else "false", B, static=c)
            return binds, Val(t if op is ast.Eq else "(negb %s)" % t, B)
        if op in (ast.Lt, ast.LtE, ast.Gt, ast.GtE):
            if is_tuple(a.ty) and is_tuple(b.ty):
                # CPython: the first pair of components that differ (==) decides with `op`
                # itself; equal tuples of equal length compare by length
                if len(a.ty[1]) != len(b.ty[1]):
                    raise Reject("ordering of tuples of different lengths")
                pa, pb = tuple_parts(a), tuple_parts(b)
                for x, y in zip(pa, pb):
                    if x.ty not in (Z, Q) or y.ty not in (Z, Q):
                        raise Reject("ordering of tuples with a %r / %r component" % (x.ty, y.ty))
                text = "true" if op in (ast.LtE, ast.GtE) else "false"
                for x, y in reversed(list(zip(pa, pb))):
                    e, _ = self.eq_text(x, y)
                    text = "(if negb %s then %s else %s)" % (e, self.ord_text(op, x, y), text)
                return binds, Val(text, B)
            what = "ordering"
            a = self.num(a, fx, binds, what)
            b = self.num(b, fx, binds, what)
            return binds, Val(self.ord_text(op, a, b), B)
        raise Reject("comparison operator %s" % op.__name__)

    # -- attributes
    def is_calendar(self, n, env):
        return (isinstance(n, ast.Attribute) and isinstance(n.value, ast.Name)
                and n.value.id == "CALENDAR" and "CALENDAR" not in env.ty)

    def attribute(self, n, env, fx):
        if self.is_calendar(n, env):
            consts, mode_assigned = self.cal
            if n.attr in MODE_ATTRS:
                if n.attr not in mode_assigned:
                    raise Reject("CALENDAR.%s is not assigned by set_mode" % n.attr)
                fx.mode.add(n.attr)
                return [], Val("c_" + n.attr, Z)
            if n.attr in CLASS_CONSTS:
                if n.attr not in consts or n.attr in mode_assigned:
                    raise Reject("CALENDAR.%s is not a mode-independent class constant" % n.attr)
                return [], Val(n.attr, Z)
            raise Reject("CALENDAR.%s is outside the translated attributes" % n.attr)
        if isinstance(n.value, ast.Name) and n.value.id in env.ty and env.ty[n.value.id] == OBJ:
            obj = n.value.id
            if n.attr == "__slots__":
                return [], Val(None, ("STRLIST", tuple(self.slots)))
            return [], self.slot_read(obj, n.attr, env)
        raise Reject("attribute %s" % ast.unparse(n))

    def slot_read(self, obj, slot, env):
        if slot not in SLOT_TY:
            raise Reject("attribute %s of a Duration is not a slot" % slot)
        if obj in env.partial and slot not in env.partial[obj]:
            raise Reject("slot %s of %s read before it is assigned" % (slot, obj))
        return Val("(%s v_%s)" % (fld(slot), obj), OPT(SLOT_TY[slot]))

    def static_str(self, n, env):
        if isinstance(n, ast.Constant) and isinstance(n.value, str):
            return n.value
        if isinstance(n, ast.Name) and n.id in env.ty and env.ty[n.id][0] == "STR":
            return env.ty[n.id][1]
        raise Reject("attribute name `%s` is not a static string" % ast.unparse(n))

    # -- calls
    def call(self, n, env, fx):
        f = n.func
        if isinstance(f, ast.Name):
            if f.id in env.ty:
                raise Reject("call of a local")
            if f.id == "isinstance" and len(n.args) == 2 and not n.keywords \
                    and isinstance(n.args[1], ast.Tuple):
                # isinstance(x, (A, B)) == isinstance(x, A) or isinstance(x, B)
                rs = []
                for c in n.args[1].elts:
                    one = ast.Call(func=f, args=[n.args[0], c], keywords=[])
                    rs.append(self.call(one, env, fx)[1].static)
                r = any(rs)
                return [], Val("true" if r else "false", B, static=r)
            if f.id in ("any", "all") and len(n.args) == 1 and not n.keywords \
                    and isinstance(n.args[0], ast.GeneratorExp):
                # any(e(a) for a in <static list of strings>): truthiness of e(a), in order, short circuit
                g = n.args[0]
                if len(g.generators) != 1 or g.generators[0].ifs or g.generators[0].is_async \
                        or not isinstance(g.generators[0].target, ast.Name):
                    raise Reject("%s over a generator of another shape" % f.id)
                var = g.generators[0].target.id
                it = g.generators[0].iter
                if isinstance(it, (ast.List, ast.Tuple)) and it.elts and all(
                        isinstance(e, ast.Constant) and isinstance(e.value, str) for e in it.elts):
                    items = [e.value for e in it.elts]
                else:
                    _, iv = self.expr(it, env, fx)
                    if iv.ty[0] != "STRLIST":
                        raise Reject("%s over `%s`, not a static list of strings" % (f.id, ast.unparse(it)))
                    items = list(iv.ty[1])
                self.storable(var, env)
                if var in env.ty and not is_static(env.ty[var]):
                    raise Reject("generator variable %s shadows a local" % var)
                ops = []
                for item in items:
                    env2 = env.copy()
                    env2.ty[var] = ("STR", item)
                    ops.append(self.test(g.elt, env2, fx))
                binds, t, c = self.shortcut(ops, f.id == "all", fx)
                return binds, Val(t, B, static=c)
            if f.id == "isinstance" and len(n.args) == 2 and not n.keywords:
                _, v = self.expr(n.args[0], env, fx)
                cls = ast.unparse(n.args[1])
                if cls == CLS:
                    r = v.ty == OBJ
                elif cls == "int":
                    if v.ty == Z:
                        r = True
                    elif v.ty in (OBJ, NONE):
                        r = False
                    else:
                        raise Reject("isinstance(%r, int)" % (v.ty,))
                elif cls in ("TimePoint", "TimeRecurrence", "TimeZone", "float", "str"):
                    if v.ty != OBJ:
                        raise Reject("isinstance(%r, %s)" % (v.ty, cls))
                    r = False       # the receiver/operand class is exactly Duration
                else:
                    raise Reject("isinstance(..., %s)" % cls)
                return [], Val("true" if r else "false", B, static=r)
            if f.id == "getattr" and len(n.args) in (2, 3) and not n.keywords:
                if len(n.args) == 3 and not (isinstance(n.args[2], ast.Constant)
                                             and n.args[2].value is None):
                    raise Reject("getattr default other than None")
                if not (isinstance(n.args[0], ast.Name) and env.ty.get(n.args[0].id) == OBJ):
                    raise Reject("getattr on something other than a Duration local")
                return [], self.slot_read(n.args[0].id, self.static_str(n.args[1], env), env)
            if f.id in ("abs", "int") and len(n.args) == 1 and not n.keywords:
                binds, v = self.expr(n.args[0], env, fx)
                v = self.num(v, fx, binds, f.id + "()")
                if f.id == "abs":
                    return binds, Val("(%s %s)" % ("Z.abs" if v.ty == Z else "Qabs", v.text), v.ty)
                return binds, (v if v.ty == Z else Val("(py_int_Q %s)" % v.text, Z))
            if f.id == "divmod" and len(n.args) == 2 and not n.keywords:
                ab, a = self.expr(n.args[0], env, fx)
                bb, b = self.expr(n.args[1], env, fx)
                binds = ab + bb
                a = self.num(a, fx, binds, "divmod")
                b = self.num(b, fx, binds, "divmod")
                if a.ty == Z and b.ty == Z:
                    return binds, self.bind_call(fx, binds, "py_divmod_Z %s %s" % (a.text, b.text), T(Z, Z))
                return binds, self.bind_call(fx, binds, "py_divmod_Q %s %s" % (
                    coerce(a, Q).text, coerce(b, Q).text), T(Z, Q))
            if f.id == "sum" and len(n.args) == 1 and not n.keywords \
                    and isinstance(n.args[0], (ast.List, ast.Tuple)):
                binds, acc = [], Val("0", Z)       # sum starts from int 0
                for e in n.args[0].elts:
                    b, v = self.expr(e, env, fx)
                    binds += b
                    v = self.num(v, fx, binds, "sum")
                    acc = self.arith(ast.Add, acc, v, fx, binds)
                return binds, acc
            if f.id == "hash" and len(n.args) == 1 and not n.keywords:
                if not fx.hash_key:
                    raise Reject("hash() somewhere other than directly under `return`")
                return self.expr(n.args[0], env, fx)
            if f.id == CLS:
                return self.construct(n, env, fx)
            raise Reject("call of %s" % f.id)
        if isinstance(f, ast.Attribute):
            if ast.unparse(f) == "self.__class__":
                return self.construct(n, env, fx)
            rb, recv = self.expr(f.value, env, fx)
            if recv.ty != OBJ:
                raise Reject("method call on a %r" % (recv.ty,))
            if n.keywords:
                raise Reject("keyword arguments in a method call")
            binds, args = list(rb), []
            for a in n.args:
                if isinstance(a, ast.Starred):
                    raise Reject("starred argument")
                b, v = self.expr(a, env, fx)
                binds += b
                args.append(v)
            return binds, self.method_call(f.attr, recv, args, fx, binds)
        raise Reject("call of %s" % ast.unparse(f))

    def method_call(self, name, recv, args, fx, binds):
        for a in args:
            if a.ty not in (Z, OBJ):
                raise Reject("method argument of type %r" % (a.ty,))
        try:
            callee = self.method(name, tuple(a.ty for a in args))
        except Reject as exc:
            raise Reject("call of %s.%s, which is outside the subset: %s" % (CLS, name, exc))
        fx.mode |= set(callee["mode"])
        head = [callee["coq"]] + ["c_" + m for m in callee["mode"]] + [recv.text] + [a.text for a in args]
        kind = None
        if callee["ret"] == OBJ:
            kind = set()
            for k in callee["ret_kinds"]:
                if k == "self":
                    kind |= recv.kind
                elif k.startswith("param"):
                    kind |= args[int(k[5:])].kind
                else:
                    kind.add(k)
        return self.bind_call(fx, binds, " ".join(head), callee["ret"], kind=kind)

    def construct(self, n, env, fx):
        """Duration(k=v, ...) / self.__class__(k=v, ...) with _is_empty_instance absent or False."""
        if n.args:
            raise Reject("positional constructor arguments")
        binds, kw = [], []
        for k in n.keywords:
            if k.arg is None:
                raise Reject("** in a constructor call")
            b, v = self.expr(k.value, env, fx)
            if v.ty not in (Z, Q):
                raise Reject("constructor argument %s of type %r" % (k.arg, v.ty))
            binds += b
            kw.append((k.arg, v))
        names = tuple(sorted(k for k, _ in kw))
        if len(set(names)) != len(names):
            raise Reject("repeated keyword")
        try:
            callee = self.method("__init__", tuple((k, dict(kw)[k].ty) for k in names), ctor=True)
        except Reject as exc:
            raise Reject("constructor call outside the subset: %s" % exc)
        fx.mode |= set(callee["mode"])
        head = [callee["coq"]] + ["c_" + m for m in callee["mode"]] + [dict(kw)[k].text for k in names]
        return binds, self.bind_call(fx, binds, " ".join(head), OBJ, kind={"fresh"})

    # ------------------------------------------------------------ statements
    def block(self, stmts, env, fall, fx, ind):
        if not stmts:
            return fall(env, ind)
        s, rest = stmts[0], stmts[1:]
        if isinstance(s, Static):
            env = env.copy()
            if s.value is None:
                env.drop(s.name)
            else:
                if s.name in env.ty and not is_static(env.ty[s.name]):
                    raise Reject("loop variable %s rebinds a local" % s.name)
                env.ty[s.name] = ("STR", s.value)
            return self.block(rest, env, fall, fx, ind)
        return self.stmt(s, rest, env, fall, fx, ind)

    def lines(self, ind, binds, tail):
        pad = "  " * ind
        return "".join("%s%s ;;\n" % (pad, b) for b in binds) + tail

    def store(self, obj, slot, v, env, fx):
        """-> (Coq `let` line, new env) for obj.<slot> = v."""
        if slot not in SLOT_TY:
            raise Reject("store to %s, which is not a slot" % slot)
        if obj not in env.owned:
            raise Reject("store to a slot of %s, which is not an owned (fresh) object" % obj)
        if v.text is None or v.ty == OBJ:
            raise Reject("store of a %r into a slot" % (v.ty,))
        v = coerce(v, OPT(SLOT_TY[slot]))
        env2 = env.copy()
        if obj in env2.partial:
            got = env2.partial[obj] | {slot}
            if got == frozenset(SLOT_TY):
                del env2.partial[obj]
            else:
                env2.partial[obj] = got
        return "let v_%s := %s v_%s %s in\n" % (obj, setter(slot), obj, v.text), env2

    def storable(self, name, env):
        if name in ("CALENDAR", "self", CLS, "isinstance", "getattr", "setattr", "abs", "int",
                    "divmod", "sum", "hash", "any", "all", "_type_checker", "TypeError"):
            raise Reject("local %s shadows a global / self" % name)
        if name in env.ty and is_static(env.ty[name]):
            raise Reject("assignment to the loop variable %s" % name)

    def bind_local(self, name, v, env, node):
        """env after `name = v` (ownership of objects included)."""
        self.storable(name, env)
        env2 = env.copy()
        env2.drop(name)
        if v.ty == OBJ:
            kinds = v.kind or {"alias"}
            if kinds <= {"fresh", "owned:" + name}:
                env2.owned.add(name)      # fresh, or the object `name` already owned
            for k in kinds:
                # a second name for an owned object could observe its later mutation
                if k.startswith("owned:") and k[6:] != name:
                    raise Reject("%s may alias the mutable object %s" % (name, k[6:]))
        if v.text is None or v.ty == NONE:
            raise Reject("binding a %r to a local" % (v.ty,))
        env2.ty[name] = v.ty
        return env2

    def stmt(self, s, rest, env, fall, fx, ind):
        pad = "  " * ind
        if isinstance(s, ast.Expr) and isinstance(s.value, ast.Constant) \
                and isinstance(s.value.value, str) and fx.top and s is fx.top[0]:
            return self.block(rest, env, fall, fx, ind)     # docstring
        if isinstance(s, ast.Pass):
            return self.block(rest, env, fall, fx, ind)
        if isinstance(s, ast.Return):
            return self.return_stmt(s, rest, env, fx, ind)
        if isinstance(s, ast.Raise):
            if rest:
                raise Reject("statement after raise")
            if not (isinstance(s.exc, ast.Call) and isinstance(s.exc.func, ast.Name)
                    and s.exc.func.id == "TypeError" and s.cause is None):
                raise Reject("raise of something other than TypeError(...)")
            return pad + "Raise TypeError"
        if isinstance(s, ast.Assign) and len(s.targets) > 1:
            # a = b = e: e is evaluated once, then assigned to the targets left to right
            binds, v = self.expr(s.value, env, fx)
            if v.text is None or v.ty == OBJ or is_tuple(v.ty):
                raise Reject("chained assignment of a %r" % (v.ty,))
            out = self.lines(ind, binds, "")
            if v.ty != NONE:
                tmp = fx.fresh()
                out += pad + "let %s := %s in\n" % (tmp, v.text)
                v = Val(tmp, v.ty)
            env2 = env
            for tgt in s.targets:
                if isinstance(tgt, ast.Name):
                    env2 = self.bind_local(tgt.id, v, env2, None)
                    out += pad + "let v_%s := %s in\n" % (tgt.id, v.text)
                elif isinstance(tgt, ast.Attribute) and isinstance(tgt.value, ast.Name):
                    line, env2 = self.store(tgt.value.id, tgt.attr, v, env2, fx)
                    out += pad + line
                else:
                    raise Reject("chained assignment target %s" % type(tgt).__name__)
            return out + self.block(rest, env2, fall, fx, ind)
        if isinstance(s, ast.Assign):
            tgt = s.targets[0]
            # x = cls(_is_empty_instance=True): an object none of whose slots is assigned
            if isinstance(tgt, ast.Name) and self.is_empty_instance(s.value):
                self.storable(tgt.id, env)
                env2 = env.copy()
                env2.drop(tgt.id)
                env2.ty[tgt.id] = OBJ
                env2.owned.add(tgt.id)
                env2.partial[tgt.id] = frozenset()
                return pad + "let v_%s := py_empty_instance in\n" % tgt.id + \
                    self.block(rest, env2, fall, fx, ind)
            binds, v = self.expr(s.value, env, fx)
            if isinstance(tgt, ast.Name):
                env2 = self.bind_local(tgt.id, v, env, s.value)
                return self.lines(ind, binds, pad + "let v_%s := %s in\n" % (tgt.id, v.text)) + \
                    self.block(rest, env2, fall, fx, ind)
            if isinstance(tgt, ast.Attribute) and isinstance(tgt.value, ast.Name):
                line, env2 = self.store(tgt.value.id, tgt.attr, v, env, fx)
                return self.lines(ind, binds, pad + line) + self.block(rest, env2, fall, fx, ind)
            if isinstance(tgt, ast.Tuple):
                if not is_tuple(v.ty) or len(v.ty[1]) != len(tgt.elts):
                    raise Reject("tuple assignment shape")
                parts = v.parts
                out = self.lines(ind, binds, "")
                if parts is None:
                    names = [fx.fresh() for _ in tgt.elts]
                    out += pad + "let '(%s) := %s in\n" % (", ".join(names), v.text)
                    parts = [Val(nm, ty) for nm, ty in zip(names, v.ty[1])]
                elif {x.id for x in ast.walk(s.value) if isinstance(x, ast.Name)} & {
                        x.id for e in tgt.elts for x in ast.walk(e) if isinstance(x, ast.Name)} \
                        or len({ast.unparse(e) for e in tgt.elts}) != len(tgt.elts):
                    raise Reject("tuple assignment whose targets occur in its right-hand side")
                env2 = env
                for e, p in zip(tgt.elts, parts):
                    if isinstance(e, ast.Name):
                        env2 = self.bind_local(e.id, p, env2, None)
                        out += pad + "let v_%s := %s in\n" % (e.id, p.text)
                    elif isinstance(e, ast.Attribute) and isinstance(e.value, ast.Name):
                        line, env2 = self.store(e.value.id, e.attr, p, env2, fx)
                        out += pad + line
                    else:
                        raise Reject("assignment target %s" % type(e).__name__)
                return out + self.block(rest, env2, fall, fx, ind)
            raise Reject("assignment target %s" % type(tgt).__name__)
        if isinstance(s, ast.AugAssign):
            op = type(s.op)
            tgt = s.target
            if isinstance(tgt, ast.Name):
                cb, cur = self.expr(tgt, env, fx)
            elif isinstance(tgt, ast.Attribute) and isinstance(tgt.value, ast.Name) \
                    and env.ty.get(tgt.value.id) == OBJ:
                cb, cur = [], self.slot_read(tgt.value.id, tgt.attr, env)
            else:
                raise Reject("augmented assignment target")
            vb, v = self.expr(s.value, env, fx)
            binds = cb + vb
            if cur.ty == OBJ or v.ty == OBJ:
                raise Reject("augmented assignment on objects")
            what = "operator %s=" % op.__name__
            cur = self.num(cur, fx, binds, what)
            v = self.num(v, fx, binds, what)
            r = self.arith(op, cur, v, fx, binds)
            if isinstance(tgt, ast.Name):
                env2 = self.bind_local(tgt.id, r, env, None)
                return self.lines(ind, binds, pad + "let v_%s := %s in\n" % (tgt.id, r.text)) + \
                    self.block(rest, env2, fall, fx, ind)
            line, env2 = self.store(tgt.value.id, tgt.attr, r, env, fx)
            return self.lines(ind, binds, pad + line) + self.block(rest, env2, fall, fx, ind)
        if isinstance(s, ast.Expr):
            c = s.value
            if isinstance(c, ast.Call) and isinstance(c.func, ast.Name) and c.func.id == "setattr" \
                    and len(c.args) == 3 and not c.keywords and isinstance(c.args[0], ast.Name):
                slot = self.static_str(c.args[1], env)
                binds, v = self.expr(c.args[2], env, fx)
                line, env2 = self.store(c.args[0].id, slot, v, env, fx)
                return self.lines(ind, binds, pad + line) + self.block(rest, env2, fall, fx, ind)
            if fx.ctor and isinstance(c, ast.Call) and isinstance(c.func, ast.Name) \
                    and c.func.id == "_type_checker":
                self.type_checker(c, env)
                return self.block(rest, env, fall, fx, ind)
            raise Reject("expression statement `%s`" % ast.unparse(s)[:60])
        if isinstance(s, ast.If):
            return self.if_stmt(s, rest, env, fall, fx, ind)
        if isinstance(s, ast.For):
            return self.for_stmt(s, rest, env, fall, fx, ind)
        raise Reject("statement %s" % type(s).__name__)

    def is_empty_instance(self, n):
        if not (isinstance(n, ast.Call) and not n.args and len(n.keywords) == 1
                and n.keywords[0].arg == "_is_empty_instance"
                and isinstance(n.keywords[0].value, ast.Constant)
                and n.keywords[0].value.value is True):
            return False
        f = ast.unparse(n.func)
        if f not in ("self.__class__", CLS):
            return False
        # __init__ must return at once for _is_empty_instance=True
        init = self.methods.get("__init__")
        body = [st for st in init.body if not (isinstance(st, ast.Expr) and isinstance(st.value, ast.Constant))]
        ok = (body and isinstance(body[0], ast.If) and isinstance(body[0].test, ast.Name)
              and body[0].test.id == "_is_empty_instance" and len(body[0].body) == 1
              and isinstance(body[0].body[0], ast.Return) and body[0].body[0].value is None)
        if not ok:
            raise Reject("__init__ does not start with `if _is_empty_instance: return`")
        return True

    def type_checker(self, c, env):
        """_type_checker((value, name, *types), ...): a no-op when the static types conform."""
        for a in c.args:
            if not (isinstance(a, ast.Tuple) and len(a.elts) >= 3 and isinstance(a.elts[0], ast.Name)):
                raise Reject("_type_checker argument shape")
            ty = env.ty.get(a.elts[0].id)
            allowed = {ast.unparse(e) for e in a.elts[2:]} - {"None"}
            if ty == Z and allowed == {"int"}:
                continue
            if ty == Q and allowed == {"int", "float"}:
                continue
            raise Reject("_type_checker: %s of type %r against %s" % (a.elts[0].id, ty, sorted(allowed)))
        if c.keywords:
            raise Reject("_type_checker keywords")

    def return_stmt(self, s, rest, env, fx, ind):
        pad = "  " * ind
        if rest:
            raise Reject("statement after return")
        if fx.ctor:
            raise Reject("return inside __init__ (live)")
        if s.value is None:
            raise Reject("return without a value")
        node = s.value
        saved = fx.hash_key
        if isinstance(node, ast.Call) and isinstance(node.func, ast.Name) and node.func.id == "hash" \
                and fx.name == "__hash__":
            fx.hash_key = True
        try:
            binds, v = self.expr(node, env, fx)
        finally:
            fx.hash_key = saved
        if v.text is None or v.ty == NONE:
            raise Reject("return of a %r" % (v.ty,))
        if v.ty == OBJ:
            for k in (v.kind or {"alias"}):
                fx.ret_kinds.add("fresh" if k.startswith("owned:") else k)
        fx.ret = v.ty if fx.ret is None else join(fx.ret, v.ty)
        if fx.ret_expect is not None:
            v = coerce(v, fx.ret_expect)
        return self.lines(ind, binds, pad + "Ok " + v.text)

    def merge_envs(self, env, ends, names):
        """Environment after an `if` without return; -> (env2, merged names, their types)."""
        merged, types = [], []
        env2 = env.copy()
        for nm in names:
            env2.drop(nm)
        for nm in names:
            a, b = ends[0].ty.get(nm), ends[1].ty.get(nm)
            if a is None or b is None or is_static(a) or is_static(b):
                continue
            ty = join(a, b)
            merged.append(nm)
            types.append(ty)
            env2.ty[nm] = ty
            if ty == OBJ:
                if nm in ends[0].owned and nm in ends[1].owned:
                    env2.owned.add(nm)
                pa, pb = ends[0].partial.get(nm), ends[1].partial.get(nm)
                if pa is not None or pb is not None:
                    full = frozenset(SLOT_TY)
                    got = (pa if pa is not None else full) & (pb if pb is not None else full)
                    if got != full:
                        env2.partial[nm] = got
        return env2, merged, types

    def if_stmt(self, s, rest, env, fall, fx, ind):
        pad = "  " * ind
        cb, c, k = self.test(s.test, env, fx)
        if k is not None:  # decided statically: only that branch exists
            br = s.body if k else s.orelse
            return self.block(br + ([] if always_returns(br) else rest), env, fall, fx, ind)
        if contains([s], (ast.Return, ast.Raise)):
            a = self.block(s.body + ([] if always_returns(s.body) else rest), env, fall, fx, ind + 1)
            b = self.block(s.orelse + ([] if always_returns(s.orelse) else rest), env, fall, fx, ind + 1)
            return self.lines(ind, cb, "%sif %s then\n%s\n%selse\n%s" % (pad, c, a, pad, b))
        ends = []

        def probe(e, _ind):
            ends.append(e)
            return "tt"
        n0 = fx.n
        self.block(s.body, env, probe, fx, 0)
        self.block(s.orelse, env, probe, fx, 0)
        fx.n = n0
        if len(ends) != 2:
            raise Reject("internal: branch ends")
        env2, merged, types = self.merge_envs(env, ends, assigned_names([s]))
        if not merged:
            raise Reject("if statement without effect on definitely-bound locals")

        def out(e, i):
            vals = [coerce(Val("v_" + nm, e.ty[nm]), ty) for nm, ty in zip(merged, types)]
            tup = ", ".join(v.text for v in vals)
            return "  " * i + "Ok " + (("(" + tup + ")") if len(merged) > 1 else tup)
        a = self.block(s.body, env, out, fx, ind + 2)
        b = self.block(s.orelse, env, out, fx, ind + 2)
        if len(merged) > 1:
            tmp = fx.fresh()
            head = "%s%s <- (if %s then\n%s\n%s  else\n%s) ;;\n%slet '(%s) := %s in\n" % (
                pad, tmp, c, a, pad, b, pad, ", ".join("v_" + nm for nm in merged), tmp)
        else:
            head = "%sv_%s <- (if %s then\n%s\n%s  else\n%s) ;;\n" % (pad, merged[0], c, a, pad, b)
        return self.lines(ind, cb, head) + self.block(rest, env2, fall, fx, ind)

    def for_stmt(self, s, rest, env, fall, fx, ind):
        if s.orelse:
            raise Reject("for/else")
        if not isinstance(s.target, ast.Name):
            raise Reject("for target")
        if contains(s.body, (ast.Break, ast.Continue)):
            raise Reject("break/continue in a for body")
        it = s.iter
        if isinstance(it, ast.List) and it.elts and all(
                isinstance(e, ast.Constant) and isinstance(e.value, str) for e in it.elts):
            items = [e.value for e in it.elts]
        else:
            try:
                _, v = self.expr(it, env, fx)
            except Reject as exc:
                raise Reject("for over `%s`: %s" % (ast.unparse(it), exc))
            if v.ty[0] != "STRLIST":
                raise Reject("for over `%s`, not a static list of strings" % ast.unparse(it))
            items = list(v.ty[1])
        var = s.target.id
        self.storable(var, env)
        if var in assigned_names(s.body):
            raise Reject("loop body assigns the loop variable")
        unrolled = []
        for item in items:
            unrolled.append(Static(var, item))
            unrolled += s.body
        unrolled.append(Static(var, None))   # the loop variable is dead afterwards
        return self.block(unrolled + rest, env, fall, fx, ind)

    # ------------------------------------------------------------ methods
    def method(self, name, sig, ctor=False):
        key = (name, sig, ctor)
        if key in self.done:
            return self.done[key]
        if key in self.busy:
            raise Reject("recursion through %s" % name)
        node = self.methods.get(name)
        if node is None:
            raise Reject("%s.%s: no unique def" % (CLS, name))
        self.busy.add(key)
        try:
            res = self.ctor_body(node, sig) if ctor else self.method_body(node, sig)
        finally:
            self.busy.discard(key)
        self.done[key] = res
        self.order.append(key)
        return res

    def translate_body(self, fx, node, env, fall):
        """Two passes: the first finds the common return type, the second coerces to it."""
        self.block(list(node.body), env.copy(), fall, fx, 1)
        if fx.ret is None and not fx.ctor:
            raise Reject("%s: no return" % node.name)
        fx.ret_expect = fx.ret
        fx.n = 0
        fx.ret_kinds = set()
        return self.block(list(node.body), env.copy(), fall, fx, 1)

    def method_body(self, node, sig):
        a = node.args
        if a.posonlyargs or a.vararg or a.kwonlyargs or a.kwarg or a.defaults or a.kw_defaults:
            raise Reject("%s: parameters other than plain positional ones" % node.name)
        for d in node.decorator_list:
            if not (isinstance(d, ast.Name) and d.id == "property"):
                raise Reject("%s: decorator %s" % (node.name, ast.unparse(d)))
        names = [p.arg for p in a.args]
        if not names or names[0] != "self" or len(set(names)) != len(names):
            raise Reject("%s: parameter list" % node.name)
        if len(names) - 1 != len(sig):
            raise Reject("%s called with %d arguments" % (node.name, len(sig)))
        fx = Fn(node.name, False)
        fx.top = tuple(node.body)
        fx.params = names[1:]
        env = Env()
        env.ty["self"] = OBJ
        for p, ty in zip(names[1:], sig):
            env.ty[p] = ty

        def off_end(_e, _i):
            raise Reject("control can reach the end of %s without return" % node.name)
        body = self.translate_body(fx, node, env, off_end)
        suffix = ""
        coq = "py_%s_%s%s" % (CLS, node.name, suffix)
        for (nm, sg, ct), r in self.done.items():
            if nm == node.name and not ct and sg != sig:
                raise Reject("%s is used at two signatures" % node.name)
        mode = [m for m in MODE_ATTRS if m in fx.mode]
        binders = ["(c_%s : Z)" % m for m in mode] + ["(v_self : pyDuration)"] + \
                  ["(v_%s : %s)" % (p, coq_type(ty)) for p, ty in zip(names[1:], sig)]
        text = "Definition %s %s: exc %s :=\n%s." % (coq, "".join(b + " " for b in binders),
                                                    coq_type(fx.ret), body)
        return {"coq": coq, "mode": mode, "ret": fx.ret, "ret_kinds": sorted(fx.ret_kinds),
                "text": text, "src": "%s.%s" % (CLS, node.name),
                "sig": ", ".join("%s : %s" % (p, "Duration" if ty == OBJ else "int")
                                 for p, ty in zip(names[1:], sig))}

    def ctor_body(self, node, sig):
        """__init__ for the keyword arguments `sig` (sorted (name, type)), all others at their defaults."""
        a = node.args
        if a.posonlyargs or a.vararg or a.kwonlyargs or a.kwarg or a.kw_defaults:
            raise Reject("__init__: parameter kinds")
        names = [p.arg for p in a.args]
        if names[0] != "self" or len(a.defaults) != len(names) - 1:
            raise Reject("__init__: every parameter must have a default")
        if node.decorator_list:
            raise Reject("__init__: decorators")
        given = dict(sig)
        if set(given) - set(names[1:]):
            raise Reject("__init__ has no parameter %s" % sorted(set(given) - set(names[1:])))
        fx = Fn("__init__", True)
        fx.top = tuple(node.body)
        fx.params = []
        env = Env()
        env.ty["self"] = OBJ
        env.owned.add("self")
        env.partial["self"] = frozenset()
        pre = []
        for p, d in zip(names[1:], a.defaults):
            if p in given:
                env.ty[p] = given[p]
                continue
            if not isinstance(d, ast.Constant):
                raise Reject("__init__: default of %s is not a constant" % p)
            if d.value is True or d.value is False:
                env.ty[p] = ("SB", d.value)
            elif type(d.value) is int:
                env.ty[p] = Z
                pre.append("  let v_%s := %s in\n" % (p, zlit(d.value)))
            elif type(d.value) is float:
                env.ty[p] = Q
                pre.append("  let v_%s := %s in\n" % (p, qlit(Fraction(repr(d.value)))))
            else:
                raise Reject("__init__: default %r of %s" % (d.value, p))

        def off_end(e, i):
            if "self" in e.partial:
                raise Reject("__init__ can end with slots unassigned: %s" % sorted(
                    set(SLOT_TY) - e.partial["self"]))
            return "  " * i + "Ok v_self"
        body = self.translate_body(fx, node, env, off_end)
        coq = "py_%s___init__" % CLS + "".join("_" + k for k, _ in sig)
        mode = [m for m in MODE_ATTRS if m in fx.mode]
        binders = ["(c_%s : Z)" % m for m in mode] + \
                  ["(v_%s : %s)" % (k, coq_type(ty)) for k, ty in sig]
        text = "Definition %s %s: exc pyDuration :=\n  let v_self := py_empty_instance in\n%s%s." % (
            coq, "".join(b + " " for b in binders), "".join(pre), body)
        return {"coq": coq, "mode": mode, "ret": OBJ, "ret_kinds": ["fresh"], "text": text,
                "src": "%s.__init__" % CLS,
                "sig": ", ".join("%s : %s" % (k, "int" if ty == Z else "int|float") for k, ty in sig) +
                       "; every other parameter at its default"}


# entry points: (method, parameter types, constructor keywords or None)
REQUIRED = [
    ("get_is_in_weeks", (), None),
    ("_get_non_nominal_seconds", (), None),
    ("get_days_and_seconds", (), None),
    ("get_seconds", (), None),
    ("is_exact", (), None),
    ("__eq__", (OBJ,), None),
    ("__hash__", (), None),
    ("__lt__", (OBJ,), None),
    ("__le__", (OBJ,), None),
    ("__gt__", (OBJ,), None),
    ("__ge__", (OBJ,), None),
    ("_copy", (), None),
    ("to_days", (), None),
    ("__mul__", (Z,), None),
    ("__rmul__", (Z,), None),
    ("__add__", (OBJ,), None),
    ("__sub__", (OBJ,), None),
    ("__abs__", (), None),
    ("__floordiv__", (Z,), None),
    ("__bool__", (), None),
    ("__init__", (("days", Z), ("hours", Q), ("minutes", Q), ("months", Z), ("seconds", Q),
                  ("weeks", Z), ("years", Z)), True),
    ("to_weeks", (), None),
]
# attempted on every run only to record why they are not covered
ATTEMPTED = [
    ("__str__", (), None),
    ("__repr__", (), None),
    ("__init__", (("days", Z), ("standardize", B), ("weeks", Z)), True),
]
# branches of accepted methods that are deliberately not translated
OUT_OF_SCOPE = [
    ("__add__ [other: TimePoint | TimeRecurrence]",
     "isinstance dispatch: `return other + new` belongs to TimePoint.__add__ / TimeRecurrence.__add__ "
     "(properties C01, C14); only the Duration branch is translated"),
    ("__add__ / __mul__ / __floordiv__ [other of another type]",
     "raise TypeError(...): the operand type is fixed by the entry point (Duration, int)"),
    ("__eq__ / __lt__ / __le__ / __gt__ / __ge__ [other not a Duration]",
     "return NotImplemented: Python's reflected-operand protocol, not a value of the model"),
    ("__init__ [standardize=True]",
     "the divmod carry cascade on self._seconds/_minutes/_hours; not used by any translated method "
     "(model: Model/DurText.v standardize, tied by the correspondence run)"),
    ("__hash__ [the integer]",
     "hash(...) of the key tuple is CPython's; the translated value is the tuple passed to hash()"),
    ("class TimeZone(Duration)",
     "subclass with its own __slots__/__init__/__hash__; C11 excludes it; the receiver class is taken to be exactly Duration"),
]

HEAD = '''(* GENERATED by tools/translate_code3.py from the method bodies of class Duration
   (metomi/isodatetime/data.py).  Do not edit.

   Object state: one record field per entry of Duration.__slots__ (checked on
   this run: %(slots)s); None = Python None.
   Numeric convention (the model's own, DESIGN.md section 3): the int slots
   _years _months _weeks _days and int parameters are Z; the slots _hours
   _minutes _seconds are exact rationals Q (int or ideal float; an int meeting
   a Q is injected); `/` is exact division in Q; `//`, `%%`, divmod are floor
   division / modulo with an integer quotient; int(x) truncates toward zero;
   comparisons are exact; a zero divisor raises ZeroDivisionError; None as an
   arithmetic or ordering operand raises TypeError; None == number is False.
   Every method is a function into the exception monad `exc`.
   v_<name>: Python parameter/local; c_<ATTR>: CALENDAR.<ATTR> (assigned by
   Calendar.set_mode) at call time; upper-case names: class constants from
   gen/CalTables.v; t<n>: temporaries in Python evaluation order. *)
From Coq Require Import ZArith QArith Qround Qabs List Bool String.
From Iso Require Import gen.CalTables.
Import ListNotations.
Open Scope Z_scope.

Record pyDuration : Type := mkDuration {
%(fields)s }.
%(setters)s
(* cls(_is_empty_instance=True): no slot is assigned yet.  The translator only
   accepts code that assigns every slot before the object is read, passed on
   or returned, so this placeholder content is never observed. *)
Definition py_empty_instance : pyDuration := mkDuration %(nones)s.

Inductive pyexn : Type := TypeError | ZeroDivisionError.
Inductive exc (A : Type) : Type := Ok (a : A) | Raise (e : pyexn).
Arguments Ok {A} a.
Arguments Raise {A} e.
Definition ebind {A B : Type} (m : exc A) (f : A -> exc B) : exc B :=
  match m with Ok a => f a | Raise e => Raise e end.
Notation "x <- m ;; k" := (ebind m (fun x => k)) (at level 61, m at next level, right associativity).

(* a number is required: None raises TypeError *)
Definition need {A : Type} (v : option A) : exc A :=
  match v with Some a => Ok a | None => Raise TypeError end.
Definition is_none {A : Type} (v : option A) : bool := match v with None => true | Some _ => false end.
Definition opt_eqb {A : Type} (eqb : A -> A -> bool) (a b : option A) : bool :=
  match a, b with Some x, Some y => eqb x y | None, None => true | _, _ => false end.
Definition truthy_Z (z : Z) : bool := negb (z =? 0).
Definition truthy_Q (q : Q) : bool := negb (Qeq_bool q 0).
Definition truthy_opt {A : Type} (t : A -> bool) (v : option A) : bool :=
  match v with Some a => t a | None => false end.
Definition Qlt_bool (a b : Q) : bool := negb (Qle_bool b a).
Definition py_floordiv_Z (a b : Z) : exc Z := if b =? 0 then Raise ZeroDivisionError else Ok (a / b).
Definition py_mod_Z (a b : Z) : exc Z := if b =? 0 then Raise ZeroDivisionError else Ok (a mod b).
Definition py_divmod_Z (a b : Z) : exc (Z * Z) :=
  if b =? 0 then Raise ZeroDivisionError else Ok (a / b, a mod b).
Definition py_truediv (a b : Q) : exc Q := if Qeq_bool b 0 then Raise ZeroDivisionError else Ok (a / b)%%Q.
Definition py_floordiv_Q (a b : Q) : exc Z :=
  if Qeq_bool b 0 then Raise ZeroDivisionError else Ok (Qfloor (a / b)).
Definition py_mod_Q (a b : Q) : exc Q :=
  if Qeq_bool b 0 then Raise ZeroDivisionError else Ok (a - b * inject_Z (Qfloor (a / b)))%%Q.
Definition py_divmod_Q (a b : Q) : exc (Z * Q) :=
  if Qeq_bool b 0 then Raise ZeroDivisionError
  else Ok (Qfloor (a / b), (a - b * inject_Z (Qfloor (a / b)))%%Q).
Definition py_int_Q (x : Q) : Z := if Qle_bool 0 x then Qfloor x else Qceiling x.

'''

PRELUDE_NAMES = ["ebind", "need", "is_none", "opt_eqb", "truthy_Z", "truthy_Q", "truthy_opt",
                 "py_empty_instance"]


def head_text():
    fields = ";\n".join("  %s : option %s" % (fld(s), coq_type(t)) for s, t in SLOTS)
    setters = ""
    for s, t in SLOTS:
        args = " ".join("v" if s2 == s else "(%s o)" % fld(s2) for s2, _ in SLOTS)
        setters += "Definition %s (o : pyDuration) (v : option %s) : pyDuration := mkDuration %s.\n" % (
            setter(s), coq_type(t), args)
    return HEAD % {"slots": ", ".join(s for s, _ in SLOTS), "fields": fields, "setters": setters,
                   "nones": " ".join("None" for _ in SLOTS)}


def entry_coq(name, sig, ctor):
    if ctor:
        return "py_%s___init__" % CLS + "".join("_" + k for k, _ in sig)
    return "py_%s_%s" % (CLS, name)


def build_text():
    failures, body, covered, emitted = [], [], [], []
    unit = ClassUnit()
    for name, sig, ctor in REQUIRED:
        coq = entry_coq(name, sig, ctor)
        try:
            unit.method(name, sig, bool(ctor))
            for key in list(unit.order):   # callees first, each once
                r = unit.done[key]
                if r["coq"] not in emitted:
                    emitted.append(r["coq"])
                    note = (" [%s]" % r["sig"]) if r["sig"] else ""
                    body.append("(* %s%s *)\n%s\n" % (r["src"], note, r["text"]))
            covered.append(coq)
        except Exception as exc:  # fail closed on anything, translator bugs included
            failures.append((coq, "%s: %s" % (type(exc).__name__, exc)))
            if coq not in emitted:
                emitted.append(coq)
                body.append("(* %s.%s: REJECTED: %s *)\nDefinition %s : unit := tt.\n"
                            % (CLS, name, clean(exc), coq))
    rejected = []
    for name, sig, ctor in ATTEMPTED:
        label = "%s.%s" % (CLS, name) + (" [%s]" % ", ".join(k for k, _ in sig) if ctor else "")
        try:
            ClassUnit().method(name, sig, bool(ctor))
            rejected.append((label, "inside the subset, but no model function is tied to it (not emitted)"))
        except Exception as exc:
            rejected.append((label, "%s" % exc))
    for nm in sorted(unit.methods):
        if not any(nm == r[0] for r in REQUIRED + ATTEMPTED):
            node = unit.methods[nm]
            if node is not None and any(isinstance(d, ast.Name) and d.id == "property"
                                        for d in node.decorator_list):
                rejected.append(("%s.%s" % (CLS, nm), "property getter `return self._%s`: the record field itself; "
                                 "not translated separately" % nm))
            else:   # a method the translator has no entry point for: try it as m(self)
                try:
                    ClassUnit().method(nm, (), False)
                    rejected.append(("%s.%s" % (CLS, nm), "inside the subset, but no model function is tied to it (not emitted)"))
                except Exception as exc:
                    rejected.append(("%s.%s" % (CLS, nm), "no entry point; as m(self): %s" % exc))
    rejected += OUT_OF_SCOPE
    names = PRELUDE_NAMES + [fld(s) for s, _ in SLOTS] + [setter(s) for s, _ in SLOTS] + \
        [c for c in emitted if c in covered or c.startswith("py_")]
    if not failures:
        body.append("(* unfold the generated code (not the arithmetic) *)\n"
                    "Ltac code3_unfold :=\n  cbv beta iota zeta delta [%s]." % " ".join(dict.fromkeys(names)))
    else:
        body.append("Ltac code3_unfold := idtac.")
    body.append("Definition COVERED_code3 : list string :=\n  [%s]%%string." % "; ".join(
        coq_str(c) for c in covered))
    body.append("(* attempted and not covered, or deliberately out of scope, with the reason *)\n"
                "Definition REJECTED_code3 : list (string * string) :=\n  [%s]%%string." % ";\n   ".join(
                    "(%s, %s)" % (coq_str(a), coq_str(clean(b))) for a, b in rejected))
    if failures:
        body.append("".join("(* REJECTED: %s: %s *)\n" % (c, clean(w)) for c, w in failures) +
                    "Definition translator_ok_code3 : bool := false.")
    else:
        body.append("Definition translator_ok_code3 : bool := true.")
    return head_text() + "\n".join(body) + "\n"


def gen_code3():
    try:
        text = build_text()
    except Exception as exc:  # fail closed
        text = head_text() + "(* REJECTED: %s: %s *)\n" % (type(exc).__name__, clean(exc)) + "".join(
            "Definition %s : unit := tt.\n" % entry_coq(n, s, c) for n, s, c in REQUIRED) + \
            "Ltac code3_unfold := idtac.\nDefinition translator_ok_code3 : bool := false.\n"
    return write_if_changed("GenCode3.v", text)


if __name__ == "__main__":
    os.makedirs(translate.OUT, exist_ok=True)
    print("translate_code3: %s" % ("regenerated GenCode3.v" if gen_code3() else "nothing changed"))
