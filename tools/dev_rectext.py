#!/venv/bin/python
"""Differential run for the recurrence text/hash operations (C14, text part).

Generates random recurrences in all three notations, evaluates the lines
    recstr / recrt / rechash / rmake
on the extracted model (coq/Extract/out/modelrun) and on the real
package (tools/impl.py + impl_rectext.py), and compares line by line.  The two
sides must agree on everything except where the model answers UNMODELLED.
It also judges the property itself on the implementation's output: inside the
hypotheses of C14_text_roundtrip the re-parsed recurrence must be == and must
iterate the same first 12 points.

    TZ=UTC PYTHONPATH=/repo /venv/bin/python tools/dev_rectext.py [N] [seed]
"""
import os
import random
import subprocess
import sys
import collections
from fractions import Fraction

HERE = os.path.dirname(os.path.abspath(__file__))
sys.path.insert(0, HERE)
sys.path.insert(0, os.path.join(HERE, "props"))
os.environ.setdefault("TZ", "UTC")
os.environ.setdefault("ISO_REPO", "/repo")

import impl            # noqa: E402
import impl_text       # noqa: E402,F401
import impl_rectext    # noqa: E402,F401
from common import MODES, rand_date, month_len, qstr  # noqa: E402

MODELRUN = os.environ.get("VERIF_MODELRUN") or os.path.join(
    HERE, "..", "coq", "Extract", "out", "modelrun")

ZONES = [(0, 0), (0, 0), (5, 30), (-3, -30), (1, 0), (-1, 0), (0, 30), (0, -30),
         (12, 45), (-12, -45), (14, 0), (-11, 0), (23, 59), (-23, -59), (9, 0), (-9, -30)]
YEARS = [0, 0, 1, 4, 99, 100, 400, 1582, 1900, 1970, 1999, 2000, 2000, 2001, 2004, 2015,
         2016, 2020, 2024, 2099, 2100, 9998, 9999, 9999]
W53_G = [2004, 2009, 2015, 2020, 2026]
EXACT_FR = [Fraction(1, 2), Fraction(1, 4), Fraction(3, 4)]


Z_Q15 = [z for z in ZONES if z[1] % 15 == 0]
FR_ANY = [Fraction(1, 2), Fraction(1, 4), Fraction(3, 4), Fraction(1, 8)]
FR_Q = [Fraction(1, 2), Fraction(1, 4), Fraction(3, 4)]


def my_tod(rng, form, grid=None):
    """Time-of-day token.  The implementation computes with floats, the model
    with exact rationals: values are kept where float arithmetic is exact
    (binary fractions; hour-only forms on a quarter-hour grid; `grid` = 15
    forces a whole multiple of 15 minutes / 15 seconds)."""
    if rng.random() < 0.08 and grid is None:
        return {"S": "S 24 0 0", "M": "M 24 0", "H": "H 24"}[form]
    h = rng.choice([0, 0, 11, 12, 23, 23, rng.randint(0, 23)])
    m = rng.choice([0, 0, 59, 59, 30, rng.randint(0, 59)])
    s = rng.choice([0, 0, 1, 59, 59, rng.randint(0, 59)])
    if form == "S":
        if grid == 15:
            return "S %d %d %d" % (h, rng.choice([0, 15, 30, 45]), 0)
        if grid == "s15":
            return "S %d %d %d" % (h, m, rng.choice([0, 15, 30, 45]))
        sec = Fraction(s) + (rng.choice(FR_ANY) if rng.random() < 0.3 else 0)
        return "S %d %d %s" % (h, m, qstr(sec))
    if form == "M":
        if grid == 15:
            return "M %d %d" % (h, rng.choice([0, 15, 30, 45]))
        fr = rng.choice(FR_ANY) if rng.random() < 0.5 else 0
        return "M %d %s" % (h, qstr(Fraction(m) + fr))
    fr = rng.choice(FR_Q) if rng.random() < 0.5 else 0
    return "H %s" % qstr(Fraction(h) + fr)


def rand_point(rng, md, year=None, form=None, grid=None, q15zone=False):
    if year is None:
        y = rng.choice(YEARS)
        if rng.random() < 0.25:
            y = rng.randint(0, 9999)
    else:
        y = year
    if md == "G" and year is None and rng.random() < 0.04:
        y = rng.choice(W53_G)
        date = "W %d 53 %d" % (y, rng.randint(1, 7))
    else:
        date = rand_date(rng, md, y)
    form = form or rng.choice(["S", "S", "S", "M", "H"])
    tod = my_tod(rng, form, grid)
    z = rng.choice(Z_Q15 if (form == "H" or q15zone) else ZONES)
    return "%s %s %d %d" % (date, tod, z[0], z[1]), form


def rand_pair(rng, md):
    """start and end of a start/second-point recurrence, a few years apart at
    most, in forms between which the implementation's floats stay exact."""
    fs = rng.choice(["S", "S", "S", "M", "H"])
    if fs == "S":
        fe = rng.choice(["S", "S", "S", "M", "H"])
        s, _ = rand_point(rng, md, form=fs, q15zone=(fe == "H"))
        ge = None
    elif fs == "M":
        fe = rng.choice(["M", "M", "H", "S"])
        s, _ = rand_point(rng, md, form=fs, q15zone=(fe == "H"))
        ge = "s15" if fe == "S" else None
    else:
        fe = rng.choice(["H", "H", "M", "S"])
        s, _ = rand_point(rng, md, form=fs)
        ge = None if fe == "H" else 15
    y = int(s.split()[1])
    y2 = min(9999, y + rng.choice([0, 0, 0, 1, 1, 2, 7]))
    e, _ = rand_point(rng, md, year=y2, form=fe, grid=ge, q15zone=(fs == "H"))
    return s, e


def rand_dur(rng, tod_form, tags):
    """A duration token string; avoids units the implementation's floats would
    make inexact on minute-only / hour-only points."""
    r = rng.random()
    if r < 0.08:
        tags.append("dur:zero")
        return rng.choice(["DU 0 0 0 0 0 0", "DW 0"])
    if r < 0.2:
        tags.append("dur:weeks")
        return "DW %d" % rng.choice([1, 2, 3, 52, 53, rng.randint(1, 200)])
    if r < 0.24:
        tags.append("dur:negative")
        return rng.choice(["DU 0 0 -1 0 0 0", "DW -1", "DU 0 -1 0 0 0 0", "DU 0 0 0 0 0 -1"])
    nominal = rng.random() < 0.45
    y = mo = d = 0
    h = mi = s = Fraction(0)
    several = rng.random() < 0.5
    units = "ymdHMS" if nominal else "dHMS"
    if tod_form == "M":
        units = units.replace("S", "")
    if tod_form == "H":
        units = units.replace("S", "").replace("M", "")
    k = rng.randint(2, 4) if several else 1
    chosen = set(rng.sample(units, min(k, len(units))))
    if nominal and not (chosen & set("ym")):
        chosen.add(rng.choice("ym"))
    for u in chosen:
        if u == "y":
            y = rng.choice([1, 1, 2, 4, 10, 100])
        elif u == "m":
            mo = rng.choice([1, 1, 2, 3, 6, 11, 12, 13, 25])
        elif u == "d":
            d = rng.choice([1, 1, 2, 7, 28, 29, 30, 31, 365, 366, rng.randint(1, 500)])
        elif u == "H":
            h = Fraction(rng.choice([1, 6, 12, 23, 24, 25, 48, rng.randint(1, 100)]))
        elif u == "M":
            mi = Fraction(rng.choice([1, 15, 30, 59, 60, 61, 90, 1440, rng.randint(1, 3000)]))
        elif u == "S":
            s = Fraction(rng.choice([1, 30, 59, 60, 61, 3600, 86400, rng.randint(1, 100000)]))
    if tod_form == "S" and rng.random() < 0.15:
        s += rng.choice(EXACT_FR)
        tags.append("dur:decimal")
    elif tod_form == "S" and rng.random() < 0.05:
        h += rng.choice(EXACT_FR)
        tags.append("dur:decimal")
    tags.append("dur:nominal" if nominal else "dur:exact")
    if len(chosen) > 1:
        tags.append("dur:several")
    return "DU %d %d %d %s %s %s" % (y, mo, d, qstr(h), qstr(mi), qstr(s))


def same_instant_other_zone(rng, md):
    """Two spellings of one instant: (tp in UTC, tp in +05:30 / -03:30)."""
    y = rng.choice([2000, 2001, 1999, 9999, 0, 2020])
    m = rng.randint(1, 12)
    d = rng.randint(2, month_len(md, y, m) - 1)
    h, mi, s = rng.randint(6, 17), rng.randint(0, 59), rng.randint(0, 59)
    zh, zm = rng.choice([(5, 30), (-3, -30)])
    tot = h * 60 + mi + zh * 60 + zm
    a = "C %d %d %d S %d %d %d 0 0" % (y, m, d, h, mi, s)
    b = "C %d %d %d S %d %d %d %d %d" % (y, m, d, tot // 60, tot % 60, s, zh, zm)
    return a, b


def gen_case(rng):
    tags = []
    md = rng.choice(MODES)
    tags.append("mode:" + md)
    r = rng.random()
    reps = rng.choice(["-", "-", "1", "2", "3", "5", "12", "20", "37"])
    if rng.random() < 0.03:
        reps = rng.choice(["0", "-1"])
        tags.append("reps:bad")
    s = d = e = "-"
    inside = True        # inside the hypotheses of C14_text_roundtrip
    if r < 0.03:
        tags.append("shape:invalid")
        inside = False
        k = rng.randint(0, 3)
        p, form = rand_point(rng, md)
        if k == 0:
            pass
        elif k == 1:
            s = p
        elif k == 2:
            d = rand_dur(rng, form, tags)
        else:
            s, d, e = p, rand_dur(rng, form, tags), rand_point(rng, md)[0]
    elif r < 0.36:
        tags.append("shape:start-end")
        q = rng.random()
        if q < 0.15:
            s, e = same_instant_other_zone(rng, md)
            if rng.random() < 0.5:
                s, e = e, s
            tags.append("se:equal-instant")
        elif q < 0.22:
            s, _ = rand_point(rng, md)
            e = s
            tags.append("se:identical")
        else:
            s, e = rand_pair(rng, md)
            tags.append("se:random")
    elif r < 0.70:
        tags.append("shape:start-dur")
        s, form = rand_point(rng, md)
        d = rand_dur(rng, form, tags)
    else:
        tags.append("shape:dur-end")
        e, form = rand_point(rng, md)
        d = rand_dur(rng, form, tags)
    if "dur:negative" in tags or "reps:bad" in tags:
        inside = False
    if rng.random() < 0.02 and "shape:invalid" not in tags:
        # a year that needs expanded digits: the text operations of the model
        # answer UNMODELLED (its points carry no num_expanded_year_digits)
        which = s if s != "-" else e
        t = which.split()
        t[1] = rng.choice(["-1", "10000", "-400", "12345"])
        if t[0] == "W":
            t[2] = "1"
        if t[0] == "O":
            t[2] = "1"
        if t[0] == "C":
            t[2], t[3] = "1", "1"
        new = " ".join(t)
        if s != "-":
            s = new
        else:
            e = new
        tags.append("year:outside")
        inside = False
    tags.append("reps:" + ("none" if reps == "-" else "one" if reps == "1" else "many" if reps not in ("0", "-1") else "bad"))
    for p in (s, e):
        if p != "-":
            t = p.split()
            tags.append("rep:" + t[0])
            if " 24 " in " " + p + " " and ("S 24 0 0" in p or "M 24 0" in p or "H 24" in p):
                tags.append("tod:24")
            if "/" in p:
                tags.append("tod:decimal")
            if t[1] in ("0", "9999"):
                tags.append("year:" + t[1])
            z = " ".join(t[-2:])
            if z != "0 0":
                tags.append("zone:nonutc")
            if z in ("5 30", "-3 -30"):
                tags.append("zone:" + z.replace(" ", ","))
    args = "%s %s %s %s %s" % (md, reps, s, d, e)
    return dict(args=args, tags=tags, inside=inside,
                lines=["recstr " + args, "recrt " + args, "rechash " + args, "rmake " + args])


def run_model(lines):
    p = subprocess.run([MODELRUN], input="\n".join(lines) + "\n", capture_output=True, text=True)
    out = p.stdout.split("\n")
    if out and out[-1] == "":
        out.pop()
    if len(out) != len(lines):
        raise SystemExit("model returned %d lines for %d" % (len(out), len(lines)))
    return out


def main():
    n = int(sys.argv[1]) if len(sys.argv) > 1 else 3600
    seed = int(sys.argv[2]) if len(sys.argv) > 2 else 20260930
    rng = random.Random(seed)
    cases = [gen_case(rng) for _ in range(n)]
    lines = [l for c in cases for l in c["lines"]]
    model = run_model(lines)
    implo = [impl.eval_line(l) for l in lines]
    hist = collections.Counter()
    stats = collections.Counter()
    disagreements = []
    violations = []
    for i, c in enumerate(cases):
        m = model[4 * i:4 * i + 4]
        im = implo[4 * i:4 * i + 4]
        for t in c["tags"]:
            hist[t] += 1
        for j, (a, b) in enumerate(zip(m, im)):
            stats["lines"] += 1
            if "UNMODELLED" in a:
                stats["unmodelled"] += 1
                continue
            if a == b:
                stats["agree"] += 1
            else:
                stats["disagree"] += 1
                disagreements.append((c["lines"][j], a, b))
        # the property on the implementation's own output
        rt, mk = im[1], im[3]
        if mk == "ERR":
            stats["ctor-refuses"] += 1
            continue
        stats["constructed"] += 1
        if not c["inside"]:
            continue
        parts = rt.split(" ; ")
        if len(parts) < 3 or not parts[-1].startswith("eq "):
            violations.append((c["lines"][1], "text not read back: " + rt))
            continue
        stats["roundtrips"] += 1
        if parts[-1] != "eq 1":
            violations.append((c["lines"][1], "parse(str(r)) != r: " + rt))
        pts_back = parts[6:-1]
        pts_orig = mk.split(" ; ")[5:]
        if pts_back != pts_orig:
            violations.append((c["lines"][1], "points differ: %s vs %s" % (pts_back, pts_orig)))
        else:
            stats["same-points"] += 1
            if len(pts_orig) > 1:
                stats["same-points-nontrivial"] += 1
    print("cases %d (seed %d)" % (n, seed))
    for k in sorted(stats):
        print("  %-24s %d" % (k, stats[k]))
    print("distribution:")
    for k in sorted(hist):
        print("  %-24s %d" % (k, hist[k]))
    for l, a, b in disagreements[:20]:
        print("DISAGREE %s\n   model %s\n   impl  %s" % (l, a, b))
    for l, msg in violations[:20]:
        print("VIOLATION %s\n   %s" % (l, msg))
    print("disagreements %d, violations %d" % (len(disagreements), len(violations)))
    return 1 if disagreements or violations else 0


if __name__ == "__main__":
    sys.exit(main())
