#!/bin/bash
# Rebuild the Coq development from /repo's current tree:
#   translate (source -> coq/gen/*.v), coq_makefile + make (full .vo build, no
#   -vos/-vok), extraction, ocamlfind.  Usage: build.sh [make targets...]
# With no target everything is built.  Serialised by a lock so that several
# checks started together do not race.
set -u
cd "$(dirname "$0")/../coq" || exit 2
exec 9>.build.lock
flock 9
mkdir -p gen Extract/out
/venv/bin/python ../tools/translate.py || exit 2
files=$(find . -name '*.v' -not -path './Extract/out/*' | sed 's|^\./||' | sort)
if [ ! -f Makefile ] || [ "$(echo "$files" | md5sum)" != "$(cat .filelist.md5 2>/dev/null)" ]; then
  coq_makefile -f _CoqProject $files -o Makefile >/dev/null || exit 2
  echo "$files" | md5sum > .filelist.md5
fi
if [ $# -eq 0 ]; then targets="all"; else targets="$*"; fi
timeout 3000 make -j16 $targets 2>&1 | grep -v '^make\|^COQDEP\|^COQC\|^CLEAN' 
rc=${PIPESTATUS[0]}
if [ -f Extract/out/model.ml ]; then
  if [ ! -x Extract/out/modelrun ] || [ Extract/out/model.ml -nt Extract/out/modelrun ]; then
    (cd Extract/out && ocamlfind ocamlopt -O3 -w -a model.mli model.ml ../main.ml -o modelrun) || exit 3
  fi
fi
exit $rc
