"""C10 operations on the real package: str(Duration) and DurationParser.parse.

Floats are shown as the rational of their shortest repr (the ideal number the
float stands for); ints exactly.  Tokens are percent-encoded text.
"""
from fractions import Fraction
import impl
from metomi.isodatetime.parsers import DurationParser

PARSER = DurationParser()


def pct_decode(tok):
    """%XY -> the byte XY; anything else literally (as Model/DriverDurText.v)."""
    hexd = b"0123456789abcdefABCDEF"
    out = bytearray()
    b = tok.encode("utf-8", errors="surrogateescape")
    i = 0
    while i < len(b):
        if b[i] == 0x25 and i + 2 < len(b) and b[i + 1] in hexd and b[i + 2] in hexd:
            out.append(int(b[i + 1:i + 3].decode("ascii"), 16))
            i += 3
            continue
        out.append(b[i])
        i += 1
    return out.decode("utf-8", errors="surrogateescape")


def pct_encode(text):
    out = []
    for byte in text.encode("utf-8", errors="surrogateescape"):
        ch = chr(byte)
        if ch.isalnum() and byte < 128 or ch in "-.,:+_":
            out.append(ch)
        else:
            out.append("%%%02X" % byte)
    return "".join(out)


def sh_num(x):
    if x is None:
        return "None"
    if isinstance(x, float):
        if x != x or x in (float("inf"), float("-inf")):
            return "NONFINITE"
        f = Fraction(repr(x))
    else:
        f = Fraction(x)
    if f.denominator == 1:
        return str(f.numerator)
    return "%d/%d" % (f.numerator, f.denominator)


def sh_dur(d):
    if d._weeks is not None:
        return "DW %d" % d._weeks
    return "DU %d %d %d %s %s %s" % (d._years, d._months, d._days,
                                     sh_num(d._hours), sh_num(d._minutes),
                                     sh_num(d._seconds))


def op_dstr(t):
    return str(impl.rd_dur(t))


def op_dparse(t):
    text = pct_decode(t.next()) if not t.done() else ""
    return sh_dur(PARSER.parse(text))


def op_dround(t):
    d = impl.rd_dur(t)
    text = str(d)
    try:
        d2 = PARSER.parse(text)
    except ValueError:
        return "%s ; ERR" % text
    eq, ne = d2 == d, d2 != d
    if eq == ne:
        return "INCOHERENT eq=%s ne=%s" % (eq, ne)
    return "%s ; %s ; eq %s ; fix %s" % (
        text, sh_dur(d2), impl._b(eq), impl._b(str(d2) == text))


impl.register("dstr", op_dstr)
impl.register("dparse", op_dparse)
impl.register("dround", op_dround)
