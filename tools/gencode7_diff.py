#!/venv/bin/python
"""Differential smoke test of the phase-7 TRANSLATOR (not of the model): the generated
definitions of gen/GenCode7.v (TimePoint.__init__, TimePoint._check_bounds,
TimeZone.__init__) evaluated by vm_compute inside coqc, against the real package.

  gencode7_diff.py [N [SEED]]      N random cases per entry point (default 300, seed 7)
  gencode7_diff.py --example       print the conjuncts of Example C09_code_ex (Props/C09Code.v)
  gencode7_diff.py --check         the conjuncts of Props/C09Code.v are what --example prints now

Environment: ISO_REPO (package under test, default /repo), VERIF_COQ (Coq tree, default
/verif/coq).  Floats are restricted to binary-exact fractions (ideal-float regime)."""
import os
import random
import subprocess
import sys
import tempfile
from fractions import Fraction

HERE = os.path.dirname(os.path.abspath(__file__))
REPO = os.environ.get("ISO_REPO", "/repo")
COQ = os.environ.get("VERIF_COQ", os.path.join(HERE, "..", "coq"))
sys.path.insert(0, REPO)
from metomi.isodatetime import data  # noqa: E402
from metomi.isodatetime.exceptions import BadInputError  # noqa: E402

MODES = {"G": "gregorian", "D360": "360day", "D365": "365day", "D366": "366day"}
INIT_ORDER = ["num_expanded_year_digits", "year", "month_of_year", "week_of_year", "day_of_year",
              "day_of_month", "day_of_week", "hour_of_day", "hour_of_day_decimal", "minute_of_hour",
              "minute_of_hour_decimal", "second_of_minute", "second_of_minute_decimal", "time_zone_hour",
              "time_zone_minute", "dump_format", "truncated", "truncated_dump_format", "truncated_property",
              "is_duration"]
Z_ARGS = {"year", "month_of_year", "week_of_year", "day_of_year", "day_of_month", "day_of_week",
          "time_zone_hour", "time_zone_minute"}
Q_ARGS = {"hour_of_day", "hour_of_day_decimal", "minute_of_hour", "minute_of_hour_decimal",
          "second_of_minute", "second_of_minute_decimal"}
S_ARGS = {"dump_format", "truncated_dump_format", "truncated_property"}
SLOTS = ["_num_expanded_year_digits", "_year", "_month_of_year", "_day_of_year", "_day_of_month",
         "_day_of_week", "_week_of_year", "_hour_of_day", "_minute_of_hour", "_second_of_minute",
         "_truncated", "_truncated_property", "_truncated_dump_format", "_dump_format", "_time_zone"]


def z(n):
    return "(%d)" % n if n < 0 else "%d" % n


def oz(v):
    return "None" if v is None else "(Some %s)" % z(v)


def q(v):
    fr = Fraction(v)
    return "(Qmake %s %d)" % (z(fr.numerator), fr.denominator)


def oq(v):
    return "None" if v is None else "(Some %s)" % q(v)


def os_(v):
    return "None" if v is None else '(Some "%s"%%string)' % v.replace('"', '""')


def b(v):
    return "true" if v else "false"


def tz_term(t):
    return "(mkTimeZone %s %s %s)" % (z(t._hours), z(t._minutes), b(t._unknown))


def state_term(tp):
    parts = []
    for s in SLOTS:
        v = getattr(tp, s)
        if s == "_num_expanded_year_digits":
            parts.append(z(v))
        elif s in ("_hour_of_day", "_minute_of_hour", "_second_of_minute"):
            parts.append(oq(v))
        elif s == "_truncated":
            parts.append(b(v))
        elif s in ("_truncated_property", "_truncated_dump_format", "_dump_format"):
            parts.append(os_(v))
        elif s == "_time_zone":
            parts.append(tz_term(v))
        else:
            parts.append(oz(v))
    return "(mkTimePoint %s)" % " ".join(parts)


def init_call(mode, kw):
    args = []
    for p in INIT_ORDER:
        v = kw.get(p, 0 if p == "num_expanded_year_digits" else False if p in ("truncated", "is_duration")
                   else None)
        if p == "num_expanded_year_digits":
            args.append(z(v))
        elif p in Z_ARGS:
            args.append(oz(v))
        elif p in Q_ARGS:
            args.append(oq(v))
        elif p in S_ARGS:
            args.append(os_(v))
        else:
            args.append(b(v))
    return "py_TimePoint___init__ (cal7_of %s) %s" % (mode, " ".join(args))


def set_mode(mode):
    data.CALENDAR.set_mode(MODES[mode])


def run_init(mode, kw):
    """-> the Coq boolean that must evaluate to true"""
    set_mode(mode)
    try:
        tp = data.TimePoint(**kw)
    except BadInputError:
        return "raises_bad (%s)" % init_call(mode, kw)
    finally:
        set_mode("G")
    return "leaves7 (%s) %s" % (init_call(mode, kw), state_term(tp))


def run_tz(mode, h, m, unknown):
    call = "py_TimeZone___init__ (cal7_of %s) %s %s %s" % (mode, oz(h), oz(m), b(unknown))
    try:
        t = data.TimeZone(hours=h, minutes=m, unknown=unknown)
    except BadInputError:
        return "raises_bad (%s)" % call
    return "leaves_tz (%s) %s" % (call, tz_term(t))


def poke_state(slots):
    """a TimePoint with the given slot values poked in (any combination: _check_bounds is total)"""
    tp = data.TimePoint(year=2000)
    for k, v in slots.items():
        setattr(tp, k, v)
    return tp


def run_bounds(mode, slots):
    tp = poke_state(slots)
    call = "py_TimePoint__check_bounds (cal7_of %s) %s" % (mode, state_term(tp))
    set_mode(mode)
    try:
        tp._check_bounds()
    except BadInputError:
        return "raises_bad (%s)" % call
    finally:
        set_mode("G")
    return "returns_none (%s)" % call


EXAMPLE = [
    # (kind, mode, payload): the values of property C09's own examples and the corner cases
    ("init", "G", dict(year=2000, month_of_year=2, day_of_month=29, hour_of_day=12, minute_of_hour=30,
                       second_of_minute=15, time_zone_hour=1, time_zone_minute=30)),
    ("init", "G", dict(year=2000, month_of_year=2, day_of_month=30)),
    ("init", "G", dict(year=2001, month_of_year=2, day_of_month=29, hour_of_day=0)),
    ("init", "D360", dict(year=2001, month_of_year=2, day_of_month=30, hour_of_day=0)),
    ("init", "D360", dict(year=2001, month_of_year=1, day_of_month=31)),
    ("init", "G", dict(year=2000, day_of_year=366)),
    ("init", "G", dict(year=2001, day_of_year=366)),
    ("init", "D360", dict(year=2001, day_of_year=361)),
    ("init", "G", dict(year=2004, week_of_year=53, day_of_week=7)),
    ("init", "G", dict(year=2005, week_of_year=53, day_of_week=1)),
    ("init", "G", dict(year=2000, week_of_year=10)),
    ("init", "G", dict(year=2000)),
    ("init", "G", dict(year=2000, month_of_year=1, day_of_month=1, hour_of_day=24)),
    ("init", "G", dict(year=2000, month_of_year=1, day_of_month=1, hour_of_day=24, minute_of_hour=1)),
    ("init", "G", dict(year=2000, month_of_year=1, day_of_month=1, hour_of_day=24, minute_of_hour=0,
                       second_of_minute=1)),
    ("init", "G", dict(year=2000, month_of_year=1, day_of_month=1, hour_of_day=23, minute_of_hour=60)),
    ("init", "G", dict(year=2000, month_of_year=1, day_of_month=1, hour_of_day=12, hour_of_day_decimal=0.5)),
    ("init", "G", dict(year=2000, month_of_year=1, day_of_month=1, hour_of_day=12, hour_of_day_decimal=0.5,
                       minute_of_hour=3)),
    ("init", "G", dict(year=2000, month_of_year=1, day_of_month=1, hour_of_day_decimal=0.5)),
    ("init", "G", dict(year=2000, month_of_year=1, day_of_month=1, hour_of_day=12, hour_of_day_decimal=1.0)),
    ("init", "G", dict(year=2000, month_of_year=1, day_of_month=1, hour_of_day=12, minute_of_hour=30,
                       minute_of_hour_decimal=0.25)),
    ("init", "G", dict(year=2000, month_of_year=1, day_of_month=1, hour_of_day=12, minute_of_hour=30,
                       second_of_minute=59, second_of_minute_decimal=0.75)),
    ("init", "G", dict(year=2000, month_of_year=1, day_of_month=1, hour_of_day=1.5)),
    ("init", "G", dict(year=2000, month_of_year=1, day_of_month=1, hour_of_day=12.0, minute_of_hour=30.0)),
    ("init", "G", dict(year=2000, month_of_year=1, day_of_month=1, time_zone_hour=0, time_zone_minute=60)),
    ("init", "G", dict(year=2000, month_of_year=1, day_of_month=1, time_zone_hour=-5, time_zone_minute=30)),
    ("init", "G", dict(year=2000, month_of_year=1, day_of_month=1, time_zone_hour=-5, time_zone_minute=-30)),
    ("init", "G", dict(year=2000, month_of_year=1, day_of_month=1, time_zone_hour=100)),
    ("init", "G", dict(year=2000, month_of_year=1, day_of_month=1, time_zone_minute=-45)),
    ("init", "G", dict(year=2000, month_of_year=1, day_of_year=3)),
    ("init", "G", dict(year=2000, month_of_year=1, week_of_year=3)),
    ("init", "G", dict(year=2000, week_of_year=3, day_of_year=3)),
    ("init", "G", dict(year=2000, month_of_year=0, day_of_year=3)),
    ("init", "G", dict(year=2000, month_of_year=0)),
    ("init", "G", dict(month_of_year=3, day_of_month=4)),
    ("init", "G", dict(year=0, month_of_year=2, day_of_month=29, week_of_year=None)),
    ("init", "G", dict(year=-1, month_of_year=2, day_of_month=29, num_expanded_year_digits=2)),
    ("init", "G", dict(truncated=True, month_of_year=2, day_of_month=30)),
    ("init", "G", dict(truncated=True, month_of_year=2, day_of_month=29, truncated_property="year_of_decade")),
    ("init", "D360", dict(truncated=True, day_of_month=31)),
    ("init", "D360", dict(truncated=True, day_of_month=30, time_zone_hour=0)),
    ("init", "D360", dict(truncated=True, week_of_year=53)),
    ("init", "G", dict(truncated=True, week_of_year=53, day_of_week=7, hour_of_day=5)),
    ("init", "G", dict(truncated=True, day_of_year=366, minute_of_hour=4)),
    ("init", "G", dict(truncated=True, year=2001, day_of_year=366)),
    ("init", "G", dict(truncated=True, truncated_property="year_of_millennium", day_of_month=3)),
    ("init", "G", dict(year=2000, month_of_year=13, day_of_month=40, is_duration=True)),
    ("init", "G", dict(year=2000, dump_format="CCYY", truncated_dump_format="-YY")),
    ("tz", "G", (None, None, True)),
    ("tz", "G", (5, 30, False)),
    ("tz", "G", (5, -30, False)),
    ("tz", "G", (-5, 30, False)),
    ("tz", "G", (0, -59, False)),
    ("tz", "G", (99, 59, False)),
    ("tz", "G", (-100, 0, False)),
    ("tz", "G", (None, 60, False)),
    ("bounds", "G", dict(_year=None, _month_of_year=2, _day_of_month=29)),
    ("bounds", "G", dict(_year=None, _month_of_year=2, _day_of_month=30)),
    ("bounds", "G", dict(_year=None, _month_of_year=None, _day_of_month=31)),
    ("bounds", "D360", dict(_year=None, _month_of_year=None, _day_of_month=31)),
    ("bounds", "D360", dict(_year=None, _week_of_year=52, _day_of_year=360)),
    ("bounds", "D360", dict(_year=None, _week_of_year=53)),
    ("bounds", "G", dict(_year=0, _week_of_year=53)),
    ("bounds", "G", dict(_year=0, _week_of_year=52, _day_of_year=366)),
    ("bounds", "G", dict(_hour_of_day=24, _minute_of_hour=0, _second_of_minute=0)),
    ("bounds", "G", dict(_hour_of_day=24, _minute_of_hour=0, _second_of_minute=0.5)),
    ("bounds", "G", dict(_hour_of_day=24.0, _minute_of_hour=None, _second_of_minute=None)),
    ("bounds", "G", dict(_hour_of_day=23.5, _minute_of_hour=59.75, _second_of_minute=None)),
    ("bounds", "G", dict(_hour_of_day=None, _minute_of_hour=60, _second_of_minute=None)),
    ("bounds", "G", dict(_hour_of_day=-0.5)),
    ("bounds", "G", dict(_day_of_week=8)),
]


def conjunct(kind, mode, payload):
    if kind == "init":
        return run_init(mode, payload)
    if kind == "tz":
        return run_tz(mode, *payload)
    return run_bounds(mode, payload)


def example_conjuncts():
    return [conjunct(*c) for c in EXAMPLE]


PREAMBLE = """From Coq Require Import QArith List String.
Set Warnings "-notation-overridden".
From Iso Require Import Proofs.Tac Spec.Cal Model.Helpers Model.TimePoint gen.GenCode4 gen.GenCode7 Proofs.GenCode7Ok.
Set Warnings "+notation-overridden".
Open Scope Z_scope.
"""


def binexact(rng, top):
    """an int, an integral float or a binary-exact fraction"""
    k = rng.random()
    n = rng.randint(-2, top)
    if k < 0.6:
        return n
    if k < 0.8:
        return float(n)
    return n + rng.choice([0.5, 0.25, 0.75, 0.125])


def random_case(rng):
    kind = rng.choice(["init"] * 6 + ["tz", "bounds", "bounds"])
    mode = rng.choice(list(MODES))
    if kind == "tz":
        return kind, mode, (rng.choice([None, rng.randint(-101, 101), 0]), rng.choice(
            [None, rng.randint(-61, 61), 0]), rng.random() < 0.3)
    if kind == "bounds":
        sl = {}
        if rng.random() < 0.5:
            sl["_year"] = rng.choice([None, 0, 4, 1999, 2000, 2004, 2100, -1])
        for k_, top in (("_month_of_year", 13), ("_day_of_month", 32), ("_day_of_year", 367),
                        ("_week_of_year", 54), ("_day_of_week", 8)):
            if rng.random() < 0.5:
                sl[k_] = rng.choice([None, rng.randint(-1, top), top - 1, top - 2])
        for k_, top in (("_hour_of_day", 25), ("_minute_of_hour", 61), ("_second_of_minute", 61)):
            if rng.random() < 0.6:
                sl[k_] = rng.choice([None, binexact(rng, top), top - 1, 0])
        return kind, mode, sl
    kw = {}
    if rng.random() < 0.85:
        kw["year"] = rng.choice([0, 4, 1999, 2000, 2001, 2004, 2100, -1, -4])
    shape = rng.random()
    if shape < 0.4:
        if rng.random() < 0.9:
            kw["month_of_year"] = rng.choice([rng.randint(0, 13), 2, 2, 12])
        if rng.random() < 0.8:
            kw["day_of_month"] = rng.choice([rng.randint(0, 32), 28, 29, 30, 31])
    elif shape < 0.6:
        kw["day_of_year"] = rng.choice([rng.randint(0, 367), 360, 365, 366])
    elif shape < 0.8:
        if rng.random() < 0.9:
            kw["week_of_year"] = rng.choice([rng.randint(0, 54), 51, 52, 53])
        if rng.random() < 0.8:
            kw["day_of_week"] = rng.randint(0, 8)
    if rng.random() < 0.15:
        kw[rng.choice(["month_of_year", "day_of_month", "day_of_year", "week_of_year", "day_of_week"])] = \
            rng.choice([0, 1, 3])
    if rng.random() < 0.7:
        kw["hour_of_day"] = rng.choice([binexact(rng, 25), 24, 23, 0])
    if rng.random() < 0.5:
        kw["minute_of_hour"] = rng.choice([binexact(rng, 61), 0, 59])
    if rng.random() < 0.4:
        kw["second_of_minute"] = rng.choice([binexact(rng, 61), 0, 59])
    for d in ("hour_of_day_decimal", "minute_of_hour_decimal", "second_of_minute_decimal"):
        if rng.random() < 0.15:
            kw[d] = rng.choice([0.5, 0.25, 0.0, 1.0, -0.5, 0.875, 1])
    if rng.random() < 0.4:
        kw["time_zone_hour"] = rng.choice([rng.randint(-100, 100), 0, 1, -1])
    if rng.random() < 0.3:
        kw["time_zone_minute"] = rng.choice([rng.randint(-61, 61), 0, 30, -30])
    if rng.random() < 0.3:
        kw["truncated"] = True
    if rng.random() < 0.1:
        kw["is_duration"] = True
    if rng.random() < 0.15:
        kw["truncated_property"] = rng.choice(["year_of_decade", "year_of_century", "year", ""])
    if rng.random() < 0.1:
        kw["dump_format"] = rng.choice(["CCYY", ""])
    if rng.random() < 0.1:
        kw["num_expanded_year_digits"] = rng.choice([0, 2, 3])
    return kind, mode, kw


def evaluate(conjs):
    """-> list of booleans as vm_compute evaluates them"""
    with tempfile.TemporaryDirectory() as tmp:
        path = os.path.join(tmp, "Diff7.v")
        with open(path, "w") as fh:
            fh.write(PREAMBLE)
            fh.write("Definition checks : list bool :=\n  [%s].\n" % ";\n   ".join(conjs))
            fh.write("Eval vm_compute in checks.\n")
        r = subprocess.run(["coqc", "-Q", ".", "Iso", path], cwd=COQ, capture_output=True, text=True)
        if r.returncode != 0:
            sys.stderr.write(r.stdout + r.stderr)
            raise SystemExit("coqc failed")
        out = r.stdout[r.stdout.index("= [") + 2:]
        out = out[:out.index("]") + 1]
        return [t.strip() == "true" for t in out.strip("[]").replace("\n", " ").split(";")]


def main():
    if "--example" in sys.argv:
        print("  " + " = true /\\\n  ".join(example_conjuncts()) + " = true.")
        return
    if "--check" in sys.argv:
        with open(os.path.join(COQ, "Props", "C09Code.v")) as fh:
            text = " ".join(fh.read().split())
        missing = [c for c in example_conjuncts() if " ".join(c.split()) not in text]
        print("MATCH" if not missing else "MISMATCH:\n" + "\n".join(missing))
        sys.exit(1 if missing else 0)
    args = [a for a in sys.argv[1:] if not a.startswith("--")]
    n = int(args[0]) if args else 300
    rng = random.Random(int(args[1]) if len(args) > 1 else 7)
    cases = [random_case(rng) for _ in range(n)]
    conjs = [conjunct(*c) for c in cases]
    res = evaluate(conjs)
    bad = [(c, t) for c, t, ok in zip(cases, conjs, res) if not ok]
    kinds = {}
    for c, t in zip(cases, conjs):
        key = (c[0], t.split(" ")[0])
        kinds[key] = kinds.get(key, 0) + 1
    print("%d checks: %s" % (len(conjs), ", ".join("%s/%s %d" % (a, b_, k) for (a, b_), k in sorted(kinds.items()))))
    if bad:
        print("DISAGREE on %d:" % len(bad))
        for c, t in bad[:20]:
            print("  ", c, "\n     ", t)
        sys.exit(1)
    print("ALL AGREE")


if __name__ == "__main__":
    main()
