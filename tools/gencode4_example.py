#!/venv/bin/python
"""Produces the conjuncts of Example C01_code_ex (coq/Props/C01Code.v): the generated definitions of
gen/GenCode4.v applied to concrete states, with the values the real package (PYTHONPATH=/repo) returns.
Usage: TZ=UTC /venv/bin/python tools/gencode4_example.py  (prints Coq text; paste under `let fuel := 60%nat in`)."""
import sys
sys.path.insert(0, __import__("os").path.dirname(__import__("os").path.abspath(__file__)))
import os
os.environ.setdefault("ISO_REPO", "/repo")
import gencode4_diff as g
from metomi.isodatetime.data import TimePoint, Duration, TimeZone, CALENDAR

out = []
def chk(kind, call, val):
    out.append("%s (%s) %s = true" % (kind, call, val))

def run(mode, label):
    CALENDAR.set_mode(mode)
    md = g.MODES[mode]
    pre = "fuel (cal_of %s)" % md
    def call(m, *a): return "py_TimePoint_%s %s %s" % (m, pre, " ".join(a))
    # _tick_over: carries out of range in every unit
    for kw, mods in [
        (dict(year=2001, month_of_year=3, day_of_month=1, hour_of_day=1, minute_of_hour=1, second_of_minute=1),
         dict(_day_of_month=-400, _hour_of_day=25, _minute_of_hour=61, _second_of_minute=3.5)),
        (dict(year=2000, day_of_year=60, hour_of_day=1, hour_of_day_decimal=0.5), dict(_day_of_year=-800, _hour_of_day=-24.5)),
        (dict(year=2004, week_of_year=51, day_of_week=7, hour_of_day=23, minute_of_hour=59, minute_of_hour_decimal=0.5),
         dict(_day_of_week=30, _week_of_year=60, _minute_of_hour=1000.25)),
    ]:
        t = TimePoint(**kw)
        for k, v in mods.items(): setattr(t, k, v)
        T0 = g.tp(t); t._tick_over()
        chk("tp_is", call("_tick_over", T0), g.tp(t))
    t = TimePoint(year=2024, month_of_year=2, day_of_month=1); t._day_of_month = 800
    T0 = g.tp(t); t._tick_over_day_of_month(); chk("tp_is", call("_tick_over_day_of_month", T0), g.tp(t))
    t = TimePoint(year=2024, month_of_year=3, day_of_month=1); t._day_of_month = -366
    T0 = g.tp(t); t._tick_over_day_of_month(); chk("tp_is", call("_tick_over_day_of_month", T0), g.tp(t))
    p = TimePoint(year=2000, month_of_year=1, day_of_month=30, hour_of_day=23, minute_of_hour=59, second_of_minute=59, time_zone_hour=5, time_zone_minute=30)
    d = Duration(years=1, months=1, days=1, hours=1, minutes=1, seconds=1.5)
    chk("tp_is", call("__add____Duration", g.tp(p), g.dur(d)), g.tp(p + d))
    chk("tp_is", call("__sub____Duration", g.tp(p), g.dur(d)), g.tp(p - d))
    chk("tp_is", call("__add____Duration", g.tp(p), g.dur(Duration(weeks=-5))), g.tp(p + Duration(weeks=-5)))
    o = TimePoint(year=2024, day_of_year=360, hour_of_day=12, hour_of_day_decimal=0.5)
    d2 = Duration(years=1, seconds=-45000)
    chk("tp_is", call("__add____Duration", g.tp(o), g.dur(d2)), g.tp(o + d2))
    w = TimePoint(year=2020, week_of_year=51, day_of_week=7, hour_of_day=8, minute_of_hour=30)
    d3 = Duration(years=1, months=-13, days=10)
    chk("tp_is", call("__add____Duration", g.tp(w), g.dur(d3)), g.tp(w + d3))
    chk("tp_is", call("add_months", g.tp(p), g.z(-11)), g.tp(p.add_months(-11)))
    chk("tp_is", call("to_week_date", g.tp(p)), g.tp(p.to_week_date()))
    chk("tp_is", call("to_ordinal_date", g.tp(w)), g.tp(w.to_ordinal_date()))
    chk("zs_is", call("get_calendar_date", g.tp(o)), "[%s]" % "; ".join(g.z(x) for x in o.get_calendar_date()))
    tz = TimeZone(hours=-11, minutes=-30)
    chk("tp_is", call("to_time_zone", g.tp(p), g.tzv(tz)), g.tp(p.to_time_zone(tz)))
    chk("tp_is", call("to_utc", g.tp(p)), g.tp(p.to_utc()))
    e = TimePoint(year=1999, month_of_year=12, day_of_month=30, hour_of_day=24)
    chk("tp_is", call("_normalised", g.tp(e)), g.tp(e._normalised()))
    u = e.to_utc()._normalised()
    chk("hash_is", call("__hash__", g.tp(e)), "[%s] [%s]" % ("; ".join(g.z(x) for x in u.get_calendar_date()), "; ".join(g.q(x) for x in u.get_hour_minute_second())))
    n = TimePoint(year=2000, day_of_year=1, time_zone_hour=0)
    for op in ("eq", "lt", "le", "gt", "ge"):
        chk("b_is", call("_cmp__" + op, g.tp(e), g.tp(n)), g.b(e._cmp(n, op)))
        chk("b_is", call("_cmp__" + op, g.tp(p), g.tp(n)), g.b(p._cmp(n, op)))
    chk("dur_is", call("__sub____TimePoint", g.tp(p), g.tp(w)), g.dur(p - w))
    chk("dur_is", call("__sub____TimePoint", g.tp(w), g.tp(p)), g.dur(w - p))

run("gregorian", "G")
n_g = len(out)
run("360day", "D360")
print("(* %d checks in mode gregorian, %d in 360day *)" % (n_g, len(out) - n_g))
print(" /\\\n  ".join(out))
CALENDAR.set_mode("gregorian")
t = TimePoint(year=2001, day_of_year=3, hour_of_day=1); t._day_of_year = -80000
print("(* fuel: _tick_over with day_of_year = -80000 needs more than 100 iterations *)")
print(g.tp(t))
