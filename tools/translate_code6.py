#!/venv/bin/python
"""GenCode6.v generator: the truncated-point addition of class TimePoint -> Gallina (fail closed).

Phase 4 (translate_code4.py -> gen/GenCode4.v) translates the arithmetic core of
class TimePoint and cuts everything about truncated points.  This generator adds
what property C20 is about, on every run, from the method bodies of data.py:

  TimePoint.to_hour_minute_second
  TimePoint.add_truncated          (all ten keyword parameters, each an optional number)
  TimePoint.get_truncated_properties   (the dict handed to add_truncated(**...))
  TimePoint.__add__ with a TimePoint operand (the truncated branch, both operand
      orders: `other + self` is a self-recursive call, a Fixpoint on the fuel)

It reuses phase 4's translator (class ClassUnit6 extends translate_code4.ClassUnit)
and phase 4's OUTPUT: gen/GenCode6.v imports gen/GenCode4.v and only defines the
new methods; every callee phase 4 already emits (_copy, _tick_over, to_*_date,
to_time_zone, get_hour_minute_second, ...) is referred to by name, so the lemmas
of Proofs/GenCode4*.v apply as they are.  The text of every phase-4 definition a
new method depends on is re-derived here and must occur verbatim in the
gen/GenCode4.v of this run (fail closed otherwise).

Additions to the accepted subset (see notes/GENCODE6_REPORT.md):
  * a dict with static string keys inside the key universe = the parameter names
    of add_truncated: `{}`, `{"k": e}`, `d.update({"k": e})`, `d[k] = e`,
    `return d`, `obj.m(**d)` / `obj.m(**call())`; value semantics (a second name
    for a dict is rejected); a key maps to a number, never to None (so "absent"
    is `None` in the record pyTruncProps, which is what a parameter defaulting
    to None receives);
  * `"_{0}".format(attr)`, f"_{attr}", "_" + attr with static strings;
  * `x is not None` refines a None-able number local in the true branch;
  * `obj._truncated_property == "<str>"` (option string against a constant);
  * method calls with optional-number / float arguments and keyword arguments.
"""
import ast
import os
import sys

sys.path.insert(0, os.path.dirname(os.path.abspath(__file__)))
import translate  # noqa: E402
from translate import Reject, write_if_changed, coq_str  # noqa: E402
import translate_code  # noqa: E402,F401  (redirects translate.OUT for VERIF_GEN_OUT)
from translate_code import clean  # noqa: E402
import translate_code4 as tc4  # noqa: E402
from translate_code4 import (Z, Q, B, NONE, OPQ, OPT, TP, DUR, TZ, Val, Env, is_opt, is_obj,  # noqa: E402
                             is_static, coerce, SLOT_TY, CLS)

DICT = ("DICT",)
UPD = "__dict_update__"          # pseudo function introduced by the dict pre-pass

_coq_type4 = tc4.coq_type


def coq_type(t):
    if t == DICT:
        return "pyTruncProps"
    return _coq_type4(t)


# the recursion inside translate_code4.coq_type goes through the module global: option pyTruncProps works
tc4.coq_type = coq_type


def kfld(key):
    return "k_" + key


def ksetter(key):
    return "setk_" + key


class DictPrepass(ast.NodeTransformer):
    """d.update({...})  and  d[k] = e  as statements  ->  d = __dict_update__(d, {...})"""

    def visit_Expr(self, node):
        c = node.value
        if isinstance(c, ast.Call) and isinstance(c.func, ast.Attribute) and c.func.attr == "update" \
                and isinstance(c.func.value, ast.Name) and len(c.args) == 1 and not c.keywords \
                and isinstance(c.args[0], ast.Dict):
            new = ast.Assign(
                targets=[ast.Name(id=c.func.value.id, ctx=ast.Store())],
                value=ast.Call(func=ast.Name(id=UPD, ctx=ast.Load()),
                               args=[ast.Name(id=c.func.value.id, ctx=ast.Load()), c.args[0]], keywords=[]))
            return ast.fix_missing_locations(ast.copy_location(new, node))
        return node

    def visit_Assign(self, node):
        if len(node.targets) == 1 and isinstance(node.targets[0], ast.Subscript) \
                and isinstance(node.targets[0].value, ast.Name) \
                and not isinstance(node.targets[0].slice, ast.Slice):
            tgt = node.targets[0]
            new = ast.Assign(
                targets=[ast.Name(id=tgt.value.id, ctx=ast.Store())],
                value=ast.Call(func=ast.Name(id=UPD, ctx=ast.Load()),
                               args=[ast.Name(id=tgt.value.id, ctx=ast.Load()),
                                     ast.Dict(keys=[tgt.slice], values=[node.value])], keywords=[]))
            return ast.fix_missing_locations(ast.copy_location(new, node))
        return node


ARG_TYPES = (Z, Q, OPT(Z), OPT(Q), TP, DUR, TZ)


def arg_ok(ty):
    return ty in ARG_TYPES or (isinstance(ty, tuple) and ty[0] in ("STR", "SB"))


class ClassUnit6(tc4.ClassUnit):
    def __init__(self):
        tc4.ClassUnit.__init__(self)
        for node in ast.walk(self.tree):
            if isinstance(node, ast.Name) and node.id == UPD:
                raise Reject("the source uses the name %s" % UPD)
        for name, node in self.methods.items():
            if node is not None:
                DictPrepass().visit(node)
        self.universe = self.key_universe()

    # ------------------------------------------------------------ the key universe
    def key_universe(self):
        """the keys a translated dict may have: the parameters of add_truncated, all defaulting to None"""
        node = self.methods.get("add_truncated")
        if node is None:
            raise Reject("no unique def add_truncated")
        a = node.args
        if a.posonlyargs or a.vararg or a.kwonlyargs or a.kwarg or a.kw_defaults:
            raise Reject("add_truncated: parameters other than plain positional ones")
        names = [p.arg for p in a.args]
        if not names or names[0] != "self" or len(a.defaults) != len(names) - 1:
            raise Reject("add_truncated: every parameter must have a default")
        if not all(isinstance(d, ast.Constant) and d.value is None for d in a.defaults):
            raise Reject("add_truncated: a default other than None")
        out = []
        for p in names[1:]:
            slot = "_" + p
            ty = SLOT_TY[slot][1] if slot in SLOT_TY and is_opt(SLOT_TY[slot]) else Z
            out.append((p, ty))
        return out

    def key_type(self, key):
        for k, ty in self.universe:
            if k == key:
                return ty
        raise Reject("dict key %r is not a parameter of add_truncated" % key)

    # ------------------------------------------------------------ static strings
    def static_str(self, n, env):
        if isinstance(n, ast.Call) and isinstance(n.func, ast.Attribute) and n.func.attr == "format" \
                and isinstance(n.func.value, ast.Constant) and isinstance(n.func.value.value, str) \
                and not n.keywords and not any(isinstance(a, ast.Starred) for a in n.args):
            args = [self.static_str(a, env) for a in n.args]
            try:
                return n.func.value.value.format(*args)
            except Exception as exc:
                raise Reject("str.format: %s" % exc)
        if isinstance(n, ast.JoinedStr):
            out = ""
            for v in n.values:
                if isinstance(v, ast.Constant) and isinstance(v.value, str):
                    out += v.value
                elif isinstance(v, ast.FormattedValue) and v.conversion == -1 and v.format_spec is None:
                    out += self.static_str(v.value, env)
                else:
                    raise Reject("f-string component")
            return out
        if isinstance(n, ast.BinOp) and isinstance(n.op, ast.Add):
            return self.static_str(n.left, env) + self.static_str(n.right, env)
        return tc4.ClassUnit.static_str(self, n, env)

    # ------------------------------------------------------------ expressions
    def dict_items(self, node, env, fx, binds):
        """the (key, Val) pairs of a dict literal with static string keys, values numbers"""
        out = []
        for k, v in zip(node.keys, node.values):
            if k is None:
                raise Reject("** inside a dict literal")
            key = self.static_str(k, env)
            ty = self.key_type(key)
            b, val = self.expr(v, env, fx)
            binds += b
            if val.text is None or val.ty not in (Z, Q):
                raise Reject("dict value of type %r under key %r (a number is required: a key is "
                             "never mapped to None)" % (val.ty, key))
            out.append((key, coerce(val, ty)))
        return out

    def expr(self, n, env, fx):
        if isinstance(n, ast.Dict):
            binds = []
            items = dict(self.dict_items(n, env, fx, binds))   # a later duplicate key wins, as in Python
            text = "(mkTruncProps %s)" % " ".join(
                ("(Some %s)" % items[k].text) if k in items else "None" for k, _ in self.universe)
            return binds, Val(text, DICT)
        if isinstance(n, ast.Call) and isinstance(n.func, ast.Name) and n.func.id == "dict" \
                and "dict" not in env.ty and not n.args and not n.keywords:
            return [], Val("(mkTruncProps %s)" % " ".join("None" for _ in self.universe), DICT)
        if isinstance(n, ast.Call) and isinstance(n.func, ast.Name) and n.func.id == UPD:
            obj = n.args[0].id
            if env.ty.get(obj) != DICT:
                raise Reject("update / item assignment on %s, which is not a dict local" % obj)
            binds = []
            text = "v_" + obj
            for key, val in self.dict_items(n.args[1], env, fx, binds):
                text = "(%s %s (Some %s))" % (ksetter(key), text, val.text)
            return binds, Val(text, DICT, kind={"dictname:" + obj})
        if isinstance(n, ast.IfExp):
            binds, v = tc4.ClassUnit.expr(self, n, env, fx)
            if v.ty == DICT or v.ty == OPT(DICT):
                raise Reject("conditional expression of dicts")
            return binds, v
        binds, v = tc4.ClassUnit.expr(self, n, env, fx)
        if isinstance(n, ast.Name) and v.ty in (DICT, OPT(DICT)):
            v.kind = {"dictname:" + n.id}
        return binds, v

    def bind_local(self, name, v, env, fx):
        if v.ty in (DICT, OPT(DICT)):
            for k in (v.kind or ()):
                if k.startswith("dictname:") and k[9:] != name:
                    raise Reject("%s would be a second name for the dict %s" % (name, k[9:]))
        return tc4.ClassUnit.bind_local(self, name, v, env, fx)

    def compare_vals(self, op, a, b, fx, binds):
        if op in (ast.Eq, ast.NotEq):
            x, y = (a, b) if a.ty == OPQ else (b, a)
            if x.ty == OPQ and isinstance(y.ty, tuple) and y.ty[0] == "STR":
                t = "(opt_eqb String.eqb %s (Some %s))" % (x.text, coq_str(y.ty[1]))
                return Val(t if op is ast.Eq else "(negb %s)" % t, B)
        return tc4.ClassUnit.compare_vals(self, op, a, b, fx, binds)

    def refine_true(self, test, env, fx, ind):
        pad = "  " * ind
        if isinstance(test, ast.Compare) and len(test.ops) == 1 and isinstance(test.ops[0], ast.IsNot) \
                and isinstance(test.left, ast.Name) and isinstance(test.comparators[0], ast.Constant) \
                and test.comparators[0].value is None and is_opt(env.ty.get(test.left.id, None)) \
                and env.ty[test.left.id][1] in (Z, Q):
            name = test.left.id
            t = fx.fresh()
            env2 = env.copy()
            env2.ty[name] = env.ty[name][1]
            return "%s%s <- need v_%s ;;\n%slet v_%s := %s in\n" % (pad, t, name, pad, name, t), env2
        return tc4.ClassUnit.refine_true(self, test, env, fx, ind)

    # ------------------------------------------------------------ calls
    def call(self, n, env, fx):
        f = n.func
        if isinstance(f, ast.Attribute) and n.keywords:
            return self.kw_method_call(n, env, fx)
        return tc4.ClassUnit.call(self, n, env, fx)

    def kw_method_call(self, n, env, fx):
        """obj.m(a, k=v, **d): the arguments are laid out over m's parameter list"""
        f = n.func
        binds, recv = self.expr(f.value, env, fx)
        if recv.ty != TP:
            raise Reject("keyword arguments in a call on a %r" % (recv.ty,))
        if f.attr in self.mutators:
            raise Reject("call of the mutator %s in expression position" % f.attr)
        node = self.methods.get(f.attr)
        if node is None:
            raise Reject("%s.%s: no unique def" % (CLS, f.attr))
        a = node.args
        if a.posonlyargs or a.vararg or a.kwonlyargs or a.kwarg or a.kw_defaults:
            raise Reject("%s: parameters other than plain positional ones" % f.attr)
        params = [p.arg for p in a.args][1:]
        defaults = dict(zip(params[len(params) - len(a.defaults):], a.defaults))
        given = {}
        if len(n.args) > len(params):
            raise Reject("call of %s with %d positional arguments" % (f.attr, len(n.args)))
        for p, arg in zip(params, n.args):
            if isinstance(arg, ast.Starred):
                raise Reject("starred argument")
            b, v = self.expr(arg, env, fx)
            binds += b
            given[p] = v
        for k in n.keywords:
            b, v = self.expr(k.value, env, fx)
            binds += b
            if k.arg is not None:
                if k.arg not in params or k.arg in given:
                    raise Reject("keyword argument %s of %s" % (k.arg, f.attr))
                given[k.arg] = v
                continue
            # **v: None raises TypeError; each key goes to the parameter of its name, an
            # absent key leaves the parameter at its default, which must be None
            if v.ty == OPT(DICT):
                t = fx.fresh()
                binds.append("%s <- need %s" % (t, v.text))
                v = Val(t, DICT)
            if v.ty != DICT:
                raise Reject("** of a %r" % (v.ty,))
            for key, ty in self.universe:
                if key not in params:
                    raise Reject("**: %s has no parameter %s" % (f.attr, key))
                if key in given:
                    raise Reject("**: parameter %s may be given twice" % key)
                d = defaults.get(key)
                if not (isinstance(d, ast.Constant) and d.value is None):
                    raise Reject("**: the default of %s.%s is not None" % (f.attr, key))
                given[key] = Val("(%s %s)" % (kfld(key), v.text), OPT(ty))
        args = []
        for i, p in enumerate(params):
            if p not in given:
                if any(q in given for q in params[i:]):
                    raise Reject("keyword call of %s that leaves %s at its default before a given parameter"
                                 % (f.attr, p))
                break
            args.append(given[p])
        return binds, self.method_call(f.attr, recv, args, fx, binds)

    def method_call(self, name, recv, args, fx, binds):
        sig = []
        for a in args:
            if not arg_ok(a.ty):
                raise Reject("method argument of type %r" % (a.ty,))
            sig.append(a.ty)
        try:
            callee = self.method(name, tuple(sig))
        except Reject as exc:
            raise Reject("call of %s.%s, which is outside the subset: %s" % (CLS, name, exc))
        dyn = [a for a in args if a.text is not None]
        head = [callee["coq"], "fuel", "cal", recv.text] + [a.text for a in dyn]
        kind = None
        if callee["ret"] == TP:
            kind = set()
            for k in callee["ret_kinds"]:
                if k == "self":
                    kind |= (recv.kind or {"alias"})
                elif k.startswith("param"):
                    kind |= (args[int(k[5:])].kind or {"alias"})
                else:
                    kind.add(k)
        return self.bind_call(fx, binds, " ".join(head), callee["ret"], kind=kind)

    def mutator_call(self, c, rest, env, ctx, fx, ind):
        """as phase 4, with optional-number / float arguments allowed"""
        obj = c.func.value.id
        if obj not in env.owned:
            raise Reject("call of the mutator %s on %s, which is not an owned (fresh) object"
                         % (c.func.attr, obj))
        if obj in env.partial:
            raise Reject("object %s used before all its slots are assigned" % obj)
        if c.keywords:
            raise Reject("keyword arguments in a method call")
        binds, args = [], []
        for a in c.args:
            b, v = self.expr(a, env, fx)
            binds += b
            args.append(v)
        sig = []
        for a in args:
            if not arg_ok(a.ty) or a.ty == TP:
                raise Reject("mutator argument of type %r" % (a.ty,))
            sig.append(a.ty)
        try:
            callee = self.method(c.func.attr, tuple(sig))
        except Reject as exc:
            raise Reject("call of %s.%s, which is outside the subset: %s" % (CLS, c.func.attr, exc))
        head = [callee["coq"], "fuel", "cal", "v_" + obj] + [a.text for a in args if a.text is not None]
        binds.append("v_%s <- %s" % (obj, " ".join(head)))
        env2 = env.copy()
        env2.nonnull = {(o, sl) for o, sl in env2.nonnull if o != obj}
        return self.lines(ind, binds, "") + self.block(rest, env2, ctx, fx, ind)


# ---------------------------------------------------------------------------------------------
OZ, OQ = OPT(Z), OPT(Q)


def add_truncated_sig(unit):
    return tuple(OPT(ty) for _, ty in unit.universe)


# new entry points: (method, signature builder)
REQUIRED6 = [
    ("to_hour_minute_second", lambda u: ()),
    ("add_truncated", add_truncated_sig),
    ("get_truncated_properties", lambda u: ()),
    ("__add__", lambda u: (TP,)),
]
# attempted on every run only to record why they are not covered
ATTEMPTED6 = [
    ("get_largest_truncated_property_name", ()),
    ("get_smallest_missing_property_name", ()),
]
NOTES6 = [
    ("TimePoint.add_truncated [month_of_year, year_of_decade, year_of_century]",
     "translated (the three loops are part of py_TimePoint_add_truncated), but outside property C20 and "
     "outside Model/Truncated.v: the theorems of Proofs/GenCode6Ok.v are for these parameters = None"),
    ("TimePoint.get_truncated_properties [truncated_property = year_of_decade / year_of_century]",
     "translated (the two `% 10` / `% 100` entries), the theorems are for _truncated_property = None"),
    ("TimePoint.__add__ [truncated + truncated, full + full]",
     "falls through to `raise ValueError` (a TimePoint is not a Duration): translated, no theorem"),
]

HEAD6 = '''(* GENERATED by tools/translate_code6.py from the method bodies of class TimePoint
   (metomi/isodatetime/data.py).  Do not edit.

   The truncated-point addition (property C20): to_hour_minute_second,
   add_truncated, get_truncated_properties and __add__ with a TimePoint operand.
   Conventions, state record, monad and loop combinators: gen/GenCode4.v, whose
   definitions (py_TimePoint__copy, py_TimePoint__tick_over, ...) are the callees
   here; every one of them that a definition below depends on was re-derived on
   this run and found verbatim in gen/GenCode4.v.
   A dict with static string keys (the keyword arguments of add_truncated:
   %(keys)s) is the record pyTruncProps, one optional number per key, None = the
   key is absent; a call m( ** d ) hands field k to the parameter k. *)
From Coq Require Import ZArith QArith Qround Qabs List Bool String.
From Iso Require Import gen.CalTables gen.GenCode gen.GenCode2 gen.GenCode4.
From Iso Require gen.GenCode3.
Import ListNotations.
Open Scope Z_scope.

Record pyTruncProps : Type := mkTruncProps {
%(fields)s }.
%(setters)s
(* methods that are not entry points of this phase (private helpers a refactoring may introduce)
   are translated like any callee; the proofs unfold them (code6_helpers) *)
Create HintDb gencode6_helpers.
Ltac code6_helpers := try autounfold with gencode6_helpers in *.

'''


def head6(universe):
    fields = ";\n".join("  %s : %s" % (kfld(k), coq_type(OPT(ty))) for k, ty in universe)
    setters = ""
    for k, ty in universe:
        args = " ".join("v" if k2 == k else "(%s d)" % kfld(k2) for k2, _ in universe)
        setters += "Definition %s (d : pyTruncProps) (v : %s) : pyTruncProps := mkTruncProps %s.\n" % (
            ksetter(k), coq_type(OPT(ty)), args)
    return HEAD6 % {"keys": ", ".join(k for k, _ in universe), "fields": fields, "setters": setters}


FALLBACK_UNIVERSE = [("year_of_century", Z), ("year_of_decade", Z), ("month_of_year", Z), ("week_of_year", Z),
                     ("day_of_year", Z), ("day_of_month", Z), ("day_of_week", Z), ("hour_of_day", Q),
                     ("minute_of_hour", Q), ("second_of_minute", Q)]


def entry_coq6(name, sig):
    return tc4.entry_coq(name, sig)


def build_text6():
    unit = ClassUnit6()
    failures, body, covered, emitted = [], [], [], []
    # phase 4's own entry points first: the callees are then known under phase 4's names
    for name, sig in tc4.REQUIRED:
        try:
            unit.method(name, sig)
        except Exception as exc:
            failures.append((tc4.entry_coq(name, sig), "phase 4 entry: %s: %s" % (type(exc).__name__, exc)))
    phase4 = {unit.done[k]["coq"]: unit.done[k] for k in unit.order}
    extra4 = list(unit.extra2)
    try:
        with open(os.path.join(translate.OUT, "GenCode4.v")) as fh:
            gen4 = fh.read()
    except OSError as exc:
        gen4 = ""
        failures.append(("GenCode4.v", "cannot read gen/GenCode4.v: %s" % exc))

    def flush():
        for coq, text in unit.extra2:
            if (coq, text) not in extra4 and coq not in emitted:
                emitted.append(coq)
                body.append(text)
        for key in list(unit.order):
            r = unit.done[key]
            if r["coq"] in phase4 or r["coq"] in emitted:
                continue
            emitted.append(r["coq"])
            sig = r["sig"]
            if any(is_opt(t) for t in key[1] if isinstance(t, tuple)):
                sig = "every parameter: an optional number (None = not given)"
            note = (" [%s]" % sig) if sig else ""
            kind = " -- mutator: the result is the new state of self" if r["proc"] else ""
            text = r["text"]
            if r["coq"] not in entry_names and not r["coq"].startswith("py_fn_"):
                # a helper method (not an entry point of this phase): the proofs see through it
                text += "\n#[global] Hint Unfold %s : gencode6_helpers." % r["coq"]
            body.append("(* %s%s%s *)\n%s\n" % (r["src"], note, kind, text))

    entry_names = set()
    for name, mk in REQUIRED6:
        try:
            entry_names.add(entry_coq6(name, mk(unit)))
        except Exception:
            pass
    for name, mk in REQUIRED6:
        coq = name
        try:
            sig = mk(unit)
            coq = entry_coq6(name, sig)
            unit.method(name, sig)
            flush()
            covered.append(coq)
        except Exception as exc:  # fail closed on anything, translator bugs included
            coq = "py_%s_%s" % (CLS, name) if coq == name else coq
            failures.append((coq, "%s: %s" % (type(exc).__name__, exc)))
            if coq not in emitted:
                emitted.append(coq)
                body.append("(* %s.%s: REJECTED: %s *)\nDefinition %s : unit := tt.\n"
                            % (CLS, name, clean(exc), coq))
    # the phase-4 definitions the new ones were translated against must be the ones of gen/GenCode4.v
    used4 = [c for c in phase4 if any(c in t for t in body)]
    changed = True
    while changed:      # transitive callees
        changed = False
        for c in list(used4):
            for d in phase4:
                if d not in used4 and d in phase4[c]["text"]:
                    used4.append(d)
                    changed = True
    for c in used4:
        if phase4[c]["text"] not in gen4:
            failures.append((c, "gen/GenCode4.v does not contain this run's translation of %s "
                                "(run tools/translate_code4.py on the same source first)" % c))
    rejected = []
    for name, sig in ATTEMPTED6:
        label = "%s.%s" % (CLS, name)
        try:
            ClassUnit6().method(name, sig)
            rejected.append((label, "inside the subset, but no model function is tied to it (not emitted)"))
        except Exception as exc:
            rejected.append((label, "%s" % exc))
    rejected += NOTES6
    names = [c for c in emitted if c.startswith("py_" + CLS) or c.startswith("py_fn_")] + \
        [kfld(k) for k, _ in unit.universe] + [ksetter(k) for k, _ in unit.universe]
    if not failures:
        body.append("(* unfold the code generated here (not phase 4's, not the arithmetic, not the loops) *)\n"
                    "Ltac code6_unfold :=\n  cbv beta iota zeta delta [%s]." % " ".join(dict.fromkeys(names)))
    else:
        body.append("Ltac code6_unfold := idtac.")
    body.append("Definition COVERED_code6 : list string :=\n  [%s]%%string." % "; ".join(
        coq_str(c) for c in covered))
    body.append("(* phase-4 definitions (gen/GenCode4.v) the code above calls, directly or not *)\n"
                "Definition USES_code4 : list string :=\n  [%s]%%string." % "; ".join(
                    coq_str(c) for c in sorted(used4)))
    body.append("(* attempted and not covered, or covered without a theorem, with the reason *)\n"
                "Definition REJECTED_code6 : list (string * string) :=\n  [%s]%%string." % ";\n   ".join(
                    "(%s, %s)" % (coq_str(a), coq_str(clean(b))) for a, b in rejected))
    if failures:
        body.append("".join("(* REJECTED: %s: %s *)\n" % (c, clean(w)) for c, w in failures) +
                    "Definition translator_ok_code6 : bool := false.")
    else:
        body.append("Definition translator_ok_code6 : bool := translator_ok_code4.")
    return head6(unit.universe) + "\n".join(body) + "\n"


def gen_code6():
    try:
        text = build_text6()
    except Exception as exc:  # fail closed
        text = head6(FALLBACK_UNIVERSE) + "(* REJECTED: %s: %s *)\n" % (type(exc).__name__, clean(exc)) + \
            "Ltac code6_unfold := idtac.\nDefinition translator_ok_code6 : bool := false.\n"
    return write_if_changed("GenCode6.v", text)


if __name__ == "__main__":
    os.makedirs(translate.OUT, exist_ok=True)
    # phase 4's file of the same run (GenCode6.v imports it)
    print("translate_code4: %s" % ("regenerated GenCode4.v" if tc4.gen_code4() else "nothing changed"))
    print("translate_code6: %s" % ("regenerated GenCode6.v" if gen_code6() else "nothing changed"))
