#!/bin/bash
# regress_seeded.sh [-j N] [id ...]: every seeded change under /verif/seeded (or the ids given) is applied in a scratch
# worktree of /repo and the quick check of its property is run against it from a scratch copy of /verif.
# Prints one line per change: CAUGHT (exit 1 + VIOLATION line) or MISSED.  Nothing is applied to /repo.
J=4
if [ "$1" = "-j" ]; then J="$2"; shift 2; fi
ids=("$@"); [ ${#ids[@]} -eq 0 ] && ids=($(ls /verif/seeded))
out=/tmp/regress_seeded.$$; mkdir -p "$out"
one() {
  id="$1"; out="$2"
  prop=$(/venv/bin/python -c "import json,sys; print(json.load(open('/verif/seeded/$id/meta.json'))['property'])")
  /verif/tools/try_seeded.sh "$id" "$prop" > "$out/$id.txt" 2>&1
  if grep -q "^== $prop rc=1" "$out/$id.txt" && grep -q "^VIOLATION property=$prop" "$out/$id.txt"; then
    if grep "^VIOLATION" "$out/$id.txt" | grep -q "no-failing-input-found"; then echo "CAUGHT(no-input) $id $prop"; else echo "CAUGHT $id $prop"; fi
  else echo "MISSED $id $prop"; fi
}
export -f one
printf "%s\n" "${ids[@]}" | xargs -P "$J" -I{} bash -c 'one {} '"$out"
rm -rf "$out"
