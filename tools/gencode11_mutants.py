#!/usr/bin/env python3
"""Rewrites / seeded changes / mutations of datetimeoper.py against GenCode11 (scratch copies only).

For each case: copy the package to /tmp/gencode11_repo_<pid>, apply the change (the datetimeoper.py / main.py part of a
diff, or an exact-string edit), check that it imports, run tools/translate_code11.py with ISO_REPO / VERIF_GEN_OUT,
compile gen/GenCode11.v, Proofs/GenCode11Ok.v, Props/C19Code.v in a scratch tree that shares every other .vo by
symlink, report the first failing lemma.  Scratch copies are removed afterwards.
usage: gencode11_mutants.py [case ...]"""
import os
import re
import shutil
import subprocess
import sys

HERE = os.path.dirname(os.path.abspath(__file__))
VERIF = os.path.dirname(HERE)
BASE = os.environ.get("GENCODE11_BASE", os.path.join(VERIF, "coq"))
REPO = "/repo"
SCR_REPO = "/tmp/gencode11_repo_%d" % os.getpid()
SCR_COQ = "/tmp/gencode11_coq_%d" % os.getpid()
SCR_GEN = "/tmp/gencode11_gen_%d" % os.getpid()
OPER = "metomi/isodatetime/datetimeoper.py"


def diff_part(path, files=("datetimeoper.py", "main.py")):
    """The hunks of a diff that touch the given files."""
    out, keep = [], False
    with open(path) as fh:
        for ln in fh:
            if ln.startswith("diff --git"):
                keep = any(ln.rstrip().endswith(f) for f in files)
            if keep:
                out.append(ln)
    return "".join(out)


def edit(old, new, count=1):
    def f(root):
        p = os.path.join(root, OPER)
        s = open(p).read()
        assert s.count(old) == count, (old, s.count(old))
        open(p, "w").write(s.replace(old, new))
    return f


def patch(path):
    def f(root):
        d = diff_part(path)
        assert d, path
        subprocess.run(["patch", "-p1", "-s"], input=d, text=True, cwd=root, check=True)
    return f


SEEDED = os.path.join(VERIF, "seeded")
REF = os.path.join(VERIF, "notes", "refactors")
# name -> (what, change, expectation: "proves" | "fails")
CASES = {
    "control": ("unchanged source", lambda root: None, "proves"),
    "R6": ("notes/refactors/R6.diff (datetimeoper.py part)", patch(os.path.join(REF, "R6.diff")), "proves"),
    "S5": ("notes/refactors/S5.diff (datetimeoper.py part)", patch(os.path.join(REF, "S5.diff")), "proves"),
    "S3": ("notes/refactors/S3.diff (datetimeoper.py part)", patch(os.path.join(REF, "S3.diff")), "proves"),
    "C19-env-beats-calendar-option": ("seeded", patch(os.path.join(SEEDED, "C19-env-beats-calendar-option", "patch.diff")), "fails"),
    "C19-negative-alt-offset": ("seeded", patch(os.path.join(SEEDED, "C19-negative-alt-offset", "patch.diff")), "fails"),
    "C19-utc-after-shift": ("seeded", patch(os.path.join(SEEDED, "C19-utc-after-shift", "patch.diff")), "fails"),
    "C19-plain-valueerror-traceback": ("seeded (main.py only)", patch(os.path.join(SEEDED, "C19-plain-valueerror-traceback", "patch.diff")), "proves"),
    "B1": ("date_shift: the sign test inverted", edit('if sign == "-":', 'if sign != "-":'), "fails"),
    "B2": ("date_shift: catches nothing (OffsetValueError never raised)", edit("            except ValueError:\n                raise OffsetValueError(offset)", "            except KeyError:\n                raise OffsetValueError(offset)"), "fails"),
    "B3": ("date_shift: the prefix is kept", edit("                offset = offset[1:]\n", "                pass\n"), "fails"),
    "B4": ("date_diff: operands swapped in the comparison", edit("if time_point_2 < time_point_1:", "if time_point_1 < time_point_2:"), "fails"),
    "B5": ("date_parse: to_utc when NOT in utc mode", edit("        if self.utc_mode:\n            time_point = time_point.to_utc()", "        if not self.utc_mode:\n            time_point = time_point.to_utc()"), "fails"),
    "B6": ("date_parse: the ISO parser without dump_as_parsed", edit("                    dump_as_parsed=True)", "                    dump_as_parsed=False)"), "fails"),
    "B7": ("process_time_point_str: print format ignored", edit("        if print_format:\n            return self.date_format(print_format, time_point)\n        else:\n            return self.date_format(parse_format, time_point)", "        return self.date_format(parse_format, time_point)"), "fails"),
    "B8": ("process_time_point_str: only the first offset", edit("            for offset in offsets:\n                time_point = self.date_shift(time_point, offset)\n        if print_format:", "            for offset in offsets[:1]:\n                time_point = self.date_shift(time_point, offset)\n        if print_format:"), "fails"),
    "B9": ("date_format: the dumper also for strftime formats", edit('        if "%" in print_format:\n            return self.strftime(time_point, print_format)\n', ""), "fails"),
    "B10": ("strftime: no datetime fall-back", edit("        except ValueError:\n            return self.get_datetime_strftime(time_point, print_format)", "        except KeyError:\n            return self.get_datetime_strftime(time_point, print_format)"), "fails"),
    "B11": ("date_parse: stores the parsed point on self", edit("        return time_point, parse_format\n", "        self.last_point = time_point\n        return time_point, parse_format\n"), "fails"),
    "B12": ("PARSE_FORMATS: basic format tried before extended", edit('        "%Y-%m-%dT%H:%M:%S",       # ISO8601, extended\n        "%Y%m%dT%H%M%S",           # ISO8601, basic\n', '        "%Y%m%dT%H%M%S",           # ISO8601, basic\n        "%Y-%m-%dT%H:%M:%S",       # ISO8601, extended\n'), "proves-or-fails"),
    "B13": ("diff_time_point_strs: difference taken the other way round", edit("self.date_diff(time_point1, time_point2)", "self.date_diff(time_point2, time_point1)"), "fails"),
    "B14": ("__init__: the parser assumes UTC when NOT in utc mode", edit("        if self.utc_mode:\n            assumed_time_zone = (0, 0)\n        else:\n            assumed_time_zone = None", "        if self.utc_mode:\n            assumed_time_zone = None\n        else:\n            assumed_time_zone = (0, 0)"), "fails"),
    "B15": ("__init__: $ISODATETIMEREF beats the ref_point_str option", edit("        if ref_point_str is None:\n            self.ref_point_str = os.getenv(self.ENV_REF)\n        else:\n            self.ref_point_str = ref_point_str", "        self.ref_point_str = os.getenv(self.ENV_REF, ref_point_str)"), "fails"),
    "B16": ("set_calendar_mode does something else", edit("        Calendar.default().set_mode(calendar_mode)", "        Calendar.default().set_mode(calendar_mode or None)"), "fails"),
}


def sh(cmd, **kw):
    return subprocess.run(cmd, shell=True, capture_output=True, text=True, **kw)


def run_case(name):
    what, change, expect = CASES[name]
    for d in (SCR_REPO, SCR_COQ, SCR_GEN):
        shutil.rmtree(d, ignore_errors=True)
    os.makedirs(SCR_REPO)
    shutil.copytree(os.path.join(REPO, "metomi"), os.path.join(SCR_REPO, "metomi"))
    change(SCR_REPO)
    r = sh("PYTHONPATH=%s /venv/bin/python -c 'import metomi.isodatetime.datetimeoper, metomi.isodatetime.main'" % SCR_REPO, cwd="/tmp")
    if r.returncode:
        return name, what, expect, "DOES NOT IMPORT: " + r.stderr.strip().splitlines()[-1]
    os.makedirs(SCR_GEN)
    r = sh("ISO_REPO=%s VERIF_GEN_OUT=%s /venv/bin/python %s/translate_code11.py" % (SCR_REPO, SCR_GEN, HERE))
    tr_out = r.stdout.strip()
    sh("cp -as %s %s" % (BASE, SCR_COQ))
    for f in ("gen/GenCode11", "Proofs/GenCode11Ok", "Props/C19Code"):
        for ext in (".v", ".vo", ".vok", ".vos", ".glob"):
            p = os.path.join(SCR_COQ, f + ext)
            if os.path.lexists(p):
                os.remove(p)
    shutil.copy(os.path.join(SCR_GEN, "GenCode11.v"), os.path.join(SCR_COQ, "gen", "GenCode11.v"))
    for f in ("Proofs/GenCode11Ok.v", "Props/C19Code.v"):
        shutil.copy(os.path.join(BASE, f), os.path.join(SCR_COQ, f))
    same = open(os.path.join(SCR_GEN, "GenCode11.v")).read() == open(os.path.join(BASE, "gen", "GenCode11.v")).read()
    verdict = None
    for f in ("gen/GenCode11.v", "Proofs/GenCode11Ok.v", "Props/C19Code.v"):
        r = sh("ulimit -v 8000000; timeout 900 coqc -Q . Iso %s" % f, cwd=SCR_COQ)
        if r.returncode:
            err = r.stderr.strip()
            m = re.search(r'line (\d+)', err)
            where = ""
            if m:
                lines = open(os.path.join(SCR_COQ, f)).read().split("\n")[:int(m.group(1))]
                for ln in reversed(lines):
                    mm = re.match(r"\s*(Lemma|Theorem|Example|Definition)\s+(\w+)", ln)
                    if mm:
                        where = mm.group(2)
                        break
            verdict = "FAILS in %s at %s" % (f, where or "?")
            break
    if verdict is None:
        verdict = "PROVES" + (" (identical GenCode11.v)" if same else " (different GenCode11.v)")
    rej = [ln.strip() for ln in tr_out.splitlines() if "REJECTED" in ln]
    if rej:
        verdict += " | translator: " + "; ".join(rej)
    for d in (SCR_REPO, SCR_COQ, SCR_GEN):
        shutil.rmtree(d, ignore_errors=True)
    return name, what, expect, verdict


if __name__ == "__main__":
    names = sys.argv[1:] or list(CASES)
    bad = 0
    for n in names:
        name, what, expect, verdict = run_case(n)
        ok = (expect == "proves-or-fails" or (expect == "proves") == verdict.startswith("PROVES"))
        bad += 0 if ok else 1
        print("%-32s %-8s %s   [%s]%s" % (name, expect, verdict, what, "" if ok else "   <-- NOT AS REQUIRED"), flush=True)
    print("%d of %d as required" % (len(names) - bad, len(names)))
