#!/venv/bin/python
"""GenCode5.v generator: the method BODIES of class TimeRecurrence -> Gallina (fail closed).

Phase 5 of GenCode (see notes/GENCODE5_REPORT.md).  The methods of class
TimeRecurrence (data.py) are translated over an explicit object-state record

    Record pyRec P D := { s_repetitions : option Z; s_start_point : option P;
        s_duration : option D; s_end_point : option P; s_second_point : slot P;
        s_format_number : option Z; s_min_point s_max_point : option P }

(one field per entry of TimeRecurrence.__slots__; `slot` = may be unassigned:
__init__ leaves _second_point unassigned in formats 3 and 4) into an exception
monad `exc A := Ret a | Raise e | NoFuel`.  The TimePoint and Duration
operations the code calls are NOT translated: they are the fields of the
record `rec_ops P D PK DK` over an abstract point type P, duration type D and
hash-key types PK, DK; coq/Proofs/GenCode5Ok.v instantiates them with the
model's tp_add, tp_cmp, dur_mul ... and proves every translated method equal to
the hand-written model function of coq/Model/Recurrence.v / RecText.v.

Generators (__iter__) become values of `trace Y X` (the yielded values, then
how the generator ended: returned / raised / out of fuel); every `while` is a
fuelled combinator (py_while / gen_while), one unit of fuel per iteration.

Accepted subset: see the report.  Anything else raises Reject and the entry
point becomes a dummy with translator_ok_code5 := false.
"""
import ast
import os
import sys

sys.path.insert(0, os.path.dirname(os.path.abspath(__file__)))
import translate  # noqa: E402
from translate import Reject, write_if_changed, coq_str  # noqa: E402
import translate_code  # noqa: E402,F401  (redirects translate.OUT for VERIF_GEN_OUT)
from translate_code import zlit, clean  # noqa: E402

SRC = os.path.join(translate.REPO, "metomi", "isodatetime")
CLS = "TimeRecurrence"

Z, Q, B, S, P, D, PK, DK, REC, NONE = "Z", "Q", "B", "S", "P", "D", "PK", "DK", "REC", "NONE"
EXN = "EXN"      # an exception instance (only its class is modelled)
OPAQUE = ("OPAQUE",)   # a parameter whose value is only used in untranslated exception arguments


def OPT(t):
    return ("OPT", t)


def T(*ts):
    return ("T", tuple(ts))


# the object state; kind "slot" = may be unassigned after __init__
SLOTS = [("_repetitions", Z, "opt"), ("_start_point", P, "opt"), ("_duration", D, "opt"),
         ("_end_point", P, "opt"), ("_second_point", P, "slot"), ("_format_number", Z, "opt"),
         ("_min_point", P, "opt"), ("_max_point", P, "opt")]
SLOT_TY = {s: t for s, t, _ in SLOTS}
SLOT_KIND = {s: k for s, _, k in SLOTS}
INIT_PARAMS = [("repetitions", OPT(Z)), ("start_point", OPT(P)), ("duration", OPT(D)),
               ("end_point", OPT(P)), ("min_point", OPT(P)), ("max_point", OPT(P))]
INIT_TYPECHECK = {"repetitions": {"None", "int"}, "start_point": {"None", "TimePoint"},
                  "duration": {"None", "Duration"}, "end_point": {"None", "TimePoint"},
                  "min_point": {"None", "TimePoint"}, "max_point": {"None", "TimePoint"}}
# declared parameter types of the entry points (others: from the first call)
SIGS = {"get_is_valid": [P], "get_next": [OPT(P)], "get_prev": [OPT(P)], "get_first_after": [P],
        "__getitem__": [Z], "_get_is_in_bounds": [OPT(P)], "__iter__": [], "__hash__": [],
        "__eq__": [REC], "__add__": [D], "__sub__": [D], "__str__": []}
EXNS = ["TypeError", "ValueError", "AttributeError", "IndexError", "ZeroDivisionError",
        "UnboundLocalError", "BadInputError"]

# the abstract operations: (field, Coq type, what it stands for)
OPS = [
    ("P_add", "P -> D -> exc P", "TimePoint + Duration"),
    ("P_sub_dur", "P -> D -> exc P", "TimePoint - Duration"),
    ("P_sub", "P -> P -> exc D", "TimePoint - TimePoint"),
    ("P_eq", "P -> P -> exc bool", "TimePoint == TimePoint"),
    ("P_lt", "P -> P -> exc bool", "TimePoint < TimePoint"),
    ("P_le", "P -> P -> exc bool", "TimePoint <= TimePoint"),
    ("P_gt", "P -> P -> exc bool", "TimePoint > TimePoint"),
    ("P_ge", "P -> P -> exc bool", "TimePoint >= TimePoint"),
    ("P_hash", "P -> exc PK", "the key hash(TimePoint) hashes"),
    ("P_str", "P -> exc string", "str(TimePoint)"),
    ("D_mul", "D -> Z -> exc D", "Duration * int"),
    ("D_rmul", "D -> Z -> exc D", "int * Duration (Duration.__rmul__)"),
    ("D_sub", "D -> D -> exc D", "Duration - Duration"),
    ("D_eq", "D -> D -> exc bool", "Duration == Duration"),
    ("D_lt", "D -> D -> exc bool", "Duration < Duration"),
    ("D_bool", "D -> exc bool", "bool(Duration)"),
    ("D_is_exact", "D -> exc bool", "Duration.is_exact()"),
    ("D_get_seconds", "D -> exc Q", "Duration.get_seconds()"),
    ("D_of_years", "Z -> exc D", "Duration(years=n)"),
    ("D_of_seconds", "Z -> exc D", "Duration(seconds=n), n an int"),
    ("D_hash", "D -> exc DK", "the key hash(Duration) hashes"),
    ("D_str", "D -> exc string", "str(Duration)"),
    ("Z_str", "Z -> exc string", "str(int)"),
]


def fld(slot):
    return "s" + slot


def setter(slot):
    return "set" + slot


def is_opt(t):
    return isinstance(t, tuple) and t[0] == "OPT"


def is_tuple(t):
    return isinstance(t, tuple) and t[0] == "T"


def is_static(t):
    return isinstance(t, tuple) and t[0] in ("SSTR", "SLIST", "DICT", "TYSPEC", "TRACE", "OPAQUE")


def base(t):
    return t[1] if is_opt(t) else t


def coq_type(t):
    simple = {Z: "Z", Q: "Q", B: "bool", S: "string", P: "P", D: "D", PK: "PK", DK: "DK",
              REC: "(pyRec P D)", NONE: "unit", EXN: "pyexn"}
    if isinstance(t, str) and t in simple:
        return simple[t]
    if is_opt(t):
        return "(option %s)" % coq_type(t[1])
    if is_tuple(t):
        return "(" + " * ".join(coq_type(x) for x in t[1]) + ")"
    if t is None:
        return "_"
    raise Reject("no Coq type for %r" % (t,))


def join(a, b):
    if a is None:
        return b
    if b is None:
        return a
    if a == b:
        return a
    if {a, b} == {Z, Q}:
        return Q
    if is_static(a) or is_static(b):
        raise Reject("no common type for %r and %r" % (a, b))
    if a == NONE:
        return b if is_opt(b) else OPT(b)
    if b == NONE:
        return a if is_opt(a) else OPT(a)
    if is_opt(a) or is_opt(b):
        return OPT(join(base(a), base(b)))
    if is_tuple(a) and is_tuple(b) and len(a[1]) == len(b[1]):
        return T(*[join(x, y) for x, y in zip(a[1], b[1])])
    raise Reject("no common type for %r and %r" % (a, b))


class Val:
    def __init__(self, text, ty, static=None, sstr=None, parts=None):
        self.text = text
        self.ty = ty
        self.static = static      # statically known truth value
        self.sstr = sstr          # statically known Python string
        self.parts = parts


def coerce(v, to):
    if v.ty == to or to is None:
        return v
    if to == Q and v.ty == Z:
        return Val("(inject_Z %s)" % v.text, Q)
    if to == NONE:
        raise Reject("cannot use a %r where None is expected" % (v.ty,))
    if is_opt(to):
        if v.ty == NONE:
            return Val("None", to)
        if is_opt(v.ty):
            if v.ty[1] == to[1]:
                return v
            inner = coerce(Val("x_", v.ty[1]), to[1])
            return Val("(option_map (fun x_ => %s) %s)" % (inner.text, v.text), to)
        return Val("(Some %s)" % coerce(v, to[1]).text, to)
    if is_tuple(to) and is_tuple(v.ty) and len(to[1]) == len(v.ty[1]) and v.parts is not None:
        ps = [coerce(p, t) for p, t in zip(v.parts, to[1])]
        return Val("(" + ", ".join(p.text for p in ps) + ")", to, parts=ps)
    raise Reject("cannot use a %r where a %r is expected" % (v.ty, to))


def opt_text(v):
    """Text of type `option (base type)`."""
    if v.ty == NONE:
        return "None"
    if is_opt(v.ty):
        return v.text
    return "(Some %s)" % v.text


class Env:
    def __init__(self):
        self.ty = {}          # definitely bound local -> type
        self.maybe = set()    # locals bound on some paths only: reading them is rejected
        self.dict = {}        # local of DICT type -> {key: Val}
        self.assigned = None  # __init__ only: slots of self assigned so far

    def copy(self):
        e = Env()
        e.ty, e.maybe, e.dict, e.assigned = dict(self.ty), set(self.maybe), \
            {k: dict(v) for k, v in self.dict.items()}, self.assigned
        return e

    def drop(self, name):
        self.ty.pop(name, None)
        self.dict.pop(name, None)
        self.maybe.discard(name)


def assigned_names(stmts):
    out = []

    def add(t):
        if isinstance(t, ast.Name):
            if t.id not in out:
                out.append(t.id)
        elif isinstance(t, (ast.Tuple, ast.List)):
            for e in t.elts:
                add(e)
        elif isinstance(t, (ast.Attribute, ast.Subscript)) and isinstance(t.value, ast.Name):
            add(t.value)
        else:
            raise Reject("store to %s" % type(t).__name__)

    def walk(ss):
        for s in ss:
            if isinstance(s, ast.Assign):
                for t in s.targets:
                    add(t)
            elif isinstance(s, ast.AugAssign):
                add(s.target)
            elif isinstance(s, ast.If):
                walk(s.body)
                walk(s.orelse)
            elif isinstance(s, (ast.For, ast.While)):
                if isinstance(s, ast.For):
                    add(s.target)
                walk(s.body)
                walk(s.orelse)
            elif isinstance(s, (ast.Return, ast.Pass, ast.Raise, ast.Expr, ast.Break, ast.Continue)):
                pass
            else:
                raise Reject("statement %s" % type(s).__name__)
    walk(stmts)
    return out


def contains(stmts, kinds):
    return any(isinstance(n, kinds) for s in stmts for n in ast.walk(s))


class Fn:
    def __init__(self, name, ctor=False, gen=False):
        self.name = name
        self.ctor = ctor
        self.gen = gen
        self.ret = None
        self.ret_expect = None
        self.yld = None
        self.yld_expect = None
        self.fuel = False
        self.n = 0
        self.top = ()
        self.params = []
        self.locals = set()
        self.final = False
        self.cur_assigned = None

    def fresh(self, p="t"):
        self.n += 1
        return "%s%d" % (p, self.n)


class Cx:
    """How control leaves the block being translated."""

    def __init__(self, fx, retw, mty, brk=None, cont=None):
        self.fx = fx
        self.retw = retw      # text of a (coerced) value -> text of `return value` at this nesting
        self.mty = mty        # Coq type of the computation at this nesting
        self.brk = brk        # env -> text, or None outside loops
        self.cont = cont

    @property
    def gen(self):
        return self.fx.gen

    def pure(self, text):
        return ("TRet " if self.gen else "Ret ") + text

    def raise_(self, exn):
        return ("TRaise " if self.gen else "Raise ") + exn

    @property
    def bindsym(self):
        return "<--" if self.gen else "<-"


class ClassUnit:
    def __init__(self):
        with open(os.path.join(SRC, "data.py")) as fh:
            self.tree = ast.parse(fh.read())
        self.check_module()
        self.cls = None
        for node in self.tree.body:
            if isinstance(node, ast.ClassDef) and node.name == CLS:
                if self.cls is not None:
                    raise Reject("class %s defined twice" % CLS)
                self.cls = node
        if self.cls is None:
            raise Reject("class %s not found" % CLS)
        if self.cls.bases or self.cls.keywords or self.cls.decorator_list:
            raise Reject("class %s has bases/decorators" % CLS)
        self.methods = {}
        self.slots = None
        for st in self.cls.body:
            if isinstance(st, ast.FunctionDef):
                self.methods[st.name] = None if st.name in self.methods else st
            elif isinstance(st, ast.Assign):
                for t in st.targets:
                    if isinstance(t, ast.Name) and t.id == "__slots__":
                        if not (isinstance(st.value, (ast.List, ast.Tuple)) and all(
                                isinstance(e, ast.Constant) and isinstance(e.value, str)
                                for e in st.value.elts)):
                            raise Reject("__slots__ is not a list of string constants")
                        if self.slots is not None:
                            raise Reject("__slots__ assigned twice")
                        self.slots = [e.value for e in st.value.elts]
                    else:
                        raise Reject("class-level assignment to %s" % ast.unparse(t))
            elif isinstance(st, ast.Expr) and isinstance(st.value, ast.Constant):
                pass
            else:
                raise Reject("class body statement %s" % type(st).__name__)
        for bad in ("__getattr__", "__getattribute__", "__setattr__", "__delattr__", "__new__",
                    "__init_subclass__", "__class_getitem__", "__ne__", "__bool__", "__len__"):
            if bad in self.methods:
                raise Reject("class defines %s" % bad)
        if sorted(self.slots or []) != sorted(s for s, _, _ in SLOTS):
            raise Reject("TimeRecurrence.__slots__ is %r, the state record is %r"
                         % (self.slots, [s for s, _, _ in SLOTS]))
        self.done = {}
        self.busy = set()
        self.order = []
        self.used = set()

    def check_module(self):
        """The module-level names the translation gives a fixed meaning to."""
        defs = {}
        for node in self.tree.body:
            if isinstance(node, (ast.ClassDef, ast.FunctionDef)):
                defs.setdefault(node.name, []).append("def")
            elif isinstance(node, ast.ImportFrom):
                for a in node.names:
                    defs.setdefault(a.asname or a.name, []).append("from %s import %s" % (node.module, a.name))
            elif isinstance(node, ast.Import):
                for a in node.names:
                    defs.setdefault(a.asname or a.name, []).append("import " + a.name)
            elif isinstance(node, (ast.Assign, ast.AugAssign, ast.AnnAssign)):
                for n in ast.walk(node):
                    if isinstance(n, ast.Name) and isinstance(n.ctx, ast.Store):
                        defs.setdefault(n.id, []).append("assign")
        want = {"Duration": ["def"], "TimePoint": ["def"], CLS: ["def"], "_type_checker": ["def"],
                "BadInputError": ["from exceptions import BadInputError"]}
        self.defs = defs     # `floor` / `math.floor` are resolved where they are called
        for nm, w in want.items():
            if defs.get(nm) != w:
                raise Reject("module-level name %s is bound by %r, expected %r" % (nm, defs.get(nm), w))
        for nm in ("str", "isinstance", "getattr", "hash", "divmod", "enumerate", "any", "all",
                   "TypeError", "IndexError", "ValueError", "AttributeError", "ZeroDivisionError",
                   "UnboundLocalError", "staticmethod", "property"):
            if nm in defs:
                raise Reject("builtin %s is rebound at module level" % nm)

    # ------------------------------------------------------------ helpers
    def op(self, name):
        self.used.add(name)
        return "%s ops" % name

    def bind(self, fx, binds, text, ty):
        t = fx.fresh()
        binds.append((t, text))
        return Val(t, ty)

    @staticmethod
    def wrap(binds, tail):
        return "".join("%s <- %s ;; " % b for b in binds) + tail

    def num(self, v, fx, binds, what):
        if v.ty in (Z, Q):
            return v
        if is_opt(v.ty) and v.ty[1] in (Z, Q):
            return self.bind(fx, binds, "need %s" % v.text, v.ty[1])
        if v.ty == NONE:
            return self.bind(fx, binds, "(Raise TypeError : exc Z)", Z)
        raise Reject("%s on a %r" % (what, v.ty))

    # ------------------------------------------------------------ expressions
    def expr(self, n, env, fx):
        """-> (binds, Val); binds = [(name, exc-monad text)] in Python evaluation order."""
        if isinstance(n, ast.Constant):
            v = n.value
            if v is True:
                return [], Val("true", B, static=True)
            if v is False:
                return [], Val("false", B, static=False)
            if v is None:
                return [], Val("tt", NONE, static=False)
            if type(v) is int:
                return [], Val(zlit(v), Z)
            if isinstance(v, str):
                return [], Val(coq_str(v) + "%string", S, sstr=v)
            raise Reject("constant %r" % (v,))
        if isinstance(n, ast.Name):
            return [], self.name(n.id, env, fx)
        if isinstance(n, ast.UnaryOp):
            if isinstance(n.op, ast.USub):
                if isinstance(n.operand, ast.Constant) and type(n.operand.value) is int:
                    return [], Val(zlit(-n.operand.value), Z)
                binds, v = self.expr(n.operand, env, fx)
                v = self.num(v, fx, binds, "unary minus")
                return binds, (Val("(- %s)" % v.text, Z) if v.ty == Z else Val("(- %s)%%Q" % v.text, Q))
            if isinstance(n.op, ast.Not):
                binds, t, c = self.test(n.operand, env, fx)
                if c is not None:
                    return [], Val("false" if c else "true", B, static=(not c))
                return binds, Val("(negb %s)" % t, B)
            raise Reject("unary operator %s" % type(n.op).__name__)
        if isinstance(n, ast.BinOp):
            return self.binop(n, env, fx)
        if isinstance(n, ast.Compare):
            return self.compare(n, env, fx)
        if isinstance(n, ast.BoolOp):
            ops = []
            for v in n.values:
                b, val = self.expr(v, env, fx)
                if val.ty != B:
                    raise Reject("and/or of a non-bool outside test position")
                ops.append((b, val.text, val.static))
            binds, t, c = self.shortcut(ops, isinstance(n.op, ast.And), fx)
            return binds, Val(t, B, static=c)
        if isinstance(n, ast.IfExp):
            cb, c, k = self.test(n.test, env, fx)
            if k is not None:
                return self.expr(n.body if k else n.orelse, env, fx)
            ab, a = self.expr(n.body, env, fx)
            bb, b = self.expr(n.orelse, env, fx)
            ty = join(a.ty, b.ty)
            a, b = coerce(a, ty), coerce(b, ty)
            if not ab and not bb:
                return cb, Val("(if %s then %s else %s)" % (c, a.text, b.text), ty)
            return cb, self.bind(fx, cb, "(if %s then %s else %s)" % (
                c, self.wrap(ab, "Ret " + a.text), self.wrap(bb, "Ret " + b.text)), ty)
        if isinstance(n, ast.Tuple):
            if len(n.elts) < 2:
                raise Reject("tuple of fewer than two elements")
            binds, parts = [], []
            for e in n.elts:
                b, v = self.expr(e, env, fx)
                if is_static(v.ty) or v.ty == REC:
                    raise Reject("tuple component of type %r" % (v.ty,))
                binds += b
                parts.append(v)
            return binds, Val("(" + ", ".join(p.text for p in parts) + ")",
                              T(*[p.ty for p in parts]), parts=parts)
        if isinstance(n, ast.Attribute):
            return self.attribute(n, env, fx)
        if isinstance(n, ast.Subscript):
            if isinstance(n.value, ast.Name) and n.value.id in env.dict \
                    and isinstance(n.slice, ast.Constant) and isinstance(n.slice.value, str):
                d = env.dict[n.value.id]
                if n.slice.value not in d:
                    raise Reject("%s[%r]: the key is not (definitely) present" % (n.value.id, n.slice.value))
                return [], d[n.slice.value]
            raise Reject("subscript %s" % ast.unparse(n))
        if isinstance(n, ast.Call):
            return self.call(n, env, fx)
        raise Reject("expression %s" % type(n).__name__)

    def name(self, nm, env, fx):
        if nm in env.maybe:
            raise Reject("local %s is bound on some paths only" % nm)
        if nm in env.ty:
            ty = env.ty[nm]
            if ty == NONE:
                return Val("tt", NONE, static=False)
            if isinstance(ty, tuple) and ty[0] == "SSTR":
                return Val(coq_str(ty[1]) + "%string", S, sstr=ty[1])
            if is_static(ty):
                return Val(None, ty)
            return Val("v_" + nm, ty)
        raise Reject("name %s is not a (definitely) bound local" % nm)

    def shortcut(self, ops, is_and, fx):
        kept = []
        for b, t, c in ops:
            if c is not None:
                if c == (not is_and):
                    if not kept:
                        return [], t, c
                    kept.append((b, t))
                    break
                continue
            kept.append((b, t))
        if not kept:
            return [], ("true" if is_and else "false"), is_and
        if len(kept) == 1:
            return kept[0][0], kept[0][1], None
        sym = " && " if is_and else " || "
        if not any(b for b, _ in kept[1:]):
            return list(kept[0][0]), "(" + sym.join(t for _, t in kept) + ")", None

        def build(i):
            b, t = kept[i]
            if i == len(kept) - 1:
                return self.wrap(b, "Ret " + t)
            if not any(bb for bb, _ in kept[i + 1:]):
                return self.wrap(b, "Ret (" + sym.join(tt for _, tt in kept[i:]) + ")")
            if is_and:
                return self.wrap(b, "(if %s then %s else Ret false)" % (t, build(i + 1)))
            return self.wrap(b, "(if %s then Ret true else %s)" % (t, build(i + 1)))
        first_b, first_t = kept[0]
        binds = list(first_b)
        tmp = fx.fresh()
        if is_and:
            binds.append((tmp, "(if %s then %s else Ret false)" % (first_t, build(1))))
        else:
            binds.append((tmp, "(if %s then Ret true else %s)" % (first_t, build(1))))
        return binds, tmp, None

    def test(self, n, env, fx):
        """An expression in truth-value position -> (binds, bool text, static value)."""
        if isinstance(n, ast.BoolOp):
            ops = [self.test(v, env, fx) for v in n.values]
            return self.shortcut(ops, isinstance(n.op, ast.And), fx)
        if isinstance(n, ast.UnaryOp) and isinstance(n.op, ast.Not):
            b, t, c = self.test(n.operand, env, fx)
            if c is not None:
                return [], ("false" if c else "true"), (not c)
            return b, "(negb %s)" % t, None
        b, v = self.expr(n, env, fx)
        t, c = self.truth(v, fx, b)
        return b, t, c

    def truth(self, v, fx, binds):
        if v.ty == B:
            return v.text, v.static
        if v.ty == NONE:
            return "false", False
        if v.ty == Z:
            return "(negb (%s =? 0))" % v.text, None
        if v.ty == OPT(Z):
            return "(match %s with Some z_ => negb (z_ =? 0) | None => false end)" % v.text, None
        if v.ty == D:
            return self.bind(fx, binds, "%s %s" % (self.op("D_bool"), v.text), B).text, None
        if v.ty == OPT(D):
            return self.bind(fx, binds, "truthy_o (%s) %s" % (self.op("D_bool"), v.text), B).text, None
        if v.ty == S:
            return "(negb (String.eqb %s EmptyString))" % v.text, None
        raise Reject("truth value of %r" % (v.ty,))

    # -- arithmetic and the operators of TimePoint / Duration
    def op2(self, fx, binds, opname, e1, e2, a, b, rty):
        """a `op` b through the abstract operation; a None operand raises e1 (left) / e2 (right)."""
        if not is_opt(a.ty) and not is_opt(b.ty) and NONE not in (a.ty, b.ty):
            return self.bind(fx, binds, "%s %s %s" % (self.op(opname), a.text, b.text), rty)
        return self.bind(fx, binds, "lift2 (%s) %s %s %s %s" % (
            self.op(opname), e1, e2, opt_text(a), opt_text(b)), rty)

    def binop(self, n, env, fx):
        ab, a = self.expr(n.left, env, fx)
        bb, b = self.expr(n.right, env, fx)
        binds = ab + bb
        op = type(n.op)
        ta, tb = base(a.ty), base(b.ty)
        if is_static(a.ty) or is_static(b.ty):
            raise Reject("operator %s on %r, %r" % (op.__name__, a.ty, b.ty))
        if ta == S and tb == S and op is ast.Add and not is_opt(a.ty) and not is_opt(b.ty):
            return binds, Val("(%s ++ %s)%%string" % (a.text, b.text), S)
        if ta == REC and a.ty == REC and b.ty == D and op in (ast.Add, ast.Sub):
            return binds, self.method_call("__add__" if op is ast.Add else "__sub__", a, [b], fx, binds)
        if ta == P and op is ast.Add and tb in (D, NONE):
            return binds, self.op2(fx, binds, "P_add", "TypeError", "ValueError", a, b, P)
        if ta == P and op is ast.Sub and tb == D:
            return binds, self.op2(fx, binds, "P_sub_dur", "TypeError", "TypeError", a, b, P)
        if ta == P and op is ast.Sub and tb == P:
            return binds, self.op2(fx, binds, "P_sub", "TypeError", "TypeError", a, b, D)
        if ta == P and op is ast.Sub and tb == NONE:
            return binds, self.bind(fx, binds, "(Raise TypeError : exc P)", P)
        if ta == D and op is ast.Sub and tb == D:
            return binds, self.op2(fx, binds, "D_sub", "TypeError", "TypeError", a, b, D)
        if ta == D and op is ast.Mult and tb in (Z, NONE):
            zb = self.num(b, fx, binds, "Duration * int")
            return binds, self.op2(fx, binds, "D_mul", "TypeError", "TypeError", a, zb, D)
        if ta in (Z, NONE) and op is ast.Mult and tb == D:
            za = self.num(a, fx, binds, "int * Duration")
            return binds, self.op2(fx, binds, "D_rmul", "TypeError", "TypeError", b, za, D)
        if ta in (Z, Q, NONE) and tb in (Z, Q, NONE) and op in (ast.Add, ast.Sub, ast.Mult):
            what = "operator " + op.__name__
            x = self.num(a, fx, binds, what)
            y = self.num(b, fx, binds, what)
            sym = {ast.Add: "+", ast.Sub: "-", ast.Mult: "*"}[op]
            if x.ty == Z and y.ty == Z:
                return binds, Val("(%s %s %s)" % (x.text, sym, y.text), Z)
            return binds, Val("(%s %s %s)%%Q" % (coerce(x, Q).text, sym, coerce(y, Q).text), Q)
        raise Reject("operator %s on %r, %r" % (op.__name__, a.ty, b.ty))

    # -- comparison
    def eq_val(self, a, b, fx, binds):
        """Python a == b -> Val of type B."""
        if is_static(a.ty) or is_static(b.ty) or REC in (a.ty, b.ty):
            raise Reject("== between %r and %r" % (a.ty, b.ty))
        if a.ty == NONE and b.ty == NONE:
            return Val("true", B, static=True)
        if NONE in (a.ty, b.ty):
            o = b if a.ty == NONE else a
            if is_opt(o.ty):
                return Val("(is_none %s)" % o.text, B)
            return Val("false", B, static=False)     # an object/number is never equal to None
        ta, tb = base(a.ty), base(b.ty)
        anyopt = is_opt(a.ty) or is_opt(b.ty)
        if ta in (Z, Q) and tb in (Z, Q):
            f = "Z.eqb" if (ta == Z and tb == Z) else "Qeq_bool"
            tt = Z if f == "Z.eqb" else Q
            if anyopt:
                return Val("(opt_eqb %s %s %s)" % (f, coerce(a, OPT(tt)).text, coerce(b, OPT(tt)).text), B)
            return Val("(%s %s %s)" % (f, coerce(a, tt).text, coerce(b, tt).text), B)
        if ta == tb and ta in (B, S):
            f = "Bool.eqb" if ta == B else "String.eqb"
            if anyopt:
                return Val("(opt_eqb %s %s %s)" % (f, opt_text(a), opt_text(b)), B)
            return Val("(%s %s %s)" % (f, a.text, b.text), B)
        if ta == tb and ta in (P, D):
            opn = "P_eq" if ta == P else "D_eq"
            if anyopt:
                return self.bind(fx, binds, "eq_o (%s) %s %s" % (self.op(opn), opt_text(a), opt_text(b)), B)
            return self.bind(fx, binds, "%s %s %s" % (self.op(opn), a.text, b.text), B)
        if is_tuple(a.ty) or is_tuple(b.ty):
            raise Reject("== on tuples")
        if (ta in (P, D) or tb in (P, D)) and ta != tb and {ta, tb} <= {P, D, Z, Q, B, S}:
            # a TimePoint / Duration against another class: both __eq__ return NotImplemented,
            # Python falls back to identity of distinct objects
            return Val("false", B, static=False)
        raise Reject("== between %r and %r" % (a.ty, b.ty))

    def compare(self, n, env, fx):
        if len(n.ops) != 1:
            raise Reject("chained comparison")
        op = type(n.ops[0])
        ab, a = self.expr(n.left, env, fx)
        bb, b = self.expr(n.comparators[0], env, fx)
        binds = ab + bb
        if op in (ast.Is, ast.IsNot):
            if b.ty != NONE:
                raise Reject("`is` with something other than None")
            if a.ty == NONE:
                r = True
            elif is_opt(a.ty):
                t = "(is_none %s)" % a.text
                return binds, Val(t if op is ast.Is else "(negb %s)" % t, B)
            elif is_static(a.ty):
                raise Reject("`is None` on a %r" % (a.ty,))
            else:
                r = False
            r = r == (op is ast.Is)
            return binds, Val("true" if r else "false", B, static=r)
        if op in (ast.Eq, ast.NotEq):
            v = self.eq_val(a, b, fx, binds)
            if v.static is not None:
                c = v.static == (op is ast.Eq)
                return binds, Val("true" if c else "false", B, static=c)
            return binds, (v if op is ast.Eq else Val("(negb %s)" % v.text, B))
        if op in (ast.Lt, ast.LtE, ast.Gt, ast.GtE):
            ta, tb = base(a.ty), base(b.ty)
            if ta in (Z, Q, NONE) and tb in (Z, Q, NONE) and not (ta == NONE and tb == NONE):
                x = self.num(a, fx, binds, "ordering")
                y = self.num(b, fx, binds, "ordering")
                if x.ty == Z and y.ty == Z:
                    f = {ast.Lt: "(%s <? %s)", ast.LtE: "(%s <=? %s)"}
                    if op in f:
                        return binds, Val(f[op] % (x.text, y.text), B)
                    return binds, Val({ast.Gt: "(%s <? %s)", ast.GtE: "(%s <=? %s)"}[op] % (y.text, x.text), B)
                xq, yq = coerce(x, Q).text, coerce(y, Q).text
                t = {ast.Lt: "(Qlt_bool %s %s)" % (xq, yq), ast.LtE: "(Qle_bool %s %s)" % (xq, yq),
                     ast.Gt: "(Qlt_bool %s %s)" % (yq, xq), ast.GtE: "(Qle_bool %s %s)" % (yq, xq)}[op]
                return binds, Val(t, B)
            if ta == P and tb in (P, NONE) or ta == NONE and tb == P:
                opn = {ast.Lt: "P_lt", ast.LtE: "P_le", ast.Gt: "P_gt", ast.GtE: "P_ge"}[op]
                return binds, self.op2(fx, binds, opn, "TypeError", "TypeError", a, b, B)
            if ta == D and tb in (D, NONE) and op is ast.Lt:
                return binds, self.op2(fx, binds, "D_lt", "TypeError", "TypeError", a, b, B)
            raise Reject("ordering %s between %r and %r" % (op.__name__, a.ty, b.ty))
        raise Reject("comparison operator %s" % op.__name__)

    # -- attributes
    def attribute(self, n, env, fx):
        if isinstance(n.value, ast.Name) and env.ty.get(n.value.id) == REC and n.value.id not in env.maybe:
            obj = n.value.id
            if n.attr in SLOT_TY:
                return self.slot_read(obj, n.attr, env, fx)
            node = self.methods.get(n.attr)
            if node is not None and any(isinstance(d, ast.Name) and d.id == "property"
                                        for d in node.decorator_list):
                binds = []
                return binds, self.method_call(n.attr, Val("v_" + obj, REC), [], fx, binds)
            raise Reject("attribute %s of a TimeRecurrence is neither a slot nor a property" % n.attr)
        raise Reject("attribute %s" % ast.unparse(n))

    def slot_read(self, obj, slot, env, fx):
        if slot not in SLOT_TY:
            raise Reject("attribute %s of a TimeRecurrence is not a slot" % slot)
        ctor_self = fx.ctor and obj == "self"
        if SLOT_KIND[slot] == "slot":
            binds = []
            v = self.bind(fx, binds, "need_attr (%s v_%s)" % (fld(slot), obj), OPT(SLOT_TY[slot]))
            return binds, v
        if ctor_self and slot not in env.assigned:
            raise Reject("slot %s of self read in __init__ before it is assigned" % slot)
        return [], Val("(%s v_%s)" % (fld(slot), obj), OPT(SLOT_TY[slot]))

    # -- calls
    def str_of(self, v, fx, binds):
        if v.ty == S:
            return v
        if v.ty == NONE:
            return Val('"None"%string', S)
        t = base(v.ty)
        opn = {Z: "Z_str", P: "P_str", D: "D_str"}.get(t)
        if opn is None:
            raise Reject("str() of a %r" % (v.ty,))
        if is_opt(v.ty):
            return self.bind(fx, binds, "str_o (%s) %s" % (self.op(opn), v.text), S)
        return self.bind(fx, binds, "%s %s" % (self.op(opn), v.text), S)

    def hash_key(self, v, fx, binds):
        """The key Python's hash() of this value depends on."""
        t = base(v.ty)
        if v.ty == NONE or t in (Z, B, S):
            return v
        if t in (P, D):
            opn, kt = ("P_hash", PK) if t == P else ("D_hash", DK)
            if is_opt(v.ty):
                return self.bind(fx, binds, "map_o (%s) %s" % (self.op(opn), v.text), OPT(kt))
            return self.bind(fx, binds, "%s %s" % (self.op(opn), v.text), kt)
        raise Reject("hash() of a %r" % (v.ty,))

    def static_str(self, n, env, fx):
        _, v = self.expr(n, env, fx)
        if v.sstr is None:
            raise Reject("attribute name `%s` is not a static string" % ast.unparse(n))
        return v.sstr

    def static_items(self, it, env, fx):
        if isinstance(it, (ast.List, ast.Tuple)) and it.elts and all(
                isinstance(e, ast.Constant) and isinstance(e.value, str) for e in it.elts):
            return [e.value for e in it.elts]
        if ast.unparse(it) in ("self.__slots__", "other.__slots__"):
            return list(self.slots)
        raise Reject("iteration over `%s`, not a static list of strings" % ast.unparse(it)[:60])

    def call(self, n, env, fx):
        f = n.func
        if isinstance(f, ast.Name):
            if f.id in env.ty or f.id in env.maybe or f.id in fx.locals:
                raise Reject("call of a local")
            if f.id == "isinstance" and len(n.args) == 2 and not n.keywords:
                _, v = self.expr(n.args[0], env, fx)
                cls = ast.unparse(n.args[1])
                known = {CLS: REC, "Duration": D, "TimePoint": P, "int": Z, "str": S}
                if cls not in known or is_opt(v.ty) or v.ty == NONE or is_static(v.ty) or v.ty not in known.values():
                    raise Reject("isinstance(%r, %s)" % (v.ty, cls))
                r = known[cls] == v.ty
                return [], Val("true" if r else "false", B, static=r)
            if f.id == "getattr" and len(n.args) == 2 and not n.keywords:
                if not (isinstance(n.args[0], ast.Name) and env.ty.get(n.args[0].id) == REC):
                    raise Reject("getattr on something other than a TimeRecurrence local")
                return self.slot_read(n.args[0].id, self.static_str(n.args[1], env, fx), env, fx)
            if f.id == "str" and len(n.args) == 1 and not n.keywords:
                binds, v = self.expr(n.args[0], env, fx)
                return binds, self.str_of(v, fx, binds)
            if f.id in EXNS:
                # an exception instance: its class only (the arguments - message construction - are not translated)
                return [], Val(f.id, EXN)
            if f.id == "floor" and len(n.args) == 1 and not n.keywords:
                if self.defs.get("floor") != ["from math import floor"]:
                    raise Reject("floor is bound by %r, not by `from math import floor`" % self.defs.get("floor"))
                binds, v = self.expr(n.args[0], env, fx)
                v = self.num(v, fx, binds, "floor()")
                return binds, (v if v.ty == Z else Val("(Qfloor %s)" % v.text, Z))
            if f.id == "divmod" and len(n.args) == 2 and not n.keywords:
                ab, a = self.expr(n.args[0], env, fx)
                bb, b = self.expr(n.args[1], env, fx)
                binds = ab + bb
                a = self.num(a, fx, binds, "divmod")
                b = self.num(b, fx, binds, "divmod")
                if a.ty == Z and b.ty == Z:
                    return binds, self.bind(fx, binds, "py_divmod_Z %s %s" % (a.text, b.text), T(Z, Z))
                return binds, self.bind(fx, binds, "py_divmod_Q %s %s" % (
                    coerce(a, Q).text, coerce(b, Q).text), T(Z, Q))
            if f.id in ("any", "all") and len(n.args) == 1 and not n.keywords \
                    and isinstance(n.args[0], ast.GeneratorExp):
                g = n.args[0]
                if len(g.generators) != 1 or g.generators[0].ifs or g.generators[0].is_async \
                        or not isinstance(g.generators[0].target, ast.Name):
                    raise Reject("generator expression shape")
                var = g.generators[0].target.id
                items = self.static_items(g.generators[0].iter, env, fx)
                ops = []
                for item in items:
                    e2 = env.copy()
                    e2.drop(var)
                    e2.ty[var] = ("SSTR", item)
                    ops.append(self.test(g.elt, e2, fx))
                binds, t, c = self.shortcut(ops, f.id == "all", fx)
                return binds, Val(t, B, static=c)
            if f.id == "hash" and len(n.args) == 1 and not n.keywords:
                if not getattr(fx, "hash_ok", False):
                    raise Reject("hash() somewhere other than directly under `return` of __hash__")
                if not isinstance(n.args[0], ast.Tuple):
                    raise Reject("hash() of something other than a tuple display")
                binds, parts = [], []
                for e in n.args[0].elts:
                    b, v = self.expr(e, env, fx)
                    binds += b
                    parts.append(v)
                keys = [self.hash_key(v, fx, binds) for v in parts]    # hashed left to right
                return binds, Val("(" + ", ".join(k.text for k in keys) + ")",
                                  T(*[k.ty for k in keys]), parts=keys)
            if f.id == "Duration" and not n.args and len(n.keywords) == 1 \
                    and n.keywords[0].arg in ("years", "seconds"):
                binds, v = self.expr(n.keywords[0].value, env, fx)
                if v.ty != Z:
                    raise Reject("Duration(%s=<%r>): only an int argument is covered" % (n.keywords[0].arg, v.ty))
                return binds, self.bind(fx, binds, "%s %s" % (self.op("D_of_" + n.keywords[0].arg), v.text), D)
            if f.id == CLS:
                return self.construct(n, env, fx)
            raise Reject("call of %s" % f.id)
        if isinstance(f, ast.Attribute):
            if ast.unparse(f) == "self.__class__":
                return self.construct(n, env, fx)
            if ast.unparse(f) == "math.floor" and len(n.args) == 1 and not n.keywords:
                if self.defs.get("math") != ["import math"] or "math" in fx.locals or "math" in env.ty:
                    raise Reject("math is bound by %r, not by `import math`" % self.defs.get("math"))
                binds, v = self.expr(n.args[0], env, fx)
                v = self.num(v, fx, binds, "floor()")
                return binds, (v if v.ty == Z else Val("(Qfloor %s)" % v.text, Z))
            rb, recv = self.expr(f.value, env, fx)
            if n.keywords or any(isinstance(a, ast.Starred) for a in n.args):
                raise Reject("keyword/starred arguments in a method call")
            binds, args = list(rb), []
            for a in n.args:
                b, v = self.expr(a, env, fx)
                binds += b
                args.append(v)
            if recv.ty == REC:
                return binds, self.method_call(f.attr, recv, args, fx, binds)
            if base(recv.ty) == D and f.attr in ("is_exact", "get_seconds") and not args:
                opn, rt = ("D_is_exact", B) if f.attr == "is_exact" else ("D_get_seconds", Q)
                if is_opt(recv.ty):
                    return binds, self.bind(fx, binds, "recv_o (%s) %s" % (self.op(opn), recv.text), rt)
                return binds, self.bind(fx, binds, "%s %s" % (self.op(opn), recv.text), rt)
            raise Reject("method call %s on a %r" % (f.attr, recv.ty))
        raise Reject("call of %s" % ast.unparse(f))

    def method_call(self, name, recv, args, fx, binds):
        try:
            callee = self.method(name, [OPAQUE if is_static(a.ty) and a.sstr is None else a.ty for a in args])
        except Reject as exc:
            raise Reject("call of %s.%s, which is outside the subset: %s" % (CLS, name, exc))
        if len(args) != len(callee["params"]):
            raise Reject("%s called with %d arguments" % (name, len(args)))
        texts = []
        for a, t in zip(args, callee["params"]):
            if t == OPAQUE:       # evaluated (it is a pure static value), not passed
                if not (is_static(a.ty) and a.sstr is None):
                    raise Reject("%s: argument of type %r for an opaque parameter" % (name, a.ty))
                continue
            texts.append(coerce(a, t).text)
        if fx.ctor and (fx.cur_assigned is None or any(
                sl not in fx.cur_assigned for sl, _, kind in SLOTS if kind == "opt")):
            raise Reject("method %s called inside __init__ before every slot is assigned" % name)
        head = " ".join([callee["coq"], "ops"] + ([] if callee["static"] else [recv.text]) + texts)
        if callee["fuel"]:
            fx.fuel = True
            head += " fuel"
        if callee["gen"]:
            return Val("(%s)" % head, ("TRACE", callee["yld"]))
        return self.bind(fx, binds, head, callee["ret"])

    def construct(self, n, env, fx):
        """TimeRecurrence(k=v, ..., **d) / self.__class__(...): through the translated __init__."""
        if n.args:
            raise Reject("positional constructor arguments")
        binds, kw = [], {}
        for k in n.keywords:
            if k.arg is None:
                if not isinstance(k.value, ast.Name):
                    raise Reject("** of something other than a local")
                nm = k.value.id
                if nm in env.dict:
                    items = list(env.dict[nm].items())
                elif nm in fx.locals and nm not in env.ty and nm not in env.maybe:
                    # the local is unbound on this path: Python raises UnboundLocalError here
                    v = self.bind(fx, binds, "(Raise UnboundLocalError : exc (pyRec P D))", REC)
                    return binds, v
                else:
                    raise Reject("** of %s, not a dict with static keys" % nm)
            else:
                b, v = self.expr(k.value, env, fx)
                binds += b
                items = [(k.arg, v)]
            for key, v in items:
                if key in kw:
                    raise Reject("repeated keyword %s" % key)
                kw[key] = v
        callee = self.method("__init__", None)
        names = [p for p, _ in INIT_PARAMS]
        if set(kw) - set(names):
            raise Reject("__init__ has no parameter %s" % sorted(set(kw) - set(names)))
        texts = [coerce(kw.get(p, Val("tt", NONE)), t).text for p, t in INIT_PARAMS]
        return binds, self.bind(fx, binds, " ".join([callee["coq"], "ops"] + texts), REC)

    # ------------------------------------------------------------ statements
    def lines(self, ind, binds, tail, cx):
        pad = "  " * ind
        return "".join("%s%s %s %s ;;\n" % (pad, nm, cx.bindsym, tx) for nm, tx in binds) + tail

    def block(self, stmts, env, k, cx, ind):
        if not stmts:
            return k(env, ind)
        s, rest = stmts[0], stmts[1:]
        if isinstance(s, Static):
            env = env.copy()
            env.drop(s.name)
            if s.value is not None:
                env.ty[s.name] = ("SSTR", s.value)
            return self.block(rest, env, k, cx, ind)
        return self.stmt(s, rest, env, k, cx, ind)

    def probe(self, stmts, env, cx):
        ends = []

        def k(e, _i):
            ends.append(e)
            return "tt"
        n0 = cx.fx.n
        self.block(stmts, env, k, cx, 0)
        cx.fx.n = n0
        return ends

    def storable(self, name, env, fx):
        if name in EXNS or name in ("self", "ops", "fuel", "CALENDAR", CLS, "Duration", "TimePoint", "floor", "math", "str", "hash",
                    "isinstance", "getattr", "divmod", "enumerate", "any", "all", "_type_checker",
                    "BadInputError"):
            raise Reject("local %s shadows a global / self" % name)
        if name in env.ty and isinstance(env.ty[name], tuple) and env.ty[name][0] == "SSTR":
            raise Reject("assignment to the loop variable %s" % name)

    def bind_local(self, name, v, env, fx, pad):
        """-> (text, env2) for `name = v`."""
        self.storable(name, env, fx)
        env2 = env.copy()
        env2.drop(name)
        if is_static(v.ty) and v.sstr is None:
            raise Reject("binding a %r to a local" % (v.ty,))
        env2.ty[name] = v.ty
        if v.ty == NONE:
            return "", env2
        return pad + "let v_%s := %s in\n" % (name, v.text), env2

    def assign_to(self, tgt, v, env, fx, pad):
        if isinstance(tgt, ast.Name):
            return self.bind_local(tgt.id, v, env, fx, pad)
        if isinstance(tgt, ast.Attribute) and isinstance(tgt.value, ast.Name):
            obj, slot = tgt.value.id, tgt.attr
            if not (fx.ctor and obj == "self"):
                raise Reject("store to a slot of %s outside __init__'s self" % obj)
            if slot not in SLOT_TY:
                raise Reject("store to %s, which is not a slot" % slot)
            if is_static(v.ty) or v.ty == REC:
                raise Reject("store of a %r into a slot" % (v.ty,))
            o = coerce(v, OPT(SLOT_TY[slot]))
            text = "(Val %s)" % o.text if SLOT_KIND[slot] == "slot" else o.text
            env2 = env.copy()
            env2.assigned = env.assigned | {slot}
            return pad + "let v_self := %s v_self %s in\n" % (setter(slot), text), env2
        if isinstance(tgt, ast.Subscript) and isinstance(tgt.value, ast.Name) and tgt.value.id in env.dict \
                and isinstance(tgt.slice, ast.Constant) and isinstance(tgt.slice.value, str):
            nm, key = tgt.value.id, tgt.slice.value
            if is_static(v.ty) or v.ty == NONE:
                raise Reject("dict value of type %r" % (v.ty,))
            var = "v_%s__%s" % (nm, key)
            env2 = env.copy()
            env2.dict[nm][key] = Val(var, v.ty)
            return pad + "let %s := %s in\n" % (var, v.text), env2
        raise Reject("assignment target %s" % ast.unparse(tgt))

    def is_typespec(self, n):
        return (isinstance(n, ast.Tuple) and n.elts and all(
            isinstance(e, ast.Tuple) and len(e.elts) >= 3 and isinstance(e.elts[0], ast.Name)
            and isinstance(e.elts[1], ast.Constant) and isinstance(e.elts[1].value, str)
            and all(isinstance(x, ast.Name) or (isinstance(x, ast.Constant) and x.value is None)
                    for x in e.elts[2:]) for e in n.elts))

    def check_typespec(self, node, env):
        """_type_checker(*inputs): a no-op when the static types of the parameters conform."""
        for e in node.elts:
            p = e.elts[0].id
            allowed = {ast.unparse(x) for x in e.elts[2:]}
            if p not in INIT_TYPECHECK or env.ty.get(p) != dict(INIT_PARAMS)[p]:
                raise Reject("_type_checker on %s, which is not a parameter of __init__" % p)
            if allowed != INIT_TYPECHECK[p]:
                raise Reject("_type_checker allows %s for %s, the translation assumes %s" % (
                    sorted(allowed), p, sorted(INIT_TYPECHECK[p])))

    def stmt(self, s, rest, env, k, cx, ind):
        pad = "  " * ind
        fx = cx.fx
        fx.cur_assigned = env.assigned
        if isinstance(s, ast.Expr) and isinstance(s.value, ast.Constant) \
                and isinstance(s.value.value, str) and fx.top and s is fx.top[0]:
            return self.block(rest, env, k, cx, ind)     # docstring
        if isinstance(s, ast.Pass):
            return self.block(rest, env, k, cx, ind)
        if isinstance(s, ast.Return):
            return self.return_stmt(s, env, cx, ind)
        if isinstance(s, ast.Raise):
            e = s.exc
            nm = e.func.id if isinstance(e, ast.Call) and isinstance(e.func, ast.Name) else (
                e.id if isinstance(e, ast.Name) else None)
            if s.cause is not None or e is None:
                raise Reject("raise ... from / bare raise")
            if nm in EXNS and nm not in fx.locals:
                return pad + cx.raise_(nm)
            binds, v = self.expr(e, env, fx)      # e.g. a helper method of the class that builds the exception
            if v.ty != EXN:
                raise Reject("raise of something other than a known exception class / instance")
            return self.lines(ind, binds, pad + cx.raise_(v.text), cx)
        if isinstance(s, ast.Break):
            if cx.brk is None:
                raise Reject("break outside a translated while loop")
            return pad + cx.brk(env)
        if isinstance(s, ast.Continue):
            if cx.cont is None:
                raise Reject("continue outside a translated loop")
            return pad + cx.cont(env)
        if isinstance(s, ast.Expr) and isinstance(s.value, ast.Yield):
            if not fx.gen:
                raise Reject("yield outside a generator")
            if s.value.value is None:
                raise Reject("bare yield")
            binds, v = self.expr(s.value.value, env, fx)
            if is_static(v.ty) or v.ty == REC:
                raise Reject("yield of a %r" % (v.ty,))
            fx.yld = join(fx.yld, v.ty)
            if fx.yld_expect is not None:
                v = coerce(v, fx.yld_expect)
            return self.lines(ind, binds, "%sTYield %s (\n%s)" % (
                pad, v.text, self.block(rest, env, k, cx, ind)), cx)
        if isinstance(s, ast.Expr):
            c = s.value
            if fx.ctor and isinstance(c, ast.Call) and isinstance(c.func, ast.Name) \
                    and c.func.id == "_type_checker" and not c.keywords and len(c.args) == 1 \
                    and isinstance(c.args[0], ast.Starred) and isinstance(c.args[0].value, ast.Name) \
                    and env.ty.get(c.args[0].value.id, (None,))[0] == "TYSPEC":
                self.check_typespec(env.ty[c.args[0].value.id][1], env)
                return self.block(rest, env, k, cx, ind)
            raise Reject("expression statement `%s`" % ast.unparse(s)[:60])
        if isinstance(s, ast.AugAssign):
            if not isinstance(s.target, ast.Name):
                raise Reject("augmented assignment target")
            load = ast.Name(id=s.target.id, ctx=ast.Load())
            s = ast.Assign(targets=[s.target], value=ast.BinOp(left=load, op=s.op, right=s.value))
        if isinstance(s, ast.Assign):
            out = ""
            env2 = env
            if len(s.targets) == 1 and isinstance(s.targets[0], ast.Name) and isinstance(s.value, ast.Dict):
                nm = s.targets[0].id
                self.storable(nm, env, fx)
                binds, d = [], {}
                for kx, vx in zip(s.value.keys, s.value.values):
                    if not (isinstance(kx, ast.Constant) and isinstance(kx.value, str)) or kx.value in d:
                        raise Reject("dict display with a non-static or repeated key")
                    b, v = self.expr(vx, env, fx)
                    if is_static(v.ty) or v.ty == NONE:
                        raise Reject("dict value of type %r" % (v.ty,))
                    binds += b
                    var = "v_%s__%s" % (nm, kx.value)
                    binds.append(("LET", (var, v.text)))
                    d[kx.value] = Val(var, v.ty)
                env2 = env.copy()
                env2.drop(nm)
                env2.ty[nm] = ("DICT",)
                env2.dict[nm] = d
                for nm_, tx in binds:
                    if nm_ == "LET":
                        out += pad + "let %s := %s in\n" % tx
                    else:
                        out += "%s%s %s %s ;;\n" % (pad, nm_, cx.bindsym, tx)
                return out + self.block(rest, env2, k, cx, ind)
            if fx.ctor and len(s.targets) == 1 and isinstance(s.targets[0], ast.Name) \
                    and self.is_typespec(s.value):
                nm = s.targets[0].id
                self.storable(nm, env, fx)
                env2 = env.copy()
                env2.drop(nm)
                env2.ty[nm] = ("TYSPEC", s.value)
                return self.block(rest, env2, k, cx, ind)
            binds, v = self.expr(s.value, env, fx)
            if v.ty != NONE and not is_static(v.ty) and len(s.targets) > 1 and not v.text.startswith("v_"):
                t = fx.fresh()
                out += pad + "let %s := %s in\n" % (t, v.text)
                v = Val(t, v.ty, parts=None)
            for tgt in s.targets:
                if isinstance(tgt, ast.Tuple):
                    if not is_tuple(v.ty) or len(v.ty[1]) != len(tgt.elts):
                        raise Reject("tuple assignment shape")
                    parts = v.parts
                    if parts is None:
                        names = [fx.fresh() for _ in tgt.elts]
                        out += pad + "let '(%s) := %s in\n" % (", ".join(names), v.text)
                        parts = [Val(nm, ty) for nm, ty in zip(names, v.ty[1])]
                    elif {x.id for x in ast.walk(s.value) if isinstance(x, ast.Name)} & {
                            x.id for e in tgt.elts for x in ast.walk(e) if isinstance(x, ast.Name)}:
                        raise Reject("tuple assignment whose targets occur in its right-hand side")
                    for e, p in zip(tgt.elts, parts):
                        t_, env2 = self.assign_to(e, p, env2, fx, pad)
                        out += t_
                else:
                    t_, env2 = self.assign_to(tgt, v, env2, fx, pad)
                    out += t_
            return self.lines(ind, binds, out, cx) + self.block(rest, env2, k, cx, ind)
        if isinstance(s, ast.If):
            return self.if_stmt(s, rest, env, k, cx, ind)
        if isinstance(s, ast.While):
            return self.while_stmt(s, rest, env, k, cx, ind)
        if isinstance(s, ast.For):
            return self.for_stmt(s, rest, env, k, cx, ind)
        raise Reject("statement %s" % type(s).__name__)

    def ctor_end(self, env, ind, cx):
        missing = [sl for sl, _, kind in SLOTS if kind == "opt" and sl not in env.assigned]
        if missing:
            raise Reject("__init__ can end with slots unassigned: %s" % missing)
        return "  " * ind + cx.retw("v_self")

    def return_stmt(self, s, env, cx, ind):
        pad = "  " * ind
        fx = cx.fx
        if fx.ctor:
            if s.value is not None:
                raise Reject("return of a value inside __init__")
            return self.ctor_end(env, ind, cx)
        if fx.gen:
            if s.value is not None:
                raise Reject("return of a value inside a generator")
            return pad + cx.retw("tt")
        if s.value is None:
            binds, v = [], Val("tt", NONE)
        else:
            node = s.value
            fx.hash_ok = (isinstance(node, ast.Call) and isinstance(node.func, ast.Name)
                          and node.func.id == "hash" and fx.name == "__hash__")
            try:
                binds, v = self.expr(node, env, fx)
            finally:
                fx.hash_ok = False
        return self.lines(ind, binds, pad + self.do_return(v, cx), cx)

    def do_return(self, v, cx):
        fx = cx.fx
        if is_static(v.ty):
            raise Reject("return of a %r" % (v.ty,))
        fx.ret = join(fx.ret, v.ty)
        if fx.ret_expect is not None:
            v = coerce(v, fx.ret_expect)
        return cx.retw(v.text)

    def mergeable(self, env, ends, names):
        merged, types = [], []
        for nm in names:
            tys = [e.ty.get(nm) for e in ends]
            mb = [nm in e.maybe for e in ends]
            if any(t is not None and is_static(t) for t in tys):
                return None
            if all(t is None for t in tys) and not any(mb):
                continue
            if any(t is None for t in tys) or any(mb):
                return None
            try:
                ty = None
                for t in tys:
                    ty = join(ty, t)
            except Reject:
                return None
            merged.append(nm)
            types.append(ty)
        env2 = env.copy()
        for nm, ty in zip(merged, types):
            env2.drop(nm)
            env2.ty[nm] = ty
        if env.assigned is not None:
            a = None
            for e in ends:
                a = e.assigned if a is None else (a & e.assigned)
            env2.assigned = a
        return env2, merged, types

    def if_stmt(self, s, rest, env, k, cx, ind):
        pad = "  " * ind
        fx = cx.fx
        cb, c, st = self.test(s.test, env, fx)
        if st is not None:
            return self.block((s.body if st else s.orelse) + rest, env, k, cx, ind)

        def kr(e, i):
            return self.block(rest, e, k, cx, i)
        merged = None
        if rest:
            ends = self.probe(s.body, env, cx) + self.probe(s.orelse, env, cx)
            if len(ends) > 1:
                merged = self.mergeable(env, ends, assigned_names([s]))
        if merged is None:
            a = self.block(s.body, env, kr, cx, ind + 1)
            b = self.block(s.orelse, env, kr, cx, ind + 1)
            return self.lines(ind, cb, "%sif %s then\n%s\n%selse\n%s" % (pad, c, a, pad, b), cx)
        env2, names, types = merged
        kn = fx.fresh("k")
        params = " ".join("(v_%s : %s)" % (nm, coq_type(ty)) for nm, ty in zip(names, types)) or "(_ : unit)"

        def kj(e, i):
            args = [coerce(self.name(nm, e, fx), ty).text for nm, ty in zip(names, types)]
            return "  " * i + kn + " " + (" ".join(args) or "tt")
        rest_text = self.block(rest, env2, k, cx, ind + 1)
        a = self.block(s.body, env, kj, cx, ind + 1)
        b = self.block(s.orelse, env, kj, cx, ind + 1)
        head = "%slet %s := fun %s => (\n%s\n%s  : %s) in\n" % (pad, kn, params, rest_text, pad, cx.mty)
        return self.lines(ind, cb, "%s%sif %s then\n%s\n%selse\n%s" % (head, pad, c, a, pad, b), cx)

    def state_shape(self, names, tys):
        """-> (Coq type, fun-binder + destructuring prefix, inl pattern + prefix, tuple builder)."""
        if not names:
            return "unit", "(_ : unit) =>", "_ =>", (lambda e, fx: "tt")
        if len(names) == 1:
            n0 = names[0]
            return (coq_type(tys[n0]), "(v_%s : %s) =>" % (n0, coq_type(tys[n0])), "v_%s =>" % n0,
                    lambda e, fx: coerce(self.name(n0, e, fx), tys[n0]).text)
        sty = "(" + " * ".join(coq_type(tys[n]) for n in names) + ")"
        pat = "let '(%s) := st_ in" % ", ".join("v_" + n for n in names)
        return (sty, "(st_ : %s) => %s" % (sty, pat), "st_ => " + pat,
                lambda e, fx: "(" + ", ".join(coerce(self.name(n, e, fx), tys[n]).text for n in names) + ")")

    def while_stmt(self, s, rest, env, k, cx, ind):
        pad = "  " * ind
        fx = cx.fx
        if s.orelse:
            raise Reject("while/else")
        fx.fuel = True
        assigned = assigned_names(s.body)
        names = [n for n in assigned if n in env.ty and not is_static(env.ty[n])]
        if "self" in names:
            raise Reject("store to self inside a loop")
        body_locals = [n for n in assigned if n not in names]
        for n in body_locals:
            if n in env.ty or n in env.maybe:
                raise Reject("loop body rebinds %s" % n)
        tys = {n: env.ty[n] for n in names}
        for _ in range(6):
            env_in = env.copy()
            env_in.ty.update(tys)
            seen = []

            def rec(e, _i=0):
                seen.append(e)
                return "tt"
            cx0 = Cx(fx, lambda t: "tt", "_", brk=rec, cont=rec)
            n0 = fx.n
            self.test(s.test, env_in, fx)
            self.block(list(s.body), env_in, rec, cx0, 0)
            fx.n = n0
            new = {}
            for n in names:
                ty = tys[n]
                for e in seen:
                    if n not in e.ty or n in e.maybe:
                        raise Reject("loop body may unbind %s" % n)
                    ty = join(ty, e.ty[n])
                new[n] = ty
            if new == tys:
                break
            tys = new
        else:
            raise Reject("the types of the loop state do not stabilise")
        env_in = env.copy()
        env_in.ty.update(tys)
        sty, fun_head, inl_head, build = self.state_shape(names, tys)
        if fx.gen:
            xty = "unit"
            mty = "trace %s (ctl %s %s)" % (coq_type(fx.yld_expect), sty, xty)
        else:
            xty = coq_type(fx.ret_expect)
            mty = "exc (ctl %s %s)" % (sty, xty)
        cx2 = Cx(fx, lambda t: cx.pure("(Return %s)" % t), mty,
                 brk=lambda e: cx.pure("(Exit %s)" % build(e, fx)),
                 cont=lambda e: cx.pure("(Next %s)" % build(e, fx)))
        cb, c, st = self.test(s.test, env_in, fx)
        body = self.block(list(s.body), env_in, lambda e, i: "  " * i + cx2.cont(e), cx2, ind + 2)
        if st is True:
            step = body
        elif st is False:
            step = "  " * (ind + 1) + cx2.brk(env_in)
        else:
            step = self.lines(ind + 1, cb, "%s  if %s then\n%s\n%s  else %s" % (
                pad, c, body, pad, cx2.brk(env_in)), cx)
        init = build(env, fx)
        t = fx.fresh()
        env_after = env.copy()
        env_after.ty.update(tys)
        for n in body_locals:
            env_after.maybe.add(n)
        after = self.block(rest, env_after, k, cx, ind + 1)
        return ("%s%s %s %s (St:=%s) (X:=%s) (fun %s\n%s) fuel %s ;;\n%smatch %s with\n%s| inl %s\n%s\n"
                "%s| inr x_ => %s\n%send") % (
            pad, t, "<~" if fx.gen else "<-", "gen_while" if fx.gen else "py_while", sty, xty,
            fun_head, step, init, pad, t, pad, inl_head, after, pad, cx.retw("x_"), pad)

    def for_stmt(self, s, rest, env, k, cx, ind):
        pad = "  " * ind
        fx = cx.fx
        if s.orelse:
            raise Reject("for/else")
        it, idx = s.iter, None
        # a static list of strings: unrolled
        if isinstance(s.target, ast.Name):
            try:
                items = self.static_items(it, env, fx)
            except Reject:
                items = None
            if items is not None:
                if contains(s.body, (ast.Break, ast.Continue)):
                    raise Reject("break/continue in an unrolled for body")
                var = s.target.id
                self.storable(var, env, fx)
                if var in assigned_names(s.body):
                    raise Reject("loop body assigns the loop variable")
                unrolled = []
                for item in items:
                    unrolled.append(Static(var, item))
                    unrolled += s.body
                unrolled.append(Static(var, None))
                return self.block(unrolled + rest, env, k, cx, ind)
        # a generator of this class
        if isinstance(it, ast.Call) and isinstance(it.func, ast.Name) and it.func.id == "enumerate" \
                and len(it.args) == 1 and not it.keywords and "enumerate" not in fx.locals \
                and isinstance(s.target, ast.Tuple) and len(s.target.elts) == 2 \
                and all(isinstance(e, ast.Name) for e in s.target.elts):
            idx, var, src = s.target.elts[0].id, s.target.elts[1].id, it.args[0]
        elif isinstance(s.target, ast.Name):
            var, src = s.target.id, it
        else:
            raise Reject("for target")
        if isinstance(src, ast.Call) and isinstance(src.func, ast.Name) and src.func.id == "iter" \
                and len(src.args) == 1 and not src.keywords:
            src = src.args[0]
        binds, tr = self.expr(src, env, fx)
        if tr.ty == REC:      # iter(obj) -> obj.__iter__()
            tr = self.method_call("__iter__", tr, [], fx, binds)
        if binds or not (isinstance(tr.ty, tuple) and tr.ty[0] == "TRACE"):
            raise Reject("for over `%s`, which is not a generator method of the class" % ast.unparse(it)[:60])
        if fx.gen:
            raise Reject("for over a generator inside a generator")
        yty = tr.ty[1]
        assigned = assigned_names(s.body)
        for nm in [var] + ([idx] if idx else []):
            self.storable(nm, env, fx)
            if nm in env.ty or nm in env.maybe or nm in assigned:
                raise Reject("loop variable %s rebinds a local" % nm)
        for nm in assigned:
            if nm in env.ty or nm in env.maybe:
                raise Reject("for body assigns the outer local %s" % nm)
        if contains(s.body, (ast.Break,)):
            raise Reject("break in a for over a generator")
        env_b = env.copy()
        env_b.ty[var] = yty
        if idx:
            env_b.ty[idx] = Z
        xty = coq_type(fx.ret_expect)
        cx2 = Cx(fx, lambda t: "Ret (Some %s)" % t, "exc (option %s)" % xty, brk=None,
                 cont=lambda e: "Ret None")
        body = self.block(list(s.body), env_b, lambda e, i: "  " * i + "Ret None", cx2, ind + 2)
        env_after = env.copy()
        for nm in assigned + [var] + ([idx] if idx else []):
            env_after.maybe.add(nm)
        after = self.block(rest, env_after, k, cx, ind + 1)
        t = fx.fresh()
        return ("%s%s <- for_trace (X:=%s) %s 0 (fun (%s : Z) (v_%s : %s) =>\n%s) ;;\n"
                "%smatch %s with\n%s| Some x_ => %s\n%s| None =>\n%s\n%send") % (
            pad, t, xty, tr.text, ("v_" + idx) if idx else "_", var, coq_type(yty), body,
            pad, t, pad, cx.retw("x_"), pad, after, pad)

    # ------------------------------------------------------------ methods
    def method(self, name, argtys):
        if name in self.done:
            return self.done[name]
        if name in self.busy:
            raise Reject("recursion through %s" % name)
        node = self.methods.get(name)
        if node is None:
            raise Reject("%s.%s: no unique def" % (CLS, name))
        self.busy.add(name)
        try:
            res = self.ctor_body(node) if name == "__init__" else self.method_body(node, argtys)
        finally:
            self.busy.discard(name)
        self.done[name] = res
        self.order.append(name)
        return res

    def two_pass(self, fx, node, env, cx, off_end):
        skip = set()     # the arguments of raised exceptions are not translated
        for st in ast.walk(node):
            if isinstance(st, ast.Call) and isinstance(st.func, ast.Name) and st.func.id in EXNS:
                for a in list(st.args) + [kw.value for kw in st.keywords]:
                    skip |= {id(x) for x in ast.walk(a)}
        for st in ast.walk(node):
            if id(st) in skip:
                continue
            if st is not node and isinstance(st, (ast.FunctionDef, ast.Lambda, ast.ClassDef, ast.Global,
                                                  ast.Nonlocal, ast.Try, ast.With, ast.Delete, ast.YieldFrom,
                                                  ast.Await, ast.NamedExpr, ast.ListComp, ast.DictComp,
                                                  ast.SetComp)):
                raise Reject("%s: %s" % (node.name, type(st).__name__))
        self.block(list(node.body), env.copy(), off_end, cx, 1)
        fx.ret_expect = fx.ret if fx.ret is not None else NONE
        if fx.gen:
            if fx.yld is None:
                raise Reject("generator without yield")
            fx.yld_expect = fx.yld
        fx.n = 0
        fx.final = True
        return self.block(list(node.body), env.copy(), off_end, cx, 1)

    def method_body(self, node, argtys):
        a = node.args
        if a.posonlyargs or a.vararg or a.kwonlyargs or a.kwarg or a.defaults or a.kw_defaults:
            raise Reject("%s: parameters other than plain positional ones" % node.name)
        static = False
        for d in node.decorator_list:
            if isinstance(d, ast.Name) and d.id == "staticmethod" and len(node.decorator_list) == 1:
                static = True
            elif not (isinstance(d, ast.Name) and d.id == "property"):
                raise Reject("%s: decorator %s" % (node.name, ast.unparse(d)))
        names = [p.arg for p in a.args]
        if static:
            names = ["self"] + names       # no receiver: `self` is simply not bound below
        if not names or names[0] != "self" or len(set(names)) != len(names):
            raise Reject("%s: parameter list" % node.name)
        sig = SIGS.get(node.name)
        if sig is None:
            sig = list(argtys or [])
        if len(names) - 1 != len(sig):
            raise Reject("%s takes %d arguments, %d given" % (node.name, len(names) - 1, len(sig)))
        for ty in sig:
            if (is_static(ty) and ty != OPAQUE) or ty == NONE:
                raise Reject("%s: argument of type %r" % (node.name, ty))
        gen = any(isinstance(n, ast.Yield) for n in ast.walk(node))
        fx = Fn(node.name, gen=gen)
        fx.top = tuple(node.body)
        fx.params = names[1:]
        fx.locals = set(assigned_names(node.body))
        env = Env()
        if not static:
            env.ty["self"] = REC
        for p, ty in zip(names[1:], sig):
            self.storable(p, env, fx)
            env.ty[p] = ty
        if gen:
            cx = Cx(fx, lambda t: "TRet " + t, None)
            off_end = (lambda e, i: "  " * i + "TRet tt")
        else:
            cx = Cx(fx, lambda t: "Ret " + t, None)
            off_end = (lambda e, i: "  " * i + self.do_return(Val("tt", NONE), cx))

        class MTy:   # the type of the whole computation, known in the second pass
            def __str__(_s):
                if gen:
                    return "trace %s unit" % coq_type(fx.yld_expect)
                return "exc %s" % coq_type(fx.ret_expect)
        cx.mty = MTy()
        body = self.two_pass(fx, node, env, cx, off_end)
        coq = "py_" + node.name
        binders = ["{P D PK DK : Type}", "(ops : rec_ops P D PK DK)"] + \
                  ([] if static else ["(v_self : pyRec P D)"]) + \
                  ["(v_%s : %s)" % (p, coq_type(ty)) for p, ty in zip(names[1:], sig) if ty != OPAQUE] + \
                  (["(fuel : nat)"] if fx.fuel else [])
        text = "Definition %s %s : %s :=\n%s." % (coq, " ".join(binders), cx.mty, body)
        return {"coq": coq, "params": sig, "ret": fx.ret_expect, "gen": gen, "yld": fx.yld_expect,
                "fuel": fx.fuel, "text": text, "src": "%s.%s" % (CLS, node.name), "static": static,
                "sig": ", ".join("%s : %s" % (p, "(not passed)" if ty == OPAQUE else coq_type(ty))
                                 for p, ty in zip(names[1:], sig))}

    def ctor_body(self, node):
        a = node.args
        if a.posonlyargs or a.vararg or a.kwonlyargs or a.kwarg or a.kw_defaults or node.decorator_list:
            raise Reject("__init__: parameter kinds / decorators")
        names = [p.arg for p in a.args]
        if names != ["self"] + [p for p, _ in INIT_PARAMS]:
            raise Reject("__init__ parameters are %r, the translation assumes %r" % (
                names[1:], [p for p, _ in INIT_PARAMS]))
        if len(a.defaults) != len(names) - 1 or not all(
                isinstance(d, ast.Constant) and d.value is None for d in a.defaults):
            raise Reject("__init__: every parameter must default to None")
        fx = Fn("__init__", ctor=True)
        fx.top = tuple(node.body)
        fx.params = names[1:]
        fx.locals = set(assigned_names(node.body))
        if any(isinstance(n, ast.Yield) for n in ast.walk(node)):
            raise Reject("__init__ is a generator")
        env = Env()
        env.ty["self"] = REC
        env.assigned = frozenset()
        for p, ty in INIT_PARAMS:
            env.ty[p] = ty
        cx = Cx(fx, lambda t: "Ret " + t, "exc (pyRec P D)")
        fx.ret = REC
        body = self.two_pass(fx, node, env, cx, lambda e, i: self.ctor_end(e, i, cx))
        coq = "py___init__"
        binders = ["{P D PK DK : Type}", "(ops : rec_ops P D PK DK)"] + \
                  ["(v_%s : %s)" % (p, coq_type(ty)) for p, ty in INIT_PARAMS] + \
                  (["(fuel : nat)"] if fx.fuel else [])
        if fx.fuel:
            raise Reject("__init__ contains a loop")
        text = "Definition %s %s : exc (pyRec P D) :=\n  let v_self := py_empty_instance P D in\n%s." % (
            coq, " ".join(binders), body)
        return {"coq": coq, "params": [t for _, t in INIT_PARAMS], "ret": REC, "gen": False, "yld": None,
                "fuel": False, "text": text, "src": "%s.__init__" % CLS, "static": False,
                "sig": ", ".join("%s : %s" % (p, coq_type(t)) for p, t in INIT_PARAMS)}


class Static:
    """Pseudo statement of an unrolled `for`: bind/unbind the loop variable."""

    def __init__(self, name, value):
        self.name, self.value = name, value


REQUIRED = ["__init__", "_get_is_in_bounds", "get_next", "get_prev", "__iter__", "__getitem__",
            "get_is_valid", "get_first_after", "__add__", "__sub__", "__eq__", "__hash__", "__str__"]
ATTEMPTED = ["__repr__", "__radd__"]
OUT_OF_SCOPE = [
    ("__add__ [other not a Duration]", "raise TypeError(...): the operand type is fixed by the entry point (Duration)"),
    ("__eq__ [other not a TimeRecurrence]", "return NotImplemented: Python's reflected-operand protocol"),
    ("__getitem__ [index not an int]", "`not isinstance(index, int)`: the index type is fixed by the entry point (int)"),
    ("__hash__ [the integer]", "hash(...) of the key tuple is CPython's; the translated value is the tuple of keys it hashes"),
    ("the arguments of raised exceptions", "message construction (str.format of points, [i[:2] for i in inputs]) is not "
     "translated; a raise statement is the exception class only"),
    ("TimePoint / Duration methods", "not translated here: fields of rec_ops (properties C01-C06, C11 and the other "
     "GenCode phases tie them to the model functions they are instantiated with)"),
]

HEAD = '''(* GENERATED by tools/translate_code5.py from the method bodies of class
   TimeRecurrence (metomi/isodatetime/data.py).  Do not edit.

   Object state `pyRec P D`: one field per entry of TimeRecurrence.__slots__
   (checked on this run); None = Python None; `slot` = the attribute may be
   unassigned (__init__ assigns _second_point only in format 1): reading an
   unassigned slot raises AttributeError.
   Every method is a function into `exc A := Ret a | Raise e | NoFuel`; a
   generator is a `trace Y X` (the values it yields, then how it ended: returned,
   raised, or the fuel ran out: TMore).  Every `while` runs under `fuel`, one
   unit per iteration (py_while / gen_while); NoFuel / TMore = the fuel ran out.

   THE OPERATIONS OF TimePoint AND Duration ARE NOT TRANSLATED.  They are the
   fields of `rec_ops P D PK DK` (abstract point type P, duration type D, hash
   keys PK, DK), each with the error behaviour it can exhibit (a result in exc):
%(ops)s
   What the translation itself fixes about None operands (Python's and the
   package's dispatch): == / != with None is identity; < <= > >= with None raise
   TypeError; TimePoint + None raises ValueError (TimePoint.__add__), None + x,
   x - None, None - x, None * n, d * None raise TypeError; a method called on
   None raises AttributeError; bool(None) is False; str(None) is "None".
   Points and durations are immutable values here (TimeRecurrence never
   mutates them).  int is Z; the numbers returned by get_seconds are exact
   rationals Q (the model's convention, DESIGN.md section 3); divmod/floor are
   floor division and Qfloor.
   v_<name>: Python parameter/local; t<n>: temporaries in Python evaluation
   order; k<n>: the rest of a block after an if (join point). *)
From Coq Require Import ZArith QArith Qround List Bool String.
Import ListNotations.
Open Scope Z_scope.

Inductive pyexn : Type :=
  %(exns)s | OpError (n : nat).   (* OpError: raised inside an abstract operation *)
Inductive exc (A : Type) : Type := Ret (a : A) | Raise (e : pyexn) | NoFuel.
Arguments Ret {A} a.
Arguments Raise {A} e.
Arguments NoFuel {A}.
Definition ebind {A B : Type} (m : exc A) (f : A -> exc B) : exc B :=
  match m with Ret a => f a | Raise e => Raise e | NoFuel => NoFuel end.
Notation "x <- m ;; k" := (ebind m (fun x => k)) (at level 61, m at next level, right associativity).

(* generators *)
Inductive trace (Y X : Type) : Type :=
  TRet (x : X) | TYield (y : Y) (k : trace Y X) | TRaise (e : pyexn) | TMore.
Arguments TRet {Y X} x.
Arguments TYield {Y X} y k.
Arguments TRaise {Y X} e.
Arguments TMore {Y X}.
Fixpoint tbind {Y X X' : Type} (t : trace Y X) (f : X -> trace Y X') : trace Y X' :=
  match t with
  | TRet x => f x
  | TYield y k => TYield y (tbind k f)
  | TRaise e => TRaise e
  | TMore => TMore
  end.
Definition tlift {Y A X : Type} (m : exc A) (f : A -> trace Y X) : trace Y X :=
  match m with Ret a => f a | Raise e => TRaise e | NoFuel => TMore end.
Notation "x <~ t ;; k" := (tbind t (fun x => k)) (at level 61, t at next level, right associativity).
Notation "x <-- m ;; k" := (tlift m (fun x => k)) (at level 61, m at next level, right associativity).

(* loops: how one iteration ends *)
Inductive ctl (St X : Type) : Type := Next (s : St) | Exit (s : St) | Return (x : X).
Arguments Next {St X} s.
Arguments Exit {St X} s.
Arguments Return {St X} x.
Fixpoint py_while {St X : Type} (step : St -> exc (ctl St X)) (fuel : nat) (s : St) : exc (St + X) :=
  match fuel with
  | O => NoFuel
  | S f => c <- step s ;;
           match c with Next s' => py_while step f s' | Exit s' => Ret (inl s') | Return x => Ret (inr x) end
  end.
Fixpoint gen_while {Y St X : Type} (step : St -> trace Y (ctl St X)) (fuel : nat) (s : St)
  : trace Y (St + X) :=
  match fuel with
  | O => TMore
  | S f => c <~ step s ;;
           match c with Next s' => gen_while step f s' | Exit s' => TRet (inl s') | Return x => TRet (inr x) end
  end.
(* for [i,] y in [enumerate](generator): body returns Some x = `return x`, None = next iteration *)
Fixpoint for_trace {Y X : Type} (t : trace Y unit) (i : Z) (body : Z -> Y -> exc (option X))
  : exc (option X) :=
  match t with
  | TRet _ => Ret None
  | TYield y k => r <- body i y ;;
                  match r with Some x => Ret (Some x) | None => for_trace k (i + 1) body end
  | TRaise e => Raise e
  | TMore => NoFuel
  end.

Inductive slot (A : Type) : Type := Unset | Val (v : option A).
Arguments Unset {A}.
Arguments Val {A} v.
Definition need_attr {A : Type} (s : slot A) : exc (option A) :=
  match s with Val v => Ret v | Unset => Raise AttributeError end.

Record pyRec (P D : Type) : Type := mkRec5 {
%(fields)s }.
%(fieldargs)s
%(setters)s
Definition py_empty_instance (P D : Type) : pyRec P D := mkRec5 %(nones)s.

Record rec_ops (P D PK DK : Type) : Type := mkOps {
%(opfields)s }.
%(opargs)s

Definition need {A : Type} (v : option A) : exc A :=
  match v with Some a => Ret a | None => Raise TypeError end.
Definition is_none {A : Type} (v : option A) : bool := match v with None => true | Some _ => false end.
Definition opt_eqb {A : Type} (eqb : A -> A -> bool) (a b : option A) : bool :=
  match a, b with Some x, Some y => eqb x y | None, None => true | _, _ => false end.
(* a binary operation of the package on possibly-None operands *)
Definition lift2 {A B C : Type} (f : A -> B -> exc C) (e1 e2 : pyexn) (a : option A) (b : option B) : exc C :=
  match a, b with Some x, Some y => f x y | None, _ => Raise e1 | Some _, None => Raise e2 end.
(* == on possibly-None objects *)
Definition eq_o {A : Type} (f : A -> A -> exc bool) (a b : option A) : exc bool :=
  match a, b with Some x, Some y => f x y | None, None => Ret true | _, _ => Ret false end.
Definition recv_o {A C : Type} (f : A -> exc C) (a : option A) : exc C :=
  match a with Some x => f x | None => Raise AttributeError end.
Definition truthy_o {A : Type} (f : A -> exc bool) (a : option A) : exc bool :=
  match a with Some x => f x | None => Ret false end.
Definition str_o {A : Type} (f : A -> exc string) (a : option A) : exc string :=
  match a with Some x => f x | None => Ret "None"%%string end.
Definition map_o {A K : Type} (f : A -> exc K) (a : option A) : exc (option K) :=
  match a with Some x => k <- f x ;; Ret (Some k) | None => Ret None end.
Definition Qlt_bool (a b : Q) : bool := negb (Qle_bool b a).
Definition py_divmod_Z (a b : Z) : exc (Z * Z) :=
  if b =? 0 then Raise ZeroDivisionError else Ret (a / b, a mod b).
Definition py_divmod_Q (a b : Q) : exc (Z * Q) :=
  if Qeq_bool b 0 then Raise ZeroDivisionError
  else Ret (Qfloor (a / b), (a - b * inject_Z (Qfloor (a / b)))%%Q).

'''

PRELUDE_NAMES = ["ebind", "tlift", "need_attr", "need", "is_none", "opt_eqb", "lift2", "eq_o", "recv_o",
                 "truthy_o", "str_o", "map_o", "py_empty_instance"]


def head_text():
    fields = ";\n".join("  %s : %s" % (fld(s), ("slot %s" if k == "slot" else "option %s") % coq_type(t))
                        for s, t, k in SLOTS)
    fieldargs = "\n".join("Arguments %s {P D} _." % fld(s) for s, _, _ in SLOTS) + \
        "\nArguments mkRec5 {P D}."
    setters = ""
    for s, t, k in SLOTS:
        args = " ".join("v" if s2 == s else "(%s o)" % fld(s2) for s2, _, _ in SLOTS)
        setters += "Definition %s {P D : Type} (o : pyRec P D) (v : %s %s) : pyRec P D := mkRec5 %s.\n" % (
            setter(s), "slot" if k == "slot" else "option", coq_type(t), args)
    nones = " ".join("Unset" if k == "slot" else "None" for _, _, k in SLOTS)
    return HEAD % {
        "ops": "".join("     %-14s %s\n" % (n, w) for n, _, w in OPS),
        "exns": " | ".join(EXNS),
        "fields": fields, "fieldargs": fieldargs.replace("mkRec5 {P D}.", "mkRec5 {P D} _ _ _ _ _ _ _ _."),
        "setters": setters, "nones": nones,
        "opfields": ";\n".join("  %s : %s" % (n, t) for n, t, _ in OPS),
        "opargs": "\n".join("Arguments %s {P D PK DK} _." % n for n, _, _ in OPS)}


def build_text():
    failures, body, covered, emitted = [], [], [], []
    unit = ClassUnit()
    for name in REQUIRED:
        coq = "py_" + name
        try:
            unit.method(name, None)
            for key in list(unit.order):
                r = unit.done[key]
                if r["coq"] not in emitted:
                    emitted.append(r["coq"])
                    note = (" [%s]" % r["sig"]) if r["sig"] else ""
                    body.append("(* %s%s *)\n%s\n" % (r["src"], note, r["text"]))
            covered.append(coq)
        except Exception as exc:  # fail closed on anything, translator bugs included
            failures.append((coq, "%s: %s" % (type(exc).__name__, exc)))
            if coq not in emitted:
                emitted.append(coq)
                body.append("(* %s.%s: REJECTED: %s *)\nDefinition %s : unit := tt.\n"
                            % (CLS, name, clean(exc), coq))
    rejected = []
    for nm in ATTEMPTED + sorted(m for m in unit.methods if m not in REQUIRED and m not in ATTEMPTED):
        label = "%s.%s" % (CLS, nm)
        node = unit.methods.get(nm)
        if nm not in unit.methods:
            rejected.append((label, "no such method in this source"))
            continue
        if "py_" + nm in emitted:
            rejected.append((label, "helper: translated as a callee of the covered methods, no theorem of its own"))
            continue
        if node is not None and any(isinstance(d, ast.Name) and d.id == "property" for d in node.decorator_list) \
                and len(node.body) == 1 and isinstance(node.body[0], ast.Return):
            rejected.append((label, "property getter `%s`: the record field itself; not translated separately"
                             % ast.unparse(node.body[0])))
            continue
        try:
            ClassUnit().method(nm, None)
            rejected.append((label, "inside the subset, but no model function is tied to it (not emitted)"))
        except Exception as exc:
            rejected.append((label, "%s" % exc))
    rejected += OUT_OF_SCOPE
    names = PRELUDE_NAMES + [fld(s) for s, _, _ in SLOTS] + [setter(s) for s, _, _ in SLOTS] + \
        [c for c in emitted]
    if not failures:
        body.append("(* unfold the helpers of the prelude only (methods and state fields stay folded) *)\n"
                    "Ltac code5_prelude_unfold :=\n  cbv beta iota zeta delta [%s]." % " ".join(
                        n for n in PRELUDE_NAMES if n != "py_empty_instance"))
        helpers = [c for c in emitted if c[3:] not in REQUIRED]
        body.append("(* unfold the helper methods (callees without a theorem of their own) *)\n"
                    "Ltac code5_helpers_unfold :=\n  cbv beta iota zeta%s." % (
                        (" delta [%s]" % " ".join(helpers)) if helpers else ""))
        body.append("(* unfold the generated code (not the loop combinators, not the operations) *)\n"
                    "Ltac code5_unfold :=\n  cbv beta iota zeta delta [%s]." % " ".join(dict.fromkeys(names)))
    else:
        body.append("Ltac code5_prelude_unfold := idtac.\nLtac code5_helpers_unfold := idtac.\nLtac code5_unfold := idtac.")
    body.append("Definition COVERED_code5 : list string :=\n  [%s]%%string." % "; ".join(
        coq_str(c) for c in covered))
    body.append("(* the abstract operations the translated methods call on this run *)\n"
                "Definition USED_OPS_code5 : list string :=\n  [%s]%%string." % "; ".join(
                    coq_str(n) for n, _, _ in OPS if n in unit.used))
    body.append("(* attempted and not covered, or deliberately out of scope, with the reason *)\n"
                "Definition REJECTED_code5 : list (string * string) :=\n  [%s]%%string." % ";\n   ".join(
                    "(%s, %s)" % (coq_str(a), coq_str(clean(b))) for a, b in rejected))
    if failures:
        body.append("".join("(* REJECTED: %s: %s *)\n" % (c, clean(w)) for c, w in failures) +
                    "Definition translator_ok_code5 : bool := false.")
    else:
        body.append("Definition translator_ok_code5 : bool := true.")
    text = head_text() + "\n".join(body) + "\n"
    # words the framework forbids outside comments must not appear in generated strings
    for w in ("Parameter", "Parameters", "Axiom", "Axioms", "Admitted", "admit", "Conjecture"):
        text = text.replace(w, w[0] + "_" + w[1:])
    return text


def gen_code5():
    try:
        text = build_text()
    except Exception as exc:  # fail closed
        text = head_text() + "(* REJECTED: %s: %s *)\n" % (type(exc).__name__, clean(exc)) + "".join(
            "Definition py_%s : unit := tt.\n" % n for n in REQUIRED) + \
            "Ltac code5_prelude_unfold := idtac.\nLtac code5_helpers_unfold := idtac.\nLtac code5_unfold := idtac.\nDefinition translator_ok_code5 : bool := false.\n"
    return write_if_changed("GenCode5.v", text)


if __name__ == "__main__":
    os.makedirs(translate.OUT, exist_ok=True)
    print("translate_code5: %s" % ("regenerated GenCode5.v" if gen_code5() else "nothing changed"))
