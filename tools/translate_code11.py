#!/usr/bin/env python3
"""GenCode phase 11: the method bodies of class DateTimeOperator (datetimeoper.py), the command-line
operator property C19 rests on, translated from the Python `ast` into Gallina on every run.

    gen_code11() -> coq/gen/GenCode11.v  (translator_ok_code11, REJECTED_code11, COVERED_code11, ...)

Scheme (details in notes/GENCODE11_REPORT.md):
  * one dynamically typed value universe `pyval` (as in phase 8) over ABSTRACT time points `P` and durations
    `D`; the parsers, the dumper, TimePoint / Duration arithmetic and the two datetime fall-backs are fields
    of the record `oper_ops P D` (as in phase 5), instantiated with model functions in Proofs/GenCode11Ok.v;
  * statements are translated compositionally into state transformers `stm := state -> exc outc`
    (`s_seq`, `s_assign`, `s_if`, `s_for`, `s_try`, `s_return`, ...); the state is the association list of the
    method's locals, reading a local that is not bound raises UnboundLocalError (as Python);
    expressions are `expr := state -> exc pyval`, evaluated left to right, `and/or/if-else` lazy;
  * fail closed: anything outside the subset rejects the method (dummy definition, reason in a comment and
    in REJECTED_code11) and sets translator_ok_code11 := false.
Reuses translate.py (REPO, write_if_changed, Reject, coq_str) and translate_code.py (clean, VERIF_GEN_OUT).
"""
import ast
import os
import re
import sys

sys.path.insert(0, os.path.dirname(os.path.abspath(__file__)))
import translate  # noqa: E402
from translate import Reject, write_if_changed, coq_str, REPO  # noqa: E402
import translate_code  # noqa: E402,F401  (honours VERIF_GEN_OUT)
from translate_code import clean  # noqa: E402

SRC = os.path.join(REPO, "metomi", "isodatetime")

# entry points (the brief); other methods reached through self.m(..) are translated on demand
ENTRY = ["__init__", "date_format", "date_parse", "date_shift", "date_diff", "date_diff_format", "strftime", "strptime",
         "process_time_point_str", "diff_time_point_strs", "format_duration_str"]
# methods that are abstract operations (not translated): name -> number of arguments
ABSTRACT = {"get_datetime_strftime": 2, "get_datetime_strptime": 2}
OUT_OF_SCOPE = {
    "get_calendar_mode": "out of scope: global calendar mode",
    "set_calendar_mode": "out of scope: global calendar mode (its body is checked to be Calendar.default().set_mode(..); "
                         "the call in __init__ is the state entry !calendar_mode)",
    "iter_recurrence_str": "out of scope: generator over TimeRecurrence.__iter__ (phase 5, C12_code_iter)",
    "get_datetime_strftime": "out of scope: abstract operation O_datetime_strftime (datetime.strftime fall-back)",
    "get_datetime_strptime": "out of scope: abstract operation O_datetime_strptime (time.strptime fall-back)",
}
# the component objects __init__ must create: attribute -> class
COMPONENTS = {"time_point_dumper": "TimePointDumper", "time_point_parser": "TimePointParser",
              "duration_parser": "DurationParser", "recurrence_parser": "TimeRecurrenceParser"}
DATA_FIELDS = ["custom_parse_format", "utc_mode", "ref_point_str"]
# self.<component>.<method>(positional.., keyword=constant..) -> prelude function
COMPONENT_CALLS = {
    ("time_point_parser", "parse"): (1, {"dump_as_parsed": True}, "py_tp_parse"),
    ("time_point_parser", "strptime"): (2, {}, "py_tp_strptime"),
    ("duration_parser", "parse"): (1, {}, "py_dur_parse"),
    ("time_point_dumper", "dump"): (2, {}, "py_dump"),
}
# methods of values: name -> number of arguments
VALUE_METHODS = {"startswith": 1, "to_utc": 0, "to_local_time_zone": 0, "get_time_zone_utc": 0, "strftime": 1,
                 "get_seconds": 0, "upper": 0, "replace": 2, "is_integer": 0}
VALUE_ATTRS = ["dump_format", "years", "months", "weeks", "days", "hours", "minutes", "seconds"]
BUILTIN_CALLS = {"str": "py_str", "int": "py_int", "float": "py_float"}
EXN_CLASSES = ["ValueError", "OffsetValueError", "StrftimeSyntaxError", "TypeError", "AttributeError", "KeyError",
               "IndexError", "UnboundLocalError", "ZeroDivisionError"]
BUILTINS_GUARDED = set(BUILTIN_CALLS) | {"ValueError", "TypeError", "KeyError", "True", "False", "None", "len"}

PRELUDE = r'''
Section Code11.
Variables P D : Type.

(* ---------- values, exceptions ---------- *)
Inductive pyval :=
  | VNone | VUnbound
  | VBool (b : bool) | VInt (z : Z) | VNum (q : Q) | VStr (s : string)
  | VList (l : list pyval) | VTuple (l : list pyval) | VDict (d : list (string * pyval))
  | VPoint (p : P) | VDur (d : D)
  | VFn (name : string).      (* a function object bound to a local (getenv = os.getenv) *)

Inductive pyexn := ValueError | OffsetValueError | StrftimeSyntaxError | TypeError | AttributeError | KeyError
  | IndexError | UnboundLocalError | ZeroDivisionError
  | NotTranslated            (* an operand kind the prelude does not model; no handler catches it *)
  | OpError (n : Z).         (* raised by an abstract operation; no handler catches it *)
Inductive exc (A : Type) := Ret (a : A) | Raise (e : pyexn).
Arguments Ret {A} a.
Arguments Raise {A} e.
Definition bind {A B} (m : exc A) (k : A -> exc B) : exc B :=
  match m with Ret a => k a | Raise e => Raise e end.
Notation "x <- m ;; k" := (bind m (fun x => k)) (at level 61, m at next level, right associativity).

Definition pyexn_eqb (a b : pyexn) : bool :=
  match a, b with
  | ValueError, ValueError | OffsetValueError, OffsetValueError | StrftimeSyntaxError, StrftimeSyntaxError
  | TypeError, TypeError | AttributeError, AttributeError | KeyError, KeyError | IndexError, IndexError
  | UnboundLocalError, UnboundLocalError | ZeroDivisionError, ZeroDivisionError => true
  | _, _ => false
  end.
(* isinstance(e, c): c itself or, for ValueError, one of the classes exceptions.py derives from it *)
Definition exn_isa (value_errors : list pyexn) (e c : pyexn) : bool :=
  pyexn_eqb e c || (pyexn_eqb c ValueError && existsb (pyexn_eqb e) value_errors).

(* ---------- the abstract operations ---------- *)
Record oper_ops := mkOps11 {
  O_getenv : string -> option string;             (* os.environ *)
  O_now : exc P;                                  (* get_timepoint_for_now() *)
  O_tp_parse : string -> exc P;                   (* self.time_point_parser.parse(s, dump_as_parsed=True) *)
  O_tp_strptime : string -> string -> exc P;      (* self.time_point_parser.strptime(s, f) *)
  O_dur_parse : string -> exc D;                  (* self.duration_parser.parse(s) *)
  O_dump : P -> string -> exc string;             (* self.time_point_dumper.dump(p, f) *)
  O_datetime_strptime : string -> string -> exc P;(* self.get_datetime_strptime(s, f): time.strptime, TimePoint(..) *)
  O_datetime_strftime : P -> string -> exc string;(* self.get_datetime_strftime(p, f): datetime(..).strftime *)
  P_strftime : P -> string -> exc string;
  P_dump_format : P -> option string;             (* attribute dump_format (None / a string) *)
  P_to_utc : P -> exc P;
  P_to_local_time_zone : P -> exc P;
  P_get_time_zone_utc : P -> exc bool;
  P_add : P -> D -> exc P;
  P_sub_dur : P -> D -> exc P;
  P_sub : P -> P -> exc D;
  P_lt : P -> P -> exc bool;
  D_str : D -> exc string;
  D_get_seconds : D -> exc Q;
  D_attr : string -> D -> exc pyval;              (* years months weeks days hours minutes seconds *)
  N_str : pyval -> exc string                     (* str() of an int / float *)
}.
Variable ops : oper_ops.

(* ---------- state, outcomes, statements ---------- *)
(* equality of the NAMES of locals / attributes (a copy of String.eqb: proofs evaluate name tests wholesale
   and leave tests on string DATA, which use String.eqb, alone) *)
Definition bit_eqb (a b : bool) : bool := if a then b else negb b.
Definition char_eqb (a b : ascii) : bool :=
  match a, b with
  | Ascii a0 a1 a2 a3 a4 a5 a6 a7, Ascii b0 b1 b2 b3 b4 b5 b6 b7 =>
    bit_eqb a0 b0 && bit_eqb a1 b1 && bit_eqb a2 b2 && bit_eqb a3 b3 &&
    bit_eqb a4 b4 && bit_eqb a5 b5 && bit_eqb a6 b6 && bit_eqb a7 b7
  end.
Fixpoint name_eqb (a b : string) : bool :=
  match a, b with
  | EmptyString, EmptyString => true
  | String x a', String y b' => char_eqb x y && name_eqb a' b'
  | _, _ => false
  end.
Definition state := list (string * pyval).
Fixpoint get (x : string) (st : state) : pyval :=
  match st with [] => VUnbound | (k, v) :: r => if name_eqb k x then v else get x r end.
Fixpoint set (x : string) (v : pyval) (st : state) : state :=
  match st with
  | [] => [(x, v)]
  | (k, w) :: r => if name_eqb k x then (k, v) :: r else (k, w) :: set x v r
  end.
Inductive outc := ONext (st : state) | OBreak (st : state) | OCont (st : state) | OReturn (v : pyval).
Definition expr := state -> exc pyval.
Definition stm := state -> exc outc.

Definition py_bound (v : pyval) : exc pyval :=
  match v with VUnbound => Raise UnboundLocalError | _ => Ret v end.
Definition truth (v : pyval) : exc bool :=
  match v with
  | VNone => Ret false | VBool b => Ret b | VInt z => Ret (negb (z =? 0)%Z)
  | VStr s => Ret (negb (String.eqb s "")) | VList l | VTuple l => Ret (match l with [] => false | _ => true end)
  | VDict d => Ret (match d with [] => false | _ => true end)
  | VPoint _ | VFn _ => Ret true
  | _ => Raise NotTranslated
  end.

Definition e_const (v : pyval) : expr := fun _ => Ret v.
Definition e_var (x : string) : expr := fun st => py_bound (get x st).
Definition e_app0 (f : exc pyval) : expr := fun _ => f.
Definition e_app1 (f : pyval -> exc pyval) (a : expr) : expr := fun st => x <- a st ;; f x.
Definition e_app2 (f : pyval -> pyval -> exc pyval) (a b : expr) : expr :=
  fun st => x <- a st ;; y <- b st ;; f x y.
Definition e_app3 (f : pyval -> pyval -> pyval -> exc pyval) (a b c : expr) : expr :=
  fun st => x <- a st ;; y <- b st ;; z <- c st ;; f x y z.
Fixpoint e_seq (es : list expr) (st : state) : exc (list pyval) :=
  match es with [] => Ret [] | e :: r => x <- e st ;; xs <- e_seq r st ;; Ret (x :: xs) end.
Definition e_appn (f : list pyval -> exc pyval) (es : list expr) : expr := fun st => xs <- e_seq es st ;; f xs.
Definition e_tuple (es : list expr) : expr := fun st => xs <- e_seq es st ;; Ret (VTuple xs).
Definition e_list (es : list expr) : expr := fun st => xs <- e_seq es st ;; Ret (VList xs).
Fixpoint e_dict_go (kes : list (string * expr)) (st : state) : exc (list (string * pyval)) :=
  match kes with [] => Ret [] | (k, e) :: r => x <- e st ;; xs <- e_dict_go r st ;; Ret ((k, x) :: xs) end.
Definition e_dict (kes : list (string * expr)) : expr := fun st => d <- e_dict_go kes st ;; Ret (VDict d).
Definition e_and (a b : expr) : expr := fun st => x <- a st ;; t <- truth x ;; if t then b st else Ret x.
Definition e_or (a b : expr) : expr := fun st => x <- a st ;; t <- truth x ;; if t then Ret x else b st.
Definition e_not (a : expr) : expr := fun st => x <- a st ;; t <- truth x ;; Ret (VBool (negb t)).
Definition e_ifexp (c a b : expr) : expr := fun st => x <- c st ;; t <- truth x ;; if t then a st else b st.

Definition s_pass : stm := fun st => Ret (ONext st).
Definition s_break : stm := fun st => Ret (OBreak st).
Definition s_continue : stm := fun st => Ret (OCont st).
Definition s_expr (e : expr) : stm := fun st => _ <- e st ;; Ret (ONext st).
Definition s_assign (x : string) (e : expr) : stm := fun st => v <- e st ;; Ret (ONext (set x v st)).
Fixpoint set_all (xs : list string) (vs : list pyval) (st : state) : option state :=
  match xs, vs with
  | [], [] => Some st
  | x :: xr, v :: vr => set_all xr vr (set x v st)
  | _, _ => None
  end.
(* a, b = e : a tuple or list of exactly that length, else ValueError (wrong length) / TypeError *)
Definition s_unpack (xs : list string) (e : expr) : stm :=
  fun st => v <- e st ;;
    match v with
    | VTuple l | VList l => match set_all xs l st with Some st' => Ret (ONext st') | None => Raise ValueError end
    | VNone | VBool _ | VInt _ | VNum _ => Raise TypeError
    | _ => Raise NotTranslated
    end.
Definition s_seq (a b : stm) : stm :=
  fun st => o <- a st ;; match o with ONext st' => b st' | _ => Ret o end.
Definition s_if (c : expr) (a b : stm) : stm :=
  fun st => x <- c st ;; t <- truth x ;; if t then a st else b st.
Definition s_return (e : expr) : stm := fun st => v <- e st ;; Ret (OReturn v).
Definition s_raise (e : pyexn) : stm := fun _ => Raise e.
(* the handler runs in the state the try statement was entered with: the translator accepts only try bodies
   whose last statement is the only one that can change the state *)
Definition s_try (value_errors : list pyexn) (body : stm) (classes : list pyexn) (handler : stm) : stm :=
  fun st => match body st with
            | Raise e => if existsb (exn_isa value_errors e) classes then handler st else Raise e
            | r => r
            end.
Fixpoint for_loop (x : string) (body : stm) (items : list pyval) (st : state) : exc outc :=
  match items with
  | [] => Ret (ONext st)
  | v :: r => o <- body (set x v st) ;;
              match o with
              | ONext st' | OCont st' => for_loop x body r st'
              | OBreak st' => Ret (ONext st')
              | OReturn w => Ret (OReturn w)
              end
  end.
Fixpoint chars (s : string) : list pyval :=
  match s with EmptyString => [] | String c r => VStr (String c "") :: chars r end.
Definition py_iter (v : pyval) : exc (list pyval) :=
  match v with
  | VList l | VTuple l => Ret l
  | VStr s => Ret (chars s)
  | VNone | VBool _ | VInt _ | VNum _ => Raise TypeError
  | _ => Raise NotTranslated
  end.
Definition s_for (x : string) (e : expr) (body : stm) : stm :=
  fun st => v <- e st ;; items <- py_iter v ;; for_loop x body items st.
(* __init__: the attributes it assigns ("self.x") and the calendar mode it sets ("!calendar_mode") are entries
   of the state; the result is the final state as a dictionary *)
Definition run_init (body : stm) (st : state) : exc pyval :=
  o <- body st ;; match o with ONext st' => Ret (VDict st') | _ => Raise NotTranslated end.
(* a component object: its class, positional and keyword arguments *)
Definition e_ctor (cls : string) (pos : list expr) (kws : list (string * expr)) : expr :=
  fun st => xs <- e_seq pos st ;; d <- e_dict_go kws st ;; Ret (VTuple [VStr cls; VList xs; VDict d]).
(* a method: run the body, `return` gives the value, falling off the end gives None *)
Definition run_method (body : stm) (st : state) : exc pyval :=
  o <- body st ;; match o with OReturn v => Ret v | ONext _ => Ret VNone | _ => Raise NotTranslated end.

(* ---------- the Python operations ---------- *)
Definition starts_with (p s : string) : bool := match str_prefix p s with Some _ => true | None => false end.
Definition str_tail (s : string) : string := match s with EmptyString => "" | String _ r => r end.
Fixpoint replace_char (c : ascii) (t s : string) : string :=
  match s with EmptyString => "" | String a r => (if Ascii.eqb a c then t else String a "") ++ replace_char c t r end.
Definition upper_char (c : ascii) : ascii :=
  let n := nat_of_ascii c in if (Nat.leb 97 n && Nat.leb n 122)%bool then ascii_of_nat (n - 32) else c.
Fixpoint upper_str (s : string) : string :=
  match s with EmptyString => "" | String a r => String (upper_char a) (upper_str r) end.
Fixpoint dict_get (k : string) (d : list (string * pyval)) : option pyval :=
  match d with [] => None | (a, v) :: r => if String.eqb a k then Some v else dict_get k r end.

Definition py_is_none (v : pyval) : exc pyval := Ret (VBool (match v with VNone => true | _ => false end)).
Definition py_is_not_none (v : pyval) : exc pyval := Ret (VBool (match v with VNone => false | _ => true end)).
(* == on None / bool / int / str (different kinds are unequal); points and durations: not translated *)
Definition py_eq (a b : pyval) : exc pyval :=
  match a, b with
  | VNone, VNone => Ret (VBool true)
  | VNone, (VStr _ | VInt _ | VBool _) => Ret (VBool false)
  | VStr x, VStr y => Ret (VBool (String.eqb x y))
  | VStr _, (VNone | VInt _ | VBool _) => Ret (VBool false)
  | VInt x, VInt y => Ret (VBool (x =? y)%Z)
  | VInt _, (VNone | VStr _) => Ret (VBool false)
  | VBool x, VBool y => Ret (VBool (Bool.eqb x y))
  | VBool _, (VNone | VStr _) => Ret (VBool false)
  | _, _ => Raise NotTranslated
  end.
Definition py_ne (a b : pyval) : exc pyval :=
  r <- py_eq a b ;; match r with VBool x => Ret (VBool (negb x)) | _ => Raise NotTranslated end.
Definition py_lt (a b : pyval) : exc pyval :=
  match a, b with
  | VPoint x, VPoint y => r <- P_lt ops x y ;; Ret (VBool r)
  | VInt x, VInt y => Ret (VBool (x <? y)%Z)
  | VNone, _ | _, VNone => Raise TypeError
  | _, _ => Raise NotTranslated
  end.
(* x in y: a one-character string in a string, a string key in a dict *)
Definition py_in (a b : pyval) : exc pyval :=
  match a, b with
  | VStr (String c EmptyString), VStr s => Ret (VBool (contains_char c s))
  | VStr k, VDict d => Ret (VBool (match dict_get k d with Some _ => true | None => false end))
  | _, (VNone | VBool _ | VInt _ | VNum _) => Raise TypeError
  | _, _ => Raise NotTranslated
  end.
Definition py_not_in (a b : pyval) : exc pyval :=
  r <- py_in a b ;; match r with VBool x => Ret (VBool (negb x)) | _ => Raise NotTranslated end.
Definition py_add (a b : pyval) : exc pyval :=
  match a, b with
  | VPoint p, VDur d => r <- P_add ops p d ;; Ret (VPoint r)
  | VStr x, VStr y => Ret (VStr (x ++ y))
  | VInt x, VInt y => Ret (VInt (x + y))
  | VStr _, (VNone | VInt _ | VBool _ | VNum _) | (VNone | VInt _ | VBool _ | VNum _), VStr _
  | VNone, _ => Raise TypeError
  | _, _ => Raise NotTranslated
  end.
Definition py_sub (a b : pyval) : exc pyval :=
  match a, b with
  | VPoint p, VDur d => r <- P_sub_dur ops p d ;; Ret (VPoint r)
  | VPoint p, VPoint q => r <- P_sub ops p q ;; Ret (VDur r)
  | VInt x, VInt y => Ret (VInt (x - y))
  | VNone, _ | VStr _, _ => Raise TypeError
  | _, _ => Raise NotTranslated
  end.
Definition num_of (v : pyval) : option Q :=
  match v with VInt z => Some (inject_Z z) | VNum q => Some q | _ => None end.
Definition py_div (a b : pyval) : exc pyval :=
  match num_of a, num_of b with
  | Some x, Some y => if Qeq_bool y 0 then Raise ZeroDivisionError else Ret (VNum (x / y))
  | _, _ => match a, b with VNone, _ | _, VNone | VStr _, _ | _, VStr _ => Raise TypeError | _, _ => Raise NotTranslated end
  end.
Definition py_getitem (a i : pyval) : exc pyval :=
  match a, i with
  | VStr s, VInt 0 => match s with EmptyString => Raise IndexError | String c _ => Ret (VStr (String c "")) end
  | (VTuple l | VList l), VInt z =>
      if (z <? 0)%Z then Raise NotTranslated
      else match nth_error l (Z.to_nat z) with Some v => Ret v | None => Raise IndexError end
  | VDict d, VStr k => match dict_get k d with Some v => Ret v | None => Raise KeyError end
  | VNone, _ => Raise TypeError
  | _, _ => Raise NotTranslated
  end.
(* x[1:] *)
Definition py_slice_from1 (a : pyval) : exc pyval :=
  match a with
  | VStr s => Ret (VStr (str_tail s))
  | VList l => Ret (VList (tl l)) | VTuple l => Ret (VTuple (tl l))
  | VNone => Raise TypeError
  | _ => Raise NotTranslated
  end.
Definition py_str (v : pyval) : exc pyval :=
  match v with
  | VStr s => Ret (VStr s)
  | VNone => Ret (VStr "None")
  | VDur d => s <- D_str ops d ;; Ret (VStr s)
  | VInt _ | VNum _ => s <- N_str ops v ;; Ret (VStr s)
  | _ => Raise NotTranslated
  end.
Definition py_float (v : pyval) : exc pyval :=
  match v with VInt z => Ret (VNum (inject_Z z)) | VNum q => Ret (VNum q) | VNone => Raise TypeError | _ => Raise NotTranslated end.
Definition qtrunc (q : Q) : Z := if Qle_bool 0 q then Qfloor q else Qceiling q.
Definition py_int (v : pyval) : exc pyval :=
  match v with VInt z => Ret (VInt z) | VNum q => Ret (VInt (qtrunc q)) | VNone => Raise TypeError | _ => Raise NotTranslated end.

Definition recv_err (v : pyval) : exc pyval :=
  match v with VNone | VBool _ | VInt _ => Raise AttributeError | _ => Raise NotTranslated end.
Definition py_getattr (name : string) (v : pyval) : exc pyval :=
  match v with
  | VPoint p => if name_eqb name "dump_format"
                then Ret (match P_dump_format ops p with Some f => VStr f | None => VNone end)
                else Raise NotTranslated
  | VDur d => if name_eqb name "dump_format" then Raise AttributeError else D_attr ops name d
  | _ => recv_err v
  end.
Definition py_m_startswith (v a : pyval) : exc pyval :=
  match v, a with
  | VStr s, VStr p => Ret (VBool (starts_with p s))
  | VStr _, _ => Raise TypeError
  | _, _ => recv_err v
  end.
Definition py_m_upper (v : pyval) : exc pyval :=
  match v with VStr s => Ret (VStr (upper_str s)) | _ => recv_err v end.
Definition py_m_replace (v a b : pyval) : exc pyval :=
  match v, a, b with
  | VStr s, VStr (String c EmptyString), VStr t => Ret (VStr (replace_char c t s))
  | VStr _, _, _ => Raise NotTranslated
  | _, _, _ => recv_err v
  end.
Definition py_m_is_integer (v : pyval) : exc pyval :=
  match v with VNum q => Ret (VBool (Qeq_bool (inject_Z (Qfloor q)) q)) | _ => recv_err v end.
Definition py_m_to_utc (v : pyval) : exc pyval :=
  match v with VPoint p => r <- P_to_utc ops p ;; Ret (VPoint r) | _ => recv_err v end.
Definition py_m_to_local_time_zone (v : pyval) : exc pyval :=
  match v with VPoint p => r <- P_to_local_time_zone ops p ;; Ret (VPoint r) | _ => recv_err v end.
Definition py_m_get_time_zone_utc (v : pyval) : exc pyval :=
  match v with VPoint p => r <- P_get_time_zone_utc ops p ;; Ret (VBool r) | _ => recv_err v end.
Definition py_m_strftime (v f : pyval) : exc pyval :=
  match v, f with
  | VPoint p, VStr s => r <- P_strftime ops p s ;; Ret (VStr r)
  | VPoint _, _ => Raise NotTranslated
  | _, _ => recv_err v
  end.
Definition py_m_get_seconds (v : pyval) : exc pyval :=
  match v with VDur d => r <- D_get_seconds ops d ;; Ret (VNum r) | _ => recv_err v end.

(* os.getenv(k) / os.getenv(k, default), and the same through a local bound to os.getenv *)
Definition py_getenv (k : pyval) : exc pyval :=
  match k with
  | VStr s => Ret (match O_getenv ops s with Some v => VStr v | None => VNone end)
  | _ => Raise NotTranslated
  end.
Definition py_getenv2 (k d : pyval) : exc pyval :=
  match k with
  | VStr s => Ret (match O_getenv ops s with Some v => VStr v | None => d end)
  | _ => Raise NotTranslated
  end.
Definition py_call1 (f a : pyval) : exc pyval :=
  match f with
  | VFn name => if String.eqb name "os.getenv" then py_getenv a else Raise NotTranslated
  | VNone | VBool _ | VInt _ | VNum _ | VStr _ => Raise TypeError
  | _ => Raise NotTranslated
  end.
Definition py_call2 (f a b : pyval) : exc pyval :=
  match f with
  | VFn name => if String.eqb name "os.getenv" then py_getenv2 a b else Raise NotTranslated
  | VNone | VBool _ | VInt _ | VNum _ | VStr _ => Raise TypeError
  | _ => Raise NotTranslated
  end.

(* the component objects and the two fall-backs; an argument of another kind: not translated *)
Definition py_now : exc pyval := r <- O_now ops ;; Ret (VPoint r).
Definition py_tp_parse (s : pyval) : exc pyval :=
  match s with VStr x => r <- O_tp_parse ops x ;; Ret (VPoint r) | _ => Raise NotTranslated end.
Definition py_tp_strptime (s f : pyval) : exc pyval :=
  match s, f with VStr x, VStr y => r <- O_tp_strptime ops x y ;; Ret (VPoint r) | _, _ => Raise NotTranslated end.
Definition py_dur_parse (s : pyval) : exc pyval :=
  match s with VStr x => r <- O_dur_parse ops x ;; Ret (VDur r) | _ => Raise NotTranslated end.
Definition py_dump (p f : pyval) : exc pyval :=
  match p, f with VPoint x, VStr y => r <- O_dump ops x y ;; Ret (VStr r) | _, _ => Raise NotTranslated end.
Definition py_get_datetime_strptime (s f : pyval) : exc pyval :=
  match s, f with VStr x, VStr y => r <- O_datetime_strptime ops x y ;; Ret (VPoint r) | _, _ => Raise NotTranslated end.
Definition py_get_datetime_strftime (p f : pyval) : exc pyval :=
  match p, f with VPoint x, VStr y => r <- O_datetime_strftime ops x y ;; Ret (VStr r) | _, _ => Raise NotTranslated end.
'''


# prelude names that depend on the section variables (their P D arguments are made implicit)
DEPENDENT = ["mkOps11", "O_getenv", "run_init", "e_ctor", "py_getenv", "py_getenv2", "py_call1", "py_call2", "O_now", "O_tp_parse", "O_tp_strptime", "O_dur_parse", "O_dump", "O_datetime_strptime",
             "O_datetime_strftime", "P_strftime", "P_dump_format", "P_to_utc", "P_to_local_time_zone",
             "P_get_time_zone_utc", "P_add", "P_sub_dur", "P_sub", "P_lt", "D_str", "D_get_seconds", "D_attr", "N_str",
             "get", "set", "ONext", "OBreak", "OCont", "OReturn", "py_bound", "truth", "e_const", "e_var", "e_app0",
             "e_app1", "e_app2", "e_app3", "e_seq", "e_appn", "e_tuple", "e_list", "e_dict_go", "e_dict", "e_and", "e_or",
             "e_not", "e_ifexp", "s_pass", "s_break", "s_continue", "s_expr", "s_assign", "set_all", "s_unpack", "s_seq",
             "s_if", "s_return", "s_raise", "s_try", "for_loop", "chars", "py_iter", "s_for", "run_method", "dict_get",
             "py_is_none", "py_is_not_none", "py_eq", "py_ne", "py_lt", "py_in", "py_not_in", "py_add", "py_sub",
             "num_of", "py_div", "py_getitem", "py_slice_from1", "py_str", "py_float", "py_int", "recv_err",
             "py_getattr", "py_m_startswith", "py_m_upper", "py_m_replace", "py_m_is_integer", "py_m_to_utc",
             "py_m_to_local_time_zone", "py_m_get_time_zone_utc", "py_m_strftime", "py_m_get_seconds", "py_now",
             "py_tp_parse", "py_tp_strptime", "py_dur_parse", "py_dump", "py_get_datetime_strptime",
             "py_get_datetime_strftime"]


# --------------------------------------------------------------------------
class Unit:
    def __init__(self):
        path = os.path.join(SRC, "datetimeoper.py")
        with open(path) as fh:
            self.tree = ast.parse(fh.read())
        self.cls = None
        self.module_names = {}     # local name -> (module, original name)
        self.module_ok = True
        self.module_problem = None
        for node in self.tree.body:
            if isinstance(node, ast.ClassDef) and node.name == "DateTimeOperator":
                self.cls = node
            elif isinstance(node, ast.ImportFrom):
                for a in node.names:
                    self.module_names[a.asname or a.name] = ((node.module or ""), a.name)
            elif isinstance(node, ast.Import):
                for a in node.names:
                    self.module_names[a.asname or a.name] = (a.name, None)
            elif isinstance(node, ast.Expr) and isinstance(node.value, ast.Constant):
                pass
            elif (isinstance(node, ast.Assign) and len(node.targets) == 1 and isinstance(node.targets[0], ast.Name)
                  and isinstance(node.value, ast.Attribute) and isinstance(node.value.value, ast.Name)
                  and node.value.value.id in self.module_names
                  and self.bound_once(node.targets[0].id) and self.bound_once(node.value.value.id)):
                # X = <imported module>.<name> at module level, X and the module name bound nowhere else:
                # the same binding as `from <module> import <name> as X`
                m, o = self.module_names[node.value.value.id]
                self.module_names[node.targets[0].id] = ((m if o is None else (m + "." + o if m else o)),
                                                         node.value.attr)
            else:
                self.module_ok = False
                self.module_problem = "module-level statement %s" % type(node).__name__
        if self.cls is None:
            raise Reject("class DateTimeOperator not found")
        self.methods = {}
        self.consts = {}
        self.static = set()
        for node in self.cls.body:
            if isinstance(node, ast.FunctionDef):
                decos = [d.id if isinstance(d, ast.Name) else "?" for d in node.decorator_list]
                if decos == ["staticmethod"]:
                    self.static.add(node.name)
                elif decos:
                    raise Reject("decorator on %s" % node.name)
                if node.name in self.methods:
                    raise Reject("method %s defined twice" % node.name)
                self.methods[node.name] = node
            elif isinstance(node, ast.Assign) and len(node.targets) == 1 and isinstance(node.targets[0], ast.Name):
                try:
                    self.consts[node.targets[0].id] = ast.literal_eval(node.value)
                except Exception:
                    raise Reject("class-level assignment of %s is not a literal" % node.targets[0].id)
            elif isinstance(node, ast.Expr) and isinstance(node.value, ast.Constant):
                pass
            else:
                raise Reject("class-level statement %s" % type(node).__name__)
        if [b.id if isinstance(b, ast.Name) else "?" for b in self.cls.bases] not in (["object"], []):
            raise Reject("base classes")
        if self.cls.decorator_list:
            raise Reject("class decorators")
        for bad in ("__getattr__", "__getattribute__", "__setattr__", "__new__", "__call__"):
            if bad in self.methods:
                raise Reject("class defines %s" % bad)
        for b in BUILTINS_GUARDED:
            if b in self.module_names or b in self.methods and False:
                raise Reject("builtin %s rebound" % b)
        self.check_imports()
        self.check_init()
        self.value_errors = read_value_errors()

    def bound_once(self, name):
        n = 0
        for x in ast.walk(self.tree):
            if isinstance(x, ast.Name) and x.id == name and not isinstance(x.ctx, ast.Load):
                n += 1
            elif isinstance(x, ast.arg) and x.arg == name:
                n += 1
            elif isinstance(x, (ast.FunctionDef, ast.ClassDef)) and x.name == name:
                n += 1
            elif isinstance(x, (ast.Global, ast.Nonlocal)) and name in x.names:
                n += 1
            elif isinstance(x, (ast.Import, ast.ImportFrom)):
                n += sum(1 for a in x.names if (a.asname or a.name).split(".")[0] == name)
        return n == 1

    def check_imports(self):
        want = {"TimePoint": ("data", "TimePoint"), "TimePointDumper": ("dumpers", "TimePointDumper"),
                "TimePointParser": ("parsers", "TimePointParser"), "DurationParser": ("parsers", "DurationParser"),
                "TimeRecurrenceParser": ("parsers", "TimeRecurrenceParser"),
                "OffsetValueError": ("exceptions", "OffsetValueError"),
                "StrftimeSyntaxError": ("exceptions", "StrftimeSyntaxError")}
        for name, (mod, orig) in want.items():
            got = self.module_names.get(name)
            if got is None or got[1] != orig or got[0].split(".")[-1] != mod:
                raise Reject("import of %s is not %s.%s" % (name, mod, orig))
        self.now_names = [n for n, (m, o) in self.module_names.items()
                          if o == "get_timepoint_for_now" and m.split(".")[-1] == "data"]

    def check_set_calendar_mode(self):
        m = self.methods.get("set_calendar_mode")
        if m is None or "set_calendar_mode" not in self.static:
            raise Reject("set_calendar_mode is not a static method")
        body = [x for x in m.body if not (isinstance(x, ast.Expr) and isinstance(x.value, ast.Constant))]
        want = ast.dump(ast.parse("Calendar.default().set_mode(calendar_mode)").body[0])
        if ([a.arg for a in m.args.args] != ["calendar_mode"] or len(body) != 1 or ast.dump(body[0]) != want
                or self.module_names.get("Calendar", ("", ""))[1] != "Calendar"
                or self.module_names["Calendar"][0].split(".")[-1] != "data"):
            raise Reject("set_calendar_mode is not Calendar.default().set_mode(calendar_mode)")

    def check_init(self):
        """Every store to an attribute of self is in __init__; the data attributes and the components are the
        expected ones (each component created from its class)."""
        init = self.methods.get("__init__")
        if init is None:
            raise Reject("no __init__")
        stores = {}
        for name, m in self.methods.items():
            for node in ast.walk(m):
                if isinstance(node, ast.Attribute) and isinstance(node.ctx, (ast.Store, ast.Del)):
                    if name != "__init__":
                        raise Reject("store to an attribute outside __init__ (in %s)" % name)
                    if not (isinstance(node.value, ast.Name) and node.value.id == "self"):
                        raise Reject("store to an attribute of another object in __init__")
                if isinstance(node, ast.Call) and isinstance(node.func, ast.Name) and node.func.id in ("setattr", "delattr"):
                    raise Reject("setattr in %s" % name)
        for node in ast.walk(init):
            if isinstance(node, (ast.Assign, ast.AugAssign, ast.AnnAssign)):
                targets = node.targets if isinstance(node, ast.Assign) else [node.target]
                for t in targets:
                    for a in ast.walk(t):
                        if isinstance(a, ast.Attribute) and isinstance(a.ctx, ast.Store):
                            stores.setdefault(a.attr, []).append(node.value)
        if sorted(stores) != sorted(list(COMPONENTS) + DATA_FIELDS):
            raise Reject("attributes assigned in __init__: %s" % sorted(stores))
        for attr, cname in COMPONENTS.items():
            vals = stores[attr]
            if len(vals) != 1 or not (isinstance(vals[0], ast.Call) and isinstance(vals[0].func, ast.Name)
                                      and vals[0].func.id == cname):
                raise Reject("component %s is not created as %s(..)" % (attr, cname))
        for attr in self.consts:
            if attr in stores or attr in self.methods:
                raise Reject("class constant %s shadowed" % attr)


def read_value_errors():
    """Which of our exception classes derive from ValueError (exceptions.py, read on every run)."""
    with open(os.path.join(SRC, "exceptions.py")) as fh:
        tree = ast.parse(fh.read())
    bases = {}
    for node in tree.body:
        if isinstance(node, ast.ClassDef):
            bases[node.name] = [b.id for b in node.bases if isinstance(b, ast.Name)]

    def derives(n, seen=()):
        if n == "ValueError":
            return True
        return any(derives(b, seen + (n,)) for b in bases.get(n, []) if b not in seen)
    out = []
    for n in ("OffsetValueError", "StrftimeSyntaxError"):
        if n not in bases:
            raise Reject("exceptions.py has no class %s" % n)
        if derives(n):
            out.append(n)
    return out


# --------------------------------------------------------------------------
def pylit(v):
    if v is None:
        return "VNone"
    if v is True or v is False:
        return "(VBool %s)" % ("true" if v else "false")
    if isinstance(v, int):
        return "(VInt (%d))" % v
    if isinstance(v, str):
        if any(ord(c) > 126 or ord(c) < 32 for c in v):
            raise Reject("string constant with a non-printable / non-ASCII character")
        return "(VStr %s)" % coq_str(v)
    if isinstance(v, (list, tuple)):
        return "(%s [%s])" % ("VList" if isinstance(v, list) else "VTuple", "; ".join(pylit(x) for x in v))
    if isinstance(v, dict):
        if not all(isinstance(k, str) for k in v):
            raise Reject("dict constant with a non-string key")
        return "(VDict [%s])" % "; ".join("(%s, %s)" % (coq_str(k), pylit(x)) for k, x in v.items())
    raise Reject("constant %r" % (v,))


class Tr:
    """Translation of one class; methods on demand, callees before callers."""

    def __init__(self, unit):
        self.u = unit
        self.done = {}       # name -> coq text
        self.order = []
        self.active = []
        self.used_ops = set()
        self.used_consts = set()

    # ---- methods
    def params(self, m):
        a = m.args
        if a.vararg or a.kwarg or a.kwonlyargs or getattr(a, "posonlyargs", []):
            raise Reject("%s: parameter kinds" % m.name)
        names = [x.arg for x in a.args]
        static = m.name in self.u.static
        if not static:
            if not names or names[0] != "self":
                raise Reject("%s: first parameter is not self" % m.name)
            names = names[1:]
        elif "self" in names:
            raise Reject("%s: static method with a parameter self" % m.name)
        defaults = [None] * (len(names) - len(a.defaults)) + list(a.defaults)
        dv = []
        for d in defaults:
            if d is None:
                dv.append(None)
            elif isinstance(d, ast.Constant) and (d.value is None or isinstance(d.value, (bool, str, int))):
                dv.append(pylit(d.value))
            else:
                raise Reject("%s: default value" % m.name)
        for n in names:
            if n in BUILTINS_GUARDED or n == "self":
                raise Reject("%s: parameter %s" % (m.name, n))
        return names, dv

    def method(self, name):
        if name in self.done:
            return
        if name in self.active:
            raise Reject("recursion through %s" % name)
        if name in ABSTRACT or name in OUT_OF_SCOPE:
            raise Reject("call of %s" % name)
        m = self.u.methods.get(name)
        if m is None:
            raise Reject("no method %s" % name)
        self.active.append(name)
        saved = (getattr(self, "cur", None), getattr(self, "cur_static", False), getattr(self, "locals", set()),
                 getattr(self, "in_init", False))
        try:
            names, _ = self.params(m)
            self.cur = name
            self.in_init = (name == "__init__")
            self.cur_static = name in self.u.static
            self.locals = set(names)
            for node in ast.walk(m):
                if isinstance(node, ast.Name) and isinstance(node.ctx, ast.Store):
                    if (node.id in BUILTINS_GUARDED or node.id == "self" or node.id in EXN_CLASSES
                            or node.id in self.u.now_names or node.id in COMPONENTS.values()):
                        raise Reject("%s: assignment to %s" % (name, node.id))
                    self.locals.add(node.id)
                if isinstance(node, (ast.Global, ast.Nonlocal, ast.Lambda, ast.FunctionDef, ast.ClassDef, ast.Yield,
                                     ast.YieldFrom, ast.Await, ast.ListComp, ast.DictComp, ast.SetComp,
                                     ast.GeneratorExp, ast.With, ast.While, ast.Delete, ast.Starred)) and node is not m:
                    raise Reject("%s: %s" % (name, type(node).__name__))
            body = self.block(m.body)
            if name == "__init__":
                for node in ast.walk(m):
                    if isinstance(node, ast.Return):
                        raise Reject("return in __init__")
            init = "[" + "; ".join("(%s, a_%s)" % (coq_str(n), n) for n in names) + "]"
            text = "Definition py_%s (self : pyOper)%s : exc pyval :=\n  %s\n%s\n    %s." % (
                name, "".join(" (a_%s : pyval)" % n for n in names), "run_init" if name == "__init__" else "run_method",
                indent(body, 4), init)
            self.done[name] = text
            self.order.append(name)
        finally:
            self.active.pop()
            self.cur, self.cur_static, self.locals, self.in_init = saved

    # ---- statements
    def block(self, stmts):
        items = []
        for s in stmts:
            if isinstance(s, ast.Expr) and isinstance(s.value, ast.Constant) and isinstance(s.value.value, str):
                continue  # docstring
            items.append(self.stmt(s))
        if not items:
            return "s_pass"
        out = items[-1]
        for it in reversed(items[:-1]):
            out = "(s_seq %s\n%s)" % (it, out)
        return out

    def stmt(self, s):
        return self.stmt1(s)

    def stmt1(self, s):
        if isinstance(s, ast.Pass):
            return "s_pass"
        if isinstance(s, ast.Break):
            return "s_break"
        if isinstance(s, ast.Continue):
            return "s_continue"
        if isinstance(s, ast.Expr):
            v = s.value
            if (self.in_init and isinstance(v, ast.Call) and isinstance(v.func, ast.Attribute)
                    and isinstance(v.func.value, ast.Name) and v.func.value.id == "self"
                    and v.func.attr == "set_calendar_mode"):
                # self.set_calendar_mode(e): the static method sets the global calendar mode (shape checked)
                self.u.check_set_calendar_mode()
                if v.keywords or len(v.args) != 1 or isinstance(v.args[0], ast.Starred):
                    raise Reject("set_calendar_mode arguments")
                return "(s_assign %s %s)" % (coq_str("!calendar_mode"), self.expr(v.args[0]))
            return "(s_expr %s)" % self.expr(s.value)
        if isinstance(s, ast.Return):
            return "(s_return %s)" % (self.expr(s.value) if s.value is not None else "(e_const VNone)")
        if isinstance(s, ast.Assign):
            if len(s.targets) != 1:
                raise Reject("chained assignment")
            t = s.targets[0]
            if isinstance(t, ast.Name):
                return "(s_assign %s %s)" % (coq_str(t.id), self.expr(s.value))
            if (self.in_init and isinstance(t, ast.Attribute) and isinstance(t.value, ast.Name) and t.value.id == "self"
                    and (t.attr in DATA_FIELDS or t.attr in COMPONENTS)):
                return "(s_assign %s %s)" % (coq_str("self." + t.attr), self.expr(s.value))
            if isinstance(t, (ast.Tuple, ast.List)) and all(isinstance(x, ast.Name) for x in t.elts):
                ns = [x.id for x in t.elts]
                if len(set(ns)) != len(ns):
                    raise Reject("repeated name in an unpacking")
                return "(s_unpack [%s] %s)" % ("; ".join(coq_str(n) for n in ns), self.expr(s.value))
            raise Reject("assignment target %s" % type(t).__name__)
        if isinstance(s, ast.AugAssign):
            # x op= e: TimePoint / Duration / str / int have no in-place operators, so it is x = x op e
            if not isinstance(s.target, ast.Name):
                raise Reject("augmented assignment target")
            op = self.binop(s.op)
            return "(s_assign %s (e_app2 %s (e_var %s) %s))" % (
                coq_str(s.target.id), op, coq_str(s.target.id), self.expr(s.value))
        if isinstance(s, ast.If):
            return "(s_if %s\n%s\n%s)" % (self.expr(s.test), indent(self.block(s.body), 2),
                                          indent(self.block(s.orelse), 2))
        if isinstance(s, ast.For):
            if s.orelse:
                raise Reject("for .. else")
            if not isinstance(s.target, ast.Name):
                raise Reject("for target")
            return "(s_for %s %s\n%s)" % (coq_str(s.target.id), self.expr(s.iter), indent(self.block(s.body), 2))
        if isinstance(s, ast.Try):
            if s.orelse or s.finalbody or len(s.handlers) != 1:
                raise Reject("try with else / finally / several handlers")
            h = s.handlers[0]
            if h.name is not None:
                raise Reject("except .. as name")
            if h.type is None:
                raise Reject("bare except")
            types = h.type.elts if isinstance(h.type, ast.Tuple) else [h.type]
            classes = []
            for t in types:
                if not (isinstance(t, ast.Name) and t.id in EXN_CLASSES):
                    raise Reject("except class")
                self.check_exn_name(t.id)
                classes.append(t.id)
            body = [x for x in s.body
                    if not (isinstance(x, ast.Expr) and isinstance(x.value, ast.Constant))]
            # the handler runs in the entry state: only the last statement of the body may change the state,
            # and it must be a simple statement (its effect happens after everything that can raise)
            changed = False
            for x in body:
                harmless = (isinstance(x, (ast.Pass, ast.Break, ast.Continue))
                            or (isinstance(x, ast.Return) and (x.value is None or isinstance(x.value, ast.Constant))))
                if harmless:
                    continue
                if changed:
                    raise Reject("try body: a statement that can raise after a state change")
                if not isinstance(x, (ast.Assign, ast.AugAssign, ast.Return, ast.Expr)):
                    raise Reject("try body with a compound statement")
                changed = isinstance(x, (ast.Assign, ast.AugAssign))
            return "(s_try VALUE_ERRORS_code11\n%s\n  [%s]\n%s)" % (
                indent(self.block(s.body), 2), "; ".join(classes), indent(self.block(h.body), 2))
        if isinstance(s, ast.Raise):
            if s.cause is not None or s.exc is None:
                raise Reject("raise form")
            e = s.exc
            if isinstance(e, ast.Call) and isinstance(e.func, ast.Name) and e.func.id in EXN_CLASSES:
                self.check_exn_name(e.func.id)
                # the arguments (message construction) are not translated
                return "(s_raise %s)" % e.func.id
            if isinstance(e, ast.Name) and e.id in EXN_CLASSES:
                self.check_exn_name(e.id)
                return "(s_raise %s)" % e.id
            raise Reject("raise of something that is not a known exception class")
        raise Reject("statement %s" % type(s).__name__)

    def check_exn_name(self, n):
        if n in ("OffsetValueError", "StrftimeSyntaxError"):
            return  # imports checked
        if n in self.u.module_names or n in self.locals:
            raise Reject("%s rebound" % n)

    # ---- expressions
    def binop(self, op):
        if isinstance(op, ast.Add):
            return "py_add"
        if isinstance(op, ast.Sub):
            return "py_sub"
        if isinstance(op, ast.Div):
            return "py_div"
        raise Reject("operator %s" % type(op).__name__)

    def app(self, f, args):
        n = len(args)
        if n == 0:
            return "(e_app0 %s)" % f
        if n <= 3:
            return "(e_app%d %s %s)" % (n, f, " ".join(args))
        raise Reject("call with more than three arguments")

    def call_args(self, call, names, defaults, what):
        """Positional + keyword arguments of a call of a translated method, defaults filled in."""
        if any(isinstance(a, ast.Starred) for a in call.args) or any(k.arg is None for k in call.keywords):
            raise Reject("%s: * / ** arguments" % what)
        if len(call.args) > len(names):
            raise Reject("%s: too many arguments" % what)
        vals = {}
        for n, a in zip(names, call.args):
            vals[n] = a
        for k in call.keywords:
            if k.arg not in names or k.arg in vals:
                raise Reject("%s: keyword %s" % (what, k.arg))
            vals[k.arg] = k.value
        # Python evaluates positional then keyword arguments in source order; keyword order may differ from
        # parameter order: accept only when the source order is the parameter order
        order = [n for n in names if n in vals]
        src = [n for n, _ in zip(names, call.args)] + [k.arg for k in call.keywords]
        if order != src:
            raise Reject("%s: keyword arguments out of parameter order" % what)
        out = []
        for n, d in zip(names, defaults):
            if n in vals:
                out.append(self.expr(vals[n]))
            elif d is not None:
                out.append("(e_const %s)" % d)
            else:
                raise Reject("%s: missing argument %s" % (what, n))
        return out

    def expr(self, e):
        return self.expr1(e)

    def expr1(self, e):
        if isinstance(e, ast.Constant):
            if isinstance(e.value, float) or isinstance(e.value, (bytes, complex)) or e.value is Ellipsis:
                raise Reject("constant %r" % (e.value,))
            return "(e_const %s)" % pylit(e.value)
        if isinstance(e, ast.Name):
            if e.id in self.locals:
                return "(e_var %s)" % coq_str(e.id)
            raise Reject("name %s" % e.id)
        if isinstance(e, ast.Tuple):
            return "(e_tuple [%s])" % "; ".join(self.expr(x) for x in e.elts)
        if isinstance(e, ast.List):
            return "(e_list [%s])" % "; ".join(self.expr(x) for x in e.elts)
        if isinstance(e, ast.Dict):
            ks = []
            for k, v in zip(e.keys, e.values):
                if not (isinstance(k, ast.Constant) and isinstance(k.value, str)):
                    raise Reject("dict key")
                ks.append((k.value, self.expr(v)))
            if len(set(k for k, _ in ks)) != len(ks):
                raise Reject("repeated dict key")
            return "(e_dict [%s])" % "; ".join("(%s, %s)" % (coq_str(k), v) for k, v in ks)
        if isinstance(e, ast.BoolOp):
            f = "e_and" if isinstance(e.op, ast.And) else "e_or"
            vals = [self.expr(x) for x in e.values]
            out = vals[-1]
            for v in reversed(vals[:-1]):
                out = "(%s %s %s)" % (f, v, out)
            return out
        if isinstance(e, ast.UnaryOp) and isinstance(e.op, ast.Not):
            return "(e_not %s)" % self.expr(e.operand)
        if isinstance(e, ast.IfExp):
            return "(e_ifexp %s %s %s)" % (self.expr(e.test), self.expr(e.body), self.expr(e.orelse))
        if isinstance(e, ast.BinOp):
            return "(e_app2 %s %s %s)" % (self.binop(e.op), self.expr(e.left), self.expr(e.right))
        if isinstance(e, ast.Compare):
            if len(e.ops) != 1:
                raise Reject("chained comparison")
            op, a, b = e.ops[0], e.left, e.comparators[0]
            if isinstance(op, (ast.Is, ast.IsNot)):
                if isinstance(b, ast.Constant) and b.value is None:
                    return "(e_app1 %s %s)" % ("py_is_none" if isinstance(op, ast.Is) else "py_is_not_none", self.expr(a))
                raise Reject("is with something other than None")
            table = {ast.Eq: "py_eq", ast.NotEq: "py_ne", ast.Lt: "py_lt", ast.In: "py_in", ast.NotIn: "py_not_in"}
            if type(op) is ast.Gt:   # a > b is b < a with the operands still evaluated left to right
                return "(e_app2 (fun x y => py_lt y x) %s %s)" % (self.expr(a), self.expr(b))
            if type(op) not in table:
                raise Reject("comparison %s" % type(op).__name__)
            return "(e_app2 %s %s %s)" % (table[type(op)], self.expr(a), self.expr(b))
        if isinstance(e, ast.Subscript):
            sl = e.slice
            if isinstance(sl, ast.Slice):
                if (sl.upper is None and sl.step is None and isinstance(sl.lower, ast.Constant)
                        and sl.lower.value == 1 and type(sl.lower.value) is int):
                    return "(e_app1 py_slice_from1 %s)" % self.expr(e.value)
                raise Reject("slice other than [1:]")
            return "(e_app2 py_getitem %s %s)" % (self.expr(e.value), self.expr(sl))
        if isinstance(e, ast.Attribute):
            if isinstance(e.value, ast.Name) and e.value.id == "self" and "self" not in self.locals:
                if self.cur_static:
                    raise Reject("self in a static method")
                if self.in_init and (e.attr in DATA_FIELDS or e.attr in COMPONENTS):
                    return "(e_var %s)" % coq_str("self." + e.attr)   # the attribute as assigned so far
                if e.attr in DATA_FIELDS:
                    return "(e_const (f_%s self))" % e.attr
                if e.attr in self.u.consts:
                    self.used_consts.add(e.attr)
                    return "(e_const K_%s)" % e.attr
                raise Reject("attribute self.%s" % e.attr)
            if self.is_os_getenv(e):
                return "(e_const (VFn %s))" % coq_str("os.getenv")
            if e.attr in VALUE_ATTRS:
                return "(e_app1 (py_getattr %s) %s)" % (coq_str(e.attr), self.expr(e.value))
            raise Reject("attribute .%s" % e.attr)
        if isinstance(e, ast.Call):
            return self.call(e)
        raise Reject("expression %s" % type(e).__name__)

    def is_os_getenv(self, f):
        return (isinstance(f, ast.Attribute) and f.attr == "getenv" and isinstance(f.value, ast.Name)
                and f.value.id == "os" and "os" not in self.locals and self.u.module_names.get("os") == ("os", None))

    def call(self, e):
        f = e.func
        plain = not e.keywords and not any(isinstance(a, ast.Starred) for a in e.args)
        if self.is_os_getenv(f):
            if not plain or len(e.args) not in (1, 2):
                raise Reject("os.getenv arguments")
            self.used_ops.add("O_getenv")
            return self.app("py_getenv" if len(e.args) == 1 else "py_getenv2", [self.expr(a) for a in e.args])
        if isinstance(f, ast.Name) and f.id in COMPONENTS.values() and f.id not in self.locals:
            if any(isinstance(a, ast.Starred) for a in e.args) or any(k.arg is None for k in e.keywords):
                raise Reject("%s(..) arguments" % f.id)
            return "(e_ctor %s [%s] [%s])" % (
                coq_str(f.id), "; ".join(self.expr(a) for a in e.args),
                "; ".join("(%s, %s)" % (coq_str(k.arg), self.expr(k.value)) for k in e.keywords))
        if isinstance(f, ast.Name):
            if f.id in self.locals:
                if not plain or len(e.args) not in (1, 2):
                    raise Reject("call of a local")
                return self.app("py_call%d" % len(e.args), ["(e_var %s)" % coq_str(f.id)] + [self.expr(a) for a in e.args])
            if f.id in BUILTIN_CALLS and f.id not in self.u.module_names:
                if e.keywords or len(e.args) != 1:
                    raise Reject("%s(..) arguments" % f.id)
                return "(e_app1 %s %s)" % (BUILTIN_CALLS[f.id], self.expr(e.args[0]))
            if f.id in self.u.now_names:
                if e.args or e.keywords:
                    raise Reject("now arguments")
                self.used_ops.add("O_now")
                return "(e_app0 py_now)"
            raise Reject("call of %s" % f.id)
        if not isinstance(f, ast.Attribute):
            raise Reject("call form")
        # self.m(..)
        if isinstance(f.value, ast.Name) and f.value.id == "self" and "self" not in self.locals:
            if self.cur_static:
                raise Reject("self in a static method")
            name = f.attr
            if name in ABSTRACT:
                if e.keywords or len(e.args) != ABSTRACT[name]:
                    raise Reject("%s arguments" % name)
                self.used_ops.add(name)
                return self.app("py_" + name, [self.expr(a) for a in e.args])
            if name not in self.u.methods:
                raise Reject("self.%s(..)" % name)
            self.method(name)
            names, defaults = self.params(self.u.methods[name])
            args = self.call_args(e, names, defaults, name)
            if len(args) <= 3:
                return self.app("(py_%s self)" % name, args)
            # more than three arguments: through a list
            vs = ["v%d" % i for i in range(len(args))]
            return "(e_appn (fun l => match l with [%s] => py_%s self %s | _ => Raise NotTranslated end) [%s])" % (
                "; ".join(vs), name, " ".join(vs), "; ".join(args))
        # self.<component>.<method>(..)
        if (isinstance(f.value, ast.Attribute) and isinstance(f.value.value, ast.Name) and f.value.value.id == "self"
                and "self" not in self.locals and f.value.attr in COMPONENTS):
            if self.cur_static:
                raise Reject("self in a static method")
            key = (f.value.attr, f.attr)
            if key not in COMPONENT_CALLS:
                raise Reject("self.%s.%s(..)" % key)
            n, kws, fn = COMPONENT_CALLS[key]
            got = {}
            for k in e.keywords:
                if k.arg is None or not isinstance(k.value, ast.Constant):
                    raise Reject("self.%s.%s keyword" % key)
                got[k.arg] = k.value.value
            if len(e.args) != n or got != kws or any(isinstance(a, ast.Starred) for a in e.args):
                raise Reject("self.%s.%s arguments" % key)
            self.used_ops.add(fn)
            return self.app(fn, [self.expr(a) for a in e.args])
        # <value>.<method>(..)
        if f.attr in VALUE_METHODS:
            if e.keywords or len(e.args) != VALUE_METHODS[f.attr] or any(isinstance(a, ast.Starred) for a in e.args):
                raise Reject(".%s arguments" % f.attr)
            if isinstance(f.value, ast.Name) and f.value.id not in self.locals:
                raise Reject("name %s" % f.value.id)
            self.used_ops.add("." + f.attr)
            return self.app("py_m_" + f.attr, [self.expr(f.value)] + [self.expr(a) for a in e.args])
        raise Reject("method .%s" % f.attr)


def indent(text, n):
    pad = " " * n
    return "\n".join(pad + ln for ln in text.split("\n"))


# --------------------------------------------------------------------------
def build_text():
    hdr = [
        "(* GENERATED by tools/translate_code11.py from metomi/isodatetime/datetimeoper.py (class DateTimeOperator).",
        "   Do not edit.  Statements are state transformers over the association list of the method's locals,",
        "   expressions are evaluated left to right in the exception monad; the parsers, the dumper and the",
        "   TimePoint / Duration operations are the fields of oper_ops. *)",
        "From Coq Require Import ZArith QArith Qround List Bool String Ascii.",
        "From Iso Require Import Model.Parse.",
        "Import ListNotations.",
        "Local Open Scope string_scope.",
        "Local Open Scope Z_scope.",
    ]
    rejected = []
    body, covered, helpers, dummies = [], [], [], []
    ok = True
    u = None
    tr = None
    try:
        u = Unit()
        if not u.module_ok:
            raise Reject(u.module_problem)
    except Reject as ex:
        ok = False
        rejected.append(("<class>", clean(ex)))
        u = None
    except Exception as ex:  # noqa: BLE001  (fail closed)
        ok = False
        rejected.append(("<class>", clean("%s: %s" % (type(ex).__name__, ex))))
        u = None
    entry_ok = {}
    if u is not None:
        tr = Tr(u)
        for name in ENTRY:
            mark = len(tr.order)
            try:
                tr.method(name)
                entry_ok[name] = True
            except Reject as ex:
                entry_ok[name] = False
                rejected.append((name, clean(ex)))
                # drop helpers translated for the failed entry only if nothing else needs them: keep (harmless)
            except Exception as ex:  # noqa: BLE001
                entry_ok[name] = False
                rejected.append((name, clean("%s: %s" % (type(ex).__name__, ex))))
        for name in tr.order:
            body.append(tr.done[name])
            (covered if name in ENTRY else helpers).append(name)
        for name in sorted(u.methods):
            if name in OUT_OF_SCOPE:
                rejected.append((name, OUT_OF_SCOPE[name]))
            elif name not in tr.done and name not in entry_ok:
                rejected.append((name, "not reachable from the entry points"))
        for name in OUT_OF_SCOPE:
            if name not in u.methods and name in ABSTRACT:
                ok = False
                rejected.append((name, "abstract method missing from the class"))
    for name in ENTRY:
        if not entry_ok.get(name):
            ok = False
            dummies.append("Definition py_%s : unit := tt.  (* REJECTED *)" % name)
    consts = []
    if u is not None:
        for k in sorted(u.consts):
            try:
                consts.append("Definition K_%s : pyval := %s." % (k, pylit(u.consts[k])))
            except Reject as ex:
                if k in tr.used_consts:
                    ok = False
                    rejected.append(("K_" + k, clean(ex)))
    ve = u.value_errors if u is not None else []
    rec = "\n".join([
        "(* the data attributes __init__ assigns (the component objects are behind oper_ops) *)",
        "Record pyOper := mkOper11 { %s }." % "; ".join("f_%s : pyval" % f for f in DATA_FIELDS),
        "(* exceptions.py: the classes among ours that derive from ValueError *)",
        "Definition VALUE_ERRORS_code11 : list pyexn := [%s]." % "; ".join(ve),
    ] + consts)
    tail = [
        "End Code11.",
        "Arguments VNone {P D}.", "Arguments VUnbound {P D}.", "Arguments VBool {P D} b.", "Arguments VInt {P D} z.",
        "Arguments VNum {P D} q.", "Arguments VStr {P D} s.", "Arguments VList {P D} l.", "Arguments VTuple {P D} l.",
        "Arguments VDict {P D} d.", "Arguments VPoint {P D} p.", "Arguments VDur {P D} d.", "Arguments VFn {P D} name.",
        "Arguments Ret {A} a.", "Arguments Raise {A} e.",
        "Arguments mkOper11 {P D}.",
    ] + ["Arguments %s {P D}." % n for n in DEPENDENT] + ["Arguments f_%s {P D}." % f for f in DATA_FIELDS] + [
        "Arguments py_%s {P D}." % n for n in (tr.order if tr else [])] + [
        "Arguments K_%s {P D}." % k for k in (sorted(u.consts) if u else []) if ("K_%s " % k) in "\n".join(consts)] + [
        "Definition COVERED_code11 : list string := [%s]." % "; ".join(coq_str(m) for m in covered),
        "Definition HELPERS_code11 : list string := [%s]." % "; ".join(coq_str(m) for m in helpers),
        "Definition USED_OPS_code11 : list string := [%s]." % "; ".join(
            coq_str(m) for m in sorted(tr.used_ops if tr else [])),
        "Definition REJECTED_code11 : list (string * string) :=\n  [%s]."
        % ";\n   ".join("(%s, %s)" % (coq_str(a), coq_str(b)) for a, b in rejected),
        "Definition translator_ok_code11 : bool := %s." % ("true" if ok else "false"),
        "Ltac code11_helpers_unfold := %s." % (
            "unfold " + ", ".join("py_" + h for h in helpers) if helpers else "idtac"),
    ]
    text = ("\n".join(hdr) + "\n" + PRELUDE + "\n" + rec + "\n\n" + "\n\n".join(body) + "\n" + "\n".join(dummies)
            + "\n" + "\n".join(tail) + "\n")
    text = re.sub(r"\b(Admitted|admit|Axiom|Axioms|Parameter|Parameters|Conjecture)\b",
                  lambda mm: mm.group(0)[0] + "_" + mm.group(0)[1:], text)
    return text, ok, rejected


def gen_code11():
    text, ok, rejected = build_text()
    ch = write_if_changed("GenCode11.v", text)
    return ok, rejected, ch


if __name__ == "__main__":
    ok, rejected, ch = gen_code11()
    print("GenCode11.v:", "translator_ok_code11 =", ok, "|", "changed" if ch else "nothing changed")
    for a, b in rejected:
        if not b.startswith("out of scope") and not b.startswith("not reachable"):
            print("  REJECTED", a, ":", b)
