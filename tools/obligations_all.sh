#!/bin/bash
# obligations_all.sh <repo-with-a-change-applied> : from a scratch copy of /verif, regenerate coq/gen from that repository
# and build every Props file (all proof obligations of all properties, no correspondence run).  Used to see whether a
# harmless rewrite breaks a translator or a proof.  Prints OK or the first errors.
repo="$1"
scratch=/tmp/vobl.$$
rsync -a --exclude='work' --exclude='.git' /verif/ "$scratch"/
out=$(ISO_REPO="$repo" "$scratch"/tools/build.sh 2>&1); rc=$?
if [ $rc -eq 0 ]; then echo "OBLIGATIONS OK"; else echo "OBLIGATIONS BROKEN rc=$rc"; echo "$out" | grep -B2 -A12 "Error" | head -60; fi
rm -rf "$scratch"
exit $rc
