#!/venv/bin/python
"""GenCode10.v generator: the duration TEXT side -- Duration.__str__ (data.py) and
DurationParser.parse (parsers.py) -> Gallina (fail closed).

Phase 10 of GenCode (see notes/GENCODE10_REPORT.md).  The statement / expression
translator is phase 8's (tools/translate_code8.py: class Fn, the dynamically
typed universe pyval, exception monad, py_for over named loop states, segment
cut at top-level loops); this file subclasses it and extends the prelude:

  * pyval gets  VDur (a Duration object = phase 3's state record
    GenCode3.pyDuration), VParser (the stateless DurationParser instance),
    VDRegex (a compiled duration regex, represented by its pattern text with
    the re.X white space removed: gen/DurGrammar.v) and VDMatch (its groups,
    None for a group that did not take part);
  * `regex.search(s)` on the three duration patterns is the model's matcher
    re1 / re2 / re3 (Model/DurText.v), selected BY THE PATTERN TEXT: a pattern
    that is not literally one the matcher was written for raises NotTranslated;
  * str(int) / int(str) / str(float) / float(str) are the model's conversions
    (show_Z / dec_val with CPython's 4300 digit limit; finite decimals of at
    most 15 significant digits, NotTranslated outside: the model's TUnmodelled);
  * bool(d), abs(d), d.get_is_in_weeks() and Duration(**kw) are phase 3's
    TRANSLATED methods (GenCode3.py_Duration___bool__ / ___abs__ /
    _get_is_in_weeks / ___init___...), not new assumptions;
  * str(<Duration>) inside __str__ (the recursive call of the negative branch)
    is the field op_str_Duration of the record dur_ops; the knot is tied by
    str_Duration (fuel);
  * parse_timepoint_expression(..) and the TimePoint reads of the fallback are
    the other fields of dur_ops (instantiated in Proofs/GenCode10Ok.v with
    phase 8's translated TimePointParser.parse).

Anything outside the subset raises Reject: the entry point becomes a dummy and
translator_ok_code10 := false.
"""
import ast
import pyimports
import os
import re
import sys

sys.path.insert(0, os.path.dirname(os.path.abspath(__file__)))
import translate  # noqa: E402
from translate import Reject, write_if_changed, coq_str  # noqa: E402
import translate_code  # noqa: E402,F401  (redirects translate.OUT for VERIF_GEN_OUT)
from translate_code import clean  # noqa: E402
import translate_code8 as t8  # noqa: E402

SRC = os.path.join(translate.REPO, "metomi", "isodatetime")

SLOTS = ["_years", "_months", "_weeks", "_days", "_hours", "_minutes", "_seconds"]
SLOT_KIND = {"_years": "oZ", "_months": "oZ", "_weeks": "oZ", "_days": "oZ",
             "_hours": "oQ", "_minutes": "oQ", "_seconds": "oQ"}
POINT_ATTRS = ["_year", "_month_of_year", "_day_of_month", "_day_of_year", "_hour_of_day",
               "_minute_of_hour", "_second_of_minute"]
METHOD0 = {"get_is_in_weeks", "get_is_week_date", "get_is_calendar_date", "get_is_ordinal_date"}
BUILTINS10 = {"str", "abs", "getattr", "re", "parse_timepoint_expression"}
HDR8 = "(ops : parser_ops) (self : pyParser)"
HDR10 = "(ops : dur_ops) (self : pyval)"


def once(text, old, new):
    if text.count(old) != 1:
        raise RuntimeError("prelude of translate_code8 changed: %r occurs %d times" % (old[:50], text.count(old)))
    return text.replace(old, new)


def build_prelude():
    p = t8.PRELUDE
    p = once(p, "| VRegex (ts : list ptok) | VMatch (e : env) | VPoint (p : ptp).",
             "| VRegex (ts : list ptok) | VMatch (e : env) | VPoint (p : ptp)\n"
             "| VDur (o : GenCode3.pyDuration) | VParser | VDRegex (pat : string)\n"
             "| VDMatch (g : list (string * option string)).")
    start = p.index("(* the two operations that are not translated *)")
    end = p.index("(* ---- exceptions ---- *)")
    p = p[:start] + r'''(* what is not translated here *)
Record dur_ops := mkDurOps {
  op_str_Duration : GenCode3.pyDuration -> exc pyval;            (* str(d) of a Duration inside __str__ *)
  op_parse_timepoint_expression : pyval -> pyval -> exc pyval;   (* parse_timepoint_expression(text, **kw) *)
  op_point_attr : ptp -> string -> exc pyval;                    (* timepoint._year etc. *)
  op_point_method0 : ptp -> string -> exc pyval                  (* timepoint.get_is_week_date() etc. *)
}.

''' + p[end:]
    p = once(p, "  | VRegex _ | VMatch _ | VPoint _ => true end.",
             "  | VRegex _ | VMatch _ | VPoint _ | VParser | VDRegex _ | VDMatch _ => true\n"
             "  | VDur o => match GenCode3.py_Duration___bool__ o with GenCode3.Ok b => b | GenCode3.Raise _ => true end end.")
    p = once(p, "VList _ | VTuple _ | VDict _ | VRegex _ | VMatch _ | VPoint _ => true | _ => false end.",
             "VList _ | VTuple _ | VDict _ | VRegex _ | VMatch _ | VPoint _ | VDur _ | VParser | VDRegex _ | VDMatch _ => true | _ => false end.")
    # int(str) / float(str): the model's conversions instead of phase 8's
    a = p.index("Definition py_int_str (s : string) : exc pyval :=")
    b = p.index("Definition py_int (v : pyval) : exc pyval :=")
    p = p[:a] + r'''Definition of_tres {A} (r : tres A) : exc A :=
  match r with
  | TOk a => Ok a | TSyntax => Raise ISO8601SyntaxError | TBadInput => Raise BadInputError
  | TValueError => Raise ValueError | TUnmodelled => Raise NotTranslated end.
(* int(s): ASCII digit strings (what \d+ binds in ASCII text); CPython's 4300 digit limit *)
Definition py_int_str (s : string) : exc pyval :=
  if all_digits s && str_nonempty s then (z <- of_tres (conv_int s) ;; Ok (VInt z)) else Raise NotTranslated.
(* float(v): Model/DurText.v's conv_float without its comma_to_point (the code replaces the comma itself) *)
Definition float_of_str (v : string) : tres Q :=
  let other := if float_accepts v then TUnmodelled else TValueError in
  let plain (i f : string) := if float_safe i f then TOk (dval i f) else TUnmodelled in
  let (i, r) := span_digits v in
  if str_nonempty i then
    match r with
    | EmptyString => plain i EmptyString
    | String a fr =>
      if Ascii.eqb a "." then
        let (f, r2) := span_digits fr in
        if str_nonempty r2 then other else plain i f
      else other
    end
  else other.
Definition py_float_str (s : string) : exc pyval := q <- of_tres (float_of_str s) ;; Ok (VFloat q).
''' + p[b:]
    return p


EXT = r'''
(* ---------------- phase 10 additions ---------------- *)
Definition lift3 {A} (m : GenCode3.exc A) : exc A :=
  match m with
  | GenCode3.Ok a => Ok a
  | GenCode3.Raise GenCode3.TypeError => Raise TypeError
  | GenCode3.Raise _ => Raise NotTranslated end.
(* slot values.  As in phase 3 the int / float distinction of an integral
   hours / minutes / seconds value is not modelled: they are read as floats *)
Definition oZ (v : option Z) : pyval := match v with Some z => VInt z | None => VNone end.
Definition oQ (v : option Q) : pyval := match v with Some q => VFloat q | None => VNone end.

Definition py_lt (a b : pyval) : exc bool :=
  match num_of a, num_of b with
  | Some x, Some y => Ok (negb (Qle_bool y x))
  | _, _ => if py_is_none a || py_is_none b then Raise TypeError else Raise NotTranslated end.
Definition py_le (a b : pyval) : exc bool :=
  match num_of a, num_of b with
  | Some x, Some y => Ok (Qle_bool x y)
  | _, _ => if py_is_none a || py_is_none b then Raise TypeError else Raise NotTranslated end.

(* repr of a float: the model's decimal printer (frac_str) with the point not yet replaced *)
Definition float_repr_pos (x : Q) : exc string :=
  let n := Qnum x in let d := Zpos (Qden x) in
  if Qle_bool (1 # 10000) x then
    match fdig FDIG_FUEL (n mod d) d with
    | None => Raise NotTranslated
    | Some f => let i := show_Z (n / d) in
                if float_safe i f then Ok (i ++ "." ++ f) else Raise NotTranslated
    end
  else Raise NotTranslated.
Definition float_repr (q : Q) : exc string :=
  let r := Qred q in
  if Qeq_bool r 0 then Ok "0.0"
  else if (Zpos (Qden r) =? 1) then
    if float_safe (show_Z (Z.abs (Qnum r))) "" then Ok (show_Z (Qnum r) ++ ".0") else Raise NotTranslated
  else if 0 <? Qnum r then float_repr_pos r
  else (s <- float_repr_pos (Qred (- r)) ;; Ok ("-" ++ s)).
Definition py_str (ops : dur_ops) (v : pyval) : exc pyval :=
  match v with
  | VStr s => Ok (VStr s)
  | VInt z => s <- of_tres (int_str z) ;; Ok (VStr s)
  | VFloat q => s <- float_repr q ;; Ok (VStr s)
  | VNone => Ok (VStr "None")
  | VBool b => Ok (VStr (if b then "True" else "False"))
  | VDur o => op_str_Duration ops o
  | _ => Raise NotTranslated end.
Definition py_abs (v : pyval) : exc pyval :=
  match v with
  | VInt z => Ok (VInt (Z.abs z)) | VFloat q => Ok (VFloat (Qabs q))
  | VBool b => Ok (VInt (if b then 1 else 0))
  | VDur o => r <- lift3 (GenCode3.py_Duration___abs__ o) ;; Ok (VDur r)
  | _ => Raise TypeError end.
Fixpoint replace_char (a b : ascii) (s : string) : string :=
  match s with
  | EmptyString => EmptyString
  | String c r => String (if Ascii.eqb c a then b else c) (replace_char a b r) end.
Definition py_replace (s a b : pyval) : exc pyval :=
  match s, a, b with
  | VStr s, VStr (String a EmptyString), VStr (String b EmptyString) => Ok (VStr (replace_char a b s))
  | VStr _, _, _ => Raise NotTranslated
  | _, _, _ => Raise AttributeError end.
Definition py_drop_first (s : pyval) : exc pyval :=     (* s[1:] *)
  match s with
  | VStr (String _ r) => Ok (VStr r) | VStr EmptyString => Ok (VStr "")
  | VList _ | VTuple _ => Raise NotTranslated | _ => Raise TypeError end.

(* the three duration regexes: the model's matcher, selected by the pattern text *)
Definition dmatch (o : option groups) (f : groups -> list (string * option string)) : exc pyval :=
  Ok (match o with Some g => VDMatch (f g) | None => VNone end).
Definition dre_search (pat s : string) : exc pyval :=
  if String.eqb pat (nth 0 EXPECTED_DURATION_PATTERNS_X "") then
    dmatch (re1 s) (fun g => [("years", g_years g); ("months", g_months g); ("days", g_days g)])
  else if String.eqb pat (nth 1 EXPECTED_DURATION_PATTERNS_X "") then
    dmatch (re2 s) (fun g => [("years", g_years g); ("months", g_months g); ("days", g_days g);
                              ("hours", g_hours g); ("minutes", g_minutes g); ("seconds", g_seconds g)])
  else if String.eqb pat (nth 2 EXPECTED_DURATION_PATTERNS_X "") then
    dmatch (re3 s) (fun g => [("weeks", g_weeks g)])
  else Raise NotTranslated.
Definition py_search (r s : pyval) : exc pyval :=
  match r, s with
  | VDRegex p, VStr s => dre_search p s
  | VDRegex _, _ => Raise TypeError
  | VRegex _, _ => Raise NotTranslated
  | _, _ => Raise AttributeError end.
Definition py_dgroupdict (m : pyval) : exc pyval :=
  match m with
  | VDMatch g => Ok (VDict (map (fun kv => (fst kv, match snd kv with Some s => VStr s | None => VNone end)) g))
  | VMatch _ => py_groupdict m
  | _ => Raise AttributeError end.

(* data.Duration( **kw ): phase 3's translated __init__ (standardize off) on the
   keyword dictionary; a keyword the constructor does not have is a TypeError,
   as is a value outside _type_checker's list *)
Definition DURATION_KEYWORDS : list string := ["years"; "months"; "weeks"; "days"; "hours"; "minutes"; "seconds"].
Definition kwZ10 (k : string) (d : dict) : exc Z :=
  match dict_get k d with
  | None => Ok 0 | Some (VInt z) => Ok z
  | Some (VBool _) | Some VNone => Raise NotTranslated | Some _ => Raise TypeError end.
Definition kwQ10 (k : string) (d : dict) : exc Q :=
  match dict_get k d with
  | None => Ok 0%Q | Some (VInt z) => Ok (qz z) | Some (VFloat q) => Ok q
  | Some (VBool _) | Some VNone => Raise NotTranslated | Some _ => Raise TypeError end.
Definition py_Duration_ctor (kw : pyval) : exc pyval :=
  match kw with
  | VDict d =>
    if forallb (fun kv => existsb (String.eqb (fst kv)) DURATION_KEYWORDS) d then
      y <- kwZ10 "years" d ;; mo <- kwZ10 "months" d ;; w <- kwZ10 "weeks" d ;; dd <- kwZ10 "days" d ;;
      h <- kwQ10 "hours" d ;; mi <- kwQ10 "minutes" d ;; s <- kwQ10 "seconds" d ;;
      o <- lift3 (GenCode3.py_Duration___init___days_hours_minutes_months_seconds_weeks_years dd h mi mo s w y) ;;
      Ok (VDur o)
    else Raise TypeError
  | _ => Raise TypeError end.
'''


def getattr_text(slots, props):
    """py_getattr / py_method0, generated from the slots and properties read off class Duration."""
    lines = ["Definition py_getattr (ops : dur_ops) (v a : pyval) : exc pyval :=",
             "  match v, a with",
             "  | VDur o, VStr a =>"]
    first = True
    for s in slots:
        names = [s] + [p for p in props if props[p] == s]
        c = " || ".join("String.eqb a %s" % coq_str(n) for n in names)
        lines.append("    %s %s then Ok (%s (GenCode3.s%s o))" % ("if" if first else "else if", c, SLOT_KIND[s], s))
        first = False
    lines.append("    else if String.eqb a \"__slots__\" then Ok (VList [%s])" % "; ".join("VStr %s" % coq_str(s) for s in slots))
    lines.append("    else Raise AttributeError")
    lines += ["  | VParser, VStr a =>",
              "    if String.eqb a \"DURATION_REGEXES\" then Ok (VList (map VDRegex DURATION_PATTERNS_X)) else Raise AttributeError",
              "  | VPoint p, VStr a => op_point_attr ops p a",
              "  | _, VStr _ => Raise NotTranslated",
              "  | _, _ => Raise TypeError end.",
              "Definition py_method0 (ops : dur_ops) (v : pyval) (m : string) : exc pyval :=",
              "  match v with",
              "  | VDur o => if String.eqb m \"get_is_in_weeks\" then (b <- lift3 (GenCode3.py_Duration_get_is_in_weeks o) ;; Ok (VBool b))",
              "              else Raise NotTranslated",
              "  | VPoint p => op_point_method0 ops p m",
              "  | _ => Raise AttributeError end.", ""]
    return "\n".join(lines)


# --------------------------------------------------------------------------
class Unit10:
    """One class of the package; provides what translate_code8.Fn expects of its unit."""

    def __init__(self, fname, cname):
        with open(os.path.join(SRC, fname)) as fh:
            self.tree = ast.parse(fh.read())
        self.tree = pyimports.canonicalise(self.tree)
        self.cname = cname
        found = [n for n in self.tree.body if isinstance(n, ast.ClassDef) and n.name == cname]
        if len(found) != 1:
            raise Reject("class %s not found exactly once in %s" % (cname, fname))
        self.cls = found[0]
        if self.cls.decorator_list or self.cls.keywords:
            raise Reject("class %s has decorators / keywords" % cname)
        self.methods = {}
        for n in self.cls.body:
            if isinstance(n, ast.FunctionDef):
                if n.name in self.methods:
                    raise Reject("%s.%s defined twice" % (cname, n.name))
                if n.name in ("__getattr__", "__getattribute__", "__setattr__", "__new__", "__call__"):
                    raise Reject("class %s defines %s" % (cname, n.name))
                self.methods[n.name] = n
        self.fields = []
        self.time_designator = "T"
        self.done, self.order, self.sigs, self.mut_params = {}, [], {}, {}
        self.inprogress, self.used_ops, self.segs = [], set(), {}
        self.module_names = {}

    def method(self, name):
        raise Reject("call of self.%s: methods of the class other than the entry point are not translated here" % name)

    def entry(self, name):
        if name not in self.methods:
            raise Reject("no method %s in class %s" % (name, self.cname))
        Fn10(self, self.methods[name]).translate()
        return self.done[self.cname + "_" + name].replace(HDR8, HDR10)


class DurationUnit(Unit10):
    def __init__(self):
        super().__init__("data.py", "Duration")
        if self.cls.bases:
            raise Reject("class Duration has base classes")
        # module level: the builtins the method uses are not rebound
        for n in self.tree.body:
            names = []
            if isinstance(n, (ast.FunctionDef, ast.ClassDef)):
                names = [n.name]
            elif isinstance(n, (ast.Import, ast.ImportFrom)):
                names = [a.asname or a.name for a in n.names]
            elif isinstance(n, ast.Expr) and isinstance(n.value, ast.Constant):
                pass
            else:
                names = [t.id for t in ast.walk(n) if isinstance(t, ast.Name) and isinstance(t.ctx, ast.Store)]
            for nm in names:
                if nm in t8.BUILTINS or nm in BUILTINS10 or nm == "Duration" and not isinstance(n, ast.ClassDef):
                    raise Reject("data.py: module-level name %s is rebound" % nm)
                self.module_names[nm] = ("def",)
        # class level: __slots__, the seven read-only properties
        slots = None
        for n in self.cls.body:
            if isinstance(n, ast.FunctionDef):
                continue
            if isinstance(n, ast.Expr) and isinstance(n.value, ast.Constant) and isinstance(n.value.value, str):
                continue
            if (isinstance(n, ast.Assign) and len(n.targets) == 1 and isinstance(n.targets[0], ast.Name)
                    and n.targets[0].id == "__slots__" and isinstance(n.value, ast.List) and slots is None
                    and all(isinstance(e, ast.Constant) and isinstance(e.value, str) for e in n.value.elts)):
                slots = [e.value for e in n.value.elts]
                continue
            raise Reject("class Duration: class-level statement %s" % clean(ast.unparse(n))[:60])
        if slots != SLOTS:
            raise Reject("Duration.__slots__ is %r, expected %r" % (slots, SLOTS))
        self.slots = slots
        self.props = {}
        for nm, m in self.methods.items():
            decs = [ast.unparse(d) for d in m.decorator_list]
            if decs == ["property"]:
                b = [s for s in m.body if not (isinstance(s, ast.Expr) and isinstance(s.value, ast.Constant))]
                if (len(b) == 1 and isinstance(b[0], ast.Return) and isinstance(b[0].value, ast.Attribute)
                        and isinstance(b[0].value.value, ast.Name) and b[0].value.value.id == "self"
                        and b[0].value.attr in slots and [a.arg for a in m.args.args] == ["self"]):
                    self.props[nm] = b[0].value.attr
                else:
                    self.props[nm] = None       # a property we do not read: getattr of it is an AttributeError => rejected below
            elif decs:
                if nm in ("__str__", "__bool__", "__abs__", "get_is_in_weeks"):
                    raise Reject("Duration.%s has decorators" % nm)
        # a name that is neither a slot nor a plain property may be a method: getattr(self, <that>) is not modelled
        self.unknown_attrs = {nm for nm in self.methods if self.props.get(nm) is None}
        self.props = {k: v for k, v in self.props.items() if v is not None}


class ParserUnit(Unit10):
    def __init__(self):
        super().__init__("parsers.py", "DurationParser")
        self.cut_after_loops = True
        t8.Unit.check_module(self)
        if [ast.dump(b) for b in self.cls.bases] != [ast.dump(ast.Name(id="object", ctx=ast.Load()))]:
            raise Reject("class DurationParser has bases other than object")
        for b in BUILTINS10 - {"parse_timepoint_expression", "re"}:
            if b in self.module_names:
                raise Reject("parsers.py: builtin %s is rebound" % b)
        if self.module_names.get("re") != ("import", "re"):
            raise Reject("parsers.py: re is not the imported module")
        # class level: docstring, DURATION_REGEXES = [re.compile(<str>, re.X) ..], methods
        seen = 0
        for n in self.cls.body:
            if isinstance(n, ast.FunctionDef):
                continue
            if isinstance(n, ast.Expr) and isinstance(n.value, ast.Constant) and isinstance(n.value.value, str):
                continue
            if (isinstance(n, ast.Assign) and len(n.targets) == 1 and isinstance(n.targets[0], ast.Name)
                    and n.targets[0].id == "DURATION_REGEXES" and isinstance(n.value, ast.List) and seen == 0):
                for e in n.value.elts:
                    if not (isinstance(e, ast.Call) and ast.unparse(e.func) == "re.compile" and len(e.args) == 2
                            and not e.keywords and isinstance(e.args[0], ast.Constant)
                            and isinstance(e.args[0].value, str) and ast.unparse(e.args[1]) == "re.X"):
                        raise Reject("DURATION_REGEXES entry %s" % clean(ast.unparse(e))[:60])
                self.nregex = len(n.value.elts)
                seen = 1
                continue
            raise Reject("class DurationParser: class-level statement %s" % clean(ast.unparse(n))[:60])
        if not seen:
            raise Reject("class DurationParser has no DURATION_REGEXES list")
        for m in self.methods.values():
            for n in ast.walk(m):
                if isinstance(n, ast.Attribute) and isinstance(n.ctx, (ast.Store, ast.Del)):
                    raise Reject("DurationParser.%s stores an attribute" % m.name)
        # parse_timepoint_expression: the module-level function the operation stands for
        fns = [n for n in self.tree.body if isinstance(n, ast.FunctionDef) and n.name == "parse_timepoint_expression"]
        want = ("def parse_timepoint_expression(timepoint_expression, is_duration=False, **kwargs):\n"
                "    parser = TimePointParser(**kwargs)\n"
                "    return parser.parse(timepoint_expression, is_duration=is_duration)")
        if len(fns) != 1:
            raise Reject("parse_timepoint_expression is not defined exactly once")
        f = fns[0]
        body = [s for s in f.body if not (isinstance(s, ast.Expr) and isinstance(s.value, ast.Constant))]
        got = ast.unparse(ast.FunctionDef(name=f.name, args=f.args, body=body, decorator_list=f.decorator_list,
                                          returns=None, type_comment=None, lineno=0, col_offset=0))
        if got != want:
            raise Reject("parse_timepoint_expression is not TimePointParser(**kwargs).parse(text, is_duration=..): %s"
                         % clean(got)[:80])


class Fn10(t8.Fn):
    def __init__(self, unit, node):
        super().__init__(unit, node)
        for n in ast.walk(node):
            if isinstance(n, ast.Name) and isinstance(n.ctx, ast.Store) and n.id in BUILTINS10:
                raise Reject("%s: local name %s shadows a builtin / module-level name" % (node.name, n.id))
        for p in self.params:
            if p in BUILTINS10:
                raise Reject("%s: parameter %s shadows a builtin / module-level name" % (node.name, p))
        self.name = unit.cname + "_" + node.name

    # ---- the code after a top-level loop is a definition of its own (py_<m>__A<n>) ----
    def stmt_for(self, s, rest, env, ctx, k, loopstack):
        if getattr(self.u, "cut_after_loops", False) and ctx.top and not loopstack and rest:
            tnames = [n.id for n in ast.walk(s.target) if isinstance(n, ast.Name)]
            names = sorted(t8.assigned_names(s.body) | set(tnames))
            aenv = dict(env)
            for v in names:
                if aenv.get(v) != "def":
                    aenv[v] = "maybe"
            live = sorted(v for v in aenv if aenv[v] == "def")
            nm = "py_%s__A%d" % (self.name, self.nseg)
            sctx = t8.Ctx(on_return=lambda v: "Ok %s" % v, top=True)
            body = self.block(rest, dict(aenv), sctx, t8.Cont(lambda e: "Ok VNone", True), [])
            ps = "".join(" (%s : pyval)" % t8.ident(p) for p in live)
            self.segments.append((nm, "Definition %s %s%s : exc pyval :=\n%s.\n" % (nm, HDR8, ps, body)))
            call = "%s ops self %s" % (nm, " ".join(t8.ident(v) for v in live))
            return super().stmt_for(s, [], env, ctx, t8.Cont(lambda e: call, True), loopstack)
        return super().stmt_for(s, rest, env, ctx, k, loopstack)

    # ---- expressions ----
    def expr(self, e, env, out, stmt):
        if isinstance(e, ast.Name) and e.id == "self" and "self" not in env:
            return "self"
        if isinstance(e, ast.Attribute) and not (isinstance(e.value, ast.Name) and e.value.id in ("parser_spec", "data", "re")):
            ok = set(SLOTS) | set(POINT_ATTRS) | {"__slots__", "DURATION_REGEXES"}
            if e.attr not in ok:
                raise Reject("%s: attribute %s" % (self.name, clean(ast.unparse(e))))
            v = self.expr(e.value, env, out, stmt)
            r = self.fresh("t")
            out.append("%s <- py_getattr ops %s (VStr %s) ;;\n" % (r, v, coq_str(e.attr)))
            return r
        if isinstance(e, ast.Subscript) and isinstance(e.slice, ast.Slice):
            sl = e.slice
            if (sl.upper is None and sl.step is None and isinstance(sl.lower, ast.Constant)
                    and sl.lower.value == 1 and not isinstance(sl.lower.value, bool)):
                v = self.expr(e.value, env, out, stmt)
                r = self.fresh("t")
                out.append("%s <- py_drop_first %s ;;\n" % (r, v))
                return r
        return super().expr(e, env, out, stmt)

    def compare(self, e, env, out):
        if len(e.ops) == 1 and isinstance(e.ops[0], (ast.Lt, ast.Gt, ast.LtE, ast.GtE)):
            x = self.expr(e.left, env, out, None)
            y = self.expr(e.comparators[0], env, out, None)
            r = self.fresh("b")
            op = e.ops[0]
            if isinstance(op, ast.Lt):
                out.append("%s <- py_lt %s %s ;;\n" % (r, x, y))
            elif isinstance(op, ast.Gt):
                out.append("%s <- py_lt %s %s ;;\n" % (r, y, x))
            elif isinstance(op, ast.LtE):
                out.append("%s <- py_le %s %s ;;\n" % (r, x, y))
            else:
                out.append("%s <- py_le %s %s ;;\n" % (r, y, x))
            return r
        return super().compare(e, env, out)

    def call(self, e, env, out, stmt):
        f = e.func
        if isinstance(f, ast.Name) and f.id in ("str", "abs") and len(e.args) == 1 and not e.keywords:
            v = self.expr(e.args[0], env, out, stmt)
            r = self.fresh("t")
            out.append("%s <- %s %s ;;\n" % (r, "py_str ops" if f.id == "str" else "py_abs", v))
            return r
        if isinstance(f, ast.Name) and f.id == "getattr" and len(e.args) == 2 and not e.keywords:
            a = self.expr(e.args[0], env, out, stmt)
            b = self.expr(e.args[1], env, out, stmt)
            r = self.fresh("t")
            out.append("%s <- py_getattr ops %s %s ;;\n" % (r, a, b))
            return r
        if isinstance(f, ast.Name) and f.id == "parse_timepoint_expression":
            if len(e.args) != 1 or any(k.arg is None for k in e.keywords):
                raise Reject("%s: parse_timepoint_expression call shape" % self.name)
            a = self.expr(e.args[0], env, out, stmt)
            kws = [(k.arg, self.expr(k.value, env, out, stmt)) for k in e.keywords]
            if len({k for k, _ in kws}) != len(kws):
                raise Reject("%s: repeated keyword" % self.name)
            r = self.fresh("t")
            self.u.used_ops.add("op_parse_timepoint_expression")
            out.append("%s <- op_parse_timepoint_expression ops %s (VDict [%s]) ;;\n"
                       % (r, a, "; ".join("(%s, %s)" % (coq_str(k), v) for k, v in kws)))
            return r
        if isinstance(f, ast.Attribute):
            if isinstance(f.value, ast.Name) and f.value.id == "data" and f.attr == "Duration":
                if e.args or len(e.keywords) != 1 or e.keywords[0].arg is not None:
                    raise Reject("%s: data.Duration call is not of the form Duration(**map)" % self.name)
                d = self.expr(e.keywords[0].value, env, out, stmt)
                r = self.fresh("t")
                out.append("%s <- py_Duration_ctor %s ;;\n" % (r, d))
                return r
            m = f.attr
            simple = {("replace", 2): "py_replace %s %s %s", ("search", 1): "py_search %s %s",
                      ("groupdict", 0): "py_dgroupdict %s"}
            if m in METHOD0 and not e.args and not e.keywords:
                recv = self.expr(f.value, env, out, stmt)
                r = self.fresh("t")
                out.append("%s <- py_method0 ops %s %s ;;\n" % (r, recv, coq_str(m)))
                return r
            if (m, len(e.args)) in simple and not e.keywords:
                recv = self.expr(f.value, env, out, stmt)
                args = [self.expr(a, env, out, stmt) for a in e.args]
                r = self.fresh("t")
                out.append("%s <- %s ;;\n" % (r, simple[(m, len(e.args))] % tuple([recv] + args)))
                return r
        return super().call(e, env, out, stmt)


# --------------------------------------------------------------------------
ENTRIES = [("Duration", "__str__"), ("DurationParser", "parse")]

TAIL = r'''
(* str(d): Duration.__str__ with the nested str(abs(self)) resolved by the same method, `fuel` levels deep *)
Fixpoint str_Duration (ops : dur_ops) (fuel : nat) (o : GenCode3.pyDuration) : exc pyval :=
  match fuel with
  | O => Raise NotTranslated
  | S n => py_Duration___str__
            (mkDurOps (str_Duration ops n) (op_parse_timepoint_expression ops) (op_point_attr ops) (op_point_method0 ops))
            (VDur o)
  end.
'''


def build_text():
    rejected, body, entry_ok = [], [], {}
    slots, props = SLOTS, {}
    subs = []
    try:
        subs = t8.Unit.read_exception_bases(None)
        prelude = build_prelude().replace("VALUEERROR_SUBCLASSES", "[%s]" % "; ".join(subs))
    except Exception as ex:  # fail closed
        prelude = None
        for c, m in ENTRIES:
            entry_ok[(c, m)] = False
            rejected.append(("%s.%s" % (c, m), "translator error: " + clean(repr(ex))))
    if prelude is not None:
        for c, m in ENTRIES:
            try:
                u = DurationUnit() if c == "Duration" else ParserUnit()
                if c == "Duration":
                    props = u.props
                body.append(u.entry(m))
                entry_ok[(c, m)] = True
            except Reject as ex:
                entry_ok[(c, m)] = False
                rejected.append(("%s.%s" % (c, m), clean(ex)))
            except Exception as ex:  # fail closed
                entry_ok[(c, m)] = False
                rejected.append(("%s.%s" % (c, m), "translator error: " + clean(repr(ex))))
    ok = all(entry_ok.values())
    hdr = ["(* GENERATED by tools/translate_code10.py from the bodies of Duration.__str__ (data.py) and",
           "   DurationParser.parse (parsers.py).  Do not edit.  See notes/GENCODE10_REPORT.md. *)",
           "From Coq Require Import ZArith QArith Qround Qabs List Bool String Ascii.",
           "From Iso Require Import Model.Num Model.Forms Model.Parse Model.Duration Model.DurText gen.DurGrammar.",
           "From Iso Require gen.GenCode3.",
           "Import ListNotations.",
           "Local Open Scope string_scope.",
           "Local Open Scope Z_scope.",
           ""]
    dummies = []
    for c, m in ENTRIES:
        if not entry_ok[(c, m)]:
            dummies.append("(* REJECTED: %s *)\nDefinition py_%s_%s : unit := tt.\n" % (dict(rejected)["%s.%s" % (c, m)], c, m))
    tail = [
        TAIL if entry_ok.get(("Duration", "__str__")) else "",
        "Definition COVERED_code10 : list string := [%s]." % "; ".join(coq_str("%s.%s" % cm) for cm in ENTRIES if entry_ok[cm]),
        "Definition REJECTED_code10 : list (string * string) :=\n  [%s]."
        % ";\n   ".join("(%s, %s)" % (coq_str(a), coq_str(b)) for a, b in rejected),
        "Definition translator_ok_code10 : bool := %s." % ("true" if ok else "false"),
    ]
    text = ("\n".join(hdr) + "\n" + (prelude or "") + "\n" + (EXT + "\n" + getattr_text(slots, props) if prelude else "")
            + "\n" + "\n".join(body) + "\n" + "\n".join(dummies) + "\n" + "\n".join(tail) + "\n")
    text = re.sub(r"\b(Admitted|admit|Axiom|Axioms|Parameter|Parameters|Conjecture)\b",
                  lambda mm: mm.group(0)[0] + "_" + mm.group(0)[1:], text)
    return text, ok, rejected


def gen_code10():
    text, ok, rejected = build_text()
    ch = write_if_changed("GenCode10.v", text)
    return ok, rejected, ch


if __name__ == "__main__":
    ok, rejected, ch = gen_code10()
    print("GenCode10.v:", "translator_ok_code10 =", ok, "|", "changed" if ch else "nothing changed")
    for a, b in rejected:
        print("  REJECTED", a, ":", b)
