#!/bin/bash
# try_seeded.sh <seeded-id> <Cxx> [...]: apply /verif/seeded/<id>/patch.diff in a scratch worktree of /repo,
# run the quick checks against it (scratch copy of /verif), remove the worktree.
id="$1"; shift
wt=/tmp/seeded_wt.$$
git -C /repo worktree add -q --detach "$wt" HEAD || exit 2
(cd "$wt" && patch -s -p1 < /verif/seeded/$id/patch.diff) || { git -C /repo worktree remove --force "$wt"; exit 2; }
/verif/tools/try_mutant.sh "$wt" "$@"
git -C /repo worktree remove --force "$wt"
