#!/bin/bash
# GenCode10 rewrite / mutation experiment on SCRATCH copies only (never /repo, never /verif/coq).
#   gencode10_mutants.sh <name> <patch.diff | script.py | none> [coq-source-tree]
# Copies /repo to /tmp/gencode10_<name>/repo, applies the patch (patch -p1) or runs the python edit
# script with the copy's path as argument, checks the edited package still imports, runs ONLY
# tools/translate_durtext.py and tools/translate_code10.py with ISO_REPO / VERIF_GEN_OUT pointing into a
# scratch copy of the coq tree, compiles gen/DurGrammar.v (if it changed), gen/GenCode10.v,
# Proofs/GenCode10Ok.v, Props/C10Code.v there and reports the first failure.  Removes the scratch copy.
name=$1; edit=$2; src=${3:-/verif/coq}
W=/tmp/gencode10_$name
rm -rf "$W"; mkdir -p "$W"
cp -a /repo "$W/repo"; cp -a "$src" "$W/coq"
if [ "$edit" != "none" ]; then
  case "$edit" in
    *.py) /venv/bin/python "$edit" "$W/repo" || { echo "$name: EDIT FAILED"; rm -rf "$W"; exit 2; } ;;
    *) (cd "$W/repo" && patch -p1 -s < "$edit") || { echo "$name: PATCH FAILED"; rm -rf "$W"; exit 2; } ;;
  esac
fi
(cd "$W/repo" && PYTHONPATH="$W/repo" /venv/bin/python -c "import metomi.isodatetime.parsers, metomi.isodatetime.data") \
  || { echo "$name: edited package does not import"; rm -rf "$W"; exit 2; }
before=$(md5sum < "$W/coq/gen/DurGrammar.v")
# translate_durtext.py does not redirect its output by itself (it writes to translate.OUT): import
# translate_code first (which honours VERIF_GEN_OUT) and refuse to run if the output is not the scratch tree
(cd /verif/tools && ISO_REPO="$W/repo" VERIF_GEN_OUT="$W/coq/gen" /venv/bin/python -c "
import os, translate_code, translate
out = os.path.realpath(translate.OUT)
assert out == os.path.realpath(os.environ['VERIF_GEN_OUT']) and not out.startswith('/verif/'), out
import translate_durtext
translate_durtext.gen_durtext()" >/dev/null 2>&1) || { echo "$name: translate_durtext failed"; }
(cd /verif/tools && ISO_REPO="$W/repo" VERIF_GEN_OUT="$W/coq/gen" /venv/bin/python translate_code10.py) | sed "s/^/$name: /"
cd "$W/coq"; ulimit -v 8000000
res="PROVES"
if [ "$before" != "$(md5sum < gen/DurGrammar.v)" ]; then
  echo "$name: gen/DurGrammar.v changed"
  timeout 900 coqc -Q . Iso gen/DurGrammar.v >/dev/null 2>&1
  if ! timeout 900 coqc -Q . Iso Proofs/DurTextSpec.v > "$W/log" 2>&1; then
    res="FAILS upstream in Proofs/DurTextSpec.v (grammar tie): $(grep -m1 -A2 Error "$W/log" | tr '\n' ' ' | cut -c1-200)"
  fi
fi
if [ "$res" = "PROVES" ]; then
  for f in gen/GenCode10.v Proofs/GenCode10Ok.v Props/C10Code.v; do
    [ -f "$f" ] || continue
    if ! timeout 1500 coqc -Q . Iso "$f" > "$W/log" 2>&1; then
      res="FAILS in $f: $(grep -m1 -B1 -A3 Error "$W/log" | tr '\n' ' ' | cut -c1-300)"
      break
    fi
  done
fi
echo "$name: $res"
cd /; rm -rf "$W"
