"""Implementation side of property C16 (immutability): random sequences of
PUBLIC operations over a growing pool of TimePoint / Duration / TimeZone /
TimeRecurrence values of the real package, observed from outside.

  c16seq <mode> <seed> <nops>

(a) WRITE TRACE.  For the duration of the op a class-level `__setattr__` /
    `__delattr__` hook and an `__init__` wrapper are installed on the four
    classes (type.__setattr__; removed afterwards).  Every attribute write is
    recorded with id(obj); every object whose initialiser starts during a
    top-level call is recorded as allocated by that call.  A write to an
    object that was not allocated during the current top-level call is a
    violation: the IR of coq/gen/Effects.v admits no such write.
(b) SNAPSHOTS.  Every value of the pool (and every object reachable through
    its slots) has its raw slot values, str() and hash() recorded when it
    enters the pool and re-inspected after EVERY step.
(c) RETURN IDENTITY.  For every call the result is classified as the receiver
    itself / another pre-existing object / a fresh object / not an object;
    the judge compares this with the summary the Coq analysis computed.

Output (one line):  ok|VIOL ... ; ops=.. writes=.. insp=.. hang=.. exc=.. pool=.. ; ret name:kinds ...
"""
import inspect
import itertools
import random
import signal
import time

import impl
from metomi.isodatetime import data, dumpers
from metomi.isodatetime.data import (Duration, TimePoint, TimeRecurrence,
                                     TimeZone)

OURS = (TimePoint, Duration, TimeZone, TimeRecurrence)
HOOKED = (TimePoint, Duration, TimeZone, TimeRecurrence)
UNSET = "<unset>"


def all_slots(cls):
    out = []
    for k in reversed(cls.__mro__):
        for s in k.__dict__.get("__slots__", ()):
            if s not in out:
                out.append(s)
    return out


SLOTS = {c: all_slots(c) for c in OURS}


def is_public(name):
    if not name.startswith("_"):
        return True
    return name.startswith("__") and name.endswith("__") and name != "__init__" and len(name) > 4


def public_names():
    """name -> kind ('property' | 'method') of every public attribute the
    four classes define themselves (what the Coq table calls public)."""
    out = {}
    for c in OURS:
        for n, v in c.__dict__.items():
            if not is_public(n) or n in ("__slots__", "__module__", "__doc__", "__qualname__",
                                         "__annotations__", "__dict__", "__weakref__"):
                continue
            if isinstance(v, property):
                if v.fget is None:
                    continue          # masked attribute (TimeZone.to_weeks)
                out.setdefault(n, "property")
            elif inspect.isfunction(v):
                out.setdefault(n, "method")
    return out


# --------------------------------------------------------------------------
# tracing from outside
# --------------------------------------------------------------------------
class Tracer:
    def __init__(self):
        self.writes = []      # (id, attribute) since the current call started
        self.fresh = {}       # id -> object allocated since the current call started
        self.saved = []
        self.total_writes = 0
        self.total_fresh = 0

    def install(self):
        tr = self

        def hook_set(obj, name, value):
            tr.writes.append((id(obj), name))
            object.__setattr__(obj, name, value)

        def hook_del(obj, name):
            tr.writes.append((id(obj), "del " + name))
            object.__delattr__(obj, name)

        for cls in HOOKED:
            for attr, fn in (("__setattr__", hook_set), ("__delattr__", hook_del)):
                self.saved.append((cls, attr, cls.__dict__.get(attr, None)))
                type.__setattr__(cls, attr, fn)
            orig = cls.__dict__.get("__init__")
            if orig is not None:
                self.saved.append((cls, "__init__", orig))

                def make(orig):
                    def __init__(self, *a, **k):
                        tr.fresh[id(self)] = self
                        return orig(self, *a, **k)
                    return __init__
                type.__setattr__(cls, "__init__", make(orig))

    def remove(self):
        for cls, attr, old in reversed(self.saved):
            if old is None:
                type.__delattr__(cls, attr)
            else:
                type.__setattr__(cls, attr, old)
        self.saved = []

    def begin(self):
        self.writes = []
        self.fresh = {}

    def end(self):
        """-> list of (id, attr) written on objects not allocated by this call"""
        self.total_writes += len(self.writes)
        self.total_fresh += len(self.fresh)
        return [(i, a) for (i, a) in self.writes if i not in self.fresh]


def raw_slots(obj):
    out = []
    for s in SLOTS[type(obj)] if type(obj) in SLOTS else all_slots(type(obj)):
        try:
            v = object.__getattribute__(obj, s)
        except AttributeError:
            out.append((s, UNSET))
            continue
        if isinstance(v, OURS):
            out.append((s, ("ref", id(v))))
        else:
            out.append((s, (type(v).__name__, repr(v))))
    return tuple(out)


def children(obj):
    for s in SLOTS.get(type(obj), ()):
        try:
            v = object.__getattribute__(obj, s)
        except AttributeError:
            continue
        if isinstance(v, OURS):
            yield v


class Violation(Exception):
    pass


class Session:
    def __init__(self, rng, mode):
        self.rng = rng
        self.mode = mode
        self.tr = Tracer()
        self.pool = []            # values, in order of arrival
        self.known = {}           # id -> (obj, raw slots, str, hash)
        self.gens = []            # live generators of recurrences
        self.rets = {}            # method name -> set of identity kinds
        self.stats = dict(ops=0, insp=0, hang=0, exc=0)
        self.deadline = time.time() + 8.0
        self.step = 0
        self.desc = ""

    # ---- guarded calls ----
    def guarded(self, fn, budget=1.0):
        """Run fn as ONE top-level call.  -> (kind, value); checks its writes."""
        left = self.deadline - time.time()
        if left <= 0.05:
            raise TimeoutError()
        self.tr.begin()
        signal.setitimer(signal.ITIMER_REAL, min(budget, left))
        try:
            try:
                res = ("ok", fn())
            finally:
                signal.setitimer(signal.ITIMER_REAL, 0)
        except impl.Hang:
            res = ("hang", None)
        except RecursionError:
            res = ("exc", "RecursionError")
        except Exception as exc:      # noqa
            res = ("exc", type(exc).__name__)
        bad = self.tr.end()
        if bad:
            who = []
            for i, a in bad[:3]:
                o = self.known.get(i)
                who.append("%s.%s" % (type(o[0]).__name__ if o else "unknown-object", a))
            raise Violation("write-trace: %s wrote %s on an object that existed before the call"
                            % (self.desc, ",".join(who)))
        return res

    # ---- the pool ----
    def observe(self, obj):
        saved = self.desc
        self.desc = "str() of a %s (re-inspection after %s)" % (type(obj).__name__, saved)
        s = self.guarded(lambda: str(obj))
        self.desc = "hash() of a %s (re-inspection after %s)" % (type(obj).__name__, saved)
        h = self.guarded(lambda: hash(obj))
        self.desc = saved
        return (s, h)

    def admit(self, obj):
        """Add obj and everything reachable from it to the re-inspected set."""
        stack = [obj]
        while stack:
            o = stack.pop()
            if id(o) in self.known:
                continue
            self.known[id(o)] = [o, raw_slots(o), None]
            stack.extend(children(o))
        if not any(p is obj for p in self.pool):
            self.pool.append(obj)
        for ent in self.known.values():
            if ent[2] is None:
                ent[2] = self.observe(ent[0])

    def reinspect(self):
        for ent in list(self.known.values()):
            o, slots, sh = ent
            now = raw_slots(o)
            if now != slots:
                diff = [(a[0], a[1], b[1]) for a, b in zip(slots, now) if a != b]
                raise Violation("snapshot: after %s the slots of an earlier %s changed: %s"
                                % (self.desc, type(o).__name__, diff[:3]))
        for ent in list(self.known.values()):
            o, slots, sh = ent
            self.stats["insp"] += 1
            now = self.observe(o)
            if now != sh:
                raise Violation("snapshot: after %s str/hash of an earlier %s changed: %s -> %s"
                                % (self.desc, type(o).__name__, sh, now))
            if raw_slots(o) != slots:
                raise Violation("snapshot: str()/hash() changed the slots of a %s" % type(o).__name__)

    def pick(self, cls, pred=None):
        c = [p for p in self.pool if isinstance(p, cls) and (cls is not Duration or not isinstance(p, TimeZone))
             and (pred is None or pred(p))]
        return self.rng.choice(c) if c else None

    def classify(self, name, recv, operands, res):
        kinds = self.rets.setdefault(name, set())
        vals = list(res) if isinstance(res, (tuple, list)) else [res]
        for v in vals:
            if isinstance(v, tuple) and len(v) == 2:
                v = v[1]              # (name, value) pairs of get_props
            if not isinstance(v, OURS):
                kinds.add("prim")
            elif v is recv:
                kinds.add("self")
            elif id(v) in self.tr.fresh and id(v) not in self.known:
                kinds.add("fresh")
            elif any(v is o for o in operands):
                kinds.add("arg")
            else:
                kinds.add("old")

    def run(self, name, recv, operands, fn, keep=True):
        """One step: a public operation, then re-inspection of every value."""
        self.step += 1
        self.desc = "step %d %s on %s" % (self.step, name, type(recv).__name__)
        self.stats["ops"] += 1
        kind, res = self.guarded(fn)
        if kind == "hang":
            self.stats["hang"] += 1
        elif kind == "exc":
            self.stats["exc"] += 1
        else:
            self.classify(name, recv, operands, res)
            if keep:
                vals = list(res) if isinstance(res, (tuple, list)) else [res]
                for v in vals[:4]:
                    if isinstance(v, OURS):
                        self.admit(v)
        self.reinspect()
        return kind, res


# --------------------------------------------------------------------------
# initial values and operation catalogue
# --------------------------------------------------------------------------
DUMP_FORMATS = ["CCYY-MM-DDThh:mm:ss+hh:mm", "CCYYMMDDThhmmZ", "CCYY-DDDThh:mm:ssZ",
                "CCYY-Www-DThh:mm", "CCYYMMDDThh,ii+hh", "+XCCYY-MM-DDThh:mm:ss,tt+hh:mm",
                "%Y-%m-%dT%H:%M:%S%z", "%j/%s", "%F %X", "CCYY", "hh:mm:ssZ"]


def initial_values(rng, mode="G"):
    d360 = mode == "360"
    y = lambda: rng.randint(1995, 2025)  # noqa: E731
    tz = lambda: rng.choice([(0, 0), (1, 0), (-5, -30), (12, 45), (-11, 0), (5, 30)])  # noqa: E731
    vals = []

    def tp(**kw):
        z = tz()
        kw.setdefault("time_zone_hour", z[0])
        kw.setdefault("time_zone_minute", z[1])
        vals.append(TimePoint(**kw))
    tp(year=y(), month_of_year=rng.randint(1, 12), day_of_month=rng.randint(1, 28),
       hour_of_day=rng.randint(0, 23), minute_of_hour=rng.randint(0, 59), second_of_minute=rng.randint(0, 59))
    tp(year=y(), month_of_year=rng.choice([1, 2, 12]), day_of_month=rng.choice([28, 1, 27]),
       hour_of_day=24)
    tp(year=y(), day_of_year=rng.choice([1, 59, 60, 360 if d360 else 365]), hour_of_day=rng.randint(0, 23),
       minute_of_hour=rng.randint(0, 59))
    tp(year=y(), week_of_year=rng.randint(1, 51), day_of_week=rng.randint(1, 7), hour_of_day=rng.randint(0, 23))
    tp(year=y(), month_of_year=rng.randint(1, 12), day_of_month=rng.randint(1, 28), hour_of_day=rng.randint(0, 23),
       hour_of_day_decimal=rng.choice([0.5, 0.25, 0.75]))
    tp(year=y(), month_of_year=rng.randint(1, 12), day_of_month=rng.randint(1, 28), hour_of_day=rng.randint(0, 23),
       minute_of_hour=rng.randint(0, 59), second_of_minute=rng.randint(0, 59), second_of_minute_decimal=0.5,
       dump_format=rng.choice(DUMP_FORMATS))
    tp(year=y(), month_of_year=rng.randint(1, 12), day_of_month=rng.randint(1, 28),
       num_expanded_year_digits=2, dump_format=rng.choice(DUMP_FORMATS[:6]))
    # the clamping branches of year/month arithmetic: last day of a leap year, 29 February, week 53, a 31st
    ly = rng.choice([1996, 2000, 2004, 2008, 2012, 2016, 2020, 2024])
    for kw in (dict(year=ly, day_of_year={"360": 360, "365": 365}.get(mode, 366), hour_of_day=rng.randint(0, 23)),
               dict(year=ly, month_of_year=2, day_of_month={"360": 30, "365": 28}.get(mode, 29), hour_of_day=rng.randint(0, 23),
                    minute_of_hour=rng.randint(0, 59)),
               dict(year=rng.choice([1998, 2004, 2009, 2015, 2020]), week_of_year=53, day_of_week=rng.randint(1, 7), hour_of_day=6),
               dict(year=y(), month_of_year=rng.choice([1, 3, 5, 7, 8, 10, 12]), day_of_month=30 if d360 else 31, hour_of_day=18)):
        try:
            tp(**kw)
        except ValueError:
            pass      # e.g. no week 53 in that year of this calendar
    # truncated points
    vals.append(TimePoint(truncated=True, hour_of_day=rng.randint(0, 23), minute_of_hour=rng.randint(0, 59)))
    vals.append(TimePoint(truncated=True, day_of_month=rng.randint(1, 28), time_zone_hour=0))
    vals.append(TimePoint(truncated=True, truncated_property="year_of_decade", year=rng.randint(0, 9),
                          month_of_year=rng.randint(1, 12), day_of_month=rng.randint(1, 28)))
    vals.append(TimePoint(truncated=True, minute_of_hour=rng.randint(0, 59), second_of_minute=rng.randint(0, 59),
                          truncated_dump_format="T-mm:ss"))
    # durations
    vals.append(Duration(weeks=rng.randint(1, 9)))
    vals.append(Duration(days=rng.randint(0, 40), hours=rng.randint(0, 30), minutes=rng.randint(0, 90),
                         seconds=rng.randint(0, 90)))
    vals.append(Duration(years=rng.randint(0, 2), months=rng.randint(1, 14), days=rng.randint(0, 3)))
    vals.append(Duration(days=-rng.randint(1, 30), hours=-rng.randint(0, 23)))
    vals.append(Duration(years=rng.choice([1, -1, 3, 5])))
    vals.append(Duration(months=rng.choice([1, -1, 12, -11])))
    vals.append(Duration(hours=rng.choice([0.5, 1.25]), seconds=rng.choice([0.5, 30])))
    vals.append(Duration(seconds=rng.randint(1, 100000), standardize=True))
    # zones
    vals.append(TimeZone(hours=rng.randint(-12, 14), minutes=0))
    vals.append(TimeZone(hours=0, minutes=rng.choice([0, 30, -30])))
    vals.append(TimeZone(unknown=True))
    # recurrences
    s1 = TimePoint(year=y(), month_of_year=rng.randint(1, 12), day_of_month=rng.randint(1, 28),
                   hour_of_day=rng.randint(0, 23), time_zone_hour=tz()[0])
    vals.append(TimeRecurrence(repetitions=rng.randint(2, 9), start_point=s1,
                               duration=Duration(days=rng.randint(1, 9), hours=rng.randint(0, 12))))
    s2 = TimePoint(year=y(), month_of_year=rng.choice([1, 3, 5, 8]), day_of_month=30 if d360 else 31, hour_of_day=12)
    vals.append(TimeRecurrence(start_point=s2, duration=Duration(months=rng.randint(1, 3))))
    e3 = TimePoint(year=y(), month_of_year=2, day_of_month=28, hour_of_day=6, time_zone_hour=-3)
    vals.append(TimeRecurrence(repetitions=rng.randint(2, 5), end_point=e3,
                               duration=Duration(weeks=rng.randint(1, 3))))
    s4 = TimePoint(year=2010, day_of_year=rng.randint(1, 300), hour_of_day=3)
    vals.append(TimeRecurrence(repetitions=rng.choice([1, 3, None]), start_point=s4,
                               end_point=s4 + Duration(days=rng.randint(0, 3), hours=rng.randint(0, 5))))
    vals.append(TimeRecurrence(repetitions=4, start_point=s1, duration=Duration(days=2),
                               min_point=s1 + Duration(days=1), max_point=s1 + Duration(days=5)))
    return vals


def is_tp(x):
    return isinstance(x, TimePoint)


def full(p):
    return isinstance(p, TimePoint) and not p.truncated


def trunc(p):
    return isinstance(p, TimePoint) and p.truncated


TRUNC_KW = [dict(hour_of_day=3), dict(minute_of_hour=30), dict(second_of_minute=5), dict(day_of_month=15),
            dict(day_of_week=2), dict(day_of_year=100), dict(week_of_year=10), dict(month_of_year=7),
            dict(year_of_decade=3), dict(year_of_century=44), dict(hour_of_day=23, minute_of_hour=59),
            dict(month_of_year=2, day_of_month=28), dict()]

CMP = {"__eq__": lambda a, b: a == b, "__lt__": lambda a, b: a < b, "__le__": lambda a, b: a <= b,
       "__gt__": lambda a, b: a > b, "__ge__": lambda a, b: a >= b}


def explicit_ops(S):
    """name -> function(session) -> (recv, operands, thunk) or None"""
    rng = S.rng
    ops = {}

    def same_kind(a):
        if isinstance(a, TimePoint):
            return S.pick(TimePoint, (lambda p: p.truncated == a.truncated) if rng.random() < 0.8 else None)
        if isinstance(a, TimeRecurrence):
            return S.pick(TimeRecurrence)
        if isinstance(a, TimeZone):
            return S.pick(TimeZone) if rng.random() < 0.5 else S.pick(Duration)
        return S.pick(Duration) if rng.random() < 0.8 else S.pick(TimeZone)

    def anyval():
        return rng.choice(S.pool)

    for nm, f in CMP.items():
        def mk(nm=nm, f=f):
            a = anyval()
            b = same_kind(a) if rng.random() < 0.9 else anyval()
            return (a, [b], lambda: f(a, b))
        ops[nm] = mk

    def op_add():
        r = rng.random()
        if r < 0.35:
            a, b = S.pick(TimePoint, full), S.pick(Duration)
        elif r < 0.5:
            a, b = S.pick(Duration), S.pick(TimePoint, full)
        elif r < 0.65:
            a, b = S.pick(Duration), S.pick(Duration)
        elif r < 0.72:
            a, b = S.pick(TimePoint, trunc), S.pick(TimePoint, full)
        elif r < 0.79:
            a, b = S.pick(TimePoint, full), S.pick(TimePoint, trunc)
        elif r < 0.88:
            a, b = S.pick(TimeRecurrence), S.pick(Duration)
        elif r < 0.94:
            a, b = S.pick(Duration), S.pick(TimeRecurrence)
        else:
            a, b = S.pick(TimeZone), S.pick(Duration)
        return (a, [b], lambda: a + b)
    ops["__add__"] = op_add

    def op_sub():
        r = rng.random()
        if r < 0.35:
            a, b = S.pick(TimePoint, full), S.pick(TimePoint, full)
        elif r < 0.6:
            a, b = S.pick(TimePoint, full), S.pick(Duration)
        elif r < 0.8:
            a, b = S.pick(Duration), S.pick(Duration)
        elif r < 0.9:
            a, b = S.pick(TimeRecurrence), S.pick(Duration)
        else:
            a, b = S.pick(TimeZone), S.pick(TimeZone)
        return (a, [b], lambda: a - b)
    ops["__sub__"] = op_sub

    def op_mul():
        a, n = S.pick(Duration) if rng.random() < 0.85 else S.pick(TimeZone), rng.randint(-3, 4)
        return (a, [], lambda: a * n)
    ops["__mul__"] = op_mul

    def op_rmul():
        a, n = S.pick(Duration), rng.randint(-3, 4)
        return (a, [], lambda: n * a)
    ops["__rmul__"] = op_rmul

    def op_floordiv():
        a, n = S.pick(Duration), rng.choice([1, 2, 3, 7, -2])
        return (a, [], lambda: a // n)
    ops["__floordiv__"] = op_floordiv

    def op_getitem():
        a, i = S.pick(TimeRecurrence), rng.choice([0, 0, 1, 2, 5, -1])
        return (a, [], lambda: a[i])
    ops["__getitem__"] = op_getitem

    def op_iter():
        a = S.pick(TimeRecurrence)
        k = rng.randint(1, 6)
        if rng.random() < 0.4:
            def start():
                g = iter(a)
                S.gens.append((a, g))
                return None
            return (a, [], start)
        return (a, [], lambda: list(itertools.islice(iter(a), k)))
    ops["__iter__"] = op_iter

    def op_tz():
        a, z = S.pick(TimePoint), S.pick(TimeZone)
        return (a, [z], lambda: a.to_time_zone(z))
    ops["to_time_zone"] = op_tz

    def op_tzoff():
        a, b = S.pick(TimePoint), S.pick(TimePoint)
        return (a, [b], lambda: a.get_time_zone_offset(b))
    ops["get_time_zone_offset"] = op_tzoff

    def op_addmonths():
        a, n = S.pick(TimePoint, full), rng.choice([0, 0, 1, -1, 2, 11, 12, -13, 25])
        return (a, [], lambda: a.add_months(n))
    ops["add_months"] = op_addmonths

    def op_addtrunc():
        a, kw = S.pick(TimePoint, full), rng.choice(TRUNC_KW)
        return (a, [], lambda: a.add_truncated(**kw))
    ops["add_truncated"] = op_addtrunc

    def op_strftime():
        a, f = S.pick(TimePoint), rng.choice(["%Y-%m-%dT%H:%M:%S%z", "%j %s", "%F %X", "%d/%m/%y %H", "%Y%%"])
        return (a, [], lambda: a.strftime(f))
    ops["strftime"] = op_strftime

    def op_get():
        a = S.pick(TimePoint)
        return (a, [], lambda: a.get("year"))
    ops["get"] = op_get

    for nm in ("get_is_valid", "get_next", "get_prev", "get_first_after"):
        def mk(nm=nm):
            a = S.pick(TimeRecurrence)
            p = S.pick(TimePoint, full)
            return (a, [p], lambda: getattr(a, nm)(p))
        ops[nm] = mk
    return ops


def extra_ops(S):
    """Operations that are not methods of the four classes but public ways
    of using them (dumping, builtins, stored generators, properties of
    results)."""
    rng = S.rng

    def op_dump():
        a = S.pick(TimePoint)
        f = rng.choice(DUMP_FORMATS)
        d = dumpers.TimePointDumper(num_expanded_year_digits=rng.choice([0, 2]))
        return ("x_dump", a, [], lambda: d.dump(a, f))

    def op_gen_next():
        if not S.gens:
            return None
        a, g = rng.choice(S.gens)
        return ("x_gen_next", a, [], lambda: next(g, None))

    def op_membership():
        a = S.pick(TimeRecurrence)
        p = S.pick(TimePoint, full)
        k = rng.randint(1, 5)
        return ("x_membership", a, [p], lambda: p in list(itertools.islice(a, k)))

    def op_set():
        vals = [rng.choice(S.pool) for _ in range(3)]
        return ("x_dictkeys", vals[0], vals[1:], lambda: len({v: 1 for v in vals}))

    def op_sorted():
        vals = [p for p in S.pool if full(p)][:6]
        rng.shuffle(vals)
        return ("x_sorted", vals[0] if vals else None, vals[1:], lambda: sorted(vals)[0] if vals else None)

    def op_tzprop_chain():
        a = S.pick(TimePoint)
        return ("time_zone", a, [], lambda: a.time_zone)

    def op_neg():
        a = S.pick(Duration)
        return ("__rmul__", a, [], lambda: -1 * a)

    return [op_dump, op_dump, op_gen_next, op_gen_next, op_membership, op_set, op_sorted,
            op_tzprop_chain, op_neg]


def auto_ops(S, names, explicit):
    """Properties and methods callable without further arguments."""
    autos = []
    uncovered = []

    def sub(cls):
        # a Duration method is also a TimeZone method (inheritance)
        if cls is Duration and S.rng.random() < 0.3 and not hasattr(TimeZone.__dict__.get(n, None), "fget"):
            return TimeZone
        return cls
    for n, kind in sorted(names.items()):
        if n in explicit:
            continue
        owners = [c for c in OURS if n in c.__dict__]
        if kind == "property":
            def mk(n=n, owners=owners):
                a = S.pick(sub(S.rng.choice(owners)))
                return (n, a, [], lambda: getattr(a, n))
            autos.append(mk)
            continue
        fn = owners and owners[0].__dict__[n]
        ps = list(inspect.signature(fn).parameters.values())[1:]
        if all(p.default is not inspect.Parameter.empty or p.kind in (p.VAR_POSITIONAL, p.VAR_KEYWORD)
               for p in ps):
            builtin = {"__str__": str, "__hash__": hash, "__repr__": repr, "__abs__": abs,
                       "__bool__": bool}.get(n)

            def mk(n=n, owners=owners, builtin=builtin):
                a = S.pick(sub(S.rng.choice(owners)))
                if builtin is not None:
                    return (n, a, [], lambda: builtin(a))
                return (n, a, [], lambda: getattr(a, n)())
            autos.append(mk)
        else:
            uncovered.append(n)
    return autos, uncovered


def op_c16seq(t):
    mode = t.next()
    seed = t.z()
    nops = t.z()
    impl.set_mode(mode)
    rng = random.Random(seed)
    S = Session(rng, mode)
    names = public_names()
    S.tr.install()
    verdict = "ok"
    uncovered = []
    try:
        try:
            S.desc = "construction of the initial values"
            kind, vals = S.guarded(lambda: initial_values(rng, mode), budget=3.0)
            if kind != "ok":
                return "SETUP-FAILED %s %s" % (kind, vals)
            for v in vals:
                S.admit(v)
            explicit = explicit_ops(S)
            autos, uncovered = auto_ops(S, names, explicit)
            extras = extra_ops(S)
            for _ in range(nops):
                r = rng.random()
                if r < 0.45:
                    nm = rng.choice(sorted(explicit))
                    got = explicit[nm]()
                    got = (nm,) + got if got is not None else None
                elif r < 0.8:
                    got = rng.choice(autos)()
                else:
                    got = rng.choice(extras)()
                if got is None or got[1] is None or any(o is None for o in got[2]):
                    continue
                name, recv, operands, thunk = got
                S.run(name, recv, operands, thunk)
        except Violation as v:
            verdict = "VIOL " + str(v).replace(";", ",")
        except TimeoutError:
            verdict = "ok short"
    finally:
        S.tr.remove()
        signal.setitimer(signal.ITIMER_REAL, 0)
    if uncovered:
        verdict = "UNCOVERED " + ",".join(uncovered) + " " + verdict
    st = S.stats
    head = "ops=%d writes=%d fresh=%d insp=%d hang=%d exc=%d pool=%d" % (
        st["ops"], S.tr.total_writes, S.tr.total_fresh, st["insp"], st["hang"], st["exc"], len(S.known))
    rets = " ".join("%s:%s" % (n, ",".join(sorted(k))) for n, k in sorted(S.rets.items()) if k)
    return "%s ; %s ; ret %s" % (verdict, head, rets)


def op_c16names(t):
    """The public names the four classes define (for the coverage comparison
    with the generated table)."""
    return " ".join(sorted(public_names()))


impl.register("c16seq", op_c16seq)
impl.register("c16names", op_c16names)
