"""dev_cov_one.py Cxx [maxcases]: evaluate the quick-tier cases of one property on the real package in this process
(development aid: run under `coverage run -p --branch --source=/repo/metomi/isodatetime`)."""
import importlib
import json
import os
import random
import sys

VERIF = os.path.dirname(os.path.dirname(os.path.abspath(__file__)))
sys.path.insert(0, os.path.join(VERIF, "tools"))
os.environ.setdefault("PYTHONHASHSEED", "0")
import impl  # noqa: E402
from harness import Case  # noqa: E402

prop = sys.argv[1]
mx = int(sys.argv[2]) if len(sys.argv) > 2 else 4000
mod = importlib.import_module("props." + prop.lower())
for m in getattr(mod, "IMPL_MODULES", ()):
    importlib.import_module(m)
cases = []
d = os.path.join(VERIF, "corpus", prop)
if os.path.isdir(d):
    for f in sorted(os.listdir(d)):
        if f.endswith(".json"):
            j = json.load(open(os.path.join(d, f)))
            for ent in (j if isinstance(j, list) else [j]):
                cases.append(Case(ent["lines"], ent.get("tags", ["corpus"]), **ent.get("meta", {})))
gen = list(mod.generate(random.Random(20260930), "quick"))
random.Random(1).shuffle(gen)
cases += gen[:mx]
n = 0
for c in cases:
    for l in c.lines:
        impl.eval_line(l, 3)
        n += 1
print(prop, len(cases), "cases", n, "lines")
