#!/venv/bin/python
"""Demonstration for gen/GenCode6.v (the truncated-point addition of class TimePoint).

Harmless rewrites of the source must leave coq/Proofs/GenCode6Ok.v and
coq/Props/C20Code.v provable; the seeded changes of /verif/seeded that touch
add_truncated or its callers must fail an obligation (an equality theorem, a
phase-4 lemma the proofs rest on, or `translator_ok_code6 = true` when the edit
leaves the accepted subset) -- or lie outside the translated methods, in which
case everything still proves and the case is reported as `outside`.

Works on scratch copies only (/tmp/gencode6_repo, /tmp/gencode6_coq), removed
afterwards; neither /repo nor /verif/coq is written.  The Coq sources are taken
from $G6_BASE_COQ (default /verif/coq), which must be compiled.
Usage: tools/gencode6_mutants.py [name-substring]
"""
import glob
import os
import re
import shutil
import subprocess
import sys
import time

TOOLS = os.path.dirname(os.path.abspath(__file__))
COQ = os.environ.get("G6_BASE_COQ", os.path.normpath(os.path.join(TOOLS, "..", "coq")))
REPO_SCRATCH = "/tmp/gencode6_repo"
COQ_SCRATCH = os.environ.get("G6_SCRATCH", "/tmp/gencode6_coq")
FILES4 = ["gen/GenCode4.v", "Proofs/GenCode4Base.v", "Proofs/GenCode4Stmt.v", "Proofs/GenCode4Stmt2.v",
          "Proofs/GenCode4Dom.v", "Proofs/GenCode4Tick.v", "Proofs/GenCode4Conv.v", "Proofs/GenCode4Add.v",
          "Proofs/GenCode4Zone.v", "Proofs/GenCode4Cmp.v", "Proofs/GenCode4Ok.v"]
FILES6 = ["gen/GenCode6.v", "Proofs/GenCode6Ok.v", "Props/C20Code.v"]

ADD_TRUNCATED_LOOPS_OLD = None   # filled from /repo below


def loops_block(src):
    a = src.index("        if second_of_minute is not None:\n            while new._second_of_minute != second_of_minute:")
    b = src.index("        if month_of_year is not None:\n            new = new.to_calendar_date()")
    return src[a:b]


HELPER_LOOPS = '''        if second_of_minute is not None:
            new._advance("_second_of_minute", second_of_minute, 1.0)
        if minute_of_hour is not None:
            new._advance("_minute_of_hour", minute_of_hour, 1.0)
        if hour_of_day is not None:
            new._advance("_hour_of_day", hour_of_day, 1.0)
        if day_of_week is not None:
            new = new.to_week_date()
            new._advance("_day_of_week", day_of_week, 1)
        if day_of_month is not None:
            new = new.to_calendar_date()
            new._advance("_day_of_month", day_of_month, 1)
        if day_of_year is not None:
            new = new.to_ordinal_date()
            new._advance("_day_of_year", day_of_year, 1)
        if week_of_year is not None:
            new = new.to_week_date()
            new._advance("_week_of_year", week_of_year, 1)
'''
HELPER_DEF = ('''    def __add__(self, other) -> "TimePoint":
        if isinstance(other, TimePoint):''', '''    def _advance(self, attr, target, step):
        """Step one unit at a time until the slot attr holds target."""
        while getattr(self, attr) != target:
            setattr(self, attr, getattr(self, attr) + step)
            self._tick_over()

    def __add__(self, other) -> "TimePoint":
        if isinstance(other, TimePoint):''')

CASES = [
    # (kind, name, edits)   kind: "same" must still prove; "break" must fail; "outside": the change is
    # outside the translated methods (everything still proves: reported, not counted as caught)
    ("same", "control (no change)", []),
    ("same", "W1 renamed locals; x = x + 1 / x = 1 + x instead of x += 1 in the stepping loops", [
        ("""            while new._second_of_minute != second_of_minute:
                new._second_of_minute += 1.0
                new._tick_over()
""", """            while new._second_of_minute != second_of_minute:
                new._second_of_minute = new._second_of_minute + 1.0
                new._tick_over()
"""),
        ("""            while new._hour_of_day != hour_of_day:
                new._hour_of_day += 1.0
                new._tick_over()
""", """            while hour_of_day != new._hour_of_day:
                new._hour_of_day = 1.0 + new._hour_of_day
                new._tick_over()
"""),
        ("""            while new._day_of_month != day_of_month:
                new._day_of_month += 1
                new._tick_over()
""", """            while new._day_of_month != day_of_month:
                next_day = 1 + new._day_of_month
                new._day_of_month = next_day
                new._tick_over()
"""),
        ("""        if hour_of_day is not None and minute_of_hour is None:
            minute_of_hour = 0
""", """        if minute_of_hour is None and hour_of_day is not None:
            minute_of_hour = 0.0
"""),
        ("""                new = other.to_time_zone(self._time_zone)
                new = new.add_truncated(**self.get_truncated_properties())
                return new.to_time_zone(other._time_zone)
""", """                aligned = other.to_time_zone(self._time_zone)
                fields = self.get_truncated_properties()
                result = aligned.add_truncated(**fields)
                return result.to_time_zone(other._time_zone)
""")]),
    ("same", "W2 the opening of add_truncated spelled `new = self._normalised()._copy()`", [
        ("""        new = self._copy()
        if new._hour_of_day == CALENDAR.HOURS_IN_DAY:
            # 24:00 is 00:00 on the next day, which may already match.
            new._tick_over()
        if hour_of_day is not None and minute_of_hour is None:
""", """        # 24:00 is 00:00 on the next day, which may already match.
        new = self._normalised()._copy()
        if hour_of_day is not None and minute_of_hour is None:
""")]),
    ("same", "W3 the per-unit loops factored into a private helper method _advance(attr, target, step)", [
        ("LOOPS", HELPER_LOOPS), HELPER_DEF]),
    ("same", "W4 get_truncated_properties with item assignment and an f-string; `if value is None: continue`-free "
             "loop over a tuple", [
        ("""            value = getattr(self, "_{0}".format(attr))
            if value is not None:
                props.update({attr: value})
""", """            value = getattr(self, f"_{attr}")
            if value is not None:
                props[attr] = value
"""),
        ("""            props.update({"year_of_decade": self._year % 10})
""", """            props["year_of_decade"] = self._year % 10
""")]),
    ("same", "R1 = notes/refactors/R1.diff (helper extracted from _tick_over_day_of_month / add_months / __add__, "
             "inverted guard in _normalised, ...: phase 4's own rewrite test, replayed under phase 6)",
     [("PATCH", "/verif/notes/refactors/R1.diff")]),
    ("same", "R-S4 = notes/refactors/S4.diff (private helpers extracted / inlined in TimeRecurrence, "
             "TimePoint.__init__ and the module helpers)", [("PATCH", "/verif/notes/refactors/S4.diff")]),
    ("break", "S1 seeded C20-24h-normalise-only-with-time", [("PATCH", "/verif/seeded/C20-24h-normalise-only-with-time/patch.diff")]),
    ("break", "S2 seeded C20-doy366-leap-jump", [("PATCH", "/verif/seeded/C20-doy366-leap-jump/patch.diff")]),
    ("break", "S3 seeded C16-add-truncated-aliases", [("PATCH", "/verif/seeded/C16-add-truncated-aliases/patch.diff")]),
    ("break", "S4 seeded C20-ordinal-backward-year-length-own-zone",
     [("PATCH", "/verif/seeded/C20-ordinal-backward-year-length-own-zone/patch.diff")]),
    ("outside", "S5 seeded C20-zero-zone-unknown (TimePoint.__init__)", [("PATCH", "/verif/seeded/C20-zero-zone-unknown/patch.diff")]),
    ("outside", "S6 seeded C07-truncated-zero-zone-unknown (TimePoint.__init__)",
     [("PATCH", "/verif/seeded/C07-truncated-zero-zone-unknown/patch.diff")]),
    ("break", "B1 the weekday loop steps the week number", [
        ("""            while new._day_of_week != day_of_week:
                new._day_of_week += 1
""", """            while new._day_of_week != day_of_week:
                new._week_of_year += 1
""")]),
    ("break", "B2 seconds default to 0 only when an hour is given", [
        ("""        if ((hour_of_day is not None or minute_of_hour is not None) and
                second_of_minute is None):
""", """        if (hour_of_day is not None and
                second_of_minute is None):
""")]),
    ("break", "B3 __add__ does not convert back to the full point's zone", [
        ("""                return new.to_time_zone(other._time_zone)
""", """                return new
""")]),
    ("break", "B4 get_truncated_properties drops the weekday", [
        ("""        for attr in ["month_of_year", "week_of_year", "day_of_year",
                     "day_of_month", "day_of_week", "hour_of_day",
                     "minute_of_hour", "second_of_minute"]:
            value = getattr""", """        for attr in ["month_of_year", "week_of_year", "day_of_year",
                     "day_of_month", "hour_of_day",
                     "minute_of_hour", "second_of_minute"]:
            value = getattr""")]),
    ("break", "B5 the hour loop steps by two", [
        ("""                new._hour_of_day += 1.0
""", """                new._hour_of_day += 2.0
""")]),
]


def fresh_tree(same4):
    shutil.rmtree(COQ_SCRATCH, ignore_errors=True)
    for d in ("gen", "Proofs", "Props"):
        os.makedirs(os.path.join(COQ_SCRATCH, d))
    for d in ("Spec", "Model"):
        os.symlink(os.path.join(COQ, d), os.path.join(COQ_SCRATCH, d))
    own = [os.path.basename(f)[:-2] for f in FILES6 + ([] if same4 else FILES4)]
    # nothing that depends on the regenerated files may be picked up in its old version
    own += ["C01Code", "C02Code", "C04Code", "C05Code", "C06Code", "GenCode5", "GenCode5Ok", "C12Code", "C13Code",
            "C14Code", "C20Code"]
    for f in glob.glob(os.path.join(COQ, "gen", "*.vo")) + glob.glob(os.path.join(COQ, "Proofs", "*.vo")) + \
            glob.glob(os.path.join(COQ, "Props", "*.vo")):
        if os.path.basename(f)[:-3] not in own:
            os.symlink(f, os.path.join(COQ_SCRATCH, os.path.relpath(f, COQ)))
    for f in FILES6[1:] + ([] if same4 else FILES4[1:]):
        shutil.copy(os.path.join(COQ, f), os.path.join(COQ_SCRATCH, f))


def coqc(path):
    t0 = time.time()
    r = subprocess.run("ulimit -v 8000000; timeout 1800 coqc -Q . Iso %s" % path, shell=True,
                       cwd=COQ_SCRATCH, capture_output=True, text=True)
    return r.returncode, (r.stdout + r.stderr), time.time() - t0


def lemma_at(path, out):
    m = re.search(r'line (\d+)', out)
    if not m:
        return "?"
    lines = open(os.path.join(COQ_SCRATCH, path)).read().split("\n")[:int(m.group(1))]
    names = re.findall(r"^\s*(?:Lemma|Theorem|Example|Corollary)\s+(\w+)", "\n".join(lines), re.M)
    return names[-1] if names else "?"


def run(kind, name, edits):
    print("=== [%s] %s" % (kind, name))
    sys.stdout.flush()
    shutil.rmtree(REPO_SCRATCH, ignore_errors=True)
    shutil.copytree("/repo", REPO_SCRATCH, ignore=shutil.ignore_patterns(".git"))
    path = os.path.join(REPO_SCRATCH, "metomi", "isodatetime", "data.py")
    for _old, new in [e for e in edits if e[0] == "PATCH"]:
        subprocess.run("patch -s -p1 < %s" % new, shell=True, cwd=REPO_SCRATCH, check=True)
    src = open(path).read()
    for old, new in [e for e in edits if e[0] != "PATCH"]:
        if old == "LOOPS":
            old = loops_block(src)
        assert src.count(old) == 1, "expected exactly one occurrence of %r, found %d" % (old, src.count(old))
        src = src.replace(old, new)
    open(path, "w").write(src)
    if edits:   # the edited package must still import and add a truncated point
        try:
            r = subprocess.run(["/venv/bin/python", "-c",
                                "from metomi.isodatetime.data import TimePoint as T;"
                                "print(T(truncated=True, hour_of_day=6, day_of_month=3) + T(year=2001, month_of_year=2, day_of_month=10))"],
                               env=dict(os.environ, PYTHONPATH=REPO_SCRATCH), capture_output=True, text=True, timeout=20)
            assert r.returncode == 0, r.stderr
            print("    the edited package: T06 on day 3 after 2001-02-10 = %s" % r.stdout.strip())
        except subprocess.TimeoutExpired:
            print("    the edited package: T06 on day 3 after 2001-02-10 does not return")
    gen_tmp = COQ_SCRATCH + "_gen"
    shutil.rmtree(gen_tmp, ignore_errors=True)
    os.makedirs(gen_tmp)
    env = dict(os.environ, ISO_REPO=REPO_SCRATCH, VERIF_GEN_OUT=gen_tmp)
    subprocess.run(["/venv/bin/python", os.path.join(TOOLS, "translate_code6.py")], env=env, check=True,
                   capture_output=True)
    gen4 = open(os.path.join(gen_tmp, "GenCode4.v")).read()
    gen6 = open(os.path.join(gen_tmp, "GenCode6.v")).read()
    same4 = gen4 == open(os.path.join(COQ, "gen", "GenCode4.v")).read()
    fresh_tree(same4)
    shutil.copy(os.path.join(gen_tmp, "GenCode6.v"), os.path.join(COQ_SCRATCH, "gen", "GenCode6.v"))
    if not same4:
        shutil.copy(os.path.join(gen_tmp, "GenCode4.v"), os.path.join(COQ_SCRATCH, "gen", "GenCode4.v"))
    shutil.rmtree(gen_tmp, ignore_errors=True)
    base6 = open(os.path.join(COQ, "gen", "GenCode6.v")).read()
    base4 = open(os.path.join(COQ, "gen", "GenCode4.v")).read()
    print("    generated: GenCode4.v %d lines differ, GenCode6.v %d lines differ; translator_ok_code6 := %s" % (
        len(set(gen4.split("\n")) ^ set(base4.split("\n"))), len(set(gen6.split("\n")) ^ set(base6.split("\n"))),
        re.search(r"translator_ok_code6 : bool := (\w+)", gen6).group(1)))
    for m in list(re.finditer(r"^\(\* REJECTED: (.*) \*\)$", gen6, re.M))[:2]:
        print("    " + m.group(1)[:260])
    verdict = "PROVES"
    t0 = time.time()
    for f in ([] if same4 else FILES4) + FILES6:
        rc, out, dt = coqc(f)
        if rc != 0:
            err = " ".join(out.strip().split("\n")[-3:])[:260]
            verdict = "FAILS at %s, %s (%.1fs): %s" % (f, lemma_at(f, out), dt, err)
            break
    print("    -> %s   [%.0f s]" % (verdict, time.time() - t0))
    good = (verdict == "PROVES") == (kind in ("same", "outside"))
    print("    %s" % ("as required" if good else "*** NOT as required ***"))
    sys.stdout.flush()
    shutil.rmtree(REPO_SCRATCH, ignore_errors=True)
    if not os.environ.get("G6_KEEP"):
        shutil.rmtree(COQ_SCRATCH, ignore_errors=True)
    return good


if __name__ == "__main__":
    sel = sys.argv[1] if len(sys.argv) > 1 else ""
    results = [run(*c) for c in CASES if sel in c[1]]
    print("%d of %d as required" % (sum(results), len(results)))
    sys.exit(0 if all(results) else 1)
