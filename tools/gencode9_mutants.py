#!/venv/bin/python
"""Rewrite / seeded-change experiments for GenCode9 (scratch copies only; /repo and /verif/coq are never written).
usage: gencode9_mutants.py [name ...]"""
import os
import shutil
import subprocess
import sys

VERIF = os.path.dirname(os.path.dirname(os.path.abspath(__file__)))
REPO_S, COQ_S = "/tmp/gencode9_repo", "/tmp/gencode9_coq"
OWN = ["gen/GenCode9.v", "Proofs/GenCode9Ok.v", "Proofs/GenCode9Expr.v", "Props/C08Code.v"]
CASES = [("control", None, "prove")] + \
    [(r, os.path.join(VERIF, "notes/refactors", r + ".diff"), "prove") for r in ("R5", "S4", "S5")] + \
    [(s, os.path.join(VERIF, "seeded", s, "patch.diff"), "fail") for s in (
        "C06-literal-zone-zero-hour", "C07-dump-year-upper-bound", "C07-decimal-round-threshold",
        "C07-year-sign-of-zero", "C08-decimal-leading-zeros", "C08-year-zero-dump-format",
        "C08-dump-year-upper-bound-custom", "C17-24h-rollover-only-with-hour", "C17-year-9999-range",
        "C16-strftime-ticks-operand", "C19-dump-abs-year")]


def sh(cmd, **kw):
    return subprocess.run(cmd, shell=True, stdout=subprocess.PIPE, stderr=subprocess.STDOUT, text=True, **kw)


def setup_coq():
    shutil.rmtree(COQ_S, ignore_errors=True)
    src = os.path.join(VERIF, "coq")
    for d, _, files in os.walk(src):
        rel = os.path.relpath(d, src)
        os.makedirs(os.path.join(COQ_S, rel), exist_ok=True)
        for f in files:
            r = os.path.normpath(os.path.join(rel, f))
            if any(r.startswith(o[:-2] + ".") for o in OWN):
                if r in OWN:
                    shutil.copy(os.path.join(d, f), os.path.join(COQ_S, r))
                continue
            os.symlink(os.path.join(d, f), os.path.join(COQ_S, r))


def run(name, diff, want):
    shutil.rmtree(REPO_S, ignore_errors=True)
    os.makedirs(REPO_S)
    shutil.copytree("/repo/metomi", os.path.join(REPO_S, "metomi"))
    if diff:
        r = sh("patch -p1 -s < %s" % diff, cwd=REPO_S)
        if r.returncode:
            return "PATCH FAILED " + r.stdout
    r = sh("PYTHONPATH=%s /venv/bin/python -c 'import metomi.isodatetime.data, metomi.isodatetime.dumpers'" % REPO_S)
    if r.returncode:
        return "package does not import"
    setup_coq()
    t = sh("ISO_REPO=%s VERIF_GEN_OUT=%s/gen /venv/bin/python %s/tools/translate_code9.py" % (REPO_S, COQ_S, VERIF))
    same = open(os.path.join(COQ_S, "gen/GenCode9.v")).read() == open(os.path.join(VERIF, "coq/gen/GenCode9.v")).read()
    out = [t.stdout.strip().replace("\n", " | ")[:300], "GenCode9.v %s" % ("IDENTICAL" if same else "differs")]
    status = "PROVES"
    for f in OWN:
        c = sh("ulimit -v 8000000; timeout 900 coqc -Q . Iso %s" % f, cwd=COQ_S)
        if c.returncode:
            err = [ln for ln in c.stdout.split("\n") if ln.startswith("File") or "Error" in ln or "proof" in ln]
            status = "FAILS in %s: %s" % (f, " ".join(err)[-400:])
            break
        if f.endswith("C08Code.v"):
            out.append("%d x Closed" % c.stdout.count("Closed under the global context"))
    good = (status == "PROVES") == (want == "prove")
    return "%s [%s] %s -- %s" % ("as required" if good else "NOT AS REQUIRED", want, status, "; ".join(out))


if __name__ == "__main__":
    sel = sys.argv[1:]
    try:
        for name, diff, want in CASES:
            if sel and name not in sel:
                continue
            print("%-36s %s" % (name, run(name, diff, want)), flush=True)
    finally:
        shutil.rmtree(REPO_S, ignore_errors=True)
        shutil.rmtree(COQ_S, ignore_errors=True)
