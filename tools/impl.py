"""Evaluate line-protocol operations on the real metomi.isodatetime package.

The same lines are fed to the extracted Gallina model (coq/Model/Driver.v).
Always run with PYTHONPATH=/repo TZ=UTC PYTHONHASHSEED=0 (see harness.py).
"""
import os
import signal
import sys
from fractions import Fraction

sys.path.insert(0, os.environ.get("ISO_REPO", "/repo"))
from metomi.isodatetime import data  # noqa: E402
from metomi.isodatetime.data import (  # noqa: E402
    Calendar, Duration, TimePoint, TimeZone)

MODES = {"G": "gregorian", "360": "360day", "365": "365day", "366": "366day"}


class Hang(Exception):
    pass


def _alarm(signum, frame):
    raise Hang()


signal.signal(signal.SIGALRM, _alarm)


def set_mode(tok):
    Calendar.default().set_mode(MODES.get(tok, tok))


def frac(tok):
    return Fraction(tok)


def num(q):
    """A rational token as the Python number the constructor expects."""
    q = Fraction(q)
    if q.denominator == 1:
        return int(q)
    return float(q)


class Toks:
    def __init__(self, toks):
        self.t = toks
        self.i = 0

    def next(self):
        v = self.t[self.i]
        self.i += 1
        return v

    def z(self):
        return int(self.next())

    def q(self):
        return Fraction(self.next())

    def done(self):
        return self.i == len(self.t)


def split_int_frac(q):
    """(int part, float fraction) of a non-negative rational."""
    ip = q.numerator // q.denominator
    return ip, float(q - ip)


def rd_date(t):
    k = t.next()
    if k == "C":
        return dict(year=t.z(), month_of_year=t.z(), day_of_month=t.z())
    if k == "O":
        return dict(year=t.z(), day_of_year=t.z())
    if k == "W":
        return dict(year=t.z(), week_of_year=t.z(), day_of_week=t.z())
    raise KeyError(k)


def rd_tod(t):
    k = t.next()
    if k == "S":
        h, m, s = t.q(), t.q(), t.q()
        kw = dict(hour_of_day=num(h), minute_of_hour=num(m))
        if s.denominator == 1:
            kw["second_of_minute"] = int(s)
        else:
            ip, fr = split_int_frac(s)
            kw["second_of_minute"] = ip
            kw["second_of_minute_decimal"] = fr
        return kw
    if k == "M":
        h, m = t.q(), t.q()
        ip, fr = split_int_frac(m)
        return dict(hour_of_day=num(h), minute_of_hour=ip,
                    minute_of_hour_decimal=fr)
    if k == "H":
        h = t.q()
        ip, fr = split_int_frac(h)
        return dict(hour_of_day=ip, hour_of_day_decimal=fr)
    raise KeyError(k)


def rd_tp(t, **extra):
    kw = rd_date(t)
    kw.update(rd_tod(t))
    kw["time_zone_hour"] = t.z()
    kw["time_zone_minute"] = t.z()
    if not 0 <= kw["year"] <= 9999:
        # years outside 0000-9999 need the agreed expanded year digits to be
        # printable at all (str() raises OverflowError otherwise, by design)
        kw["num_expanded_year_digits"] = 2
    kw.update(extra)
    return TimePoint(**kw)


def rd_dur(t):
    k = t.next()
    if k == "DW":
        return Duration(weeks=t.z())
    y, mo, d = t.z(), t.z(), t.z()
    h, mi, s = t.q(), t.q(), t.q()
    return Duration(years=y, months=mo, days=d, hours=num(h),
                    minutes=num(mi), seconds=num(s))


def sh_q(x):
    if x is None:
        return "None"
    f = Fraction(x)
    if f.denominator == 1:
        return str(f.numerator)
    return "%d/%d" % (f.numerator, f.denominator)


def sh_date(p):
    if p._month_of_year is not None:
        return "C %d %d %d" % (p._year, p._month_of_year, p._day_of_month)
    if p._day_of_year is not None:
        return "O %d %d" % (p._year, p._day_of_year)
    return "W %d %d %d" % (p._year, p._week_of_year, p._day_of_week)


def sh_tod(p):
    if p._second_of_minute is not None:
        return "S %s %s %s" % (sh_q(p._hour_of_day), sh_q(p._minute_of_hour),
                               sh_q(p._second_of_minute))
    if p._minute_of_hour is not None:
        return "M %s %s" % (sh_q(p._hour_of_day), sh_q(p._minute_of_hour))
    return "H %s" % sh_q(p._hour_of_day)


def sh_zone(z):
    return "%d %d" % (z._hours, z._minutes)


def sh_tp(p):
    return "%s %s %s" % (sh_date(p), sh_tod(p), sh_zone(p._time_zone))


def sh_dur(d):
    if d._weeks is not None:
        return "DW %d" % d._weeks
    return "DU %d %d %d %s %s %s" % (d._years, d._months, d._days,
                                     sh_q(d._hours), sh_q(d._minutes),
                                     sh_q(d._seconds))


def sh_tuple(t):
    return " ".join(str(int(x)) for x in t)


def op_leap(t):
    return "1" if data.get_is_leap_year(t.z()) else "0"


def _md(t):
    set_mode(t.next())


def op_ylen(t):
    _md(t)
    return str(data.get_days_in_year(t.z()))


def op_mlen(t):
    _md(t)
    m, y = t.z(), t.z()
    return str(data.get_days_in_month(m, y))


def op_mlenleap(t):
    _md(t)
    return str(data.get_days_in_month(t.z()))


def op_range(t):
    _md(t)
    return str(data.get_days_in_year_range(t.z(), t.z()))


def op_weeks(t):
    _md(t)
    return str(data.get_weeks_in_year(t.z()))


def op_wstart(t):
    _md(t)
    return sh_tuple(data.get_calendar_date_week_date_start(t.z()))


def op_owstart(t):
    _md(t)
    return sh_tuple(data.get_ordinal_date_week_date_start(t.z()))


def op_since1ad(t):
    _md(t)
    return str(data.get_days_since_1_ad(t.z()))


def _conv(fn, n):
    def op(t):
        _md(t)
        args = [t.z() for _ in range(n)]
        return sh_tuple(fn(*args))
    return op


def op_add(t):
    _md(t)
    p = rd_tp(t)
    d = rd_dur(t)
    return sh_tp(p + d)


def op_radd(t):
    _md(t)
    p = rd_tp(t)
    d = rd_dur(t)
    return sh_tp(d + p)


def op_subd(t):
    _md(t)
    p = rd_tp(t)
    d = rd_dur(t)
    return sh_tp(p - d)


def op_tz(t):
    _md(t)
    p = rd_tp(t)
    return sh_tp(p.to_time_zone(TimeZone(hours=t.z(), minutes=t.z())))


def op_cmp(t):
    _md(t)
    a = rd_tp(t)
    b = rd_tp(t)
    return cmp3(a, b)


def op_hashkey(t):
    _md(t)
    p = rd_tp(t)
    u = p.to_utc()
    if hasattr(u, "_normalised"):
        u = u._normalised()
    y, m, d = u.get_calendar_date()
    h, mi, s = u.get_hour_minute_second()
    return "%d %d %d %s %s %s" % (y, m, d, sh_q(h), sh_q(mi), sh_q(s))


def op_sub(t):
    _md(t)
    a = rd_tp(t)
    b = rd_tp(t)
    return sh_dur(a - b)


def _toconv(name):
    def op(t):
        _md(t)
        kw = rd_date(t)
        p = TimePoint(**kw)
        return sh_date(getattr(p, name)())
    return op


OPS = {
    "leap": op_leap, "ylen": op_ylen, "mlen": op_mlen,
    "mlenleap": op_mlenleap, "range": op_range, "weeks": op_weeks,
    "wstart": op_wstart, "owstart": op_owstart, "since1ad": op_since1ad,
    "c2o": _conv(data.get_ordinal_date_from_calendar_date, 3),
    "o2c": _conv(data.get_calendar_date_from_ordinal_date, 2),
    "c2w": _conv(data.get_week_date_from_calendar_date, 3),
    "w2c": _conv(data.get_calendar_date_from_week_date, 3),
    "o2w": _conv(data.get_week_date_from_ordinal_date, 2),
    "w2o": _conv(data.get_ordinal_date_from_week_date, 3),
    "add": op_add, "radd": op_radd, "subd": op_subd, "tz": op_tz,
    "cmp": op_cmp, "hashkey": op_hashkey, "sub": op_sub,
    "tocal": _toconv("to_calendar_date"),
    "toord": _toconv("to_ordinal_date"),
    "toweek": _toconv("to_week_date"),
}


def register(name, fn):
    if name in OPS and OPS[name] is not fn:
        raise RuntimeError("operation %r registered twice" % name)
    OPS[name] = fn


def _reg_all(d):
    for name, fn in d.items():
        register(name, fn)


def _b(x):
    return "1" if x else "0"


def op_dadd(t):
    return sh_dur(rd_dur(t) + rd_dur(t))


def op_dsub(t):
    a = rd_dur(t)
    return sh_dur(a - rd_dur(t))


def op_dmul(t):
    a = rd_dur(t)
    n = t.z()
    r1, r2 = a * n, n * a
    if sh_dur(r1) != sh_dur(r2):
        return "INCOHERENT d*n=%s n*d=%s" % (sh_dur(r1), sh_dur(r2))
    return sh_dur(r1)


def op_dfloordiv(t):
    a = rd_dur(t)
    return sh_dur(a // t.z())


def op_dabs(t):
    return sh_dur(abs(rd_dur(t)))


def op_deq(t):
    a, b = rd_dur(t), rd_dur(t)
    eq, ne = a == b, a != b
    if eq == ne:
        return "INCOHERENT eq=%s ne=%s" % (eq, ne)
    return _b(eq)


def op_dcmp(t):
    _md(t)
    a, b = rd_dur(t), rd_dur(t)
    return " ".join(_b(x) for x in (a < b, a <= b, a > b, a >= b))


def op_dhash(t):
    a, b = rd_dur(t), rd_dur(t)
    return _b(hash(a) == hash(b))


def op_dbool(t):
    return _b(bool(rd_dur(t)))


def op_dexact(t):
    return _b(rd_dur(t).is_exact())


def op_dsecs(t):
    _md(t)
    return sh_q(rd_dur(t).get_seconds())


def op_ddays(t):
    _md(t)
    d, s = rd_dur(t).get_days_and_seconds()
    return "%s %s" % (sh_q(d), sh_q(s))


def op_dtodays(t):
    return sh_dur(rd_dur(t).to_days())


def op_dtoweeks(t):
    return sh_dur(rd_dur(t).to_weeks())


_reg_all({
    "dadd": op_dadd, "dsub": op_dsub, "dmul": op_dmul,
    "dfloordiv": op_dfloordiv, "dabs": op_dabs, "deq": op_deq,
    "dcmp": op_dcmp, "dhash": op_dhash, "dbool": op_dbool,
    "dexact": op_dexact, "dsecs": op_dsecs, "ddays": op_ddays,
    "dtodays": op_dtodays, "dtoweeks": op_dtoweeks,
})


class FakeTime:
    """Stands in for the `time` module as seen by timezone.py."""

    def __init__(self, tz, alt, daylight, isdst):
        self.timezone, self.altzone, self.daylight = tz, alt, daylight
        self._isdst = isdst

    def localtime(self, *a):
        import time as real
        t = list(real.localtime(*a))
        t[8] = self._isdst
        return real.struct_time(t)

    def __getattr__(self, name):
        import time as real
        return getattr(real, name)


def with_fake_time(tz, alt, dl, dst, fn):
    from metomi.isodatetime import timezone as tzmod
    saved = tzmod.time
    tzmod.time = FakeTime(tz, alt, dl, dst)
    try:
        return fn()
    finally:
        tzmod.time = saved


def op_localtz(t):
    from metomi.isodatetime import timezone as tzmod
    tz, alt, dl, dst = t.z(), t.z(), t.z(), t.z()
    h, m = with_fake_time(tz, alt, dl, dst, tzmod.get_local_time_zone)
    return "%d %d" % (h, m)


def op_localfmt(t):
    from metomi.isodatetime import timezone as tzmod
    mode = t.next()
    tz, alt, dl, dst = t.z(), t.z(), t.z(), t.z()
    return with_fake_time(tz, alt, dl, dst,
                          lambda: tzmod.get_local_time_zone_format(mode))


def op_fromunix(t):
    _md(t)
    n = t.q()
    k = t.next()
    arg = int(n) if n.denominator == 1 else float(n)
    if k == "utc":
        return sh_tp(data.get_timepoint_from_seconds_since_unix_epoch(arg, utc=True))
    h, m = t.z(), t.z()
    secs = -(h * 3600 + m * 60)
    return sh_tp(with_fake_time(
        secs, secs, 0, 0,
        lambda: data.get_timepoint_from_seconds_since_unix_epoch(arg)))


def op_tounix(t):
    _md(t)
    return rd_tp(t).seconds_since_unix_epoch


_reg_all({"localtz": op_localtz, "localfmt": op_localfmt,
            "fromunix": op_fromunix, "tounix": op_tounix})


def op_localtz_os(t):
    """The OS path: a POSIX TZ string through time.tzset()."""
    import os
    import time as real
    from metomi.isodatetime import timezone as tzmod
    tzs = t.next()
    old = os.environ.get("TZ")
    os.environ["TZ"] = tzs
    real.tzset()
    try:
        h, m = tzmod.get_local_time_zone()
        return "%d %d %d %d %d %d" % (h, m, real.timezone, real.altzone,
                                      real.daylight, real.localtime().tm_isdst)
    finally:
        if old is None:
            del os.environ["TZ"]
        else:
            os.environ["TZ"] = old
        real.tzset()


register("localtz_os", op_localtz_os)


def to_kind(p, k):
    if k == "C":
        return p.to_calendar_date()
    if k == "O":
        return p.to_ordinal_date()
    if k == "W":
        return p.to_week_date()
    return p


def rd_operand(t):
    p = rd_tp(t)
    d = rd_dur(t)
    z = TimeZone(hours=t.z(), minutes=t.z())
    k = t.next()
    return to_kind((p + d).to_time_zone(z), k)


def cmp3(a, b):
    lt, eq, gt = a < b, a == b, a > b
    le, ge, ne = a <= b, a >= b, a != b
    if eq and not lt and not gt and le and ge and not ne:
        return "EQ"
    if lt and not eq and not gt and le and not ge and ne:
        return "LT"
    if gt and not eq and not lt and ge and not le and ne:
        return "GT"
    return "INCOHERENT lt=%d eq=%d gt=%d le=%d ge=%d ne=%d" % (
        lt, eq, gt, le, ge, ne)


def op_pair(t):
    _md(t)
    a = rd_operand(t)
    b = rd_operand(t)
    sa, sb = sh_tp(a), sh_tp(b)
    c = cmp3(a, b)
    h = _b(hash(a) == hash(b))
    d = a - b
    r = b + d
    out = " ; ".join([sa, sb, c, h, sh_dur(d), sh_tp(r), cmp3(r, a)])
    if sh_tp(a) != sa or sh_tp(b) != sb:
        return "MUTATED operands changed by comparison/hash/subtraction"
    return out


def op_addsub(t):
    _md(t)
    p = rd_tp(t)
    d = rd_dur(t)
    dd = (p + d) - p
    return "%s ; %s" % (sh_dur(dd), _b(dd == d))


def op_tolocal(t):
    _md(t)
    p = rd_tp(t)
    h, m = t.z(), t.z()
    secs = -(h * 3600 + m * 60)
    return sh_tp(with_fake_time(secs, secs, 0, 0, p.to_local_time_zone))


def op_toutc(t):
    _md(t)
    return sh_tp(rd_tp(t).to_utc())


_reg_all({"pair": op_pair, "addsub": op_addsub, "tolocal": op_tolocal,
            "toutc": op_toutc})


def op_addstaged(t):
    _md(t)
    p = rd_tp(t)
    d = rd_dur(t).to_days()
    p1 = p + Duration(days=d._days, hours=d._hours, minutes=d._minutes,
                      seconds=d._seconds)
    p2 = p1 + Duration(months=d._months)
    return sh_tp(p2 + Duration(years=d._years))


def op_addmonths(t):
    _md(t)
    p = rd_tp(t)
    return sh_tp(p.add_months(t.z()))


def op_addsteps(t):
    _md(t)
    p = rd_tp(t)
    n = t.z()
    for _ in range(abs(n)):
        p = p.add_months(1 if n > 0 else -1)
    return sh_tp(p)


_reg_all({"addstaged": op_addstaged, "addmonths": op_addmonths,
            "addsteps": op_addsteps})


def rd_opt(t, rd):
    if t.t[t.i] == "-":
        t.i += 1
        return None
    return rd(t)


def rd_rec(t):
    from metomi.isodatetime.data import TimeRecurrence
    n = rd_opt(t, lambda x: x.z())
    s = rd_opt(t, rd_tp)
    d = rd_opt(t, rd_dur)
    e = rd_opt(t, rd_tp)
    return TimeRecurrence(repetitions=n, start_point=s, duration=d, end_point=e)


def sh_o(f, x):
    return "-" if x is None else f(x)


def take(it, k):
    out = []
    for x in it:
        out.append(x)
        if len(out) >= k:
            break
    return out


def sh_rec(r):
    head = [sh_o(str, r.repetitions), sh_o(sh_tp, r.start_point),
            sh_o(sh_dur, r.duration), sh_o(sh_tp, r.end_point),
            str(r.format_number)]
    return " ; ".join(head + [sh_tp(p) for p in take(r, 12)])


def op_rmake(t):
    _md(t)
    return sh_rec(rd_rec(t))


def op_rquery(t):
    _md(t)
    r = rd_rec(t)
    p = rd_operand(t)
    i = t.z()
    out = [sh_tp(p), _b(r.get_is_valid(p))]
    if r.start_point is None:
        out.append("NOSTART")
    else:
        fa = r.get_first_after(p)
        out.append("None" if fa is None else sh_tp(fa))
    out.append(sh_o(sh_tp, r.get_next(p)))
    out.append(sh_o(sh_tp, r.get_prev(p)))
    try:
        out.append(sh_tp(r[i]))
    except IndexError:
        out.append("-")
    return " ; ".join(out)


def op_recadd(t):
    _md(t)
    r = rd_rec(t)
    d = rd_dur(t)
    r1, r1b = r + d, d + r
    if sh_rec(r1) != sh_rec(r1b):
        return "INCOHERENT r+d=%s d+r=%s" % (sh_rec(r1), sh_rec(r1b))
    try:
        r2 = r1 - d
        eq = r2 == r
        back = "back " + _b(eq)
        if eq and hash(r2) != hash(r):
            back = "back HASHDIFF"
    except ValueError:
        back = "back ERR"
    return sh_rec(r1) + " ; " + back


def op_req(t):
    _md(t)
    a = rd_rec(t)
    b = rd_rec(t)
    eq, ne = a == b, a != b
    if eq == ne:
        return "INCOHERENT"
    if eq and hash(a) != hash(b):
        return "HASHDIFF"
    return _b(eq)


def op_rtext(t):
    """str(r), and whether parse(str(r)) == r with the same first points."""
    from metomi.isodatetime.parsers import TimeRecurrenceParser
    _md(t)
    r = rd_rec(t)
    text = str(r)
    r2 = TimeRecurrenceParser().parse(text)
    same = [sh_tp(p) for p in take(r, 12)] == [sh_tp(p) for p in take(r2, 12)]
    return "%s ; eq %s ; pts %s ; hash %s ; fix %s" % (
        text, _b(r2 == r), _b(same), _b(hash(r2) == hash(r)),
        _b(str(r2) == text))


_reg_all({"rmake": op_rmake, "rquery": op_rquery, "recadd": op_recadd,
            "req": op_req, "rtext": op_rtext})


def rd_trunc(t):
    names = ["hour_of_day", "minute_of_hour", "second_of_minute",
             "day_of_week", "day_of_month", "day_of_year", "week_of_year",
             "time_zone_hour", "time_zone_minute"]
    kw = {}
    for i, nm in enumerate(names):
        v = rd_opt(t, (lambda x: num(x.q())) if i < 3 else (lambda x: x.z()))
        if v is not None:
            kw[nm] = v
    return TimePoint(truncated=True, **kw)


def op_tadd(t):
    _md(t)
    tr = rd_trunc(t)
    p = rd_tp(t)
    r1, r2 = tr + p, p + tr
    if sh_tp(r1) != sh_tp(r2):
        return "INCOHERENT t+p=%s p+t=%s" % (sh_tp(r1), sh_tp(r2))
    return "%s ; %s" % (sh_tp(r1), sh_tp(tr + r1))


register("tadd", op_tadd)


def eval_line(line, timeout=10):
    toks = line.split()
    if not toks:
        return ""
    fn = OPS.get(toks[0])
    if fn is None:
        return "BADOP"
    t = Toks(toks[1:])
    signal.alarm(timeout)
    try:
        out = fn(t)
        if not t.done():
            return "BADARGS"
        return out
    except Hang:
        return "HANG"
    except ValueError:
        return "ERR"
    except RecursionError:
        return "EXC RecursionError"
    except Exception as exc:  # noqa
        return "EXC " + type(exc).__name__
    finally:
        signal.alarm(0)


# --------------------------------------------------------------------------
# newproc <module,module,...|-> <enc(line)> [<enc(line)> ...]: evaluate the lines, in order, in a NEW interpreter
# (nothing constructed, cached or configured before) and answer the output of the LAST one.  For behaviour that
# may depend on what the process did first (module-level caches, lazily built parsers); the model, being pure,
# evaluates the last line alone.
# --------------------------------------------------------------------------
def op_fresh(t):
    import subprocess
    from urllib.parse import unquote
    mods = t.next()
    lines = []
    while not t.done():
        lines.append(unquote(t.next()))
    code = ("import sys; sys.path.insert(0, %r)\n"
            "import impl\n"
            "for m in %r.split(','):\n"
            "    if m and m != '-': __import__(m)\n"
            "out = ''\n"
            "for l in %r:\n"
            "    out = impl.eval_line(l, 10)\n"
            "print(out)\n" % (os.path.dirname(os.path.abspath(__file__)), mods, lines))
    r = subprocess.run([sys.executable, "-c", code], capture_output=True, text=True, timeout=60,
                       env=dict(os.environ))
    if r.returncode != 0:
        return "EXC fresh-process " + r.stderr.strip().split("\n")[-1][:80].replace(" ", "_")
    return r.stdout.rstrip("\n").split("\n")[-1]


register("newproc", op_fresh)


if __name__ == "__main__":
    for line in sys.stdin:
        print(eval_line(line.rstrip("\n")))


