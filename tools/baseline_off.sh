#!/bin/sh
# Runs the repository's pinned test suite with the verification guard OFF and
# checks that every test of BASELINE.json's stable_pass list passed.
unset METOMI_ISODATETIME_VERIF
out=$(mktemp /tmp/baseline.XXXXXX.xml)
cd /repo && /venv/bin/python -m pytest -ra -q -p no:cacheprovider --timeout=900 \
   --continue-on-collection-errors --junitxml="$out" >/dev/null 2>&1
/venv/bin/python - "$out" <<'PY'
import json, sys, xml.etree.ElementTree as ET
base = json.load(open('/root/.vp/BASELINE.json'))
want = set(base['stable_pass'])
ok = set()
for tc in ET.parse(sys.argv[1]).getroot().iter('testcase'):
    bad = [c.tag for c in tc if c.tag in ('failure', 'error', 'skipped')]
    name = (tc.get('classname') or '') + '::' + (tc.get('name') or '')
    if not bad:
        ok.add(name)
        ok.add(tc.get('name') + '::' + tc.get('name'))
missing = sorted(t for t in want if t not in ok)
print('baseline: %d/%d stable tests passed' % (len(want) - len(missing), len(want)))
for m in missing:
    print('  MISSING', m)
sys.exit(1 if missing else 0)
PY
rc=$?
rm -f "$out"
exit $rc
