#!/venv/bin/python
"""Demonstration for gen/GenCode4.v (the arithmetic core of class TimePoint).

Harmless rewrites of the source must leave coq/Proofs/GenCode4*.v and
coq/Props/C01Code.v provable; genuinely breaking edits (the seeded changes of
/verif/seeded that touch _tick_over / __add__ / add_months / ...) must fail an
obligation (an equality theorem, or `translator_ok_code4 = true` when the edit
leaves the accepted subset).

Works on scratch copies only (/tmp/gencode4_repo, /tmp/gencode4_coq), removed
afterwards; neither /repo nor /verif/coq is written.
Usage: tools/gencode4_mutants.py [name-substring]
"""
import glob
import os
import re
import shutil
import subprocess
import sys
import time

TOOLS = os.path.dirname(os.path.abspath(__file__))
COQ = os.path.normpath(os.path.join(TOOLS, "..", "coq"))
REPO_SCRATCH = "/tmp/gencode4_repo"
COQ_SCRATCH = os.environ.get("G4_SCRATCH", "/tmp/gencode4_coq")
# compiled in this order
FILES = ["gen/GenCode4.v", "Proofs/GenCode4Base.v", "Proofs/GenCode4Stmt.v", "Proofs/GenCode4Stmt2.v",
         "Proofs/GenCode4Dom.v", "Proofs/GenCode4Tick.v", "Proofs/GenCode4Conv.v", "Proofs/GenCode4Add.v",
         "Proofs/GenCode4Zone.v", "Proofs/GenCode4Cmp.v", "Proofs/GenCode4Ok.v", "Props/C01Code.v",
         "Props/C02Code.v", "Props/C04Code.v", "Props/C05Code.v", "Props/C06Code.v"]
OWN = [os.path.basename(f)[:-2] for f in FILES]

CASES = [
    # (kind, name, [(old, new), ...])   kind: "same" must still prove, "break" must fail
    ("same", "control (no change)", []),
    ("same", "R1 = notes/refactors/R1.diff (helper _get_max_day_in_month extracted, chained None "
             "assignments, inverted guards, flags of add_months as boolean expressions, ...)",
     [("PATCH", "/verif/notes/refactors/R1.diff")]),
    ("same", "T1 = notes/refactors/T1.diff (month loops as `while True: if not c: break`, private METHOD "
             "_get_max_day_in_month(self) with early returns, divmod as hoisted local + // and %, De Morgan, "
             "swapped == operands, reordered stores, flattened if/elif in __add__)",
     [("PATCH", "/verif/notes/refactors/T1.diff")]),
    ("same", "T3 = notes/refactors/T3.diff (truncated branch of _cmp extracted into _cmp_truncated, __hash__ "
             "inverted into an early return, hoisted _truncated locals, conditional expressions for the "
             "calendar/ordinal keys, `return op in [...]`, add_truncated reshaped)",
     [("PATCH", "/verif/notes/refactors/T3.diff")]),
    ("same", "H1 renamed locals and x = x + y instead of x += y in _tick_over / __add__", [
        ("""            hours_remainder = self._hour_of_day - int(self._hour_of_day)
            self._hour_of_day -= hours_remainder
            self._minute_of_hour += (
                hours_remainder * CALENDAR.MINUTES_IN_HOUR)
""", """            frac = self._hour_of_day - int(self._hour_of_day)
            self._hour_of_day = self._hour_of_day - frac
            self._minute_of_hour = self._minute_of_hour + (
                CALENDAR.MINUTES_IN_HOUR * frac)
"""),
        ("""                days_in_last_year = get_days_in_year(self._year - 1)
                self._day_of_year += days_in_last_year
                self._year -= 1
""", """                previous = self._year - 1
                self._day_of_year = self._day_of_year + get_days_in_year(previous)
                self._year = previous
"""),
        ("""                new._second_of_minute += duration._seconds
""", """                new._second_of_minute = duration._seconds + new._second_of_minute
""")]),
    ("same", "H2 reordered independent statements (year before day/week carry; seconds stored before the "
             "minute carry; month/day stored in the other order in _tick_over_day_of_month)", [
        ("""                days_in_this_year = get_days_in_year(self._year)
                self._day_of_year -= days_in_this_year
                self._year += 1
""", """                days_in_this_year = get_days_in_year(self._year)
                self._year += 1
                self._day_of_year -= days_in_this_year
"""),
        ("""            self._minute_of_hour += num_minutes
            self._second_of_minute = seconds
""", """            self._second_of_minute = seconds
            self._minute_of_hour += num_minutes
"""),
        ("""                if num_days == self._day_of_month:
                    self._month_of_year = month
                    self._day_of_month = day
                    break
            else:  # no break
                start_year = self._year""", """                if num_days == self._day_of_month:
                    self._day_of_month = day
                    self._month_of_year = month
                    break
            else:  # no break
                start_year = self._year""")]),
    ("same", "H3 SECONDS_IN_MINUTE spelled MINUTES_IN_HOUR (both 60); // and % instead of divmod for the weekday", [
        ("""            num_minutes, seconds = divmod(self._second_of_minute,
                                          CALENDAR.SECONDS_IN_MINUTE)
""", """            num_minutes, seconds = divmod(self._second_of_minute,
                                          CALENDAR.MINUTES_IN_HOUR)
"""),
        ("""            num_weeks, days = divmod(
                self._day_of_week - 1, CALENDAR.DAYS_IN_WEEK)
""", """            num_weeks = (self._day_of_week - 1) // CALENDAR.DAYS_IN_WEEK
            days = (self._day_of_week - 1) % CALENDAR.DAYS_IN_WEEK
""")]),
    ("same", "H4 a new method is added to the class (nothing translated changes)", [
        ("""    def _normalised(self) -> "TimePoint":
""", """    def is_midnight(self):
        return self.get_second_of_day() == 0

    def _normalised(self) -> "TimePoint":
""")]),
    ("break", "S01 seeded C01-ordinal-borrow", [("PATCH", "/verif/seeded/C01-ordinal-borrow/patch.diff")]),
    ("break", "S02 seeded C12-ordinal-backward-borrow", [("PATCH", "/verif/seeded/C12-ordinal-backward-borrow/patch.diff")]),
    ("break", "S03 seeded C02-ordinal-backward-year-length",
     [("PATCH", "/verif/seeded/C02-ordinal-backward-year-length/patch.diff")]),
    ("break", "S04 seeded C01-feb29-common-year-carry", [("PATCH", "/verif/seeded/C01-feb29-common-year-carry/patch.diff")]),
    ("break", "S05 seeded C05-clamp-start-year", [("PATCH", "/verif/seeded/C05-clamp-start-year/patch.diff")]),
    ("break", "S06 seeded C05-day366-four-year-cycle", [("PATCH", "/verif/seeded/C05-day366-four-year-cycle/patch.diff")]),
    ("break", "S07 seeded C16-year-clamp-writes-self", [("PATCH", "/verif/seeded/C16-year-clamp-writes-self/patch.diff")]),
    ("break", "S08 seeded C18-ordinal-backward-year-length",
     [("PATCH", "/verif/seeded/C18-ordinal-backward-year-length/patch.diff")]),
    ("break", "S09 seeded C06-rezone-ordinal-borrow", [("PATCH", "/verif/seeded/C06-rezone-ordinal-borrow/patch.diff")]),
    ("break", "S10 seeded C05-year-clamp-stale-month", [("PATCH", "/verif/seeded/C05-year-clamp-stale-month/patch.diff")]),
    ("break", "S11 seeded C12-add-months-stale-leap-flag",
     [("PATCH", "/verif/seeded/C12-add-months-stale-leap-flag/patch.diff")]),
    ("break", "S12 seeded C16-add-months-ticks-self", [("PATCH", "/verif/seeded/C16-add-months-ticks-self/patch.diff")]),
    ("break", "S13 seeded C16-normalised-aliases-self", [("PATCH", "/verif/seeded/C16-normalised-aliases-self/patch.diff")]),
    ("break", "S14 seeded C05-week52-clamp-360day", [("PATCH", "/verif/seeded/C05-week52-clamp-360day/patch.diff")]),
    ("break", "S15 seeded C18-rezone-same-hour-skip", [("PATCH", "/verif/seeded/C18-rezone-same-hour-skip/patch.diff")]),
    ("same", "S16 seeded C20-doy366-leap-jump: touches add_truncated only (truncated points are out of "
             "scope here: invisible to these proofs, caught by C20's own check)",
     [("PATCH", "/verif/seeded/C20-doy366-leap-jump/patch.diff")]),
    ("break", "S17 seeded C02-hash-24h", [("PATCH", "/verif/seeded/C02-hash-24h/patch.diff")]),
    ("break", "S18 seeded C12-cmp-right-24h", [("PATCH", "/verif/seeded/C12-cmp-right-24h/patch.diff")]),
    ("break", "S19 seeded C04-sub-24h", [("PATCH", "/verif/seeded/C04-sub-24h/patch.diff")]),
    ("break", "S20 seeded C02-second-of-day-int", [("PATCH", "/verif/seeded/C02-second-of-day-int/patch.diff")]),
    ("break", "B1 weekday carry divides by 6", [
        ("""                self._day_of_week - 1, CALENDAR.DAYS_IN_WEEK)
""", """                self._day_of_week - 1, CALENDAR.DAYS_IN_WEEK - 1)
""")]),
    ("break", "B2 the month walk starts counting at 1 (forward branch of _tick_over_day_of_month)", [
        ("""            if self._day_of_month > max_day_in_month:
                num_days = 0
""", """            if self._day_of_month > max_day_in_month:
                num_days = 1
""")]),
    ("break", "B3 a sixteenth slot in TimePoint.__slots__ (state record out of date)", [
        ("""        "_truncated_dump_format", "_dump_format", "_time_zone"
    ]""", """        "_truncated_dump_format", "_dump_format", "_time_zone", "_cache"
    ]""")]),
    ("break", "B4 _tick_over works on an alias of self stored in a local", [
        ("""        if self._day_of_month is not None:
            self._tick_over_day_of_month()
        if self._day_of_year is not None:
            while self._day_of_year < 1:""", """        if self._day_of_month is not None:
            me = self
            me._tick_over_day_of_month()
        if self._day_of_year is not None:
            while self._day_of_year < 1:""")]),
]


def fresh_tree(only_gen=False):
    shutil.rmtree(COQ_SCRATCH, ignore_errors=True)
    for d in ("gen", "Proofs", "Props"):
        os.makedirs(os.path.join(COQ_SCRATCH, d))
    for d in ("Spec", "Model"):
        os.symlink(os.path.join(COQ, d), os.path.join(COQ_SCRATCH, d))
    for f in glob.glob(os.path.join(COQ, "gen", "*.vo")) + glob.glob(os.path.join(COQ, "Proofs", "*.vo")) + \
            glob.glob(os.path.join(COQ, "Props", "*.vo")):
        if os.path.basename(f)[:-3] not in OWN:
            os.symlink(f, os.path.join(COQ_SCRATCH, os.path.relpath(f, COQ)))
    src = os.environ.get("G4_PROOFS_FROM", COQ)      # development: proof files not yet installed
    for f in FILES[1:]:
        if os.path.exists(os.path.join(src, f)):
            shutil.copy(os.path.join(src, f), os.path.join(COQ_SCRATCH, f))


def coqc(path):
    t0 = time.time()
    r = subprocess.run("ulimit -v 8000000; timeout 1800 coqc -Q . Iso %s" % path, shell=True,
                       cwd=COQ_SCRATCH, capture_output=True, text=True)
    return r.returncode, (r.stdout + r.stderr), time.time() - t0


def lemma_at(path, out):
    m = re.search(r'line (\d+)', out)
    if not m:
        return "?"
    lines = open(os.path.join(COQ_SCRATCH, path)).read().split("\n")[:int(m.group(1))]
    names = re.findall(r"^\s*(?:Lemma|Theorem|Example|Corollary)\s+(\w+)", "\n".join(lines), re.M)
    return names[-1] if names else "?"


def run(kind, name, edits):
    print("=== [%s] %s" % (kind, name))
    sys.stdout.flush()
    shutil.rmtree(REPO_SCRATCH, ignore_errors=True)
    shutil.copytree(os.environ.get("G4_BASE_REPO", "/repo"), REPO_SCRATCH, ignore=shutil.ignore_patterns(".git"))
    path = os.path.join(REPO_SCRATCH, "metomi", "isodatetime", "data.py")
    for old, new in [e for e in edits if e[0] == "PATCH"]:   # a diff of /verif/seeded or notes/refactors
        subprocess.run("patch -s -p1 < %s" % new, shell=True, cwd=REPO_SCRATCH, check=True)
    src = open(path).read()
    for old, new in [e for e in edits if e[0] != "PATCH"]:
        assert src.count(old) == 1, "expected exactly one occurrence of %r, found %d" % (old, src.count(old))
        src = src.replace(old, new)
    open(path, "w").write(src)
    if edits:   # the edited package must still import (a syntax slip is not a mutant)
        r = subprocess.run(["/venv/bin/python", "-c", "import metomi.isodatetime.data"],
                           env=dict(os.environ, PYTHONPATH=REPO_SCRATCH), capture_output=True, text=True)
        assert r.returncode == 0, r.stderr
    fresh_tree()
    env = dict(os.environ, ISO_REPO=REPO_SCRATCH, VERIF_GEN_OUT=os.path.join(COQ_SCRATCH, "gen"))
    subprocess.run(["/venv/bin/python", os.path.join(TOOLS, "translate_code4.py")], env=env, check=True,
                   capture_output=True)
    gen = open(os.path.join(COQ_SCRATCH, "gen", "GenCode4.v")).read()
    base = open(os.path.join(COQ, "gen", "GenCode4.v")).read()
    changed = sum(1 for a in set(gen.split("\n")) ^ set(base.split("\n")))
    ok_flag = re.search(r"translator_ok_code4 : bool := (\w+)", gen).group(1)
    print("    generated file: %d lines differ; translator_ok_code4 := %s" % (changed, ok_flag))
    for m in list(re.finditer(r"^\(\* REJECTED: (.*) \*\)$", gen, re.M))[:2]:
        print("    " + m.group(1)[:230])
    verdict = "PROVES"
    t0 = time.time()
    for f in FILES:
        if not os.path.exists(os.path.join(COQ_SCRATCH, f)) or any(
                k and k in f for k in os.environ.get("G4_SKIP", "").split(",")):
            continue
        rc, out, dt = coqc(f)
        if rc != 0:
            err = " ".join(out.strip().split("\n")[-3:])[:260]
            verdict = "FAILS at %s, %s (%.1fs): %s" % (f, lemma_at(f, out), dt, err)
            break
    print("    -> %s   [%.0f s]" % (verdict, time.time() - t0))
    good = (verdict == "PROVES") == (kind == "same")
    print("    %s" % ("as required" if good else "*** NOT as required ***"))
    sys.stdout.flush()
    shutil.rmtree(REPO_SCRATCH, ignore_errors=True)
    if not os.environ.get("G4_KEEP"):
        shutil.rmtree(COQ_SCRATCH, ignore_errors=True)
    return good


if __name__ == "__main__":
    sel = sys.argv[1] if len(sys.argv) > 1 else ""
    results = [run(*c) for c in CASES if sel in c[1]]
    print("%d of %d as required" % (sum(results), len(results)))
    sys.exit(0 if all(results) else 1)
