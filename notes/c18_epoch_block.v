
(* --- Unix epoch (appended once Proofs/EpochSpec.v was proved) --- *)
From Iso Require Import Proofs.EpochSpec.

(* the TimePoint built from n seconds denotes 1970-01-01T00:00:00Z + n, in UTC
   or in the requested local zone *)
Theorem C18_from_epoch : forall md n local,
  (match local with Some (h, m) => valid_zone (mkZone h m) = true | None => True end) ->
  exists r, from_unix md n local = Some r /\
            (instant md r == instant md unix_ref + n)%Q /\
            tzone r = (match local with Some (h, m) => mkZone h m | None => mkZone 0 0 end) /\
            valid_tp md r = true.
Proof. exact from_unix_spec. Qed.
Print Assumptions C18_from_epoch.

(* seconds_since_unix_epoch is the whole number of seconds from the epoch to the
   instant (floor for instants at or after the epoch; exact when integral) *)
Theorem C18_to_epoch : forall md p, valid_tp md p = true ->
  exists k, seconds_since_unix_epoch md p = Some k /\
    ((instant md unix_ref <= instant md p)%Q -> k = Qfloor (instant md p - instant md unix_ref)) /\
    (qis_int (instant md p - instant md unix_ref) = true ->
       (inject_Z k == instant md p - instant md unix_ref)%Q).
Proof. exact seconds_since_unix_epoch_spec. Qed.
Print Assumptions C18_to_epoch.

Example C18_epoch_ex :
  from_unix G 1000000000 None = Some (mkTp (Cal 2001 9 9) (HMS 1 46 40) (mkZone 0 0)) /\
  seconds_since_unix_epoch G (mkTp (Wk 1969 52 7) (HMS 23 59 59) (mkZone 5 30)) = Some (-279001).
Proof. vm_compute. repeat split; reflexivity. Qed.
