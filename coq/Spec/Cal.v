(* Spec/Cal.v -- the proleptic calendar definitions the properties talk about.
   Small, closed-form, no code shape.  Everything is over Z (all years). *)
From Coq Require Import ZArith List Bool.
Import ListNotations.
Open Scope Z_scope.

Inductive mode := G | D360 | D365 | D366.

Definition mode_eqb (a b : mode) : bool :=
  match a, b with G, G | D360, D360 | D365, D365 | D366, D366 => true | _, _ => false end.

Definition m360 : list Z := [30;30;30;30;30;30;30;30;30;30;30;30].
Definition m365 : list Z := [31;28;31;30;31;30;31;31;30;31;30;31].
Definition m366 : list Z := [31;29;31;30;31;30;31;31;30;31;30;31].

(* Gregorian 4/100/400 rule. *)
Definition is_leap (y : Z) : bool :=
  (y mod 4 =? 0) && (negb (y mod 100 =? 0) || (y mod 400 =? 0)).

(* does the mode have distinct leap years? *)
Definition leapy (md : mode) (y : Z) : bool :=
  match md with G => is_leap y | _ => false end.

Definition months_common (md : mode) : list Z :=
  match md with D360 => m360 | D366 => m366 | _ => m365 end.
Definition months_leap (md : mode) : list Z :=
  match md with G => m366 | _ => months_common md end.
Definition months (md : mode) (y : Z) : list Z :=
  if is_leap y then months_leap md else months_common md.

Definition mlen (md : mode) (y m : Z) : Z := nth (Z.to_nat (m - 1)) (months md y) 0.

Definition ylen (md : mode) (y : Z) : Z :=
  match md with
  | G => if is_leap y then 366 else 365
  | D360 => 360 | D365 => 365 | D366 => 366
  end.

(* days before 1 January of year y, counted from 1 January of year 0 *)
Definition dby (md : mode) (y : Z) : Z :=
  match md with
  | G => 365 * y + (y + 3) / 4 - (y + 99) / 100 + (y + 399) / 400
  | D360 => 360 * y | D365 => 365 * y | D366 => 366 * y
  end.

(* days of the year before month (k+1), k = 0..12 *)
Definition cum365 (k : Z) : Z :=
  if k <=? 0 then 0 else if k =? 1 then 31 else if k =? 2 then 59 else
  if k =? 3 then 90 else if k =? 4 then 120 else if k =? 5 then 151 else
  if k =? 6 then 181 else if k =? 7 then 212 else if k =? 8 then 243 else
  if k =? 9 then 273 else if k =? 10 then 304 else if k =? 11 then 334 else 365.

Definition cum (md : mode) (y k : Z) : Z :=
  match md with
  | D360 => 30 * (Z.max 0 (Z.min k 12))
  | D365 => cum365 k
  | D366 => cum365 k + (if 2 <=? k then 1 else 0)
  | G => cum365 k + (if (2 <=? k) && is_leap y then 1 else 0)
  end.

(* day numbers: 0 is 1 January of year 0 *)
Definition dn_cal (md : mode) (y m d : Z) : Z := dby md y + cum md y (m - 1) + (d - 1).
Definition dn_ord (md : mode) (y doy : Z) : Z := dby md y + (doy - 1).

(* Monday = 1 ... Sunday = 7; anchored so that 2000-01-03 is a Monday *)
Definition ref_monday (md : mode) : Z := dn_cal md 2000 1 3.
Definition weekday (md : mode) (n : Z) : Z := (n - ref_monday md) mod 7 + 1.

(* the Monday starting ISO week-year wy: the Monday of the week containing 4 January *)
Definition wys (md : mode) (wy : Z) : Z :=
  let j4 := dn_cal md wy 1 4 in j4 - (weekday md j4 - 1).
Definition weeks_in (md : mode) (wy : Z) : Z := (wys md (wy + 1) - wys md wy) / 7.
Definition dn_week (md : mode) (wy w d : Z) : Z := wys md wy + 7 * (w - 1) + (d - 1).

Definition valid_cal (md : mode) (y m d : Z) : bool :=
  (1 <=? m) && (m <=? 12) && (1 <=? d) && (d <=? mlen md y m).
Definition valid_ord (md : mode) (y doy : Z) : bool :=
  (1 <=? doy) && (doy <=? ylen md y).
Definition valid_week (md : mode) (wy w d : Z) : bool :=
  (1 <=? w) && (w <=? weeks_in md wy) && (1 <=? d) && (d <=? 7).
