(* Spec/ZoneText.v -- what a UTC-offset text denotes: "Z", "+hh", "+hhmm",
   "+hh:mm" with a leading + or -, the sign applying to hours and minutes. *)
From Coq Require Import ZArith List Bool String Ascii.
Import ListNotations.
Open Scope Z_scope.

Definition digit_val (c : ascii) : option Z :=
  let n := Z.of_nat (nat_of_ascii c) in
  if (48 <=? n) && (n <=? 57) then Some (n - 48) else None.

Definition two_digits (a b : ascii) : option Z :=
  match digit_val a, digit_val b with
  | Some x, Some y => Some (10 * x + y)
  | _, _ => None
  end.

Definition sign_of (c : ascii) : option Z :=
  if Ascii.eqb c "+"%char then Some 1 else if Ascii.eqb c "-"%char then Some (-1) else None.

Definition read_offset (s : string) : option (Z * Z) :=
  match list_ascii_of_string s with
  | ["Z"%char] => Some (0, 0)
  | [sg; a; b] =>
    match sign_of sg, two_digits a b with
    | Some k, Some h => Some (k * h, 0) | _, _ => None end
  | [sg; a; b; c; d] =>
    match sign_of sg, two_digits a b, two_digits c d with
    | Some k, Some h, Some m => Some (k * h, k * m) | _, _, _ => None end
  | [sg; a; b; col; c; d] =>
    if Ascii.eqb col ":"%char then
      match sign_of sg, two_digits a b, two_digits c d with
      | Some k, Some h, Some m => Some (k * h, k * m) | _, _, _ => None end
    else None
  | _ => None
  end.
