(* Spec/FormText.v -- the text an expression form denotes for given field
   values.  A form's compiled regex is a list of tokens (Model/Forms.ptok); an
   assignment gives each named group its text.  render_toks is the text,
   wf_assign says the field texts have the shape their group demands,
   bindings is the (name, text) list a match must produce, in token order.
   Small closed-form definitions only; the lemmas are in Proofs/MatchSpec.v. *)
From Coq Require Import List Bool String Ascii.
From Iso Require Import Model.Forms Model.Parse.
Import ListNotations.
Local Open Scope string_scope.

(* the text of field nm ("" when the assignment does not mention it) *)
Definition fld (nm : string) (a : env) : string :=
  match lookup_env nm a with Some v => v | None => "" end.

Fixpoint all_digits (s : string) : bool :=
  match s with EmptyString => true | String c r => is_digit c && all_digits r end.
(* exactly n ASCII digits *)
Definition digits_n (n : nat) (s : string) : bool := Nat.eqb (String.length s) n && all_digits s.
(* one or more ASCII digits *)
Definition digits_plus (s : string) : bool := negb (String.eqb s "") && all_digits s.
Definition is_sign (s : string) : bool := String.eqb s "+" || String.eqb s "-".

Fixpoint render_toks (ts : list ptok) (a : env) : string :=
  match ts with
  | [] => ""
  | PLit l :: r => l ++ render_toks r a
  | PGrp _ l :: r => l ++ render_toks r a
  | PDig nm _ :: r => fld nm a ++ render_toks r a
  | PDigs nm :: r => fld nm a ++ render_toks r a
  | PSign nm :: r => fld nm a ++ render_toks r a
  | PUnix nm :: r => fld nm a ++ render_toks r a
  end.

Fixpoint wf_assign (ts : list ptok) (a : env) : bool :=
  match ts with
  | [] => true
  | PLit _ :: r => wf_assign r a
  | PGrp _ _ :: r => wf_assign r a
  | PDig nm n :: r => digits_n n (fld nm a) && wf_assign r a
  | PDigs nm :: r => digits_plus (fld nm a) && wf_assign r a
  | PSign nm :: r => is_sign (fld nm a) && wf_assign r a
  | PUnix _ :: r => wf_assign r a
  end.

Fixpoint bindings (ts : list ptok) (a : env) : env :=
  match ts with
  | [] => []
  | PLit _ :: r => bindings r a
  | PGrp nm l :: r => (nm, l) :: bindings r a
  | PDig nm _ :: r => (nm, fld nm a) :: bindings r a
  | PDigs nm :: r => (nm, fld nm a) :: bindings r a
  | PSign nm :: r => (nm, fld nm a) :: bindings r a
  | PUnix nm :: r => (nm, fld nm a) :: bindings r a
  end.

(* the token lists the date, time and zone tables are made of: no %s group,
   an unbounded digit run only at the very end *)
Fixpoint simple (ts : list ptok) : bool :=
  match ts with
  | [] => true
  | PUnix _ :: _ => false
  | PDigs _ :: r => match r with [] => true | _ => false end
  | _ :: r => simple r
  end.

(* the text of a whole form *)
Definition render_form (f : form) (a : env) : string := render_toks (f_parse f) a.
Definition form_bindings (f : form) (a : env) : env := bindings (f_parse f) a.
