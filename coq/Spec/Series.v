(* Spec/Series.v -- what "the series a recurrence denotes" means: an arithmetic
   progression of instants from an anchor, every member a valid time point
   written like the anchor. *)
From Coq Require Import ZArith QArith List.
From Iso Require Import Spec.Cal Spec.Instant Model.Num Model.Duration Model.TimePoint.
Open Scope Z_scope.

Definition exact_pos (d : dur) : Prop := is_exact d = true /\ (0 < dur_len d)%Q.

(* l is the progression a0, a0 + sgn*L, a0 + 2*sgn*L, ... written like `shape` *)
Definition series_ok (md : mode) (l : list tp) (a0 L : Q) (sgn : Z) (shape : tp) : Prop :=
  forall i p, nth_error l i = Some p ->
    (instant md p == a0 + inject_Z (sgn * Z.of_nat i) * L)%Q /\ valid_tp md p = true /\
    rep_kind (tdate p) = rep_kind (tdate shape) /\ tod_kind (ttod p) = tod_kind (ttod shape) /\
    tzone p = tzone shape.

Definition count (reps : option Z) (k : nat) : nat :=
  match reps with None => k | Some n => Nat.min k (Z.to_nat n) end.
