(* Spec/Posix.v -- what POSIX strftime prints for the directives the package
   supports (%Y %m %d %j %H %M %S %F %X %z %s and literal text), and the civil
   date-time a TimePoint denotes.  Closed-form definitions only: the civil
   fields come from the instant (Spec/Instant.v), the UTC offset and the
   inverse day-number functions of Spec/NextMatch.v -- never from the model's
   conversion or carry algorithms.  The only things taken from Model/ are data
   types (tp, zone, and the format items FLit / FDir of Model/Strftime.v). *)
From Coq Require Import ZArith QArith Qround List Bool String Ascii.
From Coq Require Import DecimalString DecimalZ.
From Iso Require Import Spec.Cal Model.Num Model.TimePoint Spec.Instant Spec.NextMatch Model.Strftime.
Import ListNotations.
Local Open Scope string_scope.
Local Open Scope Z_scope.

(* a civil (wall-clock) date-time in some UTC offset: year, month, day of
   month, day of year, hour, minute, whole second, the offset as the package
   stores it (hours and minutes carrying the same sign) and the Unix time *)
Record civil := mkCivil {
  cy : Z; cm : Z; cd : Z; cdoy : Z; ch : Z; cmi : Z; cs : Z;
  czh : Z; czm : Z; cunix : Z }.

(* ---------- numerals ---------- *)
Definition digit_char (k : Z) : ascii := ascii_of_nat (48 + Z.to_nat k).
(* the last w decimal digits of n, most significant first: n zero-padded to
   width w when 0 <= n < 10^w *)
Fixpoint digs (w : nat) (n : Z) : string :=
  match w with
  | O => ""
  | S k => digs k (n / 10) ++ String (digit_char (n mod 10)) ""
  end.
(* the decimal numeral of an integer ("-" prefix when negative, no padding):
   the standard library's printer *)
Definition decimal (z : Z) : string := NilZero.string_of_int (Z.to_int z).

(* ---------- one directive ---------- *)
Definition posix_year (c : civil) : option string :=
  if (0 <=? cy c) && (cy c <=? 9999) then Some (digs 4 (cy c)) else None.   (* four digits exactly *)

Definition posix_dir (c : civil) (d : string) : option string :=
  let eqs := String.eqb d in
  if eqs "%Y" then posix_year c
  else if eqs "%m" then Some (digs 2 (cm c))
  else if eqs "%d" then Some (digs 2 (cd c))
  else if eqs "%j" then Some (digs 3 (cdoy c))
  else if eqs "%H" then Some (digs 2 (ch c))
  else if eqs "%M" then Some (digs 2 (cmi c))
  else if eqs "%S" then Some (digs 2 (cs c))
  else if eqs "%F" then
    match posix_year c with
    | Some y => Some (y ++ "-" ++ digs 2 (cm c) ++ "-" ++ digs 2 (cd c))
    | None => None end
  else if eqs "%X" then Some (digs 2 (ch c) ++ ":" ++ digs 2 (cmi c) ++ ":" ++ digs 2 (cs c))
  else if eqs "%z" then
    (* +hhmm / -hhmm of the offset in minutes, '-' exactly when it is negative *)
    let off := 60 * czh c + czm c in
    Some ((if off <? 0 then "-" else "+") ++ digs 2 (Z.abs off / 60) ++ digs 2 (Z.abs off mod 60))
  else if eqs "%s" then Some (decimal (cunix c))
  else None.

(* ---------- a whole (split) format: literal text is copied ---------- *)
Fixpoint posix (c : civil) (items : list fitem) : option string :=
  match items with
  | [] => Some ""
  | FLit s :: r => match posix c r with Some x => Some (s ++ x) | None => None end
  | FDir d :: r => match posix_dir c d, posix c r with Some a, Some x => Some (a ++ x) | _, _ => None end
  end.

(* ---------- the civil date-time of a time point ---------- *)
(* the instant of 1970-01-01T00:00:00Z on the mode's calendar *)
Definition epoch_instant (md : mode) : Q := qz (86400 * dn_cal md 1970 1 1).
(* seconds since 0000-01-01T00:00:00 of the wall clock in the point's own zone *)
Definition local_secs (md : mode) (p : tp) : Q := instant md p + qz (zone_secs (tzone p)).

Definition civil_at (md : mode) (p : tp) : civil :=
  let L := local_secs md p in
  let n := Qfloor (L / qz 86400) in                   (* local day number *)
  let sod := Qfloor (L - qz (86400 * n)) in           (* whole second of that day *)
  mkCivil (fst (fst (cal_of_dn md n))) (snd (fst (cal_of_dn md n))) (snd (cal_of_dn md n))
          (snd (ord_of_dn md n))
          (sod / 3600) ((sod / 60) mod 60) (sod mod 60)
          (zh (tzone p)) (zm (tzone p))
          (Qfloor (instant md p - epoch_instant md)).  (* time_t: whole seconds since the epoch, rounded
                                                          down on both sides of it (-1 for 23:59:59,5 of 1969-12-31) *)

(* defined for valid time points only *)
Definition civil_of (md : mode) (p : tp) : option civil :=
  if valid_tp md p then Some (civil_at md p) else None.
