(* Spec/EffectIR.v -- the write-effect IR into which tools/translate_effects.py
   translates every method of TimePoint, Duration, TimeZone, TimeRecurrence
   (property C16).  Syntax only; the semantics is Model/EffectSem.v.

   A method body is a statement over numbered local variables; variable 0
   holds the receiver (`self`) and is never assigned.
     SNew x        x := a freshly allocated object (constructor call; the
                   initialiser is a separate SCall x' "__init__" x)
     SAlias x y    x := y
     SAny x        x := any already existing value (slot reads, parameters
                   other than the receiver, elements of containers, globals)
     SPrim x       x := a value that is not an object (number, string, None,
                   tuple/list/dict display)
     SWrite x      some slot of the object x is assigned (x._a = .., x._a += ..,
                   setattr(x, ..)): the object is havocked
     SStore x y    the same, the assigned value being y (a reference is stored)
     SCall x m y   x := y.m(..), dispatched BY NAME to the method m of any of
                   the four classes; the other arguments are not tracked: the
                   callee's parameters hold arbitrary existing values
     SExt x        one call of any PUBLIC method (or private method the package
                   itself calls from outside, e_ext) of any existing object by
                   code outside the four classes (builtins such as str/hash/
                   getattr, dumpers, module functions), x := any existing value
     SReturn x     return x (also: yield x, as `SIf (SReturn x) SSkip`)
     SJump         break / continue: skip the rest of the loop iteration
     SAbort        raise
     SSeq, SIf (nondeterministic choice), SLoop (zero or more iterations). *)
From Coq Require Import List String.
Import ListNotations.

Definition var := nat.

Inductive stmt : Type :=
| SSkip
| SSeq (a b : stmt)
| SIf (a b : stmt)
| SLoop (b : stmt)
| SNew (x : var)
| SAlias (x y : var)
| SAny (x : var)
| SPrim (x : var)
| SWrite (x : var)
| SStore (x y : var)
| SCall (x : var) (m : string) (y : var)
| SExt (x : var)
| SReturn (x : var)
| SJump
| SAbort.

Fixpoint block (l : list stmt) : stmt :=
  match l with
  | [] => SSkip
  | [s] => s
  | s :: r => SSeq s (block r)
  end.

(* one method of one class: class name, method name, number of IR variables,
   whether the name is also used on some receiver by the package's own code
   OUTSIDE the four classes (e.g. dumpers.py calling a private helper) *)
Record entry : Type := mkEntry {
  e_class : string;
  e_name : string;
  e_nvars : nat;
  e_ext : bool;
  e_body : stmt
}.
