(* Spec/Months.v -- month arithmetic with end-of-month clamping: n months is n
   single steps, each of which clamps the day to the month reached. *)
From Coq Require Import ZArith.
From Iso Require Import Spec.Cal.
Open Scope Z_scope.

Definition month_shift1 (md : mode) (sgn : Z) (c : Z * Z * Z) : Z * Z * Z :=
  let '(y, m, d) := c in
  let '(y', m') :=
    if 0 <? sgn then (if m =? 12 then (y + 1, 1) else (y, m + 1))
    else (if m =? 1 then (y - 1, 12) else (y, m - 1)) in
  (y', m', Z.min d (mlen md y' m')).

(* n <> 0 *)
Definition month_shift (md : mode) (n : Z) (c : Z * Z * Z) : Z * Z * Z :=
  Pos.iter (month_shift1 md n) c (Z.to_pos (Z.abs n)).
