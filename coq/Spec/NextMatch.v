(* Spec/NextMatch.v -- what "the next date-time matching a truncated time point"
   means.  Inverse of the day-number functions of Spec/Cal.v (date of a day
   number), the match predicates, and the least matching instant as an
   executable bounded search over days (the time-of-day part is closed form). *)
From Coq Require Import ZArith QArith Qround List Bool.
From Iso Require Import Spec.Cal Model.Num.
Import ListNotations.
Open Scope Z_scope.

(* year containing day number n: estimate, then at most a few corrections *)
Definition year_of_dn (md : mode) (n : Z) : Z :=
  let y0 := match md with
            | G => (n * 400) / 146097 | D360 => n / 360 | D365 => n / 365 | D366 => n / 366 end in
  let up := fun y => if dby md (y + 1) <=? n then y + 1 else y in
  let dn := fun y => if n <? dby md y then y - 1 else y in
  dn (dn (up (up y0))).

Definition ord_of_dn (md : mode) (n : Z) : Z * Z :=
  let y := year_of_dn md n in (y, n - dby md y + 1).

Fixpoint month_of_doy (md : mode) (y : Z) (k : nat) (m : Z) (doy : Z) : Z * Z :=
  match k with
  | O => (m, doy - cum md y (m - 1))
  | S k' => if doy <=? cum md y m then (m, doy - cum md y (m - 1)) else month_of_doy md y k' (m + 1) doy
  end.
Definition cal_of_dn (md : mode) (n : Z) : Z * Z * Z :=
  let '(y, doy) := ord_of_dn md n in
  let '(m, d) := month_of_doy md y 11 1 doy in (y, m, d).

Definition week_of_dn (md : mode) (n : Z) : Z * Z * Z :=
  let y := year_of_dn md n in
  let wy := if wys md (y + 1) <=? n then y + 1 else if n <? wys md y then y - 1 else y in
  let k := n - wys md wy in (wy, k / 7 + 1, k mod 7 + 1).

(* the day designators a truncated point may carry (at most one of the first
   three; a week number only together with a weekday or alone) *)
Record dayspec := mkDay { ds_dow : option Z; ds_dom : option Z; ds_doy : option Z; ds_week : option Z }.

Definition opt_match (o : option Z) (v : Z) : bool := match o with None => true | Some x => x =? v end.

Definition day_matches (md : mode) (s : dayspec) (n : Z) : bool :=
  let '(_, _, dom) := cal_of_dn md n in
  let '(_, doy) := ord_of_dn md n in
  let '(_, w, dow) := week_of_dn md n in
  opt_match (ds_dow s) dow && opt_match (ds_dom s) dom && opt_match (ds_doy s) doy && opt_match (ds_week s) w.

(* least n >= n0 with day_matches, searching `horizon` days; None if none *)
Definition next_day (md : mode) (s : dayspec) (n0 horizon : Z) : option Z :=
  snd (Pos.iter (fun st : Z * option Z =>
                   match snd st with
                   | Some _ => st
                   | None => if day_matches md s (fst st) then (fst st, Some (fst st)) else (fst st + 1, None)
                   end) (n0, None) (Z.to_pos horizon)).

(* time-of-day specification: hour, minute, second each optional *)
Record todspec := mkTod { ts_h : option Z; ts_m : option Z; ts_s : option Z }.
Definition has_time (t : todspec) : bool :=
  match ts_h t, ts_m t, ts_s t with None, None, None => false | _, _, _ => true end.

(* least second-of-day >= sod0 (an integer) that matches, lower fields zero;
   None if there is none left in this day.  Fields below the smallest given
   one are zero, fields above the largest given one are free. *)
Definition sod_matches (t : todspec) (x : Z) : bool :=
  let h := x / 3600 in let m := (x / 60) mod 60 in let s := x mod 60 in
  match ts_h t, ts_m t, ts_s t with
  | Some a, None, None => (h =? a) && (m =? 0) && (s =? 0)
  | Some a, Some b, None => (h =? a) && (m =? b) && (s =? 0)
  | Some a, Some b, Some c => (h =? a) && (m =? b) && (s =? c)
  | Some a, None, Some c => (h =? a) && (m =? 0) && (s =? c)
  | None, Some b, None => (m =? b) && (s =? 0)
  | None, Some b, Some c => (m =? b) && (s =? c)
  | None, None, Some c => s =? c
  | None, None, None => true
  end.
Definition next_sod (t : todspec) (sod0 : Z) : option Z :=
  snd (Pos.iter (fun st : Z * option Z =>
                   match snd st with
                   | Some _ => st
                   | None => if 86400 <=? fst st then st
                             else if sod_matches t (fst st) then (fst st, Some (fst st)) else (fst st + 1, None)
                   end) (sod0, None) 86401%positive).

(* the least (day, second-of-day) >= (n0, sod0), lexicographically, that matches
   both specifications; with no time field the second-of-day is kept *)
Definition next_match (md : mode) (d : dayspec) (t : todspec) (n0 sod0 horizon : Z) : option (Z * Z) :=
  if has_time t then
    match (if day_matches md d n0 then next_sod t sod0 else None) with
    | Some x => Some (n0, x)
    | None => match next_day md d (n0 + 1) horizon, next_sod t 0 with
              | Some n, Some x => Some (n, x)
              | _, _ => None
              end
    end
  else match next_day md d n0 horizon with Some n => Some (n, sod0) | None => None end.
