(* Spec/Heap.v -- the heap of objects property C16 talks about.
   A location is an index into the heap; an object is the list of the values
   of its slots; a value is a reference or a primitive (numbers, strings, None,
   containers: everything that is not an instance of the four classes). *)
From Coq Require Import List Arith.
Import ListNotations.

Definition loc := nat.
Inductive val : Type := VLoc (l : loc) | VPrim (n : nat).
Definition obj := list val.
Definition heap := list obj.

(* replace the object at l (nothing happens when l is not allocated) *)
Fixpoint set_nth (l : nat) (o : obj) (h : heap) : heap :=
  match h, l with
  | [], _ => []
  | _ :: r, 0 => o :: r
  | x :: r, S l' => x :: set_nth l' o r
  end.

Definition valid (h : heap) (v : val) : Prop :=
  match v with VLoc l => l < length h | VPrim _ => True end.

(* writing through a value: only references denote objects *)
Definition havoc (h : heap) (v : val) (o : obj) : heap :=
  match v with VLoc l => set_nth l o h | VPrim _ => h end.

(* h' extends h: every object of h is still there with the same slots *)
Definition extends (h h' : heap) : Prop := exists k, h' = h ++ k.

(* no dangling references *)
Definition wf_heap (h : heap) : Prop :=
  forall l o, nth_error h l = Some o -> Forall (valid h) o.

(* what can be observed of a value by following references to depth n: the
   observable state, the string form and the hash of a time point / duration /
   zone / recurrence are functions of this tree *)
Inductive tree : Type :=
| TPrim (n : nat)
| TDangling
| TCut
| TObj (l : loc) (slots : list tree).

Fixpoint observe (n : nat) (h : heap) (v : val) : tree :=
  match n with
  | 0 => TCut
  | S n' =>
    match v with
    | VPrim k => TPrim k
    | VLoc l => match nth_error h l with
                | None => TDangling
                | Some o => TObj l (map (observe n' h) o)
                end
    end
  end.
