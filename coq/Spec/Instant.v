(* Spec/Instant.v -- what "the instant a TimePoint denotes" and "a valid
   TimePoint" mean.  Defined on the model's data types, by the closed-form
   calendar of Spec/Cal.v only (never by the model's algorithms). *)
From Coq Require Import ZArith QArith Qround List Bool.
From Iso Require Import Spec.Cal Model.Num Model.Duration Model.TimePoint.
Open Scope Z_scope.

Definition date_dn (md : mode) (d : date) : Z :=
  match d with
  | Cal y m dd => dn_cal md y m dd
  | Ord y doy => dn_ord md y doy
  | Wk y w dd => dn_week md y w dd
  end.

Definition tod_secs (t : tod) : Q :=
  match t with
  | HMS h m s => h * qz 3600 + m * qz 60 + s
  | HM h m => h * qz 3600 + m * qz 60
  | HH h => h * qz 3600
  end.

Definition zone_secs (z : zone) : Z := zh z * 3600 + zm z * 60.

(* seconds since 0000-01-01T00:00:00Z of the mode's proleptic calendar *)
Definition instant (md : mode) (p : tp) : Q :=
  qz (86400 * date_dn md (tdate p)) + tod_secs (ttod p) - qz (zone_secs (tzone p)).

Definition valid_date (md : mode) (d : date) : bool :=
  match d with
  | Cal y m dd => valid_cal md y m dd
  | Ord y doy => valid_ord md y doy
  | Wk y w dd => valid_week md y w dd
  end.

Definition qin (lo : Z) (x : Q) (hi : Z) : bool := qleb (qz lo) x && qltb x (qz hi).

(* 0<=h<=24, 24 only as 24:00:00; 0<=m,s<60; for the HMS shape hours and
   minutes are whole numbers (the constructor casts them with int) *)
Definition valid_tod (t : tod) : bool :=
  match t with
  | HMS h m s =>
    qis_int h && qis_int m &&
    ((qin 0 h 24 && qin 0 m 60 && qin 0 s 60) || (qeqb h 24 && qeqb m 0 && qeqb s 0))
  | HM h m =>
    qis_int h && ((qin 0 h 24 && qin 0 m 60) || (qeqb h 24 && qeqb m 0))
  | HH h => qleb 0 h && qleb h 24
  end.
(* strictly inside the day: what every result of arithmetic must satisfy *)
Definition normal_tod (t : tod) : bool := valid_tod t && qltb (tod_hour t) 24.

Definition valid_zone (z : zone) : bool :=
  (-99 <=? zh z) && (zh z <=? 99) && (-59 <=? zm z) && (zm z <=? 59) &&
  (if 0 <? zh z then 0 <=? zm z else if zh z <? 0 then zm z <=? 0 else true).

Definition valid_tp (md : mode) (p : tp) : bool :=
  valid_date md (tdate p) && valid_tod (ttod p) && valid_zone (tzone p).
Definition normal_tp (md : mode) (p : tp) : bool :=
  valid_date md (tdate p) && normal_tod (ttod p) && valid_zone (tzone p).
