(* Model/LocalZone.v -- executable mirror of metomi/isodatetime/timezone.py
   (get_local_time_zone, get_local_time_zone_format) as functions of the four
   values read from the `time` module, and of the Unix-epoch conversions of
   data.py.  No proofs in here. *)
From Coq Require Import ZArith QArith Qround List Bool String Ascii.
From Iso Require Import Spec.Cal Model.Num Model.Helpers Model.Duration Model.TimePoint.
Import ListNotations.
Open Scope Z_scope.

(* time.timezone, time.altzone, time.daylight, time.localtime().tm_isdst *)
Definition utc_offset_seconds (timezone altzone daylight isdst : Z) : Z :=
  if (isdst =? 1) && negb (daylight =? 0) then - altzone else - timezone.

(* Python's // and % are floor division and modulo with the divisor's sign:
   Z.div and Z.modulo *)
Definition split_offset (off : Z) : Z * Z :=
  let sign := if off <? 0 then -1 else 1 in
  let minutes := (off / 60) mod (sign * 60) in
  let hours := sign * ((sign * off) / 3600) in
  (hours, minutes).

Definition get_local_time_zone (timezone altzone daylight isdst : Z) : Z * Z :=
  split_offset (utc_offset_seconds timezone altzone daylight isdst).

Local Open Scope string_scope.
(* '{:02d}'.format of a non-negative integer *)
Definition pad2 (n : Z) : string :=
  if (n <? 10)%Z then "0" ++ show_Z n else show_Z n.

Inductive tzfmt := TzNormal | TzReduced | TzExtended.

Definition format_offset (mode : tzfmt) (hm : Z * Z) : string :=
  let '(h, m) := hm in
  if ((h =? 0) && (m =? 0))%Z then "Z"
  else
    let mode := match mode with TzReduced => if (m =? 0)%Z then TzReduced else TzNormal | x => x end in
    let sign := if ((h <? 0) || (m <? 0))%Z then "-" else "+" in
    match mode with
    | TzNormal => sign ++ pad2 (Z.abs h) ++ pad2 (Z.abs m)
    | TzReduced => sign ++ pad2 (Z.abs h)
    | TzExtended => sign ++ pad2 (Z.abs h) ++ ":" ++ pad2 (Z.abs m)
    end.

Definition get_local_time_zone_format (mode : tzfmt) (timezone altzone daylight isdst : Z) : string :=
  format_offset mode (get_local_time_zone timezone altzone daylight isdst).

(* ---------- Unix epoch ---------- *)
Definition unix_ref : tp := mkTp (Cal 1970 1 1) (HMS 0 0 0) (mkZone 0 0).

(* get_timepoint_from_seconds_since_unix_epoch(n, utc): local = None for utc=True,
   otherwise the (hours, minutes) pair get_local_time_zone returns *)
Definition from_unix (md : mode) (n : Q) (local : option (Z * Z)) : option tp :=
  let ref := match local with
             | None => Some unix_ref
             | Some (h, m) => to_time_zone md unix_ref (mkZone h m)
             end in
  match ref with
  | Some r => if qeqb n 0 then Some r else tp_add md r (DU 0 0 0 0 0 n)
  | None => None
  end.

(* TimePoint.seconds_since_unix_epoch: str(floor(86400*days + seconds))  (fix: commit ecba00f; it was int(), truncating toward zero) *)
Definition seconds_since_unix_epoch (md : mode) (p : tp) : option Z :=
  match tp_sub md p unix_ref with
  | Some d => let '(days, secs) := days_and_seconds md d in
              Some (Qfloor (qz (86400 * days)%Z + secs))
  | None => None
  end.
