(* Model/DriverC16.v -- line-protocol operations of property C16: the verdict
   of the checker on the generated table and the per-name summaries, so that
   the harness can compare them with what the real package is observed to do. *)
From Coq Require Import ZArith List String Bool.
From Iso Require Import Spec.EffectIR Model.EffectSem Model.Num Model.Driver gen.Effects.
Import ListNotations.
Open Scope string_scope.

Definition sh_aval (a : aval) : string :=
  match a with AFresh => "fresh" | ASelfOrFresh => "selforfresh" | AAny => "any" end.

(* computed once per process: the inferred summaries of the generated table *)
Definition c16_summaries : summaries := fst (infer Effects.table).

Definition ops_c16 : list (string * rd string) :=
  [ ("c16check", ret (sh_bool (translator_ok_effects && check Effects.table)));
    ("c16summ", m <- tok ;;
       ret (match EffectSem.lookup c16_summaries m with
            | Some (r, mu) => unwords [sh_aval r; sh_bool mu; sh_bool (is_public m)]
            | None => "NONE"
            end));
    ("c16count", ret (unwords [show_Z (Z.of_nat (List.length Effects.table));
                               show_Z (Z.of_nat (List.length (filter (fun e => is_public (e_name e)) Effects.table)))])) ].
