(* Model/Helpers.v -- executable mirror of the calendar helper functions of
   metomi/isodatetime/data.py (get_is_leap_year ... iter_months_days).
   No proofs in here.  The day-by-day list walks over iter_months_days are
   modelled at month granularity (see DESIGN.md section 3); the bounded search
   for the next multiple in _get_days_in_year_range by its closed form. *)
From Coq Require Import ZArith List Bool.
From Iso Require Import Spec.Cal.
Import ListNotations.
Open Scope Z_scope.

(* Calendar.LEAP_YEAR_FACTOR_TRUTHS; equality with the generated table is an
   obligation in Proofs/TablesOk.v *)
Definition leap_factors : list (Z * bool) := [(4, true); (100, false); (400, true)].

(* get_is_leap_year: the last matching factor wins *)
Definition get_is_leap_year (y : Z) : bool :=
  fold_left (fun (acc : bool) (ft : Z * bool) => if y mod (fst ft) =? 0 then snd ft else acc) leap_factors false.

Definition zsum (l : list Z) : Z := fold_left Z.add l 0.

Definition DAYS_IN_MONTHS (md : mode) : list Z := months_common md.
Definition DAYS_IN_MONTHS_LEAP (md : mode) : list Z := months_leap md.
Definition DAYS_IN_YEAR (md : mode) : Z := zsum (DAYS_IN_MONTHS md).
Definition DAYS_IN_YEAR_LEAP (md : mode) : Z := zsum (DAYS_IN_MONTHS_LEAP md).
Definition MAX_DAYS_IN_MONTH (md : mode) : Z := fold_left Z.max (DAYS_IN_MONTHS md) 0.
(* the bound on a truncated week number: no week-year of the calendar is longer *)
Definition max_weeks_in_year (md : mode) : Z := DAYS_IN_YEAR_LEAP md / 7 + 1.

Definition get_days_in_year (md : mode) (y : Z) : Z :=
  if get_is_leap_year y then DAYS_IN_YEAR_LEAP md else DAYS_IN_YEAR md.

(* the month table iter_months_days walks for this year *)
Definition year_months (md : mode) (y : Z) : list Z :=
  if get_is_leap_year y then DAYS_IN_MONTHS_LEAP md else DAYS_IN_MONTHS md.

(* Python list indexing [k] for 0 <= k < len; callers guard the range *)
Definition znth (l : list Z) (k : Z) : Z := nth (Z.to_nat k) l 0.

(* get_days_in_month(month, year) with an integer year *)
Definition get_days_in_month (md : mode) (m y : Z) : Z := znth (year_months md y) (m - 1).
(* get_days_in_month(month, "leap") *)
Definition get_days_in_month_leap (md : mode) (m : Z) : Z := znth (DAYS_IN_MONTHS_LEAP md) (m - 1).

(* _get_days_in_year_range *)
Definition next_multiple (x f : Z) : Z := x + (- x) mod f.

Definition range_corrections (s e f : Z) : Z :=
  let nc := (if s mod f =? 0 then 1 else 0) +
            (if negb (e =? s) && (e mod f =? 0) then 1 else 0) in
  let fsy := Z.min (next_multiple (s + 1) f) e in
  if fsy <? e then nc + 1 + (e - (fsy + 1)) / f else nc.

Definition get_days_in_year_range (md : mode) (s e : Z) : Z :=
  if s =? e then get_days_in_year md s
  else if e <? s then 0
  else
    let diff := DAYS_IN_YEAR_LEAP md - DAYS_IN_YEAR md in
    fold_left
      (fun (days : Z) (ft : Z * bool) =>
         let nc := range_corrections s e (fst ft) in
         if snd ft then days + nc * diff else days - nc * diff)
      leap_factors ((e + 1 - s) * DAYS_IN_YEAR md).

(* walk the month table: the k-th day (1-based) counted from the first day of
   month m0 of a table suffix *)
Fixpoint walk_months (ms : list Z) (m : Z) (k : Z) : option (Z * Z) :=
  match ms with
  | [] => None
  | len :: r => if k <=? len then Some (m, k) else walk_months r (m + 1) (k - len)
  end.

(* get_calendar_date_from_ordinal_date; None = ValueError("Bad ordinal date") *)
Definition cal_from_ord (md : mode) (y doy : Z) : option (Z * Z * Z) :=
  if doy <? 1 then None
  else match walk_months (year_months md y) 1 doy with
       | Some (m, d) => Some (y, m, d)
       | None => None
       end.

Definition cum_months (ms : list Z) (k : Z) : Z := zsum (firstn (Z.to_nat k) ms).

(* get_ordinal_date_from_calendar_date; None = ValueError("Bad calendar date") *)
Definition ord_from_cal (md : mode) (y m d : Z) : option (Z * Z) :=
  let ms := year_months md y in
  if (1 <=? m) && (m <=? 12) && (1 <=? d) && (d <=? znth ms (m - 1))
  then Some (y, cum_months ms (m - 1) + d) else None.

Definition REF_YEAR : Z := 2000.
Definition REF_MONTH : Z := 1.
Definition REF_DAY : Z := 3.
Definition REF_ORD : Z := 3.

(* _get_calendar_date_week_date_start *)
Definition week_date_start (md : mode) (year : Z) : Z * Z * Z :=
  if year =? REF_YEAR then (REF_YEAR, REF_MONTH, REF_DAY)
  else
    let days_diff :=
      if REF_YEAR <? year then 1 - REF_ORD + get_days_in_year_range md REF_YEAR (year - 1)
      else REF_ORD - 2 + get_days_in_year_range md year (REF_YEAR - 1) in
    let wd := days_diff mod 7 in
    let dow := if REF_YEAR <? year then wd + 1 else 7 - wd in
    if dow =? 1 then (year, 1, 1)
    else if 4 <? dow then (year, 1, 1 + (8 - dow))
    else (year - 1, 12, znth (year_months md (year - 1)) 11 - (dow - 2)).

Definition triple_ltb (a b : Z * Z * Z) : bool :=
  let '(a1, a2, a3) := a in let '(b1, b2, b3) := b in
  (a1 <? b1) || ((a1 =? b1) && ((a2 <? b2) || ((a2 =? b2) && (a3 <? b3)))).
Definition triple_leb (a b : Z * Z * Z) : bool := negb (triple_ltb b a).

(* _get_ordinal_date_week_date_start *)
Definition ord_week_date_start (md : mode) (year : Z) : option (Z * Z) :=
  let '(cy, cm, cd) := week_date_start md year in ord_from_cal md cy cm cd.

(* get_calendar_date_from_week_date; None = ValueError("Bad week date") *)
Definition cal_from_week (md : mode) (y w d : Z) : option (Z * Z * Z) :=
  let n := (w - 1) * 7 + d - 1 in
  let '(sy, sm, sd) := week_date_start md y in
  if n =? 0 then Some (sy, sm, sd)
  else if n <? 0 then None
  else match ord_from_cal md sy sm sd with
       | None => None
       | Some (_, so) =>
         let rem := get_days_in_year md sy - so in
         if n <=? rem then cal_from_ord md sy (so + n)
         else
           let n1 := n - rem in
           if sy <? y then
             if n1 <=? get_days_in_year md y then cal_from_ord md y n1
             else let n2 := n1 - get_days_in_year md y in
                  if n2 <=? get_days_in_year md (y + 1) then cal_from_ord md (y + 1) n2 else None
           else if n1 <=? get_days_in_year md (y + 1) then cal_from_ord md (y + 1) n1 else None
       end.

(* get_week_date_from_calendar_date; None = ValueError("Bad calendar date") *)
Definition week_from_cal (md : mode) (y m d : Z) : option (Z * Z * Z) :=
  let prev := week_date_start md (y - 1) in
  let this := week_date_start md y in
  let next := week_date_start md (y + 1) in
  let cd := (y, m, d) in
  let '(st, wy) :=
    if triple_leb prev cd && triple_ltb cd this then (prev, y - 1)
    else if triple_leb this cd && triple_ltb cd next then (this, y)
    else (next, y + 1) in
  let '(sy, sm, sd) := st in
  match ord_from_cal md y m d, ord_from_cal md sy sm sd with
  | Some (_, o), Some (_, so) =>
    let total :=
      if sy =? y then (if so <=? o then Some (o - so) else None)
      else if sy + 1 =? y then Some (get_days_in_year md sy - so + o)
      else if sy + 2 =? y then Some (get_days_in_year md sy - so + get_days_in_year md (sy + 1) + o)
      else None in
    match total with
    | Some t => Some (wy, t / 7 + 1, t mod 7 + 1)
    | None => None
    end
  | _, _ => None
  end.

(* get_ordinal_date_from_week_date *)
Definition ord_from_week (md : mode) (y w d : Z) : option (Z * Z) :=
  match cal_from_week md y w d with
  | Some (cy, cm, cd) => ord_from_cal md cy cm cd
  | None => None
  end.

(* get_week_date_from_ordinal_date *)
Definition week_from_ord (md : mode) (y doy : Z) : option (Z * Z * Z) :=
  match cal_from_ord md y doy with
  | Some (cy, cm, cd) => week_from_cal md cy cm cd
  | None => None
  end.

(* sum of get_days_in_year over range(a, a+n) *)
Fixpoint sum_ylen (md : mode) (a : Z) (n : nat) : Z :=
  match n with O => 0 | S k => get_days_in_year md a + sum_ylen md (a + 1) k end.

(* _get_weeks_in_year; the week-date starts are always valid dates, the 0
   default is unreachable (Proofs) *)
Definition get_weeks_in_year (md : mode) (y : Z) : Z :=
  match ord_week_date_start md y, ord_week_date_start md (y + 1) with
  | Some (cy, co), Some (cyn, con) =>
    (con - co + sum_ylen md cy (Z.to_nat (cyn - cy))) / 7
  | _, _ => 0
  end.

(* _get_days_since_1_ad *)
Definition get_days_since_1_ad (md : mode) (y : Z) : Z :=
  if y =? 1 then get_days_in_year md y else if y <? 1 then 0
  else get_days_in_year_range md 1 y.
