(* Model/DriverCli.v -- line-protocol operations for the command-line model. *)
From Coq Require Import ZArith QArith Qround List Bool String Ascii.
From Iso Require Import Spec.Cal Model.Num Model.Helpers Model.Duration Model.TimePoint Model.Forms Model.Parse
  Model.Dump Model.Strftime Model.Recurrence Model.DurText Model.Driver Model.DriverText Model.Cli gen.Grammar.
Import ListNotations.
Local Open Scope string_scope.

Definition nlc : string := String (ascii_of_nat 10) "".
Definition sh_cres (c : cres) : string :=
  match c with COut s => "OUT " ++ pct_encode (s ++ nlc) | CExit => "EXIT" | CUnmodelled => "UNMODELLED" end.
Fixpoint rTexts (n : nat) : rd (list string) :=
  match n with O => ret [] | S k => t <- rText ;; r <- rTexts k ;; ret (t :: r) end.

(* the recurrence text R[n]/a/b split on "/" and parsed with the operator's parsers *)
Definition rec_of_text (md : mode) (local : Z * Z) (text : string) : option recur + cres :=
  if negb (is_ascii_str text) then inr CUnmodelled
  else
    match split_on "/" text "" with
    | [r; a; b] =>
      match r with
      | String "R" nd =>
        let reps : option (option Z) :=
          if String.eqb nd "" then Some None
          else if forallb is_digit (list_ascii_of_string nd) then match read_Z nd with Some z => Some (Some z) | None => None end
          else None in
        match reps with
        | None => inr CExit
        | Some n =>
          let cfg := cli_cfg false local in
          let ptp_of := fun t => match parse_text md cfg t false with
                                 | POk q => match ptp_to_tp q with Some p => inl p | None => inr CUnmodelled end
                                 | PErr EUnmodelled => inr CUnmodelled
                                 | PErr _ => inr CExit end in
          let dur_of := fun t => match dur_parse t with
                                 | DurText.TOk d => inl d | DurText.TUnmodelled => inr CUnmodelled | _ => inr CExit end in
          let isP := fun t => match t with String "P" _ => true | _ => false end in
          let mk := fun s d e => match rec_make md n s d e with Ok x => inl (Some x) | Err => inr CExit end in
          if String.eqb a "" || String.eqb b "" then inr CExit
          else if negb (isP a) && negb (isP b) then
            match ptp_of a, ptp_of b with
            | inl s, inl e => mk (Some s) None (Some e) | inr x, _ => inr x | _, inr x => inr x end
          else if negb (isP a) && isP b then
            match ptp_of a, dur_of b with
            | inl s, inl d => mk (Some s) (Some d) None | inr x, _ => inr x | _, inr x => inr x end
          else if isP a && negb (isP b) then
            match dur_of a, ptp_of b with
            | inl d, inl e => mk None (Some d) (Some e) | inr x, _ => inr x | _, inr x => inr x end
          else inr CExit
        end
      | _ => inr CExit
      end
    | _ => inr CUnmodelled     (* other numbers of "/" interact with the regexes' [^/] guards *)
    end.

Definition ops_cli : list (string * rd string) :=
  [ ("cli_shift", md <- rMode ;; utc <- rZ ;; t <- rText ;; n <- rZ ;; offs <- rTexts (Z.to_nat n) ;;
       ret (sh_cres (cli_shift md (negb (utc =? 0)%Z) (0, 0)%Z t offs None)));
    ("cli_diff", md <- rMode ;; a <- rText ;; b <- rText ;; ret (sh_cres (cli_diff md (0, 0)%Z a b)));
    ("cli_rec", md <- rMode ;; mx <- rZ ;; t <- rText ;;
       ret (match rec_of_text md (0, 0)%Z t with
            | inr e => sh_cres e
            | inl None => "EXIT"
            | inl (Some r) =>
              let pts := cli_rec_points md (0, 0)%Z r mx in
              let strs := map (fun p => do_str md 0 p) pts in
              if forallb (fun d => match d with DOk _ => true | _ => false end) strs
              then sh_cres (COut (String.concat nlc (map (fun d => match d with DOk s => s | _ => "" end) strs)))
              else if existsb (fun d => match d with DUnmodelled => true | _ => false end) strs then "UNMODELLED" else "EXIT"
            end))
  ].
