(* Model/Duration.v -- executable mirror of class Duration (data.py).
   years/months/days/weeks are Python ints (Z); hours/minutes/seconds are
   Python floats or ints, modelled as exact rationals.  No proofs in here. *)
From Coq Require Import ZArith QArith Qround Qabs List Bool.
From Iso Require Import Spec.Cal Model.Num Model.Helpers.
Import ListNotations.
Open Scope Z_scope.

Inductive dur :=
| DW (w : Z)                               (* week representation *)
| DU (y mo d : Z) (h mi s : Q).            (* unit representation *)

Definition dzero : dur := DU 0 0 0 0 0 0.

(* Duration.__init__ without standardize: weeks are folded into days unless
   the week count is the only non-zero argument *)
Definition dur_make (y mo w d : Z) (h mi s : Q) : dur :=
  if negb (w =? 0) && (y =? 0) && (mo =? 0) && (d =? 0) &&
     qeqb h 0 && qeqb mi 0 && qeqb s 0
  then DW ((7 * w) / 7)
  else DU y mo (d + 7 * w) h mi s.

Definition get_is_in_weeks (x : dur) : bool := match x with DW _ => true | _ => false end.

Definition to_days (x : dur) : dur :=
  match x with DW w => DU 0 0 (w * 7) 0 0 0 | _ => x end.

Definition is_exact (x : dur) : bool :=
  match x with DW _ => true | DU y mo _ _ _ _ => (y =? 0) && (mo =? 0) end.

(* _get_non_nominal_seconds *)
Definition non_nominal_seconds (x : dur) : Q :=
  match x with
  | DW w => qz (w * 7 * 86400)
  | DU _ _ d h mi s => Qred (qz (d * 86400) + h * qz 3600 + mi * qz 60 + s)
  end.

(* get_days_and_seconds: (days, seconds) with 0 <= seconds < 86400 *)
Definition days_and_seconds (md : mode) (x : dur) : Z * Q :=
  match x with
  | DW w => (w * 7, 0%Q)
  | DU y mo d h mi s =>
    let nd := y * DAYS_IN_YEAR md + mo * 30 + d in
    let ns := Qred (h * qz 3600 + mi * qz 60 + s) in
    let '(dd, ns') := qdivmod ns 86400 in (nd + dd, ns')
  end.

Definition get_seconds (md : mode) (x : dur) : Q :=
  if is_exact x then non_nominal_seconds x
  else let '(d, s) := days_and_seconds md x in Qred (qz (d * 86400) + s).

Definition dur_mul (x : dur) (n : Z) : dur :=
  match x with
  | DW w => DW (w * n)
  | DU y mo d h mi s => DU (y * n) (mo * n) (d * n) (qmul h (qz n)) (qmul mi (qz n)) (qmul s (qz n))
  end.

Definition dur_add (a b : dur) : dur :=
  match a, b with
  | DW x, DW y => DW (x + y)
  | _, _ =>
    match to_days a, to_days b with
    | DU y1 m1 d1 h1 i1 s1, DU y2 m2 d2 h2 i2 s2 =>
      DU (y1 + y2) (m1 + m2) (d1 + d2) (qadd h1 h2) (qadd i1 i2) (qadd s1 s2)
    | _, _ => a (* unreachable: to_days never returns DW *)
    end
  end.

Definition dur_sub (a b : dur) : dur := dur_add a (dur_mul b (-1)).

Definition dur_abs (x : dur) : dur :=
  match x with
  | DW w => DW (Z.abs w)
  | DU y mo d h mi s => DU (Z.abs y) (Z.abs mo) (Z.abs d) (Qred (Qabs h)) (Qred (Qabs mi)) (Qred (Qabs s))
  end.

(* __floordiv__ by a non-zero integer *)
Definition qfloordiv (x : Q) (n : Z) : Q := qz (Qfloor (x / qz n)).
Definition dur_floordiv (x : dur) (n : Z) : dur :=
  match x with
  | DW w => DW (w / n)
  | DU y mo d h mi s => DU (y / n) (mo / n) (d / n) (qfloordiv h n) (qfloordiv mi n) (qfloordiv s n)
  end.

Definition dur_eqb (a b : dur) : bool :=
  if is_exact a then
    if is_exact b then qeqb (non_nominal_seconds a) (non_nominal_seconds b) else false
  else
    match a, to_days b with
    | DU y1 m1 _ _ _ _, DU y2 m2 _ _ _ _ =>
      (* a week-form "other" has years = months = None: never equal to ints *)
      negb (get_is_in_weeks b) && (y1 =? y2) && (m1 =? m2) &&
      qeqb (non_nominal_seconds a) (non_nominal_seconds b)
    | _, _ => false
    end.

(* the tuple that __hash__ hashes *)
Definition dur_hash_key (x : dur) : Z * Z * Q :=
  match x with
  | DW _ => (0, 0, non_nominal_seconds x)
  | DU y mo _ _ _ _ => (y, mo, non_nominal_seconds x)
  end.

Definition ds_ltb (a b : Z * Q) : bool :=
  (fst a <? fst b) || ((fst a =? fst b) && qltb (snd a) (snd b)).
Definition ds_leb (a b : Z * Q) : bool := negb (ds_ltb b a).
Definition dur_ltb md a b := ds_ltb (days_and_seconds md a) (days_and_seconds md b).
Definition dur_leb md a b := ds_leb (days_and_seconds md a) (days_and_seconds md b).
Definition dur_gtb md a b := dur_ltb md b a.
Definition dur_geb md a b := dur_leb md b a.

(* __bool__ *)
Definition dur_bool (x : dur) : bool :=
  match x with
  | DW w => negb (w =? 0)
  | DU y mo d h mi s =>
    negb ((y =? 0) && (mo =? 0) && (d =? 0) && qeqb h 0 && qeqb mi 0 && qeqb s 0)
  end.

(* length in seconds of an exact duration *)
Definition dur_len (x : dur) : Q := non_nominal_seconds x.
