(* Model/DriverCache.v -- line protocol for property C15: a whole history of
   mode switches and computations on ONE line.

     hist <step> <step> ...      -> the outputs of all steps, joined by " | "
     hsizes <step> <step> ...    -> entries per lru_cache after the history

   A step is one token, fields separated by ':' :
     sm:<spelling>                 Calendar.default().set_mode(spelling); `-` = None
     leap:Y ylen:Y mlen:M:Y mlenleap:M range:S:E weeks:Y wstart:Y owstart:Y since1ad:Y
                                   the cached helper functions (through the cache machine)
     x:<op>:<arg>:...              an operation of Model/Driver.v's op_table, its mode
                                   argument supplied by the history (mode last set)
     v:<date tokens>               TimePoint(...) validation of a date: 1 | 0
     cli:<how>:<sp>:<p|m>:Y:M:D:h:mi:s:dy:dm:dd
                                   `isodatetime [--calendar sp] CCYY-MM-DDThh:mm:ssZ --offset=[-]PdyYdmMddD`
                                   how = opt (--calendar), env (ISODATETIMECALENDAR), none
     clirec:<how>:<sp>:<n>:Y:M:D:h:dy:dm:dd:<max>
                                   `isodatetime Rn/CCYY-MM-DDThh:00:00Z/PdyYdmMddD --max=max`
   A CLI call sets the process-wide mode as a side effect (DateTimeOperator
   calls Calendar.default().set_mode(option or environment or None)). *)
From Coq Require Import ZArith QArith List Bool String Ascii.
From Iso Require Import Spec.Cal Spec.Instant Model.Num Model.Helpers Model.Duration Model.TimePoint
  Model.Recurrence Model.Driver Model.Cache gen.CacheTable.
Import ListNotations.
Open Scope string_scope.

Fixpoint read_zs (l : list string) : option (list Z) :=
  match l with
  | [] => Some []
  | t :: r => match read_Z t, read_zs r with
              | Some z, Some zr => Some (z :: zr)
              | _, _ => None
              end
  end.

Definition helper_of (name : string) : option (fname * nat) :=
  if String.eqb name "leap" then Some (FLeap, 1%nat)
  else if String.eqb name "ylen" then Some (FYlen, 1%nat)
  else if String.eqb name "mlen" then Some (FMlen, 2%nat)
  else if String.eqb name "mlenleap" then Some (FMlenLeap, 1%nat)
  else if String.eqb name "range" then Some (FRange, 2%nat)
  else if String.eqb name "weeks" then Some (FWeeks, 1%nat)
  else if String.eqb name "wstart" then Some (FWstart, 1%nat)
  else if String.eqb name "owstart" then Some (FOwstart, 1%nat)
  else if String.eqb name "since1ad" then Some (FSince, 1%nat)
  else None.

Definition sh_val (v : val) : string :=
  match v with [] => "ERR" | _ => unwords (map show_Z v) end.
Definition sh_out (o : out) : string :=
  match o with OOk => "ok" | OBadMode => "EXC KeyError" | OVal v => sh_val v end.

Definition cur_md (st : state) : mode := smode (cur st).

(* the mode switch a CLI call performs; Some s = the call ends there with output s *)
Definition cli_set (st : state) (how sp : string) : state * option string :=
  if String.eqb how "opt" then
    if existsb (String.eqb sp) CLI_CALENDAR_CHOICES then
      let '(st', o) := step st (SetMode sp) in
      (st', match o with OBadMode => Some "EXC KeyError" | _ => None end)
    else (st, Some "EXIT 2")            (* argparse: invalid choice *)
  else if String.eqb how "env" then
    let '(st', o) := step st (SetMode sp) in
    (st', match o with OBadMode => Some "EXC KeyError" | _ => None end)
  else let '(st', _) := step st (SetMode "") in (st', None).

Definition cli_point (y m d h mi s : Z) : tp :=
  mkTp (Cal y m d) (HMS (qz h) (qz mi) (qz s)) (mkZone 0 0).

Definition sh_points (l : list tp) : string :=
  match l with [] => "NONE" | _ => String.concat " ; " (map sh_tp l) end.

(* one step; None = malformed token *)
Definition hstep (st : state) (tk : string) : option (state * string) :=
  match split_on ":"%char tk "" with
  | [] => None
  | name :: args =>
    if String.eqb name "sm" then
      match args with
      | [s] => let '(st', o) := step st (SetMode (if String.eqb s "-" then "" else s)) in
               Some (st', sh_out o)
      | _ => None
      end
    else if String.eqb name "x" then
      match args with
      | opname :: rest =>
        match Driver.lookup opname op_table with
        | Some f => match f (sh_mode (cur_md st) :: rest) with
                    | Some (s, []) => Some (st, s)
                    | _ => None
                    end
        | None => None
        end
      | [] => None
      end
    else if String.eqb name "v" then
      match rDate args with
      | Some (d, []) => Some (st, sh_bool (date_in_bounds (cur_md st) d))
      | _ => None
      end
    else if String.eqb name "cli" then
      match args with
      | how :: sp :: sign :: rest =>
        match read_zs rest with
        | Some [y; m; d; h; mi; s; dy; dm; dd] =>
          let '(st', stop) := cli_set st how sp in
          match stop with
          | Some e => Some (st', e)
          | None =>
            let md := cur_md st' in
            let p := cli_point y m d h mi s in
            let x := DU dy dm dd 0 0 0 in
            Some (st', if negb (date_in_bounds md (Cal y m d)) then "ERR"
                       else sh_opt sh_tp (if String.eqb sign "m" then tp_sub_dur md p x
                                          else tp_add md p x))
          end
        | _ => None
        end
      | _ => None
      end
    else if String.eqb name "clirec" then
      match args with
      | how :: sp :: rest =>
        match read_zs rest with
        | Some [n; y; m; d; h; dy; dm; dd; mx] =>
          let '(st', stop) := cli_set st how sp in
          match stop with
          | Some e => Some (st', e)
          | None =>
            let md := cur_md st' in
            let p := cli_point y m d h 0 0 in
            Some (st', if negb (date_in_bounds md (Cal y m d)) then "ERR"
                       else match rec_make md (Some n) (Some p) (Some (DU dy dm dd 0 0 0)) None with
                            | Ok r => sh_points (iter_take md r (Z.to_nat mx))
                            | Err => "ERR"
                            end)
          end
        | _ => None
        end
      | _ => None
      end
    else
      match helper_of name, read_zs args with
      | Some (f, n), Some a =>
        if Nat.eqb (List.length a) n then
          let '(st', o) := step st (Call f a) in Some (st', sh_out o)
        else None
      | _, _ => None
      end
  end.

Fixpoint hist_go (st : state) (tks : list string) (acc : list string) : option (state * list string) :=
  match tks with
  | [] => Some (st, rev acc)
  | t :: r => match hstep st t with
              | Some (st', s) => hist_go st' r (s :: acc)
              | None => None
              end
  end.

Definition count_f (c : cache) (f : fname) : Z :=
  Z.of_nat (List.length (filter (fun e : fname * key * val => fname_eqb (fst (fst e)) f) c)).

Definition sh_sizes (c : cache) : string :=
  unwords ["leap=" ++ show_Z (count_f c FLeap);
           "ylen=" ++ show_Z (count_f c FYlen);
           "mlen=" ++ show_Z (count_f c FMlen + count_f c FMlenLeap);
           "range=" ++ show_Z (count_f c FRange);
           "weeks=" ++ show_Z (count_f c FWeeks);
           "wstart=" ++ show_Z (count_f c FWstart);
           "owstart=" ++ show_Z (count_f c FOwstart);
           "since1ad=" ++ show_Z (count_f c FSince)].

Definition ops_cache : list (string * rd string) :=
  [ ("hist", fun ts => match hist_go init ts [] with
                       | Some (_, outs) => Some (String.concat " | " outs, [])
                       | None => None
                       end);
    ("hsizes", fun ts => match hist_go init ts [] with
                         | Some (st, _) => Some (sh_sizes (store st), [])
                         | None => None
                         end)
  ].
