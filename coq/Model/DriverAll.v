(* Model/DriverAll.v -- the complete operation table of the line protocol:
   the base table of Model/Driver.v plus the per-property extension tables. *)
From Coq Require Import List String.
From Iso Require Import Model.Driver Model.DriverText Model.DriverCache Model.DriverC16 Model.DriverDurText Model.DriverCli Model.DriverRecText.
Import ListNotations.

Definition all_ops : list (string * rd string) := op_table ++ ops_text ++ ops_cache ++ ops_c16 ++ ops_durtext ++ ops_cli ++ ops_rectext.

Definition run_line (line : string) : string := run_ops all_ops line.
