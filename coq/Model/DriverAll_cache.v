(* Model/DriverAll_cache.v -- the base operation table plus the C15 history
   operations (own merge file; the main DriverAll.v is untouched). *)
From Coq Require Import List String.
From Iso Require Import Model.Driver Model.DriverCache.
Import ListNotations.

Definition run_line (s : string) : string := run_ops (op_table ++ ops_cache) s.
