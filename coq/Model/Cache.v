(* Model/Cache.v -- property C15: the process-wide calendar mode and the
   lru_cache'd helper functions of data.py as a state machine.

   state  = (spelling of the mode last set, cache : function -> key -> value)
   op     = SetMode spelling | Call f args
   step   : state -> op -> state * out

   functools.lru_cache is modelled as an unbounded finite map (association
   list, newest entry first; the real maxsize is 100000 and eviction only
   ever removes entries).  A call looks its key up -- the key is the argument
   list plus the CURRENT SPELLING iff the generated table (gen/CacheTable.v,
   column "every call site passes exactly CALENDAR.mode") says so -- and on a
   miss runs the body of the Python function, whose calls to other cached
   functions go through the cache in the same way (`prog`, `exec`), then
   stores the result.  `step_with keyed` is the same machine for an arbitrary
   key table, used to state what goes wrong when a key lacks the mode;
   `step_flat_with` is the simpler machine in which a miss evaluates the pure
   helper of Model/Helpers.v and stores only that entry.
   No proofs in here (Proofs/CacheSpec.v). *)
From Coq Require Import ZArith List Bool String Ascii.
From Iso Require Import Spec.Cal Model.Helpers gen.CacheTable.
Import ListNotations.
Open Scope Z_scope.

(* ---------- spellings ---------- *)
(* Calendar.set_mode: `self.MODES[mode.lower()]`, `self.mode = mode` *)
Definition lower_char (c : ascii) : ascii :=
  let n := nat_of_ascii c in
  if (Nat.leb 65 n && Nat.leb n 90)%bool then ascii_of_nat (n + 32) else c.
Fixpoint lower (s : string) : string :=
  match s with
  | EmptyString => EmptyString
  | String c r => String (lower_char c) (lower r)
  end.

Definition mode_of_lower (s : string) : option mode :=
  if String.eqb s "gregorian" then Some G
  else if String.eqb s "360day" || String.eqb s "360_day" then Some D360
  else if String.eqb s "365day" || String.eqb s "365_day" then Some D365
  else if String.eqb s "366day" || String.eqb s "366_day" then Some D366
  else None.
(* None = KeyError from self.MODES[...] *)
Definition mode_of_spelling (s : string) : option mode := mode_of_lower (lower s).
(* the calendar in force while CALENDAR.mode == s *)
Definition smode (s : string) : mode :=
  match mode_of_spelling s with Some m => m | None => G end.
(* `if not mode: mode = self.MODE_GREGORIAN` *)
Definition norm_spelling (s : string) : string :=
  if String.eqb s "" then "gregorian"%string else s.

(* ---------- the cached functions ---------- *)
Inductive fname :=
  FLeap | FYlen | FMlen | FMlenLeap | FRange | FWeeks | FWstart | FOwstart | FSince.

Definition fname_eqb (a b : fname) : bool :=
  match a, b with
  | FLeap, FLeap | FYlen, FYlen | FMlen, FMlen | FMlenLeap, FMlenLeap | FRange, FRange
  | FWeeks, FWeeks | FWstart, FWstart | FOwstart, FOwstart | FSince, FSince => true
  | _, _ => false
  end.

Definition all_fnames : list fname :=
  [FLeap; FYlen; FMlen; FMlenLeap; FRange; FWeeks; FWstart; FOwstart; FSince].

(* the lru_cache'd Python function behind each name (rows of CacheTable.CACHED);
   FMlen / FMlenLeap are the two key shapes of _get_days_in_month
   (integer year / year = "leap") *)
Definition py_name (f : fname) : string :=
  match f with
  | FLeap => "data.get_is_leap_year"
  | FYlen => "data._get_days_in_year"
  | FMlen | FMlenLeap => "data._get_days_in_month"
  | FRange => "data._get_days_in_year_range"
  | FWeeks => "data._get_weeks_in_year"
  | FWstart => "data._get_calendar_date_week_date_start"
  | FOwstart => "data._get_ordinal_date_week_date_start"
  | FSince => "data._get_days_since_1_ad"
  end%string.

(* values are encoded as lists of Z *)
Definition val := list Z.
Definition b2z (b : bool) : Z := if b then 1 else 0.
Definition z2b (z : Z) : bool := negb (z =? 0).
Definition hd0 (v : val) : Z := match v with x :: _ => x | [] => 0 end.
Definition enc3 (t : Z * Z * Z) : val := let '(a, b, c) := t in [a; b; c].
Definition enc_opt2 (o : option (Z * Z)) : val :=
  match o with Some (a, b) => [a; b] | None => [] end.

(* the PURE helper of Model/Helpers.v behind each name, mode explicit *)
Definition pure (f : fname) (md : mode) (a : list Z) : val :=
  match f, a with
  | FLeap, [y] => [b2z (get_is_leap_year y)]
  | FYlen, [y] => [get_days_in_year md y]
  | FMlen, [m; y] => [get_days_in_month md m y]
  | FMlenLeap, [m] => [get_days_in_month_leap md m]
  | FRange, [s; e] => [get_days_in_year_range md s e]
  | FWeeks, [y] => [get_weeks_in_year md y]
  | FWstart, [y] => enc3 (week_date_start md y)
  | FOwstart, [y] => enc_opt2 (ord_week_date_start md y)
  | FSince, [y] => [get_days_since_1_ad md y]
  | _, _ => []
  end.

(* ---------- function bodies with their calls to cached functions ---------- *)
Inductive prog :=
| Ret (v : val)
| CallThen (f : fname) (a : list Z) (k : val -> prog).

(* for y in range(a, a+n): total += get_days_in_year(y) *)
Fixpoint sum_loop (a : Z) (n : nat) (k : Z -> prog) : prog :=
  match n with
  | O => k 0
  | S n' => CallThen FYlen [a] (fun v => sum_loop (a + 1) n' (fun s => k (hd0 v + s)))
  end.

(* get_ordinal_date_from_calendar_date over a given month table *)
Definition ord_from_cal_ms (ms : list Z) (y m d : Z) : option (Z * Z) :=
  if (1 <=? m) && (m <=? 12) && (1 <=? d) && (d <=? znth ms (m - 1))
  then Some (y, cum_months ms (m - 1) + d) else None.

Definition table_of (md : mode) (leap : val) : list Z :=
  if z2b (hd0 leap) then DAYS_IN_MONTHS_LEAP md else DAYS_IN_MONTHS md.

Definition body (md : mode) (f : fname) (a : list Z) : prog :=
  match f with
  | FLeap => match a with [y] => Ret [b2z (get_is_leap_year y)] | _ => Ret [] end
  | FYlen =>
    match a with
    | [y] => CallThen FLeap [y] (fun b =>
               Ret [if z2b (hd0 b) then DAYS_IN_YEAR_LEAP md else DAYS_IN_YEAR md])
    | _ => Ret []
    end
  | FMlen =>
    match a with
    | [m; y] => CallThen FLeap [y] (fun b => Ret [znth (table_of md b) (m - 1)])
    | _ => Ret []
    end
  | FMlenLeap =>
    match a with [m] => Ret [znth (DAYS_IN_MONTHS_LEAP md) (m - 1)] | _ => Ret [] end
  | FRange =>
    match a with
    | [s; e] => if s =? e then CallThen FYlen [s] Ret
                else Ret [get_days_in_year_range md s e]
    | _ => Ret []
    end
  | FSince =>
    match a with
    | [y] => if y =? 1 then CallThen FYlen [y] Ret
             else if y <? 1 then Ret [0]
             else CallThen FRange [1; y] Ret
    | _ => Ret []
    end
  | FWstart =>
    match a with
    | [year] =>
      if year =? REF_YEAR then Ret [REF_YEAR; REF_MONTH; REF_DAY]
      else
        CallThen FRange (if REF_YEAR <? year then [REF_YEAR; year - 1] else [year; REF_YEAR - 1])
          (fun r =>
             let days_diff := if REF_YEAR <? year then 1 - REF_ORD + hd0 r
                              else REF_ORD - 2 + hd0 r in
             let wd := days_diff mod 7 in
             let dow := if REF_YEAR <? year then wd + 1 else 7 - wd in
             if dow =? 1 then Ret [year; 1; 1]
             else if 4 <? dow then Ret [year; 1; 1 + (8 - dow)]
             else (* iter_months_days(year - 1, in_reverse=True) *)
               CallThen FLeap [year - 1] (fun b =>
                 Ret [year - 1; 12; znth (table_of md b) 11 - (dow - 2)]))
    | _ => Ret []
    end
  | FOwstart =>
    match a with
    | [year] =>
      CallThen FWstart [year] (fun w =>
        match w with
        | [cy; cm; cd] =>
          (* iter_months_days(cal_year) *)
          CallThen FLeap [cy] (fun b => Ret (enc_opt2 (ord_from_cal_ms (table_of md b) cy cm cd)))
        | _ => Ret []
        end)
    | _ => Ret []
    end
  | FWeeks =>
    match a with
    | [y] =>
      CallThen FOwstart [y] (fun o1 =>
        CallThen FOwstart [y + 1] (fun o2 =>
          match o1, o2 with
          | [cy; co], [cyn; con] =>
            sum_loop cy (Z.to_nat (cyn - cy)) (fun s => Ret [(con - co + s) / 7])
          | _, _ => Ret [0]
          end))
    | _ => Ret []
    end
  end.

(* a body evaluated with every nested call answered by the pure helper *)
Fixpoint pure_run (md : mode) (p : prog) : val :=
  match p with
  | Ret v => v
  | CallThen f a k => pure_run md (k (pure f md a))
  end.

(* nesting depth of cached calls *)
Definition level (f : fname) : nat :=
  match f with
  | FLeap | FMlenLeap => 0
  | FYlen | FMlen => 1
  | FRange => 2
  | FSince | FWstart => 3
  | FOwstart => 4
  | FWeeks => 5
  end%nat.

(* ---------- the cache ---------- *)
Definition key := (list Z * option string)%type.
Definition cache := list (fname * key * val).

Fixpoint zlist_eqb (a b : list Z) : bool :=
  match a, b with
  | [], [] => true
  | x :: r, y :: s => (x =? y) && zlist_eqb r s
  | _, _ => false
  end.
Definition ostr_eqb (a b : option string) : bool :=
  match a, b with
  | None, None => true
  | Some x, Some y => String.eqb x y
  | _, _ => false
  end.
Definition key_eqb (a b : key) : bool := zlist_eqb (fst a) (fst b) && ostr_eqb (snd a) (snd b).

Fixpoint lookup (c : cache) (f : fname) (k : key) : option val :=
  match c with
  | [] => None
  | (f', k', v) :: r => if fname_eqb f f' && key_eqb k k' then Some v else lookup r f k
  end.

(* the key a call is filed under: the arguments, plus the spelling in
   CALENDAR.mode iff the function's key has the mode *)
Definition mk_key (keyed : fname -> bool) (cur : string) (f : fname) (a : list Z) : key :=
  (a, if keyed f then Some cur else None).

(* run a program against the cache; n bounds the nesting of cached calls
   (out of fuel = stuck, returns []; Proofs/CacheSpec.v shows level f + 1 is enough) *)
Fixpoint exec (keyed : fname -> bool) (cur : string) (n : nat) : cache -> prog -> val * cache :=
  fix go (c : cache) (p : prog) {struct p} : val * cache :=
    match p with
    | Ret v => (v, c)
    | CallThen f a k =>
      let ky := mk_key keyed cur f a in
      match lookup c f ky with
      | Some v => go c (k v)
      | None =>
        match n with
        | O => ([], c)
        | S n' =>
          let '(v, c1) := exec keyed cur n' c (body (smode cur) f a) in
          go ((f, ky, v) :: c1) (k v)
        end
      end
    end.

(* ---------- the machine ---------- *)
Record state := mkState { cur : string; store : cache }.
Inductive op := SetMode (s : string) | Call (f : fname) (a : list Z).
Inductive out := OOk | OBadMode | OVal (v : val).

(* importing data.py runs Calendar.default() -> set_mode() -> gregorian *)
Definition init : state := mkState "gregorian" [].
Definition FUEL : nat := 6.

Definition set_mode (st : state) (s : string) : state * out :=
  let s' := norm_spelling s in
  match mode_of_spelling s' with
  | Some _ => (mkState s' (store st), OOk)
  | None => (st, OBadMode)      (* KeyError before any assignment *)
  end.

Definition step_with (keyed : fname -> bool) (st : state) (o : op) : state * out :=
  match o with
  | SetMode s => set_mode st s
  | Call f a =>
    let '(v, c) := exec keyed (cur st) FUEL (store st) (CallThen f a Ret) in
    (mkState (cur st) c, OVal v)
  end.

(* the flat machine: a miss evaluates the pure helper and stores that entry only *)
Definition step_flat_with (keyed : fname -> bool) (st : state) (o : op) : state * out :=
  match o with
  | SetMode s => set_mode st s
  | Call f a =>
    let ky := mk_key keyed (cur st) f a in
    match lookup (store st) f ky with
    | Some v => (st, OVal v)
    | None => let v := pure f (smode (cur st)) a in
              (mkState (cur st) ((f, ky, v) :: store st), OVal v)
    end
  end.

(* the key table of the code under verification, read off the generated table *)
Fixpoint cached_row (n : string) (l : list (string * (list string * (list string * (bool * (bool * bool))))))
  : option (list string * (list string * (bool * (bool * bool)))) :=
  match l with
  | [] => None
  | (n', r) :: t => if String.eqb n n' then Some r else cached_row n t
  end.
Definition keyed_tbl (f : fname) : bool :=
  match cached_row (py_name f) CACHED with
  | Some (_, (_, (k, _))) => k
  | None => false
  end.

Definition step : state -> op -> state * out := step_with keyed_tbl.
Definition step_flat : state -> op -> state * out := step_flat_with keyed_tbl.

(* a whole history: fold_left over the operations, outputs in order *)
Definition run_gen (stp : state -> op -> state * out) (st : state) (ops : list op) : state * list out :=
  fold_left (fun (acc : state * list out) (o : op) =>
               let '(s, outs) := acc in
               let '(s', x) := stp s o in (s', (outs ++ [x])%list))
            ops (st, []).
Definition run_with (keyed : fname -> bool) := run_gen (step_with keyed).
Definition run := run_gen step.
Definition run_flat := run_gen step_flat.

(* ---------- the single-mode reference: no cache at all ---------- *)
Definition spec_step (c : string) (o : op) : string * out :=
  match o with
  | SetMode s =>
    let s' := norm_spelling s in
    match mode_of_spelling s' with Some _ => (s', OOk) | None => (c, OBadMode) end
  | Call f a => (c, OVal (pure f (smode c) a))
  end.
Fixpoint spec_run (c : string) (ops : list op) : list out :=
  match ops with
  | [] => []
  | o :: r => let '(c', x) := spec_step c o in x :: spec_run c' r
  end.
(* the spelling last (successfully) set by a history started with spelling c *)
Definition last_set (c : string) (ops : list op) : string :=
  fold_left (fun c o => fst (spec_step c o)) ops c.
