(* Model/RecText.v -- executable mirror of TimeRecurrence.__str__ and
   TimeRecurrence.__hash__ (data.py).  No proofs in here.

   __str__:
       prefix       = "R/" if repetitions is None else "R" + str(repetitions) + "/"
       duration_str = str(duration) if duration is not None else 'P0Y'
       format 1: prefix + str(start_point) + "/" + str(second_point)
       format 3: prefix + str(start_point) + "/" + duration_str
       format 4: prefix + duration_str + "/" + str(end_point)
       otherwise "R/?/?"
   The order of evaluation is kept: the prefix, then the duration text (also in
   format 1, where it is computed and thrown away: only whether it raises is
   observable), then the points from left to right.  str(None) is "None".
   Points are printed by Model/Dump's str() with no expanded year digits
   (do_str md 0), durations by Model/DurText's dur_str; what those two cannot
   answer is handed on unchanged:
       RtOverflow    OverflowError out of str(TimePoint) (negative year)
       RtValue       a ValueError (str(int) beyond CPython's 4300 digit limit,
                     or a ValueError-derived error of the dumper)
       RtUnmodelled  outside the modelled text domain (excluded from claims)

   __hash__: hash((repetitions, start_point, end_point, duration, min_point,
   max_point)); the model exposes the tuple whose components Python hashes,
   each time point by its own hash tuple (tp_hash_key), the duration by its
   own (dur_hash_key), None staying None.  min_point/max_point are never set
   by the constructor calls the model covers: always None. *)
From Coq Require Import ZArith QArith Qround List Bool String Ascii.
From Iso Require Import Spec.Cal Model.Num Model.Helpers Model.Duration Model.TimePoint Model.Forms
  Model.Parse Model.Dump Model.Recurrence Model.DurText Model.DriverText.
Import ListNotations.
Local Open Scope string_scope.
Local Open Scope Z_scope.

Inductive rtext := RtOk (s : string) | RtOverflow | RtValue | RtUnmodelled.

Definition rt_bind (m : rtext) (f : string -> rtext) : rtext :=
  match m with RtOk s => f s | RtOverflow => RtOverflow | RtValue => RtValue | RtUnmodelled => RtUnmodelled end.

(* str(p) for an optional point: str(None) = "None" *)
Definition opt_point_text (md : mode) (o : option tp) : rtext :=
  match o with
  | None => RtOk "None"
  | Some p =>
    match do_str md 0 p with
    | DOk s => RtOk s
    | DOverflow => RtOverflow
    | DUnmodelled => RtUnmodelled
    | DBounds | DSyntax | DErr | DBadInput => RtValue
    end
  end.

Definition rt_of_tres (t : tres string) : rtext :=
  match t with
  | TOk s => RtOk s
  | TUnmodelled => RtUnmodelled
  | TValueError | TSyntax | TBadInput => RtValue
  end.

(* "R/" or "R" + str(n) + "/" *)
Definition rec_prefix (reps : option Z) : rtext :=
  match reps with
  | None => RtOk "R/"
  | Some n => rt_bind (rt_of_tres (int_str n)) (fun s => RtOk ("R" ++ s ++ "/"))
  end.

(* str(int) of an int component cannot raise: at most 4300 digits *)
Definition int_fits (z : Z) : bool := (slen (show_Z (Z.abs z)) <=? INT_MAX_STR_DIGITS)%nat.
(* hours/minutes/seconds: a non-integer value is a float (repr never raises);
   an integer value is printed through str(int(v)) *)
Definition q_fits (x : Q) : bool :=
  let r := Qred x in negb (Zpos (Qden r) =? 1) || int_fits (Qnum r).
(* str(d) does not raise, whatever text it produces *)
Definition dur_str_no_raise (x : dur) : bool :=
  match x with
  | DW w => int_fits w
  | DU y mo d h mi s => int_fits y && int_fits mo && int_fits d && q_fits h && q_fits mi && q_fits s
  end.

(* str(self._duration) if self._duration is not None else 'P0Y' *)
Definition duration_text (o : option dur) : rtext :=
  match o with None => RtOk "P0Y" | Some d => rt_of_tres (dur_str d) end.
(* the same when the text is not used: where the text model has no answer but
   the call provably returns, carry on *)
Definition duration_text_unused (o : option dur) : rtext :=
  match o with
  | None => RtOk "P0Y"
  | Some d =>
    match dur_str d with
    | TUnmodelled => if dur_str_no_raise d then RtOk "" else RtUnmodelled
    | t => rt_of_tres t
    end
  end.

(* TimeRecurrence.__str__ *)
Definition rec_str (md : mode) (r : recur) : rtext :=
  rt_bind (rec_prefix (r_reps r)) (fun prefix =>
    if r_fmt r =? 1 then
      rt_bind (duration_text_unused (r_dur r)) (fun _ =>
      rt_bind (opt_point_text md (r_start r)) (fun s1 =>
      rt_bind (opt_point_text md (r_second r)) (fun s2 =>
        RtOk (prefix ++ s1 ++ "/" ++ s2))))
    else if r_fmt r =? 3 then
      rt_bind (duration_text (r_dur r)) (fun ds =>
      rt_bind (opt_point_text md (r_start r)) (fun s1 =>
        RtOk (prefix ++ s1 ++ "/" ++ ds)))
    else if r_fmt r =? 4 then
      rt_bind (duration_text (r_dur r)) (fun ds =>
      rt_bind (opt_point_text md (r_end r)) (fun s2 =>
        RtOk (prefix ++ ds ++ "/" ++ s2)))
    else
      rt_bind (duration_text_unused (r_dur r)) (fun _ => RtOk "R/?/?")).

(* ---------- __hash__ ---------- *)
Definition tp_key := (Z * Z * Z * (Q * Q * Q))%type.
Definition dur_key := (Z * Z * Q)%type.
Record rec_key := mkRecKey {
  k_reps : option Z;
  k_start : option tp_key;
  k_end : option tp_key;
  k_dur : option dur_key;
  k_min : option tp_key;      (* always None *)
  k_max : option tp_key       (* always None *)
}.

(* hash(None) needs nothing; hash(point) may raise: outer None *)
Definition opt_tp_key (md : mode) (o : option tp) : option (option tp_key) :=
  match o with
  | None => Some None
  | Some p => match tp_hash_key md p with Some k => Some (Some k) | None => None end
  end.

(* None = computing the hash raised (hashing one of the points raised) *)
Definition rec_hash_key (md : mode) (r : recur) : option rec_key :=
  match opt_tp_key md (r_start r), opt_tp_key md (r_end r) with
  | Some ks, Some ke =>
    Some (mkRecKey (r_reps r) ks ke (option_map dur_hash_key (r_dur r)) None None)
  | _, _ => None
  end.
