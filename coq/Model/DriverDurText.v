(* Model/DriverDurText.v -- line-protocol operations of property C10
   (durations <-> text).  Ops:
     dstr <dur>        -> str(d)                       | ERR | UNMODELLED
     dparse [<token>]  -> sh_dur (parse text)           | ERR | UNMODELLED
                          (token = percent-encoded text; no token = "")
     dround <dur>      -> <text> ; <sh_dur parsed> ; eq <0|1> ; fix <0|1>
                          | ERR | UNMODELLED | <text> ; ERR | <text> ; UNMODELLED *)
From Coq Require Import ZArith NArith QArith List Bool String Ascii.
From Iso Require Import Model.Num Model.Duration Model.Driver Model.DurText.
Import ListNotations.
Open Scope string_scope.

Definition hex_val (c : ascii) : option N :=
  let n := N_of_ascii c in
  if ((48 <=? n) && (n <=? 57))%N then Some (n - 48)%N
  else if ((65 <=? n) && (n <=? 70))%N then Some (n - 55)%N
  else if ((97 <=? n) && (n <=? 102))%N then Some (n - 87)%N
  else None.
(* %XY -> the byte; anything else literally *)
Fixpoint pct_decode (s : string) : string :=
  match s with
  | EmptyString => EmptyString
  | String c r =>
    if Ascii.eqb c "%" then
      match r with
      | String a (String b r') =>
        match hex_val a, hex_val b with
        | Some x, Some y => String (ascii_of_N (16 * x + y)) (pct_decode r')
        | _, _ => String c (pct_decode r)
        end
      | _ => String c (pct_decode r)
      end
    else String c (pct_decode r)
  end.

Definition sh_tres_dur (r : DurText.tres dur) : string :=
  match r with
  | DurText.TOk d => sh_dur d
  | TUnmodelled => "UNMODELLED"
  | _ => "ERR"
  end.
Definition sh_tres_str (r : DurText.tres string) : string :=
  match r with
  | DurText.TOk s => s
  | TUnmodelled => "UNMODELLED"
  | _ => "ERR"
  end.

(* zero or one token *)
Definition rTextTok : rd string :=
  fun ts => match ts with [] => Some (EmptyString, []) | t :: r => Some (pct_decode t, r) end.

Definition dround_out (d : dur) : string :=
  match dur_str d with
  | DurText.TOk text =>
    match dur_parse text with
    | DurText.TOk d' =>
      unwords [text; ";"; sh_dur d'; ";"; "eq"; sh_bool (dur_eqb d' d); ";"; "fix";
               sh_bool (match dur_str d' with DurText.TOk t2 => String.eqb t2 text | _ => false end)]
    | r => unwords [text; ";"; sh_tres_dur r]
    end
  | r => sh_tres_str r
  end.

Definition ops_durtext : list (string * rd string) :=
  [ ("dstr", d <- rDur ;; ret (sh_tres_str (dur_str d)));
    ("dparse", t <- rTextTok ;; ret (sh_tres_dur (dur_parse t)));
    ("dround", d <- rDur ;; ret (dround_out d)) ].
