(* Model/DurText.v -- executable mirror of Duration.__str__ (data.py) and
   DurationParser.parse (parsers.py).  No proofs in here.

   Numbers: years/months/days/weeks are Python ints (Z); hours/minutes/seconds
   are Python floats or ints, modelled as exact rationals (the ideal semantics
   used everywhere in this development).  The text <-> number conversions of
   CPython that the package calls (str(int), int(str), repr(float),
   float(str)) are modelled on the domain where they are exact:
     - str(int)/int(str): any size up to CPython's default 4300 digit limit
       (beyond it both raise ValueError);
     - repr(float): rationals with a finite decimal expansion of at most 15
       significant digits, 1e-4 <= |x| (below that Python switches to exponent
       notation); such a decimal is the shortest one that round-trips, hence
       what repr prints.  Everything else is TUnmodelled;
     - float(str): plain decimals digits[.digits] of at most 15 significant
       digits (exact round trip decimal -> double -> shortest decimal); other
       strings that float() accepts (exponents, underscores, trailing white
       space, more digits) are TUnmodelled; strings float() rejects raise
       ValueError (TValueError).
   Input text is ASCII; any byte >= 128 is TUnmodelled (Python's \d and int()
   are Unicode-aware). *)
From Coq Require Import ZArith NArith QArith Qround Qabs List Bool String Ascii.
From Iso Require Import Model.Num Model.Duration.
Import ListNotations.
Open Scope string_scope.
Open Scope Z_scope.

Inductive tres (A : Type) : Type :=
| TOk (a : A)
| TSyntax          (* ISO8601SyntaxError *)
| TBadInput        (* BadInputError (not reachable from the modelled paths) *)
| TValueError      (* plain ValueError out of int()/float()/str(int) *)
| TUnmodelled.     (* outside the modelled domain: excluded from every claim *)
Arguments TOk {A} a.
Arguments TSyntax {A}.
Arguments TBadInput {A}.
Arguments TValueError {A}.
Arguments TUnmodelled {A}.

Definition tbind {A B} (m : tres A) (f : A -> tres B) : tres B :=
  match m with
  | TOk a => f a
  | TSyntax => TSyntax | TBadInput => TBadInput
  | TValueError => TValueError | TUnmodelled => TUnmodelled
  end.
Definition tmap {A B} (f : A -> B) (m : tres A) : tres B := tbind m (fun a => TOk (f a)).

(* ---------- the strings this model was written for ----------
   (compared with coq/gen/DurGrammar.v, regenerated from the package on every
   run, in Proofs/DurTextSpec.v) *)
Definition EXPECTED_DURATION_PATTERNS_X : list string :=
  [ "^P(?:(?P<years>\d+)Y)?(?:(?P<months>\d+)M)?(?:(?P<days>\d+)D)?$";
    "^P(?:(?P<years>\d+)Y)?(?:(?P<months>\d+)M)?(?:(?P<days>\d+)D)?T(?:(?P<hours>\d.*)H)?(?:(?P<minutes>\d.*)M)?(?:(?P<seconds>\d.*)S)?$";
    "^P(?P<weeks>\d+)W$" ].
Definition EXPECTED_DURATION_FLAGS : list Z := [64; 64; 64].   (* re.X, nothing else *)
(* what the date-time-like fallback can reach: complete dates, then the
   complete and reduced times of the same format (format, [type,] expression,
   regex), in the order in which they are tried *)
Definition EXPECTED_ALT_DATE_REGEXES : list (string * string * string) :=
  [ ("basic", "CCYYMMDD", "^(?P<century>[0-9][0-9])(?P<year_of_century>[0-9][0-9])(?P<month_of_year>[0-9][0-9])(?P<day_of_month>[0-9][0-9])$");
    ("basic", "+XCCYYMMDD", "^(?P<year_sign>[-+])(?P<expanded_year>[0-9][0-9])(?P<century>[0-9][0-9])(?P<year_of_century>[0-9][0-9])(?P<month_of_year>[0-9][0-9])(?P<day_of_month>[0-9][0-9])$");
    ("basic", "CCYYDDD", "^(?P<century>[0-9][0-9])(?P<year_of_century>[0-9][0-9])(?P<day_of_year>[0-9][0-9][0-9])$");
    ("basic", "+XCCYYDDD", "^(?P<year_sign>[-+])(?P<expanded_year>[0-9][0-9])(?P<century>[0-9][0-9])(?P<year_of_century>[0-9][0-9])(?P<day_of_year>[0-9][0-9][0-9])$");
    ("basic", "CCYYWwwD", "^(?P<century>[0-9][0-9])(?P<year_of_century>[0-9][0-9])W(?P<week_of_year>[0-9][0-9])(?P<day_of_week>[0-9])$");
    ("basic", "+XCCYYWwwD", "^(?P<year_sign>[-+])(?P<expanded_year>[0-9][0-9])(?P<century>[0-9][0-9])(?P<year_of_century>[0-9][0-9])W(?P<week_of_year>[0-9][0-9])(?P<day_of_week>[0-9])$");
    ("extended", "CCYY-MM-DD", "^(?P<century>[0-9][0-9])(?P<year_of_century>[0-9][0-9])-(?P<month_of_year>[0-9][0-9])-(?P<day_of_month>[0-9][0-9])$");
    ("extended", "+XCCYY-MM-DD", "^(?P<year_sign>[-+])(?P<expanded_year>[0-9][0-9])(?P<century>[0-9][0-9])(?P<year_of_century>[0-9][0-9])-(?P<month_of_year>[0-9][0-9])-(?P<day_of_month>[0-9][0-9])$");
    ("extended", "CCYY-DDD", "^(?P<century>[0-9][0-9])(?P<year_of_century>[0-9][0-9])-(?P<day_of_year>[0-9][0-9][0-9])$");
    ("extended", "+XCCYY-DDD", "^(?P<year_sign>[-+])(?P<expanded_year>[0-9][0-9])(?P<century>[0-9][0-9])(?P<year_of_century>[0-9][0-9])-(?P<day_of_year>[0-9][0-9][0-9])$");
    ("extended", "CCYY-Www-D", "^(?P<century>[0-9][0-9])(?P<year_of_century>[0-9][0-9])-W(?P<week_of_year>[0-9][0-9])-(?P<day_of_week>[0-9])$");
    ("extended", "+XCCYY-Www-D", "^(?P<year_sign>[-+])(?P<expanded_year>[0-9][0-9])(?P<century>[0-9][0-9])(?P<year_of_century>[0-9][0-9])-W(?P<week_of_year>[0-9][0-9])-(?P<day_of_week>[0-9])$") ].
Definition EXPECTED_ALT_TIME_REGEXES : list (string * string * string * string) :=
  [ ("basic", "complete", "hhmmss", "^(?P<hour_of_day>[0-9][0-9])(?P<minute_of_hour>[0-9][0-9])(?P<second_of_minute>[0-9][0-9])$");
    ("basic", "complete", "hhmmss,tt", "^(?P<hour_of_day>[0-9][0-9])(?P<minute_of_hour>[0-9][0-9])(?P<second_of_minute>[0-9][0-9]),(?P<second_of_minute_decimal>[0-9]+)$");
    ("basic", "complete", "hhmm,nn", "^(?P<hour_of_day>[0-9][0-9])(?P<minute_of_hour>[0-9][0-9]),(?P<minute_of_hour_decimal>[0-9]+)$");
    ("basic", "complete", "hh,ii", "^(?P<hour_of_day>[0-9][0-9]),(?P<hour_of_day_decimal>[0-9]+)$");
    ("basic", "complete", "hhmmss.tt", "^(?P<hour_of_day>[0-9][0-9])(?P<minute_of_hour>[0-9][0-9])(?P<second_of_minute>[0-9][0-9])\.(?P<second_of_minute_decimal>[0-9]+)$");
    ("basic", "complete", "hhmm.nn", "^(?P<hour_of_day>[0-9][0-9])(?P<minute_of_hour>[0-9][0-9])\.(?P<minute_of_hour_decimal>[0-9]+)$");
    ("basic", "complete", "hh.ii", "^(?P<hour_of_day>[0-9][0-9])\.(?P<hour_of_day_decimal>[0-9]+)$");
    ("basic", "reduced", "hhmm", "^(?P<hour_of_day>[0-9][0-9])(?P<minute_of_hour>[0-9][0-9])$");
    ("basic", "reduced", "hh", "^(?P<hour_of_day>[0-9][0-9])$");
    ("extended", "complete", "hh:mm:ss", "^(?P<hour_of_day>[0-9][0-9]):(?P<minute_of_hour>[0-9][0-9]):(?P<second_of_minute>[0-9][0-9])$");
    ("extended", "complete", "hh:mm:ss,tt", "^(?P<hour_of_day>[0-9][0-9]):(?P<minute_of_hour>[0-9][0-9]):(?P<second_of_minute>[0-9][0-9]),(?P<second_of_minute_decimal>[0-9]+)$");
    ("extended", "complete", "hh:mm,nn", "^(?P<hour_of_day>[0-9][0-9]):(?P<minute_of_hour>[0-9][0-9]),(?P<minute_of_hour_decimal>[0-9]+)$");
    ("extended", "complete", "hh,ii", "^(?P<hour_of_day>[0-9][0-9]),(?P<hour_of_day_decimal>[0-9]+)$");
    ("extended", "complete", "hh:mm:ss.tt", "^(?P<hour_of_day>[0-9][0-9]):(?P<minute_of_hour>[0-9][0-9]):(?P<second_of_minute>[0-9][0-9])\.(?P<second_of_minute_decimal>[0-9]+)$");
    ("extended", "complete", "hh:mm.nn", "^(?P<hour_of_day>[0-9][0-9]):(?P<minute_of_hour>[0-9][0-9])\.(?P<minute_of_hour_decimal>[0-9]+)$");
    ("extended", "complete", "hh.ii", "^(?P<hour_of_day>[0-9][0-9])\.(?P<hour_of_day_decimal>[0-9]+)$");
    ("extended", "reduced", "hh:mm", "^(?P<hour_of_day>[0-9][0-9]):(?P<minute_of_hour>[0-9][0-9])$");
    ("extended", "reduced", "hh", "^(?P<hour_of_day>[0-9][0-9])$") ].

(* ---------- characters and digit strings ---------- *)
Definition NL : ascii := "010"%char.
Definition is_digit (c : ascii) : bool :=
  let n := N_of_ascii c in (48 <=? n)%N && (n <=? 57)%N.
Definition is_ascii7 (c : ascii) : bool := (N_of_ascii c <? 128)%N.
Definition digit_val (c : ascii) : Z := Z.of_N (N_of_ascii c) - 48.
Definition digit_char (z : Z) : ascii := ascii_of_N (Z.to_N (z + 48)).

Fixpoint str_all (p : ascii -> bool) (s : string) : bool :=
  match s with EmptyString => true | String c r => p c && str_all p r end.
Definition all_digits (s : string) : bool := str_all is_digit s.
Definition str_nonempty (s : string) : bool := match s with EmptyString => false | _ => true end.
Definition slen (s : string) : nat := String.length s.

(* int(s) for a string of ASCII digits: positional value, leading zeros allowed *)
Fixpoint dec_acc (s : string) (a : Z) : Z :=
  match s with EmptyString => a | String c r => dec_acc r (a * 10 + digit_val c) end.
Definition dec_val (s : string) : Z := dec_acc s 0.

(* longest prefix of digits, and the rest *)
Fixpoint span_digits (s : string) : string * string :=
  match s with
  | EmptyString => (EmptyString, EmptyString)
  | String c r => if is_digit c then let (a, b) := span_digits r in (String c a, b)
                  else (EmptyString, s)
  end.

(* CPython: sys.get_int_max_str_digits() default *)
Definition INT_MAX_STR_DIGITS : nat := 4300.
(* int(ds) for ds matched by \d+ *)
Definition conv_int (ds : string) : tres Z :=
  if (slen ds <=? INT_MAX_STR_DIGITS)%nat then TOk (dec_val ds) else TValueError.
(* str(z) for a Python int *)
Definition int_str (z : Z) : tres string :=
  if (slen (show_Z (Z.abs z)) <=? INT_MAX_STR_DIGITS)%nat then TOk (show_Z z) else TValueError.

(* ---------- decimals: the float <-> text domain ---------- *)
Fixpoint lstrip0 (s : string) : string :=
  match s with
  | String c r => if Ascii.eqb c "0" then lstrip0 r else s
  | EmptyString => EmptyString
  end.
(* drop trailing zeros *)
Fixpoint rstrip0 (s : string) : string :=
  match s with
  | EmptyString => EmptyString
  | String c r => let r' := rstrip0 r in
                  match r' with
                  | EmptyString => if Ascii.eqb c "0" then EmptyString else String c EmptyString
                  | _ => String c r'
                  end
  end.
(* the decimal i.f has at most 15 significant digits (exact through a double
   and back) and is not so small that it becomes a denormal *)
Definition float_safe (i f : string) : bool :=
  let f' := rstrip0 f in
  (slen (lstrip0 (i ++ f')) <=? 15)%nat && (slen f' <=? 300)%nat.
(* value of the decimal i.f *)
Definition dval (i f : string) : Q :=
  let k := Z.of_nat (slen f) in
  Qred (Qmake (dec_val i * 10 ^ k + dec_val f) (Z.to_pos (10 ^ k))).

(* long division: the fractional digits of r/den (0 <= r < den) when the
   expansion terminates within `fuel` digits *)
Fixpoint fdig (fuel : nat) (r den : Z) : option string :=
  if r =? 0 then Some EmptyString else
  match fuel with
  | O => None
  | S f => match fdig f ((r * 10) mod den) den with
           | Some s => Some (String (digit_char ((r * 10) / den)) s)
           | None => None
           end
  end.
Definition FDIG_FUEL : nat := 24.

(* repr(x) with "." already replaced by "," for a reduced, positive,
   non-integer x *)
Definition frac_str (x : Q) : tres string :=
  let n := Qnum x in let d := Zpos (Qden x) in
  if Qle_bool (1 # 10000) x then
    match fdig FDIG_FUEL (n mod d) d with
    | None => TUnmodelled
    | Some f => let i := show_Z (n / d) in
                if float_safe i f then TOk (i ++ "," ++ f) else TUnmodelled
    end
  else TUnmodelled.

(* ---------- Duration.__str__ ---------- *)
(* one int-valued unit: emitted only when truthy *)
Definition z_unit (z : Z) (u : string) : tres string :=
  if z =? 0 then TOk "" else tmap (fun s => s ++ u) (int_str z).
(* one float-or-int valued unit *)
Definition q_unit (x : Q) (u : string) : tres string :=
  let r := Qred x in
  if Qeq_bool r 0 then TOk ""
  else if (Zpos (Qden r) =? 1) then
    (* int(v) == v: str(int(v)) *)
    if float_safe (show_Z (Z.abs (Qnum r))) "" then TOk (show_Z (Qnum r) ++ u) else TUnmodelled
  else if 0 <? Qnum r then tmap (fun s => s ++ u) (frac_str r)
  else tmap (fun s => "-" ++ s ++ u) (frac_str (Qred (- r))).

(* the part of __str__ after the falsy and fully-negative tests *)
Definition dur_str_body (x : dur) : tres string :=
  match x with
  | DW w => tmap (fun s => "P" ++ s ++ "W") (int_str w)
  | DU y mo d h mi s =>
    tbind (z_unit y "Y") (fun ys =>
    tbind (z_unit mo "M") (fun mos =>
    tbind (z_unit d "D") (fun ds =>
    tbind (q_unit h "H") (fun hs =>
    tbind (q_unit mi "M") (fun mis =>
    tbind (q_unit s "S") (fun ss =>
      let time := hs ++ mis ++ ss in
      (* content ends with "T" exactly when no time unit was written *)
      TOk ("P" ++ ys ++ mos ++ ds ++
           (if str_nonempty time then "T" ++ time else ""))))))))
  end.

Definition qsgn (x : Q) : Z := Z.sgn (Qnum x).
(* is_fully_negative: no positive attribute and at least one negative *)
Definition fully_negative (x : dur) : bool :=
  match x with
  | DW w => w <? 0
  | DU y mo d h mi s =>
    let l := [Z.sgn y; Z.sgn mo; Z.sgn d; qsgn h; qsgn mi; qsgn s] in
    forallb (fun t => t <=? 0) l && existsb (fun t => t <? 0) l
  end.

Definition dur_str (x : dur) : tres string :=
  if negb (dur_bool x) then TOk "P0Y"
  else if fully_negative x then tmap (fun s => "-" ++ s) (dur_str_body (dur_abs x))
  else dur_str_body x.

(* ---------- DurationParser.DURATION_REGEXES ---------- *)
(* `$` without re.M: at the end, or before a final newline *)
Definition at_end (s : string) : bool :=
  match s with
  | EmptyString => true
  | String c EmptyString => Ascii.eqb c NL
  | _ => false
  end.

(* all tests on characters are written with Ascii.eqb (not literal patterns) so
   that they reduce on symbolic strings *)
Definition uncons (c : ascii) (s : string) : option string :=
  match s with
  | String a r => if Ascii.eqb a c then Some r else None
  | EmptyString => None
  end.

(* optional group [digits, c] -- deterministic: digits cannot be the designator, and
   nothing that follows in the patterns can start with digits followed by c *)
Definition take_unit (c : ascii) (s : string) : option string * string :=
  let (ds, r) := span_digits s in
  if str_nonempty ds then
    match uncons c r with
    | Some r' => (Some ds, r')
    | None => (None, s)
    end
  else (None, s).

Definition match_date (s : string) : option string * option string * option string * string :=
  let (y, r1) := take_unit "Y" s in
  let (mo, r2) := take_unit "M" r1 in
  let (d, r3) := take_unit "D" r2 in (y, mo, d, r3).

(* `.*c` then k, greedy with backtracking: the LAST c (not beyond a newline,
   which `.` does not match) after which k succeeds *)
Fixpoint last_split {A} (c : ascii) (s : string) (k : string -> option A) : option (string * A) :=
  match s with
  | EmptyString => None
  | String a r =>
    if Ascii.eqb a NL then None else
    match last_split c r k with
    | Some (pre, x) => Some (String a pre, x)
    | None => if Ascii.eqb a c then
                match k r with Some x => Some (EmptyString, x) | None => None end
              else None
    end
  end.
(* optional group [digit, anything, c] then k: first with the group, then without *)
Definition opt_group {A} (c : ascii) (s : string) (k : string -> option A) : option (option string * A) :=
  let skip := match k s with Some x => Some (None, x) | None => None end in
  match s with
  | String d r =>
    if is_digit d then
      match last_split c r k with
      | Some (pre, x) => Some (Some (String d pre), x)
      | None => skip
      end
    else skip
  | EmptyString => skip
  end.
Definition match_time (s : string) : option (option string * option string * option string) :=
  match opt_group "H" s (fun r1 =>
        opt_group "M" r1 (fun r2 =>
        opt_group "S" r2 (fun r3 => if at_end r3 then Some tt else None))) with
  | Some (h, (mi, (se, _))) => Some (h, mi, se)
  | None => None
  end.

Record groups := mkGroups {
  g_years : option string; g_months : option string; g_days : option string;
  g_hours : option string; g_minutes : option string; g_seconds : option string;
  g_weeks : option string }.

Definition re1 (s : string) : option groups :=
  match uncons "P" s with
  | Some r =>
    let '(y, mo, d, r3) := match_date r in
    if at_end r3 then Some (mkGroups y mo d None None None None) else None
  | None => None
  end.
Definition re2 (s : string) : option groups :=
  match uncons "P" s with
  | Some r =>
    let '(y, mo, d, r3) := match_date r in
    match uncons "T" r3 with
    | Some t =>
      match match_time t with
      | Some (h, mi, se) => Some (mkGroups y mo d h mi se None)
      | None => None
      end
    | None => None
    end
  | None => None
  end.
Definition re3 (s : string) : option groups :=
  match uncons "P" s with
  | Some r =>
    let (ds, r1) := span_digits r in
    if str_nonempty ds then
      match uncons "W" r1 with
      | Some r2 => if at_end r2 then Some (mkGroups None None None None None None (Some ds)) else None
      | None => None
      end
    else None
  | None => None
  end.

(* ---------- float(value) for a \d.* group ---------- *)
Fixpoint comma_to_point (s : string) : string :=
  match s with
  | EmptyString => EmptyString
  | String c r => String (if Ascii.eqb c "," then "."%char else c) (comma_to_point r)
  end.
(* what float() strips: Py_ISSPACE after the unicode transform *)
Definition is_ws (c : ascii) : bool :=
  let n := N_of_ascii c in ((9 <=? n)%N && (n <=? 13)%N) || (n =? 32)%N.
(* after one digit: any number of [optional underscore, digit] *)
Fixpoint dp_rest (s : string) : string :=
  match s with
  | EmptyString => EmptyString
  | String c r =>
    if is_digit c then dp_rest r
    else if Ascii.eqb c "_" then
      match r with
      | String c2 r2 => if is_digit c2 then dp_rest r2 else s
      | EmptyString => s
      end
    else s
  end.
Definition digitpart (s : string) : option string :=
  match s with
  | String c r => if is_digit c then Some (dp_rest r) else None
  | EmptyString => None
  end.
(* does float() accept v?  (v starts with a digit, so neither a sign nor
   inf/nan): digitpart, optional [point, optional digitpart], optional
   [e or E, optional sign, digitpart], trailing white space *)
Definition float_accepts (v : string) : bool :=
  match digitpart v with
  | None => false
  | Some r1 =>
    let r2 := match r1 with
              | String "." r => match digitpart r with Some r' => r' | None => r end
              | _ => r1
              end in
    let r3 := match r2 with
              | String e r =>
                if Ascii.eqb e "e" || Ascii.eqb e "E" then
                  let r' := match r with
                            | String sg r'' => if Ascii.eqb sg "+" || Ascii.eqb sg "-" then r'' else r
                            | EmptyString => r
                            end in
                  match digitpart r' with Some r'' => r'' | None => r2 end
                else r2
              | EmptyString => r2
              end in
    str_all is_ws r3
  end.

Definition conv_float (s : string) : tres Q :=
  let v := comma_to_point s in
  let other := if float_accepts v then TUnmodelled else TValueError in
  let plain (i f : string) := if float_safe i f then TOk (dval i f) else TUnmodelled in
  let (i, r) := span_digits v in
  if str_nonempty i then
    match r with
    | EmptyString => plain i EmptyString
    | String a fr =>
      if Ascii.eqb a "." then
        let (f, r2) := span_digits fr in
        if str_nonempty r2 then other else plain i f
      else other
    end
  else other.

(* ---------- the conversion loop of DurationParser.parse ---------- *)
Definition conv_oint (o : option string) : tres Z :=
  match o with None => TOk 0 | Some ds => conv_int ds end.
Definition conv_ofloat (o : option string) : tres Q :=
  match o with None => TOk 0%Q | Some s => conv_float s end.
Definition is_verr {A} (r : tres A) : bool := match r with TValueError => true | _ => false end.

(* values are converted in group order; the first failing conversion raises.
   A TUnmodelled conversion is one Python accepts, so a later ValueError still
   surfaces. *)
Definition convert (sg : Z) (g : groups) : tres dur :=
  let y := conv_oint (g_years g) in let mo := conv_oint (g_months g) in
  let d := conv_oint (g_days g) in let w := conv_oint (g_weeks g) in
  let h := conv_ofloat (g_hours g) in let mi := conv_ofloat (g_minutes g) in
  let s := conv_ofloat (g_seconds g) in
  if is_verr y || is_verr mo || is_verr d || is_verr h || is_verr mi || is_verr s || is_verr w
  then TValueError
  else
    tbind y (fun y => tbind mo (fun mo => tbind d (fun d => tbind h (fun h =>
    tbind mi (fun mi => tbind s (fun s => tbind w (fun w =>
      TOk (dur_make (y * sg) (mo * sg) (w * sg) (d * sg)
                    (qmul h (qz sg)) (qmul mi (qz sg)) (qmul s (qz sg)))))))))).

(* ---------- the date-time-like fallback ----------
   parse_timepoint_expression(expression[1:], is_duration=True,
   allow_truncated=False, assumed_time_zone=(0, 0)).  Modelled: a complete
   calendar, ordinal or week date followed by T and the complete time hhmmss
   of the same format, no zone, no sign, no decimals.  Every other string that
   reaches the fallback is TUnmodelled. *)
Fixpoint stake (n : nat) (s : string) : string :=
  match n, s with
  | S n', String c r => String c (stake n' r)
  | _, _ => EmptyString
  end.
Fixpoint sdrop (n : nat) (s : string) : string :=
  match n, s with
  | S n', String c r => sdrop n' r
  | _, _ => s
  end.

Definition alt_make (y mo d h mi s : string) : tres dur :=
  (* fields never exceed 4 digits: no conversion can fail; hours, minutes and
     seconds come back as ints (through _int_caster) *)
  TOk (dur_make (dec_val y) (dec_val mo) 0 (dec_val d)
                (qz (dec_val h)) (qz (dec_val mi)) (qz (dec_val s))).

(* the time of a basic form: exactly hhmmss *)
Definition alt_time_basic (t : string) : option (string * string * string) :=
  let (ds, r) := span_digits t in
  if str_nonempty r then None
  else if (slen ds =? 6)%nat then Some (stake 2 ds, stake 2 (sdrop 2 ds), sdrop 4 ds) else None.
(* the time of an extended form: exactly hh:mm:ss *)
Definition alt_time_ext (t : string) : option (string * string * string) :=
  let (h, r1) := span_digits t in
  match uncons ":" r1 with
  | Some t2 =>
    let (mi, r2) := span_digits t2 in
    match uncons ":" r2 with
    | Some t3 =>
      let (s, r3) := span_digits t3 in
      if str_nonempty r3 then None
      else if (slen h =? 2)%nat && (slen mi =? 2)%nat && (slen s =? 2)%nat then Some (h, mi, s) else None
    | None => None
    end
  | None => None
  end.

Definition alt_basic (a r : string) : tres dur :=
  match uncons "T" r with
  | Some t =>
    (* CCYYMMDD or CCYYDDD *)
    match alt_time_basic t with
    | Some (h, mi, s) =>
      if (slen a =? 8)%nat then alt_make (stake 4 a) (stake 2 (sdrop 4 a)) (sdrop 6 a) h mi s
      else if (slen a =? 7)%nat then alt_make (stake 4 a) "0" (sdrop 4 a) h mi s
      else TUnmodelled
    | None => TUnmodelled
    end
  | None =>
    match uncons "W" r with
    | Some r1 =>
      (* basic week date CCYYWwwD: get_is_week_date() => ISO8601SyntaxError *)
      let (wd, r2) := span_digits r1 in
      match uncons "T" r2 with
      | Some t =>
        match alt_time_basic t with
        | Some _ => if (slen a =? 4)%nat && (slen wd =? 3)%nat then TSyntax else TUnmodelled
        | None => TUnmodelled
        end
      | None => TUnmodelled
      end
    | None => TUnmodelled
    end
  end.

Definition alt_extended (a r1 : string) : tres dur :=
  (* after CCYY- *)
  match uncons "W" r1 with
  | Some r2 =>
    (* extended week date CCYY-Www-D *)
    let (w, r3) := span_digits r2 in
    match uncons "-" r3 with
    | Some r4 =>
      let (dd, r5) := span_digits r4 in
      match uncons "T" r5 with
      | Some t =>
        match alt_time_ext t with
        | Some _ => if (slen w =? 2)%nat && (slen dd =? 1)%nat then TSyntax else TUnmodelled
        | None => TUnmodelled
        end
      | None => TUnmodelled
      end
    | None => TUnmodelled
    end
  | None =>
    let (b, r2) := span_digits r1 in
    match uncons "T" r2 with
    | Some t =>
      (* CCYY-DDD *)
      match alt_time_ext t with
      | Some (h, mi, s) => if (slen b =? 3)%nat then alt_make a "0" b h mi s else TUnmodelled
      | None => TUnmodelled
      end
    | None =>
      match uncons "-" r2 with
      | Some r3 =>
        (* CCYY-MM-DD *)
        let (c, r4) := span_digits r3 in
        match uncons "T" r4 with
        | Some t =>
          match alt_time_ext t with
          | Some (h, mi, s) =>
            if (slen b =? 2)%nat && (slen c =? 2)%nat then alt_make a b c h mi s else TUnmodelled
          | None => TUnmodelled
          end
        | None => TUnmodelled
        end
      | None => TUnmodelled
      end
    end
  end.

Definition alt_forms (e : string) : tres dur :=
  let (a, r) := span_digits e in
  match uncons "-" r with
  | Some r1 => if (slen a =? 4)%nat then alt_extended a r1 else TUnmodelled
  | None => alt_basic a r
  end.

(* Sound rejection in the fallback.  Every regex of the time point parser is
   built from the literal characters and digit classes below (regenerated and
   checked: EXPECTED_ALT_*_ALPHABET against gen/DurGrammar.v), so a date part
   holding any other character matches no date regex, and a time part holding
   any other character matches neither a time nor a zone regex, whichever way
   get_info splits it: ISO8601SyntaxError.  A newline is left alone (`$` also
   matches before a final newline).  More than one T makes the two-variable
   unpacking of split("T") raise a plain ValueError. *)
Definition EXPECTED_ALT_DATE_ALPHABET : string := "+-0123456789W".
Definition EXPECTED_ALT_TIME_ALPHABET : string := ",-.0123456789:".
Definition EXPECTED_ALT_ZONE_ALPHABET : string := "+-0123456789:Z".
Fixpoint str_mem (c : ascii) (s : string) : bool :=
  match s with EmptyString => false | String a r => Ascii.eqb a c || str_mem c r end.
Definition has_foreign (alphabet : string) (s : string) : bool :=
  negb (str_all (fun c => Ascii.eqb c NL || str_mem c alphabet) s).
Definition alt_reject (e : string) : tres dur :=
  match split_on "T" e "" with
  | [d] => if has_foreign EXPECTED_ALT_DATE_ALPHABET d then TSyntax else TUnmodelled
  | [d; t] =>
    if has_foreign EXPECTED_ALT_DATE_ALPHABET d ||
       has_foreign (EXPECTED_ALT_TIME_ALPHABET ++ EXPECTED_ALT_ZONE_ALPHABET) t
    then TSyntax else TUnmodelled
  | _ => TValueError
  end.

Definition alt_parse (e : string) : tres dur :=
  match alt_forms e with
  | TUnmodelled => alt_reject e
  | r => r
  end.

(* ---------- DurationParser.parse ---------- *)
Definition dur_parse (expr : string) : tres dur :=
  if negb (str_all is_ascii7 expr) then TUnmodelled else
  let (sg, e) := match uncons "-" expr with
                 | Some r => (-1, r)
                 | None => (1, expr)
                 end in
  match re1 e with
  | Some g => convert sg g
  | None =>
    match re2 e with
    | Some g => convert sg g
    | None =>
      match re3 e with
      | Some g => convert sg g
      | None =>
        match uncons "P" e with
        | Some r => if sg =? -1 then TSyntax else alt_parse r
        | None => TSyntax
        end
      end
    end
  end.
