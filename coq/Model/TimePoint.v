(* Model/TimePoint.v -- executable mirror of the non-truncated part of class
   TimePoint (data.py): conversions, _tick_over, __add__, add_months,
   to_time_zone, _cmp, __hash__, __sub__.  Mode is an explicit argument.
   Loops are Pos.iter of a guarded step with a bound computed from the input;
   Proofs/ shows each bound suffices.  No proofs in here. *)
From Coq Require Import ZArith QArith Qround List Bool.
From Iso Require Import Spec.Cal Model.Num Model.Helpers Model.Duration.
Import ListNotations.
Open Scope Z_scope.

Inductive date := Cal (y m d : Z) | Ord (y doy : Z) | Wk (y w d : Z).
(* the three time-precision shapes the constructor guarantees *)
Inductive tod := HMS (h m s : Q) | HM (h m : Q) | HH (h : Q).
Record zone := mkZone { zh : Z; zm : Z }.
Record tp := mkTp { tdate : date; ttod : tod; tzone : zone }.

Definition date_year (d : date) : Z := match d with Cal y _ _ | Ord y _ | Wk y _ _ => y end.
Definition rep_kind (d : date) : Z := match d with Cal _ _ _ => 0 | Ord _ _ => 1 | Wk _ _ _ => 2 end.
Definition tod_kind (t : tod) : Z := match t with HMS _ _ _ => 0 | HM _ _ => 1 | HH _ => 2 end.

(* ---------- conversions (get_calendar_date / get_ordinal_date / get_week_date) ---------- *)
Definition get_calendar_date (md : mode) (d : date) : option (Z * Z * Z) :=
  match d with
  | Cal y m dd => Some (y, m, dd)
  | Ord y doy => cal_from_ord md y doy
  | Wk y w dd => cal_from_week md y w dd
  end.
Definition get_ordinal_date (md : mode) (d : date) : option (Z * Z) :=
  match d with
  | Cal y m dd => ord_from_cal md y m dd
  | Ord y doy => Some (y, doy)
  | Wk y w dd => ord_from_week md y w dd
  end.
Definition get_week_date (md : mode) (d : date) : option (Z * Z * Z) :=
  match d with
  | Cal y m dd => week_from_cal md y m dd
  | Ord y doy => week_from_ord md y doy
  | Wk y w dd => Some (y, w, dd)
  end.
Definition to_calendar_date md (d : date) : option date :=
  match get_calendar_date md d with Some (y, m, dd) => Some (Cal y m dd) | None => None end.
Definition to_ordinal_date md (d : date) : option date :=
  match get_ordinal_date md d with Some (y, doy) => Some (Ord y doy) | None => None end.
Definition to_week_date md (d : date) : option date :=
  match get_week_date md d with Some (y, w, dd) => Some (Wk y w dd) | None => None end.

(* the date part of TimePoint._check_bounds *)
Definition date_in_bounds (md : mode) (d : date) : bool :=
  match d with
  | Cal y m dd => (1 <=? m) && (m <=? 12) && (1 <=? dd) && (dd <=? get_days_in_month md m y)
  | Ord y doy => (1 <=? doy) && (doy <=? get_days_in_year md y)
  | Wk y w dd => (1 <=? w) && (w <=? get_weeks_in_year md y) && (1 <=? dd) && (dd <=? 7)
  end.

(* ---------- time of day ---------- *)
Definition get_hour_minute_second (t : tod) : Q * Q * Q :=
  match t with
  | HMS h m s => (h, m, s)
  | HM h m => let mdec := qsub m (qz (qtrunc m)) in (h, qz (qtrunc m), qmul (qz 60) mdec)
  | HH h =>
    let hdec := qsub h (qz (qtrunc h)) in
    let m := qmul (qz 60) hdec in
    let mdec := qsub m (qz (qtrunc m)) in
    (qz (qtrunc h), qz (qtrunc m), qmul (qz 60) mdec)
  end.
Definition get_second_of_day (t : tod) : Q :=
  match t with
  | HMS h m s => Qred (s + m * qz 60 + h * qz 3600)
  | HM h m => Qred (m * qz 60 + h * qz 3600)
  | HH h => Qred (h * qz 3600)
  end.
Definition tod_hour (t : tod) : Q := match t with HMS h _ _ | HM h _ | HH h => h end.

(* the five time steps of _tick_over; returns the whole days carried *)
Definition tick_time (t : tod) : tod * Z :=
  match t with
  | HMS h m s =>
    let hr := qsub h (qz (qtrunc h)) in
    let h1 := qsub h hr in
    let m1 := qadd m (qmul hr (qz 60)) in
    let mr := qsub m1 (qz (qtrunc m1)) in
    let m2 := qsub m1 mr in
    let s1 := qadd s (qmul mr (qz 60)) in
    let '(nm, s2) := qdivmod s1 60 in
    let m3 := qadd m2 (qz nm) in
    let '(nh, m4) := qdivmod m3 60 in
    let h2 := qadd h1 (qz nh) in
    let '(nd, h3) := qdivmod h2 24 in
    (HMS h3 m4 s2, nd)
  | HM h m =>
    let hr := qsub h (qz (qtrunc h)) in
    let h1 := qsub h hr in
    let m1 := qadd m (qmul hr (qz 60)) in
    let '(nh, m4) := qdivmod m1 60 in
    let h2 := qadd h1 (qz nh) in
    let '(nd, h3) := qdivmod h2 24 in
    (HM h3 m4, nd)
  | HH h => let '(nd, h3) := qdivmod h 24 in (HH h3, nd)
  end.

(* ---------- date carries ---------- *)
Definition guarded {A} (cond : A -> bool) (step : A -> A) (a : A) : A :=
  if cond a then step a else a.
Definition loop {A} (cond : A -> bool) (step : A -> A) (n : Z) (a : A) : A :=
  Pos.iter (guarded cond step) a (Z.to_pos n).

(* _tick_over_day_of_month, month by month *)
Definition dom_back_cond (c : Z * Z * Z) : bool := let '(_, _, d) := c in d <? 1.
Definition dom_back_step (md : mode) (c : Z * Z * Z) : Z * Z * Z :=
  let '(y, m, d) := c in
  if 1 <? m then (y, m - 1, d + get_days_in_month md (m - 1) y)
  else (y - 1, 12, d + get_days_in_month md 12 (y - 1)).
Definition dom_fwd_cond (md : mode) (c : Z * Z * Z) : bool :=
  let '(y, m, d) := c in get_days_in_month md m y <? d.
Definition dom_fwd_step (md : mode) (c : Z * Z * Z) : Z * Z * Z :=
  let '(y, m, d) := c in
  let d' := d - get_days_in_month md m y in
  if m <? 12 then (y, m + 1, d') else (y + 1, 1, d').
Definition tick_dom (md : mode) (c : Z * Z * Z) : Z * Z * Z :=
  let '(_, _, d) := c in
  if d <? 1 then loop dom_back_cond (dom_back_step md) (Z.abs d / 28 + 2) c
  else loop (dom_fwd_cond md) (dom_fwd_step md) (Z.abs d / 28 + 2) c.

(* month-of-year normalisation loops *)
Definition tick_month (c : Z * Z * Z) : Z * Z * Z :=
  let '(y, m, d) := c in
  let c1 := loop (fun c => let '(_, m, _) := c in m <? 1)
                 (fun c => let '(y, m, d) := c in (y - 1, m + 12, d)) (Z.abs m / 12 + 2) (y, m, d) in
  let '(_, m1, _) := c1 in
  loop (fun c => let '(_, m, _) := c in 12 <? m)
       (fun c => let '(y, m, d) := c in (y + 1, m - 12, d)) (Z.abs m1 / 12 + 2) c1.

(* day-of-year carry (as repaired by the fix: commit for F1) *)
Definition tick_doy (md : mode) (c : Z * Z) : Z * Z :=
  let '(y, doy) := c in
  let c1 := loop (fun c => snd c <? 1)
                 (fun c => (fst c - 1, snd c + get_days_in_year md (fst c - 1)))
                 (Z.abs doy / 360 + 2) c in
  loop (fun c => get_days_in_year md (fst c) <? snd c)
       (fun c => (fst c + 1, snd c - get_days_in_year md (fst c)))
       (Z.abs (snd c1) / 360 + 2) c1.

(* week-of-year carry *)
Definition tick_woy (md : mode) (c : Z * Z) : Z * Z :=
  let '(y, w) := c in
  let c1 := loop (fun c => snd c <? 1)
                 (fun c => (fst c - 1, snd c + get_weeks_in_year md (fst c - 1)))
                 (Z.abs w / 51 + 2) c in
  loop (fun c => get_weeks_in_year md (fst c) <? snd c)
       (fun c => (fst c + 1, snd c - get_weeks_in_year md (fst c)))
       (Z.abs (snd c1) / 51 + 2) c1.

Definition add_days_raw (d : date) (n : Z) : date :=
  match d with
  | Cal y m dd => Cal y m (dd + n)
  | Ord y doy => Ord y (doy + n)
  | Wk y w dd => Wk y w (dd + n)
  end.

Definition tick_date (md : mode) (d : date) : date :=
  match d with
  | Wk y w dd =>
    let nw := (dd - 1) / 7 in
    let dd' := (dd - 1) mod 7 + 1 in
    let '(y', w') := tick_woy md (y, w + nw) in Wk y' w' dd'
  | Cal y m dd =>
    let '(y', m', d') := tick_month (tick_dom md (y, m, dd)) in Cal y' m' d'
  | Ord y doy => let '(y', doy') := tick_doy md (y, doy) in Ord y' doy'
  end.

(* TimePoint._tick_over *)
Definition tick_over (md : mode) (p : tp) : tp :=
  let '(t', nd) := tick_time (ttod p) in
  mkTp (tick_date md (add_days_raw (tdate p) nd)) t' (tzone p).

(* ---------- __add__(Duration) ---------- *)
Definition add_seconds (t : tod) (s : Q) : tod :=
  match t with
  | HMS h m sec => HMS h m (qadd sec s)
  | HM h m => HM h (qadd m (qdivz s 60))
  | HH h => HH (qadd h (qdivz s 3600))
  end.
Definition add_minutes (t : tod) (mi : Q) : tod :=
  match t with
  | HMS h m sec => HMS h (qadd m mi) sec
  | HM h m => HM h (qadd m mi)
  | HH h => HH (qadd h (qdivz mi 60))
  end.
Definition add_hours (t : tod) (x : Q) : tod :=
  match t with
  | HMS h m sec => HMS (qadd h x) m sec
  | HM h m => HM (qadd h x) m
  | HH h => HH (qadd h x)
  end.

Definition with_tod (p : tp) (t : tod) : tp := mkTp (tdate p) t (tzone p).
Definition with_date (p : tp) (d : date) : tp := mkTp d (ttod p) (tzone p).

(* the month/day clamp shared by add_months and the year branch *)
Definition clamp_dom (md : mode) (y m d : Z) : Z :=
  let mx := znth (year_months md y) ((m - 1) mod 12) in if mx <? d then mx else d.

Definition month_step (md : mode) (sgn : Z) (c : Z * Z * Z) : Z * Z * Z :=
  let '(y, m, d) := c in
  let '(y1, m1) :=
    if 0 <? sgn then (if 12 <? m + 1 then (y + 1, m + 1 - 12) else (y, m + 1))
    else (if m - 1 <? 1 then (y - 1, m - 1 + 12) else (y, m - 1)) in
  (y1, m1, clamp_dom md y1 m1 d).

(* TimePoint.add_months; None only if a conversion of an invalid date failed *)
Definition add_months (md : mode) (p : tp) (n : Z) : option tp :=
  if n =? 0 then Some p
  else
    match get_calendar_date md (tdate p) with
    | None => None
    | Some c =>
      let '(y, m, d) := Pos.iter (month_step md n) c (Z.to_pos (Z.abs n)) in
      let p1 := tick_over md (with_date p (Cal y m d)) in
      match tdate p with
      | Cal _ _ _ => Some p1
      | Ord _ _ => match to_ordinal_date md (tdate p1) with
                   | Some d' => Some (with_date p1 d') | None => None end
      | Wk _ _ _ => match to_week_date md (tdate p1) with
                    | Some d' => Some (with_date p1 d') | None => None end
      end
    end.

Definition add_years (md : mode) (d : date) (n : Z) : date :=
  match d with
  | Cal y m dd => Cal (y + n) m (clamp_dom md (y + n) m dd)
  | Ord y doy => let mx := get_days_in_year md (y + n) in Ord (y + n) (if mx <? doy then mx else doy)
  | Wk y w dd => let mx := get_weeks_in_year md (y + n) in Wk (y + n) (if mx <? w then mx else w) dd
  end.

Definition tp_add (md : mode) (p : tp) (x : dur) : option tp :=
  match to_days x with
  | DW _ => None (* unreachable *)
  | DU ys mos ds h mi s =>
    let p1 := if qeqb s 0 then p else tick_over md (with_tod p (add_seconds (ttod p) s)) in
    let p2 := if qeqb mi 0 then p1 else tick_over md (with_tod p1 (add_minutes (ttod p1) mi)) in
    let p3 := if qeqb h 0 then p2 else tick_over md (with_tod p2 (add_hours (ttod p2) h)) in
    let p4 := if ds =? 0 then p3 else tick_over md (with_date p3 (add_days_raw (tdate p3) ds)) in
    match (if mos =? 0 then Some p4 else add_months md p4 mos) with
    | None => None
    | Some p5 => Some (if ys =? 0 then p5 else with_date p5 (add_years md (tdate p5) ys))
    end
  end.

Definition tp_sub_dur (md : mode) (p : tp) (x : dur) : option tp := tp_add md p (dur_mul x (-1)).

(* ---------- zones ---------- *)
(* dest - src as the code computes it: a Duration with hours and minutes only *)
Definition zone_diff (dest src : zone) : dur :=
  DU 0 0 0 (qz (zh dest - zh src)) (qz (zm dest - zm src)) 0.
Definition to_time_zone (md : mode) (p : tp) (z : zone) : option tp :=
  match tp_add md p (zone_diff z (tzone p)) with
  | Some q => Some (mkTp (tdate q) (ttod q) z)
  | None => None
  end.
Definition zone_utc : zone := mkZone 0 0.
Definition to_utc (md : mode) (p : tp) : option tp := to_time_zone md p zone_utc.

(* TimePoint._normalised (fix: commit for F2) *)
Definition normalised (md : mode) (p : tp) : tp :=
  if qeqb (tod_hour (ttod p)) 24 then tick_over md p else p.

(* ---------- comparison, hash, difference ---------- *)
Definition tp_props_eqb (a b : tp) : bool :=
  (match tdate a, tdate b with
   | Cal y m d, Cal y' m' d' => (y =? y') && (m =? m') && (d =? d')
   | Ord y d, Ord y' d' => (y =? y') && (d =? d')
   | Wk y w d, Wk y' w' d' => (y =? y') && (w =? w') && (d =? d')
   | _, _ => false
   end) &&
  (match ttod a, ttod b with
   | HMS h m s, HMS h' m' s' => qeqb h h' && qeqb m m' && qeqb s s'
   | HM h m, HM h' m' => qeqb h h' && qeqb m m'
   | HH h, HH h' => qeqb h h'
   | _, _ => false
   end) &&
  (zh (tzone a) =? zh (tzone b)) && (zm (tzone a) =? zm (tzone b)).

(* the [*date, second_of_day] list the code compares *)
Definition cmp_key (md : mode) (use_cal : bool) (p : tp) : option (list Z * Q) :=
  if use_cal then
    match get_calendar_date md (tdate p) with
    | Some (y, m, d) => Some ([y; m; d], get_second_of_day (ttod p)) | None => None end
  else
    match get_ordinal_date md (tdate p) with
    | Some (y, doy) => Some ([y; doy], get_second_of_day (ttod p)) | None => None end.

Fixpoint lex_cmp (a b : list Z) : comparison :=
  match a, b with
  | [], [] => Eq
  | [], _ => Lt
  | _, [] => Gt
  | x :: r, y :: r' => match x ?= y with Eq => lex_cmp r r' | c => c end
  end.
Definition key_cmp (a b : list Z * Q) : comparison :=
  match lex_cmp (fst a) (fst b) with
  | Eq => if qltb (snd a) (snd b) then Lt else if qltb (snd b) (snd a) then Gt else Eq
  | c => c
  end.

(* the three-way outcome of _cmp; None = the code raised *)
Definition tp_cmp (md : mode) (a b : tp) : option comparison :=
  if tp_props_eqb a b then Some Eq
  else
    match to_time_zone md b (tzone a) with
    | None => None
    | Some b1 =>
      let b2 := normalised md b1 in
      let a2 := normalised md a in
      let use_cal := match tdate a2 with Cal _ _ _ => true | _ => false end in
      match cmp_key md use_cal a2, cmp_key md use_cal b2 with
      | Some ka, Some kb => Some (key_cmp ka kb)
      | _, _ => None
      end
    end.
Definition cmp_op (op : Z) (c : comparison) : bool :=
  (* 0 eq, 1 lt, 2 le, 3 gt, 4 ge, 5 ne *)
  match op, c with
  | 0, Eq => true | 1, Lt => true | 2, (Lt | Eq) => true
  | 3, Gt => true | 4, (Gt | Eq) => true | 5, (Lt | Gt) => true
  | _, _ => false
  end.

(* the tuple __hash__ hashes *)
Definition tp_hash_key (md : mode) (p : tp) : option (Z * Z * Z * (Q * Q * Q)) :=
  match to_utc md p with
  | None => None
  | Some u =>
    let u' := normalised md u in
    match get_calendar_date md (tdate u') with
    | Some (y, m, d) => Some (y, m, d, get_hour_minute_second (ttod u'))
    | None => None
    end
  end.

(* __sub__(TimePoint) *)
Definition tp_sub_pos (md : mode) (a b : tp) : option dur :=
  match to_time_zone md b (tzone a) with
  | None => None
  | Some b1 =>
    let b2 := normalised md b1 in
    let a2 := normalised md a in
    match get_ordinal_date md (tdate a2), get_ordinal_date md (tdate b2) with
    | Some (my, mdoy), Some (oy, odoy) =>
      let dd0 := mdoy - odoy in
      let dd := if oy <? my then dd0 + get_days_in_year_range md oy (my - 1)
                else dd0 - get_days_in_year_range md my (oy - 1) in
      let '(mh, mm, ms) := get_hour_minute_second (ttod a2) in
      let '(oh, om, os) := get_hour_minute_second (ttod b2) in
      let dh := qsub mh oh in let dm := qsub mm om in let dsx := qsub ms os in
      let '(dm1, ds1) := if qltb dsx 0 then (qsub dm 1, qadd dsx 60) else (dm, dsx) in
      let '(dh1, dm2) := if qltb dm1 0 then (qsub dh 1, qadd dm1 60) else (dh, dm1) in
      let '(dd1, dh2) := if qltb dh1 0 then (dd - 1, qadd dh1 24) else (dd, dh1) in
      Some (DU 0 0 dd1 dh2 dm2 ds1)
    | _, _ => None
    end
  end.
Definition tp_sub (md : mode) (a b : tp) : option dur :=
  match tp_cmp md b a with
  | Some Gt => match tp_sub_pos md b a with Some d => Some (dur_mul d (-1)) | None => None end
  | Some _ => tp_sub_pos md a b
  | None => None
  end.
