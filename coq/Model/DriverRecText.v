(* Model/DriverRecText.v -- line-protocol operations for the text and the hash
   of recurrences (property C14, text part).
     recstr  <mode> <reps|-> <start tp|-> <dur|-> <end tp|->
        TimeRecurrence(...) then str(): the percent-encoded text, ERR,
        EXC OverflowError or UNMODELLED
     recrt   same arguments
        the text ; TimeRecurrenceParser().parse(text) shown like `rmake` ;
        eq <parsed == original>
     rechash same arguments
        the tuple hashed by __hash__, each point reduced to the tuple its own
        __hash__ hashes (UTC, normalised, calendar date, h m s), the duration
        to its own (years, months, exact seconds)
   Points whose year is outside 0..9999 carry num_expanded_year_digits = 2 on
   the implementation side (tools/impl.py rd_tp); the model's time points have
   no such field, so the text operations answer UNMODELLED for them. *)
From Coq Require Import ZArith QArith Qround List Bool String Ascii.
From Iso Require Import Spec.Cal Model.Num Model.Helpers Model.Duration Model.TimePoint Model.Forms Model.Parse
  Model.Dump Model.Recurrence Model.DurText Model.Driver Model.DriverText Model.Cli Model.DriverCli Model.RecText.
Import ListNotations.
Local Open Scope string_scope.

Definition sh_rtext (t : rtext) : string :=
  match t with
  | RtOk s => pct_encode s
  | RtOverflow => "EXC OverflowError"
  | RtValue => "ERR"
  | RtUnmodelled => "UNMODELLED"
  end.

Definition year_plain (o : option tp) : bool :=
  match o with
  | None => true
  | Some p => ((0 <=? date_year (tdate p)) && (date_year (tdate p) <=? 9999))%Z
  end.
Definition args_plain (a : option Z * option tp * option dur * option tp) : bool :=
  let '(_, s, _, e) := a in year_plain s && year_plain e.

Definition sh_tp_key (k : tp_key) : string :=
  let '(y, m, d, (h, mi, s)) := k in unwords [show_Z y; show_Z m; show_Z d; show_Q h; show_Q mi; show_Q s].
Definition sh_dur_key (k : dur_key) : string :=
  let '(y, m, s) := k in unwords [show_Z y; show_Z m; show_Q s].
Definition sh_rec_key (k : rec_key) : string :=
  String.concat " ; " [sh_o show_Z (k_reps k); sh_o sh_tp_key (k_start k); sh_o sh_tp_key (k_end k);
                       sh_o sh_dur_key (k_dur k); sh_o sh_tp_key (k_min k); sh_o sh_tp_key (k_max k)].

(* the parse of a recurrence text as the `recrt` line shows it *)
Definition sh_reparse (md : mode) (r : recur) (text : string) : string :=
  match rec_of_text md (0, 0)%Z text with
  | inl (Some r') => String.concat " ; " [sh_rec md r'; "eq " ++ sh_bool (rec_eqb md r r')]
  | inl None => "ERR"
  | inr CUnmodelled => "UNMODELLED"
  | inr _ => "ERR"
  end.

Definition ops_rectext : list (string * rd string) :=
  [ ("recstr", md <- rMode ;; a <- rRecArgs ;;
       ret (if negb (args_plain a) then "UNMODELLED"
            else match mk_rec md a with
                 | Err => "ERR"
                 | Ok r => sh_rtext (rec_str md r)
                 end));
    ("recrt", md <- rMode ;; a <- rRecArgs ;;
       ret (if negb (args_plain a) then "UNMODELLED"
            else match mk_rec md a with
                 | Err => "ERR"
                 | Ok r =>
                   match rec_str md r with
                   | RtOk t => String.concat " ; " [pct_encode t; sh_reparse md r t]
                   | x => sh_rtext x
                   end
                 end));
    ("rechash", md <- rMode ;; a <- rRecArgs ;;
       ret (match mk_rec md a with
            | Err => "ERR"
            | Ok r => match rec_hash_key md r with Some k => sh_rec_key k | None => "ERR" end
            end))
  ].
