(* Model/Dump.v -- executable mirror of TimePoint.__str__/_get_dump_format
   (data.py) and TimePointDumper.dump/_get_expression_and_properties/
   _dump_expression_with_properties (dumpers.py) over the generated templates.
   Formats whose parts are not expressions of the generated tables (or default
   dump formats) yield DUnmodelled.  No proofs in here. *)
From Coq Require Import ZArith QArith Qround List Bool String Ascii.
From Iso Require Import Spec.Cal Spec.Instant Model.Num Model.Helpers Model.Duration Model.TimePoint Model.Forms
  Model.Parse Model.LocalZone.
Import ListNotations.
Local Open Scope string_scope.
Local Open Scope Z_scope.

Inductive dres := DOk (s : string) | DBounds | DSyntax | DOverflow | DErr | DUnmodelled
  | DBadInput.   (* BadInputError: a literal zone of a custom format outside the bounds of TimeZone.__init__ *)

(* '%0Wd' % n for an integer n (negative numbers keep their sign inside the width) *)
Fixpoint zeros (n : nat) : string := match n with O => "" | S k => "0" ++ zeros k end.
Definition pad_num (w : nat) (n : Z) : string :=
  let body := show_Z (Z.abs n) in
  let len := (String.length body + (if (n <? 0)%Z then 1 else 0))%nat in
  (if n <? 0 then "-" else "") ++ zeros (w - len) ++ body.

(* TimePoint._decimal_string: 6 digits, truncated rather than rounded up at the top *)
Definition strip_zeros (s : string) : string :=
  let fix go (l : list ascii) : list ascii :=
      match l with [] => [] | c :: r => match go r with
                                        | [] => if Ascii.eqb c "0" then [] else [c]
                                        | x => c :: x end end in
  string_of_list_ascii (go (list_ascii_of_string s)).
Definition decimal_string (x : Q) : string :=
  let frac := Qred (x - qz (qtrunc x)) in
  if qleb (9999995 # 10000000) frac then "999999"
  else
    let n := Qfloor (frac * qz 1000000 + (1 # 2)) in       (* "%0.6f" rounds to nearest *)
    let s := strip_zeros (pad_num 6 n) in
    if String.eqb s "" then "0" else s.

(* ---------- _get_dump_format ---------- *)
Definition get_dump_format (ned : Z) (p : tp) : dres :=
  let y := date_year (tdate p) in
  let digits := Z.to_nat (4 + ned) in
  let ys : option string :=
    if negb (ned =? 0) then Some ((if y <? 0 then "-" else "+") ++ pad_num digits (Z.abs y))
    else if y <? 0 then None else Some (pad_num digits y) in
  match ys with
  | None => DOverflow
  | Some ystr =>
    let dstr := match tdate p with
                | Cal _ _ _ => ystr ++ "-MM-DD" | Ord _ _ => ystr ++ "-DDD" | Wk _ _ _ => ystr ++ "-Www-D" end in
    let tstr := match ttod p with
                | HH _ => "Thh,ii"
                | HM _ _ => "Thh:mm,nn"
                | HMS _ _ s => if qis_int s then "Thh:mm:ss" else "Thh:mm:ss,tt"
                end in
    let zstr := if (zh (tzone p) =? 0) && (zm (tzone p) =? 0) then "Z" else "+hh:mm" in
    DOk (dstr ++ tstr ++ zstr)
  end.

(* ---------- the value of a dump property on a (non-truncated) time point ---------- *)
Inductive pval := VInt (z : Z) | VStr (s : string) | VNone.

Definition prop_value (md : mode) (p : tp) (name : string) : pval :=
  let y := date_year (tdate p) in
  let '(h, mi, s) := get_hour_minute_second (ttod p) in
  let cal := get_calendar_date md (tdate p) in
  let ord := get_ordinal_date md (tdate p) in
  let wk := get_week_date md (tdate p) in
  let eqs := String.eqb name in
  if eqs "century" then VInt ((Z.abs y mod 10000) / 100)
  else if eqs "year_of_century" then VInt (Z.abs y mod 100)
  else if eqs "year_of_decade" then VInt (Z.abs y mod 10)
  else if eqs "expanded_year_digits" then VInt (Z.abs y / 10000)
  else if eqs "year_sign" then VStr (if 0 <=? y then "+" else "-")
  else if eqs "month_of_year" then match cal with Some (_, m, _) => VInt m | None => VNone end
  else if eqs "day_of_month" then match cal with Some (_, _, d) => VInt d | None => VNone end
  else if eqs "day_of_year" then match ord with Some (_, d) => VInt d | None => VNone end
  else if eqs "week_of_year" then match wk with Some (_, w, _) => VInt w | None => VNone end
  else if eqs "day_of_week" then match wk with Some (_, _, d) => VInt d | None => VNone end
  else if eqs "hour_of_day" then VInt (qtrunc (tod_hour (ttod p)))
  else if eqs "minute_of_hour" then VInt (qtrunc (match ttod p with HMS _ m _ | HM _ m => m | HH _ => mi end))
  else if eqs "second_of_minute" then VInt (qtrunc s)
  else if eqs "hour_of_day_decimal_string" then VStr (decimal_string (tod_hour (ttod p)))
  else if eqs "minute_of_hour_decimal_string"
       then VStr (decimal_string (match ttod p with HMS _ m _ | HM _ m => m | HH _ => mi end))
  else if eqs "second_of_minute_decimal_string" then VStr (decimal_string s)
  else if eqs "time_zone_sign" then VStr (if (zh (tzone p) <? 0) || (zm (tzone p) <? 0) then "-" else "+")
  else if eqs "time_zone_hour_abs" then VInt (Z.abs (zh (tzone p)))
  else if eqs "time_zone_minute_abs" then VInt (Z.abs (zm (tzone p)))
  else if eqs "seconds_since_unix_epoch"
       then match seconds_since_unix_epoch md p with Some k => VStr (show_Z k) | None => VNone end
  else VNone.

Fixpoint render (md : mode) (p : tp) (ts : list dtok) : option string :=
  match ts with
  | [] => Some ""
  | DLit s :: r => match render md p r with Some x => Some (s ++ x) | None => None end
  | DNum nm w :: r =>
    match prop_value md p nm, render md p r with
    | VInt z, Some x => Some (pad_num w z ++ x) | _, _ => None end
  | DStr nm :: r =>
    match prop_value md p nm, render md p r with
    | VStr s, Some x => Some (s ++ x) | _, _ => None end
  end.

Section Tables.
Variable ned : Z.                     (* the dumper's num_expanded_year_digits *)
Variable date_forms time_forms zone_forms : list form.
Variable zone_of_text : string -> option (Z * Z).   (* TimePointDumper.get_time_zone *)

Fixpoint find_expr (fs : list form) (e : string) : option form :=
  match fs with [] => None | f :: r => if String.eqb (f_expr f) e then Some f else find_expr r e end.

(* a default-dump-format date string: (sign) digits then one of the three suffixes *)
Fixpoint split_year (s : string) : string * string :=
  match s with
  | String c r => if is_digit c || Ascii.eqb c "+" then let '(a, b) := split_year r in (String c a, b) else ("", s)
  | EmptyString => ("", "")
  end.
Definition date_template (s : string) : option (list dtok * list string) :=
  match find_expr date_forms s with
  | Some f => Some (f_dump f, f_props f)
  | None =>
    let '(sign, rest) := match s with String "-" r => ("-", r) | _ => ("", s) end in
    let '(yr, suffix) := split_year rest in
    if String.eqb yr "" then None
    else if String.eqb suffix "-MM-DD" then Some ([DLit (sign ++ yr ++ "-"); DNum "month_of_year" 2; DLit "-"; DNum "day_of_month" 2], ["month_of_year"; "day_of_month"])
    else if String.eqb suffix "-DDD" then Some ([DLit (sign ++ yr ++ "-"); DNum "day_of_year" 3], ["day_of_year"])
    else if String.eqb suffix "-Www-D" then Some ([DLit (sign ++ yr ++ "-W"); DNum "week_of_year" 2; DLit "-"; DNum "day_of_week" 1], ["week_of_year"; "day_of_week"])
    else None
  end.

Fixpoint lstrip_dash (s : string) : string :=
  match s with String "-" r => lstrip_dash r | _ => s end.
Fixpoint contains_sub (sub s : string) : bool :=
  match str_prefix sub s with
  | Some _ => true
  | None => match s with String _ r => contains_sub sub r | EmptyString => false end
  end.

(* a literal numeric zone in a format: '+' becomes the sign property, the rest stays *)
Definition zone_template (z : string) : option (list dtok * list string) :=
  match find_expr zone_forms z with
  | Some f => Some (f_dump f, f_props f)
  | None =>
    match z with
    | String "+" r => if forallb (fun c => is_digit c || Ascii.eqb c ":") (list_ascii_of_string r)
                      then Some ([DStr "time_zone_sign"; DLit r], ["time_zone_sign"]) else None
    | String "-" r => if forallb (fun c => is_digit c || Ascii.eqb c ":") (list_ascii_of_string r)
                      then Some ([DLit z], []) else None
    | _ => None
    end
  end.

(* _get_expression_and_properties: template, properties, custom zone *)
Definition expression_of (fmt : string) : option (list dtok * list string * option (Z * Z)) + dres :=
  let parts := split_str "T" fmt in
  let dstr := hd "" parts in
  match date_template dstr with
  | None => inr DUnmodelled
  | Some (dt, dp) =>
    match parts with
    | [_] => inl (Some (dt, dp, None))
    | _ :: tstr :: _ =>
      let split : option (string * string * option (option (Z * Z))) :=
        match ends_with_Z tstr with
        | Some t => Some (t, "Z", Some (Some (0, 0)))
        | None =>
          if contains_sub "+hh" tstr then
            match split_str "+" tstr with [t; z] => Some (t, "+" ++ z, Some None) | _ => None end
          else if contains_char "+" tstr then
            match split_str "+" tstr with [t; z] => Some (t, "+" ++ z, Some (zone_of_text ("+" ++ z))) | _ => None end
          else if contains_char "-" (lstrip_dash tstr) then
            match split_str "-" tstr with [t; z] => Some (t, "-" ++ z, Some (zone_of_text ("-" ++ z))) | _ => None end
          else Some (tstr, "", Some None)
        end in
      match split with
      | None => inr DErr
      | Some (t, z, Some cz) =>
        match find_expr time_forms t, (if String.eqb z "" then Some ([], []) else zone_template z) with
        | Some tf, Some (zt, zp) =>
          inl (Some (dt ++ [DLit "T"] ++ f_dump tf ++ zt, dp ++ f_props tf ++ zp, cz))%list
        | _, _ => inr DUnmodelled
        end
      | Some (_, _, None) => inr DErr
      end
    | [] => inr DErr
    end
  end.

(* _dump_expression_with_properties *)
Definition dump_with (md : mode) (p : tp) (tmpl : list dtok) (props : list string) (cz : option (Z * Z)) : dres :=
  let hasp := fun k => mem k props in
  let p1 : option tp :=
    if hasp "week_of_year" || hasp "day_of_week" then
      if negb (hasp "month_of_year" || hasp "day_of_month" || hasp "day_of_year")
      then match to_week_date md (tdate p) with Some d => Some (with_date p d) | None => None end
      else Some p
    else if (match tdate p with Wk _ _ _ => true | _ => false end) &&
            (hasp "month_of_year" || hasp "day_of_month" || hasp "day_of_year")
    then match to_calendar_date md (tdate p) with Some d => Some (with_date p d) | None => None end
    else Some p in
  match p1 with
  | None => DErr
  | Some q =>
    (* TimeZone(hours=h, minutes=m) raises BadInputError outside its bounds (Spec/Instant.v valid_zone;
       proved of TimeZone.__init__ in Props/C09Code.v); (0, 0) goes through to_utc *)
    if match cz with Some (h, m) => negb (valid_zone (mkZone h m)) | None => false end then DBadInput else
    let p2 := match cz with
              | None => Some q
              | Some (h, m) => to_time_zone md q (mkZone h m)
              end in
    match p2 with
    | None => DErr
    | Some r =>
      let y := date_year (tdate r) in
      let bad :=
        (hasp "century" && (negb (hasp "expanded_year_digits") || (ned =? 0)) && negb ((0 <=? y) && (y <=? 9999))) ||
        (hasp "expanded_year_digits" && negb (Z.abs y <=? 10 ^ (ned + 4) - 1)) in
      if bad then DBounds
      else match render md r tmpl with Some s => DOk s | None => DErr end
    end
  end.

Definition dump (md : mode) (p : tp) (fmt : string) : dres :=
  if contains_char "%" fmt then DUnmodelled       (* strftime formats: Model/Strftime.v *)
  else match expression_of fmt with
       | inl (Some (tmpl, props, cz)) => dump_with md p tmpl props cz
       | inl None => DErr
       | inr e => e
       end.

(* str(p) for a non-truncated point without a custom dump format *)
Definition tp_str (md : mode) (p : tp) : dres :=
  match get_dump_format ned p with
  | DOk fmt => dump md p fmt
  | e => e
  end.

End Tables.
