(* Model/Forms.v -- the token languages the generated grammar tables are
   written in: parse-side tokens (what the compiled regexes of the package
   are made of) and dump-side tokens (what its %-templates are made of). *)
From Coq Require Import List String Ascii ZArith.
Import ListNotations.

Inductive ptok :=
| PLit (s : string)                 (* literal characters *)
| PDig (name : string) (n : nat)    (* (?P<name>[0-9]{n}) *)
| PDigs (name : string)             (* (?P<name>[0-9]+) *)
| PSign (name : string)             (* (?P<name>[-+]) *)
| PGrp (name : string) (s : string) (* (?P<name>literal) *)
| PUnix (name : string).            (* optional minus, digits, optional comma or point, optional digits: the %s directive *)

Inductive dtok :=
| DLit (s : string)
| DNum (name : string) (width : nat)   (* %(name)0Wd *)
| DStr (name : string).                (* %(name)s *)

(* one expression form of the tables: format key, type key, the expression
   text, its compiled regex as tokens, its dump template and the properties
   the dumper reads *)
Record form := mkForm {
  f_format : string; f_type : string; f_expr : string;
  f_parse : list ptok; f_dump : list dtok; f_props : list string
}.
