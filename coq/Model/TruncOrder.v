(* Model/TruncOrder.v -- the operand dispatch of TimePoint.__add__ (data.py) for
   two time points, as far as property C20 needs it: `truncated + full` aligns,
   calls add_truncated and converts back; `full + truncated` is literally
   `return other + self`; any other pair of time points raises ValueError
   (both truncated, or both full).  No proofs in here. *)
From Iso Require Import Spec.Cal Model.TimePoint Model.Truncated.

Inductive operand := Full (p : tp) | Trunc (t : trunc).

(* None = ValueError("Invalid addition: can only add Duration or truncated TimePoint to TimePoint.") *)
Definition tp_add_points (md : mode) (self other : operand) : option tres :=
  match self, other with
  | Trunc t, Full p => Some (tp_add_trunc md t p)      (* if self._truncated and not other._truncated *)
  | Full p, Trunc t => Some (tp_add_trunc md t p)      (* if other._truncated and not self._truncated: return other + self *)
  | _, _ => None
  end.
