(* Model/DriverAll_c16.v -- stand-alone operation table for property C16 (to be
   merged into Model/DriverAll.v by the main author). *)
From Coq Require Import List String.
From Iso Require Import Model.Driver Model.DriverC16.
Import ListNotations.

Definition run_line (line : string) : string := run_ops ops_c16 line.
