(* Model/Driver.v -- the line protocol: one operation per line in, one
   canonical line out.  Written in Gallina so that the extracted binary and
   vm_compute inside coqc evaluate exactly the same function (run_line). *)
From Coq Require Import ZArith QArith Qround List Bool String Ascii.
From Iso Require Import Spec.Cal Spec.Instant Spec.ZoneText Spec.Months Spec.NextMatch Model.Num Model.Helpers Model.Duration Model.TimePoint Model.LocalZone Model.Recurrence Model.Truncated.
Import ListNotations.
Open Scope string_scope.

(* ---- a tiny reader monad over tokens ---- *)
Definition rd (A : Type) := list string -> option (A * list string).
Definition ret {A} (a : A) : rd A := fun ts => Some (a, ts).
Definition bind {A B} (m : rd A) (f : A -> rd B) : rd B :=
  fun ts => match m ts with Some (a, r) => f a r | None => None end.
Notation "x <- m ;; k" := (bind m (fun x => k)) (at level 61, m at next level, right associativity).
Definition tok : rd string := fun ts => match ts with t :: r => Some (t, r) | [] => None end.
Definition rZ : rd Z := t <- tok ;; fun ts => match read_Z t with Some z => Some (z, ts) | None => None end.
Definition rQ : rd Q := t <- tok ;; fun ts => match read_Q t with Some z => Some (z, ts) | None => None end.
Definition rMode : rd mode :=
  t <- tok ;;
  if String.eqb t "G" then ret G else if String.eqb t "360" then ret D360
  else if String.eqb t "365" then ret D365 else if String.eqb t "366" then ret D366
  else fun _ => None.
Definition rDate : rd date :=
  t <- tok ;;
  if String.eqb t "C" then y <- rZ ;; m <- rZ ;; d <- rZ ;; ret (Cal y m d)
  else if String.eqb t "O" then y <- rZ ;; d <- rZ ;; ret (Ord y d)
  else if String.eqb t "W" then y <- rZ ;; w <- rZ ;; d <- rZ ;; ret (Wk y w d)
  else fun _ => None.
Definition rTod : rd tod :=
  t <- tok ;;
  if String.eqb t "S" then h <- rQ ;; m <- rQ ;; s <- rQ ;; ret (HMS h m s)
  else if String.eqb t "M" then h <- rQ ;; m <- rQ ;; ret (HM h m)
  else if String.eqb t "H" then h <- rQ ;; ret (HH h)
  else fun _ => None.
Definition rZone : rd zone := h <- rZ ;; m <- rZ ;; ret (mkZone h m).
Definition rTp : rd tp := d <- rDate ;; t <- rTod ;; z <- rZone ;; ret (mkTp d t z).
Definition rDur : rd dur :=
  t <- tok ;;
  if String.eqb t "DW" then w <- rZ ;; ret (DW w)
  else if String.eqb t "DU" then
    y <- rZ ;; mo <- rZ ;; d <- rZ ;; h <- rQ ;; mi <- rQ ;; s <- rQ ;; ret (DU y mo d h mi s)
  else fun _ => None.

(* ---- printers ---- *)
Definition sh_mode (m : mode) : string :=
  match m with G => "G" | D360 => "360" | D365 => "365" | D366 => "366" end.
Definition sh_bool (b : bool) : string := if b then "1" else "0".
Definition sh_date (d : date) : string :=
  match d with
  | Cal y m dd => unwords ["C"; show_Z y; show_Z m; show_Z dd]
  | Ord y doy => unwords ["O"; show_Z y; show_Z doy]
  | Wk y w dd => unwords ["W"; show_Z y; show_Z w; show_Z dd]
  end.
Definition sh_tod (t : tod) : string :=
  match t with
  | HMS h m s => unwords ["S"; show_Q h; show_Q m; show_Q s]
  | HM h m => unwords ["M"; show_Q h; show_Q m]
  | HH h => unwords ["H"; show_Q h]
  end.
Definition sh_zone (z : zone) : string := unwords [show_Z (zh z); show_Z (zm z)].
Definition sh_tp (p : tp) : string := unwords [sh_date (tdate p); sh_tod (ttod p); sh_zone (tzone p)].
Definition sh_dur (x : dur) : string :=
  match x with
  | DW w => unwords ["DW"; show_Z w]
  | DU y mo d h mi s => unwords ["DU"; show_Z y; show_Z mo; show_Z d; show_Q h; show_Q mi; show_Q s]
  end.
Definition sh_opt {A} (f : A -> string) (o : option A) : string :=
  match o with Some a => f a | None => "ERR" end.
Definition sh_z3 (t : Z * Z * Z) : string := let '(a, b, c) := t in unwords [show_Z a; show_Z b; show_Z c].
Definition sh_z2 (t : Z * Z) : string := let '(a, b) := t in unwords [show_Z a; show_Z b].
Definition sh_cmp (c : comparison) : string := match c with Lt => "LT" | Eq => "EQ" | Gt => "GT" end.


(* ---- composite operations shared by C02/C04/C06 ---- *)
Definition to_kind (md : mode) (k : string) (p : tp) : option tp :=
  let conv := if String.eqb k "C" then to_calendar_date md (tdate p)
              else if String.eqb k "O" then to_ordinal_date md (tdate p)
              else if String.eqb k "W" then to_week_date md (tdate p)
              else Some (tdate p) in
  match conv with Some d => Some (with_date p d) | None => None end.

(* (p + d) re-zoned and re-expressed: one operand of `pair` *)
Definition respell (md : mode) (p : tp) (d : dur) (z : zone) (k : string) : option tp :=
  match tp_add md p d with
  | None => None
  | Some p1 => match to_time_zone md p1 z with
               | None => None
               | Some p2 => to_kind md k p2
               end
  end.

Definition hash_key_eqb (k1 k2 : Z * Z * Z * (Q * Q * Q)) : bool :=
  let '(y1, m1, d1, (h1, i1, s1)) := k1 in
  let '(y2, m2, d2, (h2, i2, s2)) := k2 in
  (y1 =? y2)%Z && (m1 =? m2)%Z && (d1 =? d2)%Z && qeqb h1 h2 && qeqb i1 i2 && qeqb s1 s2.

Definition pair_out (md : mode) (a b : tp) : string :=
  let c := tp_cmp md a b in
  let h := match tp_hash_key md a, tp_hash_key md b with
           | Some k1, Some k2 => sh_bool (hash_key_eqb k1 k2) | _, _ => "ERR" end in
  let d := tp_sub md a b in
  let back := match d with
              | Some dd => match tp_add md b dd with
                           | Some r => unwords [sh_tp r; ";"; sh_opt sh_cmp (tp_cmp md r a)]
                           | None => "ERR ; ERR" end
              | None => "ERR ; ERR" end in
  unwords [sh_tp a; ";"; sh_tp b; ";"; sh_opt sh_cmp c; ";"; h; ";"; sh_opt sh_dur d; ";"; back].

Definition rOperand : rd (tp * dur * zone * string) :=
  p <- rTp ;; d <- rDur ;; z <- rZone ;; k <- tok ;; ret (p, d, z, k).

(* ---- recurrences ---- *)
Definition rOpt {A} (r : rd A) : rd (option A) :=
  fun ts => match ts with
            | t :: rest => if String.eqb t "-" then Some (None, rest)
                           else match r ts with Some (a, rest') => Some (Some a, rest') | None => None end
            | [] => None
            end.
Definition rRecArgs : rd (option Z * option tp * option dur * option tp) :=
  n <- rOpt rZ ;; s <- rOpt rTp ;; d <- rOpt rDur ;; e <- rOpt rTp ;; ret (n, s, d, e).
Definition mk_rec md (a : option Z * option tp * option dur * option tp) : res recur :=
  let '(n, s, d, e) := a in rec_make md n s d e.
Definition sh_o {A} (f : A -> string) (o : option A) : string :=
  match o with Some a => f a | None => "-" end.
Definition sh_rec (md : mode) (r : recur) : string :=
  String.concat " ; "
    ([sh_o show_Z (r_reps r); sh_o sh_tp (r_start r); sh_o sh_dur (r_dur r); sh_o sh_tp (r_end r); show_Z (r_fmt r)]
     ++ map sh_tp (iter_take md r 12)).
Definition sh_res {A} (f : A -> string) (x : res A) : string :=
  match x with Ok a => f a | Err => "ERR" end.
Definition sh_oo (x : option (option tp)) : string :=
  match x with None => "ERR" | Some None => "None" | Some (Some p) => sh_tp p end.
Definition sh_ob (x : option bool) : string :=
  match x with None => "ERR" | Some b => sh_bool b end.
Definition FUEL : nat := 3000.

(* ---- truncated points ---- *)
Definition rTrunc : rd trunc :=
  h <- rOpt rQ ;; m <- rOpt rQ ;; s <- rOpt rQ ;;
  dow <- rOpt rZ ;; dom <- rOpt rZ ;; doy <- rOpt rZ ;; wk <- rOpt rZ ;;
  zh <- rOpt rZ ;; zm <- rOpt rZ ;;
  ret (mkTrunc h m s dow dom doy wk
         (match zh, zm with Some a, Some b => Some (mkZone a b) | _, _ => None end)).
(* TimePoint._check_bounds on a truncated point (no year, no month): what the
   constructor refuses before any addition can happen *)
Definition in_rng_o (v : option Z) (lo hi : Z) : bool :=
  match v with Some x => (lo <=? x)%Z && (x <=? hi)%Z | None => true end.
Definition in_rng_q (v : option Q) (lo hi : Z) (strict : bool) : bool :=
  match v with
  | Some x => qleb (qz lo) x && (if strict then qltb x (qz hi) else qleb x (qz hi))
  | None => true end.
Definition trunc_bounds_ok (md : mode) (t : trunc) : bool :=
  in_rng_o (t_dom t) 1 (MAX_DAYS_IN_MONTH md) && in_rng_o (t_week t) 1 (max_weeks_in_year md) &&
  in_rng_o (t_doy t) 1 (DAYS_IN_YEAR_LEAP md) && in_rng_o (t_dow t) 1 7 &&
  in_rng_q (t_hour t) 0 24 false &&
  (if match t_hour t with Some h => qeqb h (qz 24) | None => false end
   then in_rng_q (t_min t) 0 0 false && in_rng_q (t_sec t) 0 0 false
   else in_rng_q (t_min t) 0 60 true && in_rng_q (t_sec t) 0 60 true).
Definition sh_tres (r : tres) : string :=
  match r with TOk p => sh_tp p | THang => "HANG" | TErr => "ERR" end.
(* (local day number, local second of day) of p read in zone z -- Spec level *)
Definition local_ds (md : mode) (p : tp) (z : zone) : Z * Q :=
  let x := (instant md p + qz (zone_secs z))%Q in
  let n := Qfloor (x / qz 86400) in (n, Qred (x - qz (86400 * n))).
Definition qfl (o : option Q) : option Z := match o with Some x => Some (Qfloor x) | None => None end.
Definition trunc_expect (md : mode) (t : trunc) (p : tp) : string :=
  let z := match t_zone t with Some z => z | None => tzone p end in
  let '(n0, sod0) := local_ds md p z in
  if negb (qis_int sod0) then "NONINT"
  else match next_match md (mkDay (t_dow t) (t_dom t) (t_doy t) (t_week t))
                        (mkTod (qfl (t_hour t)) (qfl (t_min t)) (qfl (t_sec t))) n0 (Qfloor sod0) 3000 with
       | Some (n, x) => unwords [show_Z n; show_Z x]
       | None => "NOMATCH"
       end.

(* ---- operations ---- *)
Definition op_table : list (string * rd string) :=
  [ ("leap", y <- rZ ;; ret (sh_bool (get_is_leap_year y)));
    ("ylen", md <- rMode ;; y <- rZ ;; ret (show_Z (get_days_in_year md y)));
    ("mlen", md <- rMode ;; m <- rZ ;; y <- rZ ;; ret (show_Z (get_days_in_month md m y)));
    ("mlenleap", md <- rMode ;; m <- rZ ;; ret (show_Z (get_days_in_month_leap md m)));
    ("range", md <- rMode ;; s <- rZ ;; e <- rZ ;; ret (show_Z (get_days_in_year_range md s e)));
    ("weeks", md <- rMode ;; y <- rZ ;; ret (show_Z (get_weeks_in_year md y)));
    ("wstart", md <- rMode ;; y <- rZ ;; ret (sh_z3 (week_date_start md y)));
    ("owstart", md <- rMode ;; y <- rZ ;; ret (sh_opt sh_z2 (ord_week_date_start md y)));
    ("since1ad", md <- rMode ;; y <- rZ ;; ret (show_Z (get_days_since_1_ad md y)));
    ("c2o", md <- rMode ;; y <- rZ ;; m <- rZ ;; d <- rZ ;; ret (sh_opt sh_z2 (ord_from_cal md y m d)));
    ("o2c", md <- rMode ;; y <- rZ ;; d <- rZ ;; ret (sh_opt sh_z3 (cal_from_ord md y d)));
    ("c2w", md <- rMode ;; y <- rZ ;; m <- rZ ;; d <- rZ ;; ret (sh_opt sh_z3 (week_from_cal md y m d)));
    ("w2c", md <- rMode ;; y <- rZ ;; w <- rZ ;; d <- rZ ;; ret (sh_opt sh_z3 (cal_from_week md y w d)));
    ("o2w", md <- rMode ;; y <- rZ ;; d <- rZ ;; ret (sh_opt sh_z3 (week_from_ord md y d)));
    ("w2o", md <- rMode ;; y <- rZ ;; w <- rZ ;; d <- rZ ;; ret (sh_opt sh_z2 (ord_from_week md y w d)));
    (* spec functions: the oracle applied to implementation outputs *)
    ("s_dn", md <- rMode ;; d <- rDate ;; ret (show_Z (date_dn md d)));
    ("s_validdate", md <- rMode ;; d <- rDate ;; ret (sh_bool (valid_date md d)));
    ("s_weekday", md <- rMode ;; n <- rZ ;; ret (show_Z (weekday md n)));
    ("s_ylen", md <- rMode ;; y <- rZ ;; ret (show_Z (ylen md y)));
    ("s_mlen", md <- rMode ;; y <- rZ ;; m <- rZ ;; ret (show_Z (mlen md y m)));
    ("s_weeks", md <- rMode ;; y <- rZ ;; ret (show_Z (weeks_in md y)));
    ("s_wys", md <- rMode ;; y <- rZ ;; ret (show_Z (wys md y)));
    ("s_dby", md <- rMode ;; y <- rZ ;; ret (show_Z (dby md y)));
    ("s_instant", md <- rMode ;; p <- rTp ;; ret (show_Q (instant md p)));
    ("s_valid", md <- rMode ;; p <- rTp ;; ret (sh_bool (valid_tp md p)));
    ("s_normal", md <- rMode ;; p <- rTp ;; ret (sh_bool (normal_tp md p)));
    ("s_len", x <- rDur ;; ret (show_Q (dur_len x)));
    ("pair", md <- rMode ;; A <- rOperand ;; B <- rOperand ;;
       ret (let '(pa, da, za, ka) := A in let '(pb, db, zb, kb) := B in
            match respell md pa da za ka, respell md pb db zb kb with
            | Some a, Some b => pair_out md a b
            | _, _ => "ERR" end));
    ("addsub", md <- rMode ;; p <- rTp ;; d <- rDur ;;
       ret (match tp_add md p d with
            | Some r => match tp_sub md r p with
                        | Some d' => unwords [sh_dur d'; ";"; sh_bool (dur_eqb d' d)]
                        | None => "ERR" end
            | None => "ERR" end));
    ("tolocal", md <- rMode ;; p <- rTp ;; z <- rZone ;; ret (sh_opt sh_tp (to_time_zone md p z)));
    ("toutc", md <- rMode ;; p <- rTp ;; ret (sh_opt sh_tp (to_utc md p)));
    ("s_monthshift", md <- rMode ;; n <- rZ ;; y <- rZ ;; m <- rZ ;; d <- rZ ;;
       ret (if (n =? 0)%Z then sh_z3 (y, m, d) else sh_z3 (month_shift md n (y, m, d))));
    ("addstaged", md <- rMode ;; p <- rTp ;; x <- rDur ;;
       ret (match to_days x with
            | DU ys mos ds h mi s =>
              match tp_add md p (DU 0 0 ds h mi s) with
              | Some p1 => match tp_add md p1 (DU 0 mos 0 0 0 0) with
                           | Some p2 => sh_opt sh_tp (tp_add md p2 (DU ys 0 0 0 0 0))
                           | None => "ERR" end
              | None => "ERR" end
            | _ => "ERR" end));
    ("s_shiftdate", md <- rMode ;; n <- rZ ;; d <- rDate ;;
       ret (match to_calendar_date md d with
            | Some (Cal y m dd) => if (n =? 0)%Z then sh_z3 (y, m, dd) else sh_z3 (month_shift md n (y, m, dd))
            | _ => "ERR" end));
    ("addsteps", md <- rMode ;; p <- rTp ;; n <- rZ ;;
       ret (sh_opt sh_tp (Pos.iter (fun o => match o with Some x => add_months md x (if (0 <? n)%Z then 1 else (-1))%Z | None => None end)
                                   (Some p) (Z.to_pos (Z.abs n)))));
    ("addmonths", md <- rMode ;; p <- rTp ;; n <- rZ ;; ret (sh_opt sh_tp (add_months md p n)));
    (* recurrences *)
    ("rmake", md <- rMode ;; a <- rRecArgs ;; ret (sh_res (sh_rec md) (mk_rec md a)));
    ("rquery", md <- rMode ;; a <- rRecArgs ;; B <- rOperand ;; i <- rZ ;;
       ret (let '(pb, db, zb, kb) := B in
            match mk_rec md a, respell md pb db zb kb with
            | Ok r, Some t => String.concat " ; "
                [sh_tp t; sh_ob (get_is_valid md r t FUEL);
                 (match r_start r with Some _ => sh_oo (get_first_after md r t FUEL) | None => "NOSTART" end);
                 sh_o sh_tp (get_next md r (Some t)); sh_o sh_tp (get_prev md r (Some t));
                 sh_o sh_tp (rec_getitem md r i)]
            | _, _ => "ERR"
            end));
    ("recadd", md <- rMode ;; a <- rRecArgs ;; d <- rDur ;;
       ret (match mk_rec md a with
            | Err => "ERR"
            | Ok r =>
              match rec_add md r d with
              | Err => "ERR"
              | Ok r1 =>
                String.concat " ; " [sh_rec md r1;
                  (match rec_sub md r1 d with Ok r2 => "back " ++ sh_bool (rec_eqb md r2 r) | Err => "back ERR" end)]
              end
            end));
    ("req", md <- rMode ;; a <- rRecArgs ;; b <- rRecArgs ;;
       ret (match mk_rec md a, mk_rec md b with
            | Ok r1, Ok r2 => sh_bool (rec_eqb md r1 r2)
            | _, _ => "ERR" end));
    (* truncated + full *)
    ("tadd", md <- rMode ;; t <- rTrunc ;; p <- rTp ;;
       ret (if negb (trunc_bounds_ok md t) then "ERR" else
            match tp_add_trunc md t p with
            | TOk r => unwords [sh_tp r; ";"; sh_tres (tp_add_trunc md t r)]
            | x => sh_tres x end));
    ("s_truncexpect", md <- rMode ;; t <- rTrunc ;; p <- rTp ;; ret (trunc_expect md t p));
    (* the civil date-time of a point in its own offset, and its unix time: Spec level *)
    ("s_civil", md <- rMode ;; p <- rTp ;;
       ret (let '(n, x) := local_ds md p (tzone p) in
            let '(y, m, d) := cal_of_dn md n in
            let '(_, doy) := ord_of_dn md n in
            let sec := Qfloor x in
            let unix := Qfloor (instant md p - instant md (mkTp (Cal 1970 1 1) (HMS 0 0 0) (mkZone 0 0))) in
            unwords [show_Z y; show_Z m; show_Z d; show_Z doy; show_Z (sec / 3600); show_Z ((sec / 60) mod 60);
                     show_Z (sec mod 60); show_Z unix]));
    ("s_localds", md <- rMode ;; p <- rTp ;; z <- rZone ;;
       ret (let '(n, x) := local_ds md p z in unwords [show_Z n; show_Q x]));
    (* durations *)
    ("dadd", a <- rDur ;; b <- rDur ;; ret (sh_dur (dur_add a b)));
    ("dsub", a <- rDur ;; b <- rDur ;; ret (sh_dur (dur_sub a b)));
    ("dmul", a <- rDur ;; n <- rZ ;; ret (sh_dur (dur_mul a n)));
    ("dfloordiv", a <- rDur ;; n <- rZ ;; ret (if (n =? 0)%Z then "EXC ZeroDivisionError" else sh_dur (dur_floordiv a n)));
    ("dabs", a <- rDur ;; ret (sh_dur (dur_abs a)));
    ("deq", a <- rDur ;; b <- rDur ;; ret (sh_bool (dur_eqb a b)));
    ("dcmp", md <- rMode ;; a <- rDur ;; b <- rDur ;;
       ret (unwords [sh_bool (dur_ltb md a b); sh_bool (dur_leb md a b); sh_bool (dur_gtb md a b); sh_bool (dur_geb md a b)]));
    ("dhash", a <- rDur ;; b <- rDur ;;
       ret (let '(y1, m1, s1) := dur_hash_key a in let '(y2, m2, s2) := dur_hash_key b in
            sh_bool ((y1 =? y2)%Z && (m1 =? m2)%Z && qeqb s1 s2)));
    ("dbool", a <- rDur ;; ret (sh_bool (dur_bool a)));
    ("dexact", a <- rDur ;; ret (sh_bool (is_exact a)));
    ("dsecs", md <- rMode ;; a <- rDur ;; ret (show_Q (get_seconds md a)));
    ("ddays", md <- rMode ;; a <- rDur ;; ret (let '(d, sec) := days_and_seconds md a in unwords [show_Z d; show_Q sec]));
    ("dtodays", a <- rDur ;; ret (sh_dur (to_days a)));
    ("dtoweeks", a <- rDur ;; ret (sh_dur (match a with DW _ => a | DU _ _ d _ _ _ => dur_make 0 0 (d / 7) 0 0 0 0 end)));
    (* local zone and unix epoch *)
    ("localtz", tz <- rZ ;; alt <- rZ ;; dl <- rZ ;; dst <- rZ ;; ret (sh_z2 (get_local_time_zone tz alt dl dst)));
    ("localfmt", m <- tok ;; tz <- rZ ;; alt <- rZ ;; dl <- rZ ;; dst <- rZ ;;
       ret (get_local_time_zone_format
              (if String.eqb m "reduced" then TzReduced else if String.eqb m "extended" then TzExtended else TzNormal)
              tz alt dl dst));
    ("s_readoffset", t <- tok ;; ret (sh_opt sh_z2 (read_offset t)));
    ("fromunix", md <- rMode ;; n <- rQ ;; k <- tok ;;
       (if String.eqb k "utc" then ret (sh_opt sh_tp (from_unix md n None))
        else h <- rZ ;; m <- rZ ;; ret (sh_opt sh_tp (from_unix md n (Some (h, m))))));
    ("tounix", md <- rMode ;; p <- rTp ;; ret (sh_opt show_Z (seconds_since_unix_epoch md p)));
    (* time point arithmetic *)
    ("add", md <- rMode ;; p <- rTp ;; x <- rDur ;; ret (sh_opt sh_tp (tp_add md p x)));
    ("subd", md <- rMode ;; p <- rTp ;; x <- rDur ;; ret (sh_opt sh_tp (tp_sub_dur md p x)));
    ("tz", md <- rMode ;; p <- rTp ;; z <- rZone ;; ret (sh_opt sh_tp (to_time_zone md p z)));
    ("cmp", md <- rMode ;; a <- rTp ;; b <- rTp ;; ret (sh_opt sh_cmp (tp_cmp md a b)));
    ("hashkey", md <- rMode ;; p <- rTp ;;
       ret (sh_opt (fun k => let '(y, m, d, (h, mi, s)) := k in
                             unwords [show_Z y; show_Z m; show_Z d; show_Q h; show_Q mi; show_Q s])
                   (tp_hash_key md p)));
    ("sub", md <- rMode ;; a <- rTp ;; b <- rTp ;; ret (sh_opt sh_dur (tp_sub md a b)));
    ("tocal", md <- rMode ;; d <- rDate ;; ret (sh_opt sh_date (if date_in_bounds md d then to_calendar_date md d else None)));
    ("toord", md <- rMode ;; d <- rDate ;; ret (sh_opt sh_date (if date_in_bounds md d then to_ordinal_date md d else None)));
    ("toweek", md <- rMode ;; d <- rDate ;; ret (sh_opt sh_date (if date_in_bounds md d then to_week_date md d else None)))
  ].

Fixpoint lookup {A} (k : string) (l : list (string * A)) : option A :=
  match l with
  | [] => None
  | (k', v) :: r => if String.eqb k k' then Some v else lookup k r
  end.

Definition run_ops (table : list (string * rd string)) (line : string) : string :=
  match words line with
  | [] => ""
  | op :: args =>
    match lookup op table with
    | None => "BADOP"
    | Some f => match f args with Some (s, []) => s | _ => "BADARGS" end
    end
  end.

(* the full table and run_line live in Model/DriverAll.v *)
