(* Model/DriverAll_rectext.v -- private merge for the recurrence text/hash
   operations: the complete table plus ops_rectext (see notes/AGENT_GUIDE.md). *)
From Coq Require Import List String.
From Iso Require Import Model.Driver Model.DriverAll Model.DriverRecText.
Import ListNotations.

Definition run_line (line : string) : string := run_ops (all_ops ++ ops_rectext) line.
