(* Model/EffectSem.v -- property C16: big-step semantics of the write-effect IR
   (Spec/EffectIR.v) over the heap of Spec/Heap.v, and the analysis that is run
   on the generated table gen/Effects.v.  No proofs here (Proofs/EffectSpec.v).

   The analysis is a certificate checker: `infer` (a fuelled fixpoint over the
   call graph, not trusted) proposes, per method, an abstract value for every
   IR variable and a summary (what is returned, whether the receiver is
   written); `tc` checks these flow-insensitively, statement by statement;
   `check` = infer then tc on every method, plus: no public method writes its
   receiver.  Soundness is proved for `tc`, so nothing depends on `infer`
   having reached a fixpoint. *)
From Coq Require Import List String Ascii Bool Arith.
From Iso Require Import Spec.EffectIR Spec.Heap.
Import ListNotations.
Open Scope string_scope.

(* ------------------------------------------------------------------ *)
(* semantics                                                           *)
(* ------------------------------------------------------------------ *)
Inductive status : Type := Running | Jumped | Returned (v : val) | Aborted.

Definition env := var -> val.
Definition upd (e : env) (x : var) (v : val) : env :=
  fun y => if Nat.eqb y x then v else e y.
(* a method starts with the receiver in variable 0; every other parameter is
   given an arbitrary existing value by an explicit SAny in the body *)
Definition env0 (recv : val) : env :=
  fun y => match y with 0 => recv | _ => VPrim 0 end.

(* public = callable by clients: no leading underscore, or a dunder other than
   the initialiser *)
Fixpoint ends_dunder (s : string) : bool :=
  match s with
  | EmptyString => false
  | String a r =>
    match r with
    | String b EmptyString => (Ascii.eqb a "_"%char && Ascii.eqb b "_"%char)%bool
    | _ => ends_dunder r
    end
  end.
Definition is_public (m : string) : bool :=
  match m with
  | String a r =>
    if Ascii.eqb a "_"%char then
      match r with
      | String b r' => (Ascii.eqb b "_"%char && ends_dunder r' && negb (String.eqb m "__init__"))%bool
      | EmptyString => false
      end
    else true
  | EmptyString => false
  end.

(* callable by code outside the four classes: clients (public methods) and
   the package's other modules (the private names they are seen to use) *)
Definition outside_callable (ent : entry) : bool := is_public (e_name ent) || e_ext ent.

(* what a finished callee leaves in its caller *)
Definition after_call (e : env) (x : var) (s : status) : env * status :=
  match s with
  | Returned v => (upd e x v, Running)
  | Aborted => (e, Aborted)
  | _ => (upd e x (VPrim 0), Running)
  end.

(* exec T s e h e' h' st: from a running state with environment e and heap h,
   statement s can end in environment e', heap h' and status st *)
Inductive exec (T : list entry) : stmt -> env -> heap -> env -> heap -> status -> Prop :=
| E_Skip : forall e h, exec T SSkip e h e h Running
  (* any statement may raise *)
| E_Crash : forall s e h, exec T s e h e h Aborted
| E_SeqRun : forall a b e h e1 h1 e2 h2 s,
    exec T a e h e1 h1 Running -> exec T b e1 h1 e2 h2 s -> exec T (SSeq a b) e h e2 h2 s
| E_SeqStop : forall a b e h e1 h1 s,
    exec T a e h e1 h1 s -> s <> Running -> exec T (SSeq a b) e h e1 h1 s
| E_IfL : forall a b e h e1 h1 s, exec T a e h e1 h1 s -> exec T (SIf a b) e h e1 h1 s
| E_IfR : forall a b e h e1 h1 s, exec T b e h e1 h1 s -> exec T (SIf a b) e h e1 h1 s
| E_LoopDone : forall b e h, exec T (SLoop b) e h e h Running
| E_LoopStep : forall b e h e1 h1 s1 e2 h2 s2,
    exec T b e h e1 h1 s1 -> s1 = Running \/ s1 = Jumped ->
    exec T (SLoop b) e1 h1 e2 h2 s2 -> exec T (SLoop b) e h e2 h2 s2
| E_LoopStop : forall b e h e1 h1 s1,
    exec T b e h e1 h1 s1 -> (s1 = Aborted \/ exists v, s1 = Returned v) ->
    exec T (SLoop b) e h e1 h1 s1
| E_New : forall x e h, exec T (SNew x) e h (upd e x (VLoc (List.length h))) (h ++ [[]])%list Running
| E_Alias : forall x y e h, exec T (SAlias x y) e h (upd e x (e y)) h Running
| E_Any : forall x v e h, valid h v -> exec T (SAny x) e h (upd e x v) h Running
| E_Prim : forall x n e h, exec T (SPrim x) e h (upd e x (VPrim n)) h Running
| E_Write : forall x o e h, Forall (valid h) o -> exec T (SWrite x) e h e (havoc h (e x) o) Running
| E_Store : forall x y o e h, Forall (valid h) o -> exec T (SStore x y) e h e (havoc h (e x) o) Running
| E_Call : forall x m y ent e h e1 h1 s1,
    In ent T -> e_name ent = m ->
    exec T (e_body ent) (env0 (e y)) h e1 h1 s1 ->
    exec T (SCall x m y) e h (fst (after_call e x s1)) h1 (snd (after_call e x s1))
| E_Ext : forall x ent recv v e h e1 h1 s1 s,
    In ent T -> outside_callable ent = true -> valid h recv ->
    exec T (e_body ent) (env0 recv) h e1 h1 s1 ->
    valid h1 v -> s = Running \/ s = Aborted ->
    exec T (SExt x) e h (upd e x v) h1 s
| E_Return : forall x e h, exec T (SReturn x) e h e h (Returned (e x))
| E_Jump : forall e h, exec T SJump e h e h Jumped
| E_Abort : forall e h, exec T SAbort e h e h Aborted.

(* one public operation applied by a client to an existing value *)
Inductive op_step (T : list entry) : heap -> heap -> Prop :=
| OpStep : forall ent recv h e1 h1 s1,
    In ent T -> is_public (e_name ent) = true -> valid h recv ->
    exec T (e_body ent) (env0 recv) h e1 h1 s1 -> op_step T h h1.

(* a history: the heaps after each of a sequence of public operations *)
Inductive history (T : list entry) : heap -> list heap -> Prop :=
| H_nil : forall h, history T h []
| H_cons : forall h h1 rest, op_step T h h1 -> history T h1 rest -> history T h (h1 :: rest).

(* ------------------------------------------------------------------ *)
(* abstract values and summaries                                       *)
(* ------------------------------------------------------------------ *)
(* AFresh: allocated during the current activation (or not an object);
   ASelfOrFresh: that, or the receiver; AAny: any value (join = max). *)
Inductive aval : Type := AFresh | ASelfOrFresh | AAny.

Definition aleb (a b : aval) : bool :=
  match a, b with
  | AFresh, _ => true
  | ASelfOrFresh, AFresh => false
  | ASelfOrFresh, _ => true
  | AAny, AAny => true
  | AAny, _ => false
  end.
Definition ajoin (a b : aval) : aval := if aleb a b then b else a.

(* summary of a method NAME (joined over the classes defining it):
   what it returns relative to its receiver, and whether it writes it *)
Definition summary := (aval * bool)%type.
Definition summaries := list (string * summary).

Fixpoint lookup (Sm : summaries) (m : string) : option summary :=
  match Sm with
  | [] => None
  | (k, v) :: r => if String.eqb k m then Some v else lookup r m
  end.

Definition aget (G : list aval) (x : var) : aval := nth x G AAny.

(* the value returned by a call, seen from the caller *)
Definition apply_ret (r recv : aval) : aval :=
  match r with AFresh => AFresh | ASelfOrFresh => recv | AAny => AAny end.

(* may the object in a variable of abstract value a be written, in a method
   that is (mu = true) or is not allowed to write its receiver *)
Definition writable (mu : bool) (a : aval) : bool :=
  match a with AFresh => true | ASelfOrFresh => mu | AAny => false end.

(* the checker: G = abstract value of each variable (whole method),
   mu = this method may write its receiver, rt = what it may return *)
Fixpoint tc (G : list aval) (mu : bool) (rt : aval) (Sm : summaries) (s : stmt) : bool :=
  match s with
  | SSkip | SJump | SAbort | SNew _ | SPrim _ => true
  | SSeq a b | SIf a b => tc G mu rt Sm a && tc G mu rt Sm b
  | SLoop b => tc G mu rt Sm b
  | SAlias x y => aleb (aget G y) (aget G x)
  | SAny x | SExt x => aleb AAny (aget G x)
  | SWrite x | SStore x _ => writable mu (aget G x)
  | SCall x m y =>
    match lookup Sm m with
    | None => false
    | Some (r, cm) =>
      (negb cm || writable mu (aget G y)) && aleb (apply_ret r (aget G y)) (aget G x)
    end
  | SReturn x => aleb (aget G x) rt
  end.

Definition tc_entry (Sm : summaries) (ent : entry) (G : list aval) : bool :=
  match lookup Sm (e_name ent) with
  | None => false
  | Some (rt, mu) =>
    tc G mu rt Sm (e_body ent) && aleb ASelfOrFresh (aget G 0) &&
    (negb (outside_callable ent) || negb mu)
  end.

Fixpoint forallb2 {A B} (f : A -> B -> bool) (l : list A) (m : list B) : bool :=
  match l, m with
  | [], [] => true
  | a :: l', b :: m' => f a b && forallb2 f l' m'
  | _, _ => false
  end.

(* ------------------------------------------------------------------ *)
(* inference (untrusted)                                               *)
(* ------------------------------------------------------------------ *)
Fixpoint raise (G : list aval) (x : var) (a : aval) : list aval :=
  match G, x with
  | [], _ => []
  | g :: r, 0 => ajoin g a :: r
  | g :: r, S x' => g :: raise r x' a
  end.

Definition is_self (a : aval) : bool := match a with ASelfOrFresh => true | _ => false end.

Definition istate := (list aval * aval * bool)%type.

Fixpoint infer_stmt (Sm : summaries) (s : stmt) (st : istate) : istate :=
  let '(G, rt, mu) := st in
  match s with
  | SSeq a b | SIf a b => infer_stmt Sm b (infer_stmt Sm a st)
  | SLoop b => infer_stmt Sm b st
  | SAlias x y => (raise G x (aget G y), rt, mu)
  | SAny x | SExt x => (raise G x AAny, rt, mu)
  | SWrite x | SStore x _ => (G, rt, mu || is_self (aget G x))
  | SCall x m y =>
    match lookup Sm m with
    | None => st
    | Some (r, cm) => (raise G x (apply_ret r (aget G y)), rt, mu || (cm && is_self (aget G y)))
    end
  | SReturn x => (G, ajoin rt (aget G x), mu)
  | _ => st
  end.

Fixpoint add_summ (Sm : summaries) (m : string) (v : summary) : summaries :=
  match Sm with
  | [] => [(m, v)]
  | (k, (r, mu)) :: rest =>
    if String.eqb k m then (k, (ajoin r (fst v), mu || snd v)) :: rest
    else (k, (r, mu)) :: add_summ rest m v
  end.

Definition init_G (n : nat) : list aval :=
  match n with 0 => [] | S k => ASelfOrFresh :: repeat AFresh k end.

Definition init_S (T : list entry) : summaries :=
  fold_left (fun Sm ent => add_summ Sm (e_name ent) (AFresh, false)) T [].

(* one round: re-analyse every method against the current summaries *)
Fixpoint round (Sm : summaries) (T : list entry) (Gs : list (list aval)) (acc : summaries)
  : list (list aval) * summaries :=
  match T, Gs with
  | ent :: T', G :: Gs' =>
    let '(G', rt, mu) :=
      infer_stmt Sm (e_body ent) (G, AFresh, false) in
    let '(Gr, acc') := round Sm T' Gs' (add_summ acc (e_name ent) (rt, mu)) in
    (G' :: Gr, acc')
  | _, _ => ([], acc)
  end.

Fixpoint iterate (fuel : nat) (T : list entry) (Sm : summaries) (Gs : list (list aval))
  : summaries * list (list aval) :=
  match fuel with
  | 0 => (Sm, Gs)
  | S f => let '(Gs', Sm') := round Sm T Gs Sm in iterate f T Sm' Gs'
  end.

Definition FUEL_INFER : nat := 24.

Definition infer (T : list entry) : summaries * list (list aval) :=
  iterate FUEL_INFER T (init_S T) (map (fun ent => init_G (e_nvars ent)) T).

Definition check_with (T : list entry) (Sm : summaries) (Gs : list (list aval)) : bool :=
  forallb2 (tc_entry Sm) T Gs.

Definition check (T : list entry) : bool :=
  let '(Sm, Gs) := infer T in check_with T Sm Gs.

(* summary of a method name as computed on a table (used by the line protocol) *)
Definition summary_of (T : list entry) (m : string) : option summary :=
  lookup (fst (infer T)) m.
