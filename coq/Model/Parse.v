(* Model/Parse.v -- executable mirror of TimePointParser (parsers.py):
   get_info / get_date_info / get_time_info / get_time_zone_info over the
   generated form tables, process_time_zone_info, _create_timepoint_from_info,
   and of the TimePoint constructor (data.py: defaults, decimal handling,
   conflicts, _check_bounds).  No proofs in here. *)
From Coq Require Import ZArith QArith Qround List Bool String Ascii.
From Iso Require Import Spec.Cal Model.Num Model.Helpers Model.Duration Model.TimePoint Model.Forms.
Import ListNotations.
Open Scope Z_scope.

(* ---------- strings ---------- *)
Local Open Scope string_scope.
Fixpoint str_prefix (p s : string) : option string :=   (* rest of s after prefix p *)
  match p, s with
  | EmptyString, _ => Some s
  | String a p', String b s' => if Ascii.eqb a b then str_prefix p' s' else None
  | _, _ => None
  end.
Definition is_digit (c : ascii) : bool :=
  let n := nat_of_ascii c in (Nat.leb 48 n && Nat.leb n 57)%bool.
Fixpoint take_digits (n : nat) (s : string) : option (string * string) :=
  match n with
  | O => Some ("", s)
  | S k => match s with
           | String c r => if is_digit c then
                             match take_digits k r with Some (d, rest) => Some (String c d, rest) | None => None end
                           else None
           | EmptyString => None
           end
  end.
Fixpoint span_digits (s : string) : string * string :=
  match s with
  | String c r => if is_digit c then let '(d, rest) := span_digits r in (String c d, rest) else ("", s)
  | EmptyString => ("", "")
  end.
Definition nl : string := String (ascii_of_nat 10) "".
(* Python's `$`: end of string, or just before a final newline *)
Definition at_end (s : string) : bool := String.eqb s "" || String.eqb s nl.

Definition env := list (string * string).
Fixpoint lookup_env (k : string) (e : env) : option string :=
  match e with [] => None | (k', v) :: r => if String.eqb k k' then Some v else lookup_env k r end.
Definition has_key (k : string) (e : env) : bool := match lookup_env k e with Some _ => true | None => false end.
Fixpoint remove_key (k : string) (e : env) : env :=
  match e with [] => [] | (k', v) :: r => if String.eqb k k' then remove_key k r else (k', v) :: remove_key k r end.

Definition snoc (e : env) (k v : string) : env := List.app e [(k, v)].

(* shorter and shorter prefixes of a digit run (greedy repeat with backtracking) *)
Fixpoint prefixes_desc (d : string) : list (string * string) :=
  match d with
  | EmptyString => []
  | String c r => List.app (map (fun pr => (String c (fst pr), snd pr)) (prefixes_desc r)) [(String c "", r)]
  end.

(* match a form's regex (anchored ^...$) against a string *)
Fixpoint pmatch (ts : list ptok) (s : string) (acc : env) : option env :=
  match ts with
  | [] => if at_end s then Some acc else None
  | PLit l :: r => match str_prefix l s with Some rest => pmatch r rest acc | None => None end
  | PGrp nm l :: r => match str_prefix l s with Some rest => pmatch r rest (snoc acc nm (l)) | None => None end
  | PDig nm n :: r => match take_digits n s with
                      | Some (d, rest) => pmatch r rest (snoc acc nm (d)) | None => None end
  | PSign nm :: r => match s with
                     | String c rest => if Ascii.eqb c "+" || Ascii.eqb c "-"
                                        then pmatch r rest (snoc acc nm (String c "")) else None
                     | EmptyString => None end
  | PDigs nm :: r =>
    let '(d, rest) := span_digits s in
    (fix try (cands : list (string * string)) : option env :=
       match cands with
       | [] => None
       | (pre, suf) :: more =>
         match pmatch r (suf ++ rest) (snoc acc nm (pre)) with Some e => Some e | None => try more end
       end) (prefixes_desc d)
  | PUnix nm :: r =>
    let '(sg, s0) := match s with
                     | String c t => if Ascii.eqb c "-" then ("-", t) else ("", s)
                     | EmptyString => ("", s) end in
    let '(d1, rest1) := span_digits s0 in
    if String.eqb d1 "" then None
    else
      let '(sep, rest2) := match rest1 with
                           | String c r2 => if Ascii.eqb c "," || Ascii.eqb c "." then (String c "", r2) else ("", rest1)
                           | EmptyString => ("", rest1) end in
      let '(d2, rest3) := span_digits rest2 in
      pmatch r rest3 (snoc acc nm (sg ++ d1 ++ sep ++ d2))
  end.

Local Open Scope Z_scope.   (* Z comparisons take precedence over the string ones *)

(* ---------- parser configuration ---------- *)
Record pcfg := mkCfg {
  c_ned : Z;                         (* num_expanded_year_digits: 0, 2 or 3 *)
  c_trunc : bool;                    (* allow_truncated *)
  c_basic : bool;                    (* allow_only_basic *)
  c_assumed : option (Z * Z);        (* assumed_time_zone *)
  c_unknown : bool;                  (* default_to_unknown_time_zone *)
  c_local : Z * Z                    (* what timezone.get_local_time_zone() returns *)
}.

Inductive perr := ESyntax | EBadInput | EValue | EUnmodelled.
Inductive pres (A : Type) := POk (a : A) | PErr (e : perr).
Arguments POk {A} a.
Arguments PErr {A} e.

Section Tables.
Variable date_forms : list form.     (* DATE_FORMS_n for the configuration's n *)
Variable time_forms : list form.
Variable zone_forms : list form.

Definition mem (x : string) (l : list string) : bool := existsb (String.eqb x) l.

Definition formats_of (cfg : pcfg) : list string := if c_basic cfg then ["basic"] else ["basic"; "extended"].

Fixpoint first_match (fs : list form) (s : string) : option (form * env) :=
  match fs with
  | [] => None
  | f :: r => match pmatch (f_parse f) s [] with Some e => Some (f, e) | None => first_match r s end
  end.

(* get_date_info *)
Definition get_date_info (cfg : pcfg) (s : string) (bad_types : list string) : option (form * env) :=
  let tkeys := filter (fun k => negb (mem k bad_types) && (c_trunc cfg || negb (String.eqb k "truncated")))
                      ["complete"; "truncated"; "reduced"] in
  first_match
    (flat_map (fun fk => flat_map (fun tk =>
        filter (fun f => String.eqb (f_format f) fk && String.eqb (f_type f) tk) date_forms) tkeys)
       (formats_of cfg)) s.

(* get_time_info *)
Definition get_time_info (cfg : pcfg) (s : string) (bad_formats bad_types : list string) : option (form * env) :=
  first_match
    (flat_map (fun fk => if mem fk bad_formats then [] else
        flat_map (fun tk => if mem tk bad_types then [] else
           filter (fun f => String.eqb (f_format f) fk && String.eqb (f_type f) tk) time_forms)
          ["complete"; "reduced"; "truncated"])
       (formats_of cfg)) s.

(* get_time_zone_info *)
Definition get_zone_info (cfg : pcfg) (s : string) (bad_formats : list string) : option (form * env) :=
  first_match
    (flat_map (fun fk => if mem fk bad_formats then [] else
        filter (fun f => String.eqb (f_format f) fk) zone_forms) (formats_of cfg)) s.

(* zone information after process_time_zone_info *)
Inductive zinfo := ZNone | ZUtc | ZVal (h : string + Z) (m : option (string + Z)).

Definition neg_field (v : string + Z) : option (string + Z) :=
  match v with
  | inl s => match read_Z s with Some z => Some (inr (- z)) | None => None end
  | inr z => Some (inr (- z))
  end.

Definition process_zone (cfg : pcfg) (e : env) : pres zinfo :=
  match e with
  | [] =>
    match c_assumed cfg with
    | None => if c_unknown cfg then POk ZNone
              else POk (ZVal (inr (fst (c_local cfg))) (Some (inr (snd (c_local cfg)))))
    | Some (h, m) => POk (ZVal (inr h) (Some (inr m)))
    end
  | _ =>
    if has_key "time_zone_utc" e then POk ZUtc
    else
      match lookup_env "time_zone_hour" e with
      | None => PErr EValue     (* KeyError is not reachable with the generated forms *)
      | Some h =>
        let m := lookup_env "time_zone_minute" e in
        let neg := match lookup_env "time_zone_sign" e with Some s => String.eqb s "-" | None => false end in
        if neg then
          match neg_field (inl h), (match m with Some x => neg_field (inl x) | None => Some (inr 0) end) with
          | Some h', Some m' => POk (ZVal h' (match m with Some _ => Some m' | None => None end))
          | _, _ => PErr EValue
          end
        else POk (ZVal (inl h) (match m with Some x => Some (inl x) | None => None end))
      end
  end.

(* str.split(sep) *)
Definition split_str (sep : ascii) (s : string) : list string := split_on sep s "".
Fixpoint ends_with_Z (s : string) : option string :=   (* s without its final "Z" *)
  match s with
  | EmptyString => None
  | String c EmptyString => if Ascii.eqb c "Z" then Some "" else None
  | String c r => match ends_with_Z r with Some x => Some (String c x) | None => None end
  end.
Fixpoint contains_char (c : ascii) (s : string) : bool :=
  match s with EmptyString => false | String a r => Ascii.eqb a c || contains_char c r end.
(* str.rsplit("-", 1) on a string known to contain "-" *)
Fixpoint rsplit_dash (s : string) : string * string :=
  match s with
  | EmptyString => ("", "")
  | String c r => if contains_char "-" r then let '(a, b) := rsplit_dash r in (String c a, b)
                  else if Ascii.eqb c "-" then ("", r) else let '(a, b) := rsplit_dash r in (String c a, b)
  end.

(* the outcome of get_info *)
Record pinfo := mkInfo { i_date : env; i_time : env; i_zone : zinfo; i_expr : string }.

Definition get_info (cfg : pcfg) (s : string) : pres pinfo :=
  match split_str "T" s with
  | [d] =>
    match get_date_info cfg d [] with
    | None => PErr ESyntax
    | Some (f, e) =>
      match process_zone cfg [] with
      | POk z => POk (mkInfo e [] z (f_expr f))
      | PErr x => PErr x
      end
    end
  | [d; tz] =>
    let dres :=
      if String.eqb d "" && c_trunc cfg then Some ("", "truncated", "", [("truncated", "True")])
      else match get_date_info cfg d ["reduced"] with
           | Some (f, e) => Some (f_format f, f_type f, f_expr f, e)
           | None => None end in
    match dres with
    | None => PErr ESyntax
    | Some (fk, tk, dexpr, de) =>
      let bad_formats := if String.eqb tk "truncated" then []
                         else if String.eqb fk "basic" then ["extended"]
                         else if String.eqb fk "extended" then ["basic"] else [] in
      let bad_types := if has_key "truncated" de then [] else ["truncated"] in
      (* split time and zone *)
      let split : pres (string * option string) :=
        match ends_with_Z tz with
        | Some t => POk (t, Some "Z")
        | None =>
          if contains_char "+" tz then
            match split_str "+" tz with
            | [t; z] => POk (t, Some ("+" ++ z))
            | _ => PErr EValue           (* too many values to unpack *)
            end
          else if contains_char "-" tz then
            let '(t, z) := rsplit_dash tz in
            match get_time_info cfg t bad_formats bad_types, get_zone_info cfg ("-" ++ z) bad_formats with
            | Some _, Some _ => POk (t, Some ("-" ++ z))
            | _, _ => POk (tz, None)
            end
          else POk (tz, None)
        end in
      match split with
      | PErr x => PErr x
      | POk (t, zs) =>
        let zres : pres (zinfo * string) :=
          match zs with
          | None => match process_zone cfg [] with POk z => POk (z, "") | PErr x => PErr x end
          | Some ztext =>
            match get_zone_info cfg ztext bad_formats with
            | None => PErr ESyntax
            | Some (zf, ze) => match process_zone cfg ze with POk z => POk (z, f_expr zf) | PErr x => PErr x end
            end
          end in
        match zres with
        | PErr x => PErr x
        | POk (z, zexpr) =>
          match get_time_info cfg t bad_formats bad_types with
          | None => PErr ESyntax
          | Some (tf, te) => POk (mkInfo de te z (dexpr ++ "T" ++ f_expr tf ++ zexpr))
          end
        end
      end
    end
  | _ => PErr EValue                     (* too many values to unpack *)
  end.

End Tables.

(* ---------- the parsed time point (truncated or not) ---------- *)
Record ptp := mkPtp {
  p_year : option Z; p_month : option Z; p_dom : option Z; p_doy : option Z;
  p_week : option Z; p_dow : option Z;
  p_hour : option Q; p_min : option Q; p_sec : option Q;
  p_zone : option zone;              (* None = unknown *)
  p_trunc : bool; p_tprop : string;  (* "", "year_of_decade", "year_of_century" *)
  p_ned : Z; p_fmt : string          (* num_expanded_year_digits, dump format ("" = none) *)
}.

Definition digits_to_Z (s : string) : option Z := read_Z s.
(* "0." ++ digits as an exact rational *)
Definition decimal_of (s : string) : option Q :=
  match read_Z s with
  | Some n => Some (Qred (Qmake n (Pos.pow 10 (Pos.of_nat (String.length s)))))
  | None => None
  end.

Definition oz (e : env) (k : string) : pres (option Z) :=
  match lookup_env k e with
  | None => POk None
  | Some s => match digits_to_Z s with Some z => POk (Some z) | None => PErr EValue end
  end.
Definition oq (e : env) (k : string) : pres (option Q) :=
  match lookup_env k e with
  | None => POk None
  | Some s => match digits_to_Z s with Some z => POk (Some (qz z)) | None => PErr EValue end
  end.
Definition odec (e : env) (k : string) : pres (option Q) :=
  match lookup_env k e with
  | None => POk None
  | Some s => match decimal_of s with Some q => POk (Some q) | None => PErr EValue end
  end.
Definition pbind {A B} (x : pres A) (f : A -> pres B) : pres B :=
  match x with POk a => f a | PErr e => PErr e end.
Notation "x <-- m ;;; k" := (pbind m (fun x => k)) (at level 61, m at next level, right associativity).

Definition in_rng (v : option Z) (lo hi : Z) : bool :=
  match v with None => true | Some x => (lo <=? x) && (x <=? hi) end.
Definition in_rngq (v : option Q) (lo hi : Z) : bool :=    (* lo <= v <= hi *)
  match v with None => true | Some x => qleb (qz lo) x && qleb x (qz hi) end.
Definition below_q (v : option Q) (lo hi : Z) : bool :=    (* lo <= v < hi *)
  match v with None => true | Some x => qleb (qz lo) x && qltb x (qz hi) end.
Definition truthy (v : option Z) : bool := match v with Some x => negb (x =? 0) | None => false end.

(* TimePoint._check_bounds *)
Definition check_bounds (md : mode) (p : ptp) : bool :=
  in_rng (p_month p) 1 12 &&
  (let maxd := match p_month p with
               | Some m => match p_year p with
                           | Some y => get_days_in_month md m y
                           | None => get_days_in_month_leap md m end
               | None => MAX_DAYS_IN_MONTH md end in
   in_rng (p_dom p) 1 maxd) &&
  (match p_year p with
   | Some y => in_rng (p_week p) 1 (get_weeks_in_year md y) && in_rng (p_doy p) 1 (get_days_in_year md y)
   | None => in_rng (p_week p) 1 (max_weeks_in_year md) && in_rng (p_doy p) 1 (DAYS_IN_YEAR_LEAP md)
   end) &&
  in_rng (p_dow p) 1 7 &&
  in_rngq (p_hour p) 0 24 &&
  (if match p_hour p with Some h => qeqb h 24 | None => false end
   then in_rngq (p_min p) 0 0 && in_rngq (p_sec p) 0 0
   else below_q (p_min p) 0 60 && below_q (p_sec p) 0 60).

(* TimePoint.__init__ on the keyword arguments the parser can supply *)
Definition construct (md : mode) (year month dom doy week dow : option Z)
           (hour hdec minute mdec sec sdec : option Q) (zn : option (Z * option Z))
           (truncated : bool) (tprop : string) (ned : Z) (fmt : string) (is_duration : bool) : pres ptp :=
  (* decimals *)
  h1 <-- (match hdec with
          | None => POk hour
          | Some f => match hour with
                      | None => PErr EBadInput
                      | Some h => if negb (qleb 0 f && qltb f 1) then PErr EBadInput
                                  else match minute, sec with
                                       | None, None => POk (Some (qadd h f))
                                       | _, _ => PErr EBadInput end
                      end
          end) ;;;
  m1 <-- (match mdec with
          | None => POk minute
          | Some f => match minute with
                      | None => PErr EBadInput
                      | Some m => if negb (qleb 0 f && qltb f 1) then PErr EBadInput
                                  else match sec with None => POk (Some (qadd m f)) | Some _ => PErr EBadInput end
                      end
          end) ;;;
  s1 <-- (match sdec with
          | None => POk sec
          | Some f => match sec with
                      | None => PErr EBadInput
                      | Some s => if negb (qleb 0 f && qltb f 1) then PErr EBadInput else POk (Some (qadd s f))
                      end
          end) ;;;
  if negb truncated && match year with None => true | Some _ => false end then PErr EBadInput
  else
    let '(h2, m2, s2) :=
      if truncated then (h1, m1, s1)
      else
        let h' := match h1 with None => Some 0%Q | x => x end in
        let m' := match hdec, m1 with None, None => Some 0%Q | _, x => x end in
        let s' := match hdec, mdec, s1 with None, None, None => Some 0%Q | _, _, x => x end in
        (h', m', s') in
    (* TimeZone(hours, minutes, unknown) *)
    z <-- (match zn with
           | None => if truncated then POk None else POk (Some (mkZone 0 0))
           | Some (zh, zmo) =>
             let zmv := match zmo with Some x => x | None => 0 end in
             if negb ((-99 <=? zh) && (zh <=? 99)) then PErr EBadInput
             else
               let lo := if 0 <? zh then 0 else -59 in
               let hi := if zh <? 0 then 0 else 59 in
               if negb ((lo <=? zmv) && (zmv <=? hi)) then PErr EBadInput
               else POk (Some (mkZone zh zmv))
           end) ;;;
    let month_spec := truthy month || truthy dom in
    let week_spec := truthy week || truthy dow in
    if month_spec && week_spec then PErr EBadInput
    else if month_spec && match doy with Some _ => true | None => false end then PErr EBadInput
    else if week_spec && match doy with Some _ => true | None => false end then PErr EBadInput
    else
      if is_duration then POk (mkPtp year month dom doy week dow h2 m2 s2 z truncated tprop ned fmt)
      else
        let '(month', dom', week', dow') :=
          if negb truncated && match doy with None => true | Some _ => false end then
            if negb week_spec then
              (match month with None => Some 1 | x => x end, match dom with None => Some 1 | x => x end, week, dow)
            else
              (month, dom, match week with None => Some 1 | x => x end, match dow with None => Some 1 | x => x end)
          else (month, dom, week, dow) in
        let p := mkPtp year month' dom' doy week' dow' h2 m2 s2 z truncated tprop ned fmt in
        if check_bounds md p then POk p else PErr EBadInput.

Definition zfield (v : string + Z) : pres Z :=
  match v with inr z => POk z | inl s => match digits_to_Z s with Some z => POk z | None => PErr EValue end end.

(* _create_timepoint_from_info *)
Definition create_timepoint (md : mode) (cfg : pcfg) (i : pinfo) (dump_format : string) (is_duration : bool) : pres ptp :=
  let d := i_date i in
  let has := fun k => has_key k d in
  let trunc0 := has "truncated" in
  let tprop0 := if trunc0 then (if has "year_of_century" then "year_of_century"
                                else if has "year_of_decade" then "year_of_decade" else "")
                else if negb (has "century") && has "year_of_century" then "year_of_century" else "" in
  let trunc1 := trunc0 || (negb trunc0 && negb (has "century") && has "year_of_century") in
  let year_present := negb trunc1 || has "year_of_decade" || has "century" || has "year_of_century" ||
                      has "expanded_year" || has "year_sign" in
  yr <-- (if year_present then
            yod <-- oz d "year_of_decade" ;;;
            yoc <-- oz d "year_of_century" ;;;
            cen <-- oz d "century" ;;;
            ex <-- (match lookup_env "expanded_year" d with
                    | None => POk 0
                    | Some s => match digits_to_Z s with Some z => POk z | None => PErr EValue end
                    end) ;;;
            let y := (match yod with Some v => v | None => 0 end) + (match yoc with Some v => v | None => 0 end) +
                     100 * (match cen with Some v => v | None => 0 end) + 10000 * ex in
            let neg := match lookup_env "year_sign" d with Some s => String.eqb s "-" | None => false end in
            POk (Some (if neg then - y else y))
          else POk None) ;;;
  let tprop := if has "year_of_decade" && year_present then "year_of_decade" else tprop0 in
  let ned := match lookup_env "expanded_year" d with
             | Some s => if String.eqb s "" then 0 else c_ned cfg | None => 0 end in
  month <-- oz d "month_of_year" ;;; dom <-- oz d "day_of_month" ;;; doy <-- oz d "day_of_year" ;;;
  week <-- oz d "week_of_year" ;;; dow <-- oz d "day_of_week" ;;;
  let t := i_time i in
  hour <-- oq t "hour_of_day" ;;; hdec <-- odec t "hour_of_day_decimal" ;;;
  minute <-- oq t "minute_of_hour" ;;; mdec <-- odec t "minute_of_hour_decimal" ;;;
  sec <-- oq t "second_of_minute" ;;; sdec <-- odec t "second_of_minute_decimal" ;;;
  zn <-- (match i_zone i with
          | ZNone => POk None
          | ZUtc => POk (Some (0, Some 0))
          | ZVal h m => hz <-- zfield h ;;;
                        (match m with
                         | None => POk (Some (hz, None))
                         | Some mv => mz <-- zfield mv ;;; POk (Some (hz, Some mz)) end)
          end) ;;;
  let trunc := trunc1 || has_key "truncated" t in
  construct md yr month dom doy week dow hour hdec minute mdec sec sdec zn trunc tprop ned dump_format is_duration.
