(* Model/DriverAll_durtext.v -- private merge of the base operation table with
   the C10 operations (the main author merges ops_durtext into DriverAll.v). *)
From Coq Require Import List String.
From Iso Require Import Model.Driver Model.DriverDurText.
Import ListNotations.

Definition run_line (line : string) : string := run_ops (op_table ++ ops_durtext) line.
