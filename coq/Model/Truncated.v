(* Model/Truncated.v -- executable mirror of the truncated-point addition of
   data.py: TimePoint.__add__ (truncated + full), add_truncated and
   get_truncated_properties, for the shapes property C20 speaks about: any
   subset of hour/minute/second and the day designators day-of-week,
   day-of-month, day-of-year, week-of-year.  Unit-stepping loops are Pos.iter
   with a bound; a loop that is still unfinished at its bound yields Hang (the
   real loop would keep running).  No proofs in here. *)
From Coq Require Import ZArith QArith Qround List Bool.
From Iso Require Import Spec.Cal Model.Num Model.Helpers Model.Duration Model.TimePoint.
Import ListNotations.
Open Scope Z_scope.

Record trunc := mkTrunc {
  t_hour : option Q; t_min : option Q; t_sec : option Q;
  t_dow : option Z; t_dom : option Z; t_doy : option Z; t_week : option Z;
  t_zone : option zone          (* None = unknown *)
}.

Inductive tres := TOk (p : tp) | THang | TErr.

(* TimePoint.to_hour_minute_second *)
Definition to_hms (p : tp) : tp :=
  let '(h, m, s) := get_hour_minute_second (ttod p) in with_tod p (HMS h m s).

(* while field != target: field += 1; tick_over -- at most `bound` times *)
Definition step_until (md : mode) (get : tp -> option Q) (bump : tp -> tp) (target : Q) (bound : Z) (p : tp) : tres :=
  let cond := fun x => match get x with Some v => negb (qeqb v target) | None => false end in
  let r := loop cond (fun x => tick_over md (bump x)) bound p in
  if cond r then THang else TOk r.

Definition tod_sec (p : tp) : option Q := match ttod p with HMS _ _ s => Some s | _ => None end.
Definition tod_min (p : tp) : option Q := match ttod p with HMS _ m _ | HM _ m => Some m | _ => None end.
Definition tod_hr (p : tp) : option Q := Some (tod_hour (ttod p)).
Definition bump_sec (p : tp) : tp := match ttod p with HMS h m s => with_tod p (HMS h m (qadd s 1)) | _ => p end.
Definition bump_min (p : tp) : tp :=
  match ttod p with HMS h m s => with_tod p (HMS h (qadd m 1) s) | HM h m => with_tod p (HM h (qadd m 1)) | _ => p end.
Definition bump_hr (p : tp) : tp := with_tod p (add_hours (ttod p) 1).

Definition date_field (k : Z) (p : tp) : option Q :=
  match tdate p, k with
  | Wk _ _ d, 0 => Some (qz d)     (* day of week *)
  | Cal _ _ d, 1 => Some (qz d)    (* day of month *)
  | Ord _ d, 2 => Some (qz d)      (* day of year *)
  | Wk _ w _, 3 => Some (qz w)     (* week of year *)
  | _, _ => None
  end.
Definition bump_date (k : Z) (p : tp) : tp :=
  match tdate p, k with
  | Wk y w d, 0 => with_date p (Wk y w (d + 1))
  | Cal y m d, 1 => with_date p (Cal y m (d + 1))
  | Ord y d, 2 => with_date p (Ord y (d + 1))
  | Wk y w d, 3 => with_date p (Wk y (w + 1) d)
  | _, _ => p
  end.

Definition tbind (r : tres) (f : tp -> tres) : tres := match r with TOk p => f p | x => x end.
Definition conv (o : option date) (p : tp) : tres := match o with Some d => TOk (with_date p d) | None => TErr end.

(* TimePoint.add_truncated, restricted to the eight properties above *)
Definition add_truncated (md : mode) (p : tp) (t : trunc) : tres :=
  let minute := match t_hour t, t_min t with Some _, None => Some 0%Q | _, m => m end in
  let second := match t_sec t with
                | Some s => Some s
                | None => match t_hour t, minute with None, None => None | _, _ => Some 0%Q end
                end in
  (* fix: commit bfe93b1: a 24:00 full point is normalised before stepping *)
  let p := normalised md p in
  let p0 := match second, minute with None, None => p | _, _ => to_hms p end in
  tbind (match second with Some s => step_until md tod_sec bump_sec s 61 p0 | None => TOk p0 end) (fun p1 =>
  tbind (match minute with Some m => step_until md tod_min bump_min m 61 p1 | None => TOk p1 end) (fun p2 =>
  tbind (match t_hour t with Some h => step_until md tod_hr bump_hr h 25 p2 | None => TOk p2 end) (fun p3 =>
  tbind (match t_dow t with
         | Some d => tbind (conv (to_week_date md (tdate p3)) p3) (step_until md (date_field 0) (bump_date 0) (qz d) 8)
         | None => TOk p3 end) (fun p4 =>
  tbind (match t_dom t with
         | Some d => tbind (conv (to_calendar_date md (tdate p4)) p4) (step_until md (date_field 1) (bump_date 1) (qz d) 63)
         | None => TOk p4 end) (fun p5 =>
  tbind (match t_doy t with
         | Some d => tbind (conv (to_ordinal_date md (tdate p5)) p5) (step_until md (date_field 2) (bump_date 2) (qz d) 2929)
         | None => TOk p5 end) (fun p6 =>
  match t_week t with
  | Some w => tbind (conv (to_week_date md (tdate p6)) p6) (step_until md (date_field 3) (bump_date 3) (qz w) 1500)
  | None => TOk p6
  end)))))).

(* truncated + full (either operand order): align to the truncated point's
   zone when it has one, add, convert back to the full point's zone *)
Definition tp_add_trunc (md : mode) (t : trunc) (p : tp) : tres :=
  let aligned := match t_zone t with Some z => to_time_zone md p z | None => Some p end in
  match aligned with
  | None => TErr
  | Some p1 =>
    tbind (add_truncated md p1 t) (fun r =>
      match to_time_zone md r (tzone p) with Some q => TOk q | None => TErr end)
  end.
