(* Model/Recurrence.v -- executable mirror of class TimeRecurrence (data.py),
   with min_point/max_point left at None (the parser never sets them).
   Generators are modelled as "take the first k"; scans carry explicit fuel and
   return an explicit out-of-fuel value.  No proofs in here. *)
From Coq Require Import ZArith QArith Qround List Bool.
From Iso Require Import Spec.Cal Model.Num Model.Helpers Model.Duration Model.TimePoint.
Import ListNotations.
Open Scope Z_scope.

Record recur := mkRec {
  r_reps : option Z;
  r_start : option tp;
  r_dur : option dur;
  r_end : option tp;
  r_second : option tp;     (* format 1 only *)
  r_fmt : Z                 (* 1, 3 or 4 *)
}.

(* three-valued results: the code raised (BadInputError / ValueError) *)
Inductive res (A : Type) := Ok (a : A) | Err.
Arguments Ok {A} a.
Arguments Err {A}.

Definition tp_ltb md a b : option bool :=
  match tp_cmp md a b with Some c => Some (cmp_op 1 c) | None => None end.
Definition tp_eqb md a b : option bool :=
  match tp_cmp md a b with Some c => Some (cmp_op 0 c) | None => None end.
Definition tp_gtb md a b : option bool :=
  match tp_cmp md a b with Some c => Some (cmp_op 3 c) | None => None end.
Definition tp_leb md a b : option bool :=
  match tp_cmp md a b with Some c => Some (cmp_op 2 c) | None => None end.

Definition zopt_eqb (a : option Z) (b : Z) : bool :=
  match a with Some x => x =? b | None => false end.

(* TimeRecurrence.__init__ *)
Definition rec_make (md : mode) (reps : option Z) (start : option tp) (d : option dur)
           (endp : option tp) : res recur :=
  if match reps with Some n => n <=? 0 | None => false end then Err
  else if match d with Some x => dur_ltb md x dzero | None => false end then Err
  else
    match d with
    | None =>
      if zopt_eqb reps 1 then Ok (mkRec reps start None start start 1)
      else
        match start, endp with
        | Some s, Some e =>
          match tp_cmp md s e with
          | None => Err
          | Some Eq => Ok (mkRec (Some 1) start None endp endp 1)
          | Some Gt => Err            (* end earlier than start *)
          | Some Lt =>
            match tp_sub md e s with
            | None => Err
            | Some dd =>
              match reps with
              | None => Ok (mkRec None start (Some dd) None endp 1)
              | Some n =>
                match tp_add md s (dur_mul dd (n - 1)) with
                | Some e' => Ok (mkRec reps start (Some dd) (Some e') endp 1)
                | None => Err
                end
              end
            end
          end
        | _, _ => Err
        end
    | Some dd =>
      match start, endp with
      | Some s, None =>
        if zopt_eqb reps 1 || dur_eqb dd dzero then Ok (mkRec (Some 1) start None start None 3)
        else match reps with
             | None => Ok (mkRec None start d None None 3)
             | Some n => match tp_add md s (dur_mul dd (n - 1)) with
                         | Some e' => Ok (mkRec reps start d (Some e') None 3)
                         | None => Err end
             end
      | None, Some e =>
        if zopt_eqb reps 1 || dur_eqb dd dzero then Ok (mkRec (Some 1) endp None endp None 4)
        else match reps with
             | None => Ok (mkRec None None d endp None 4)
             | Some n => match tp_sub_dur md e (dur_mul dd (n - 1)) with
                         | Some s' => Ok (mkRec reps (Some s') d endp None 4)
                         | None => Err end
             end
      | _, _ => Err
      end
    end.

(* _get_is_in_bounds; None = a comparison raised *)
Definition in_bounds (md : mode) (r : recur) (p : option tp) : option bool :=
  match p with
  | None => Some false
  | Some t =>
    match (match r_start r with Some s => tp_ltb md t s | None => Some false end) with
    | None => None
    | Some true => Some false
    | Some false =>
      match (match r_end r with Some e => tp_gtb md t e | None => Some false end) with
      | None => None
      | Some true => Some false
      | Some false => Some true
      end
    end
  end.

Definition step_point (md : mode) (r : recur) (fwd : bool) (p : option tp) : option tp :=
  if zopt_eqb (r_reps r) 1 then None
  else match p, r_dur r with
       | Some t, Some d =>
         let q := if fwd then tp_add md t d else tp_sub_dur md t d in
         match in_bounds md r q with Some true => q | _ => None end
       | _, _ => None
       end.
Definition get_next md r p := step_point md r true p.
Definition get_prev md r p := step_point md r false p.

Definition dur_falsy (d : option dur) : bool :=
  match d with None => true | Some x => negb (dur_bool x) end.

(* the first k points __iter__ yields *)
Fixpoint iter_from (md : mode) (r : recur) (fwd : bool) (k : nat) (p : option tp) : list tp :=
  match k with
  | O => []
  | S k' =>
    match p with
    | None => []
    | Some t =>
      match in_bounds md r p with
      | Some true => t :: iter_from md r fwd k' (step_point md r fwd p)
      | _ => []
      end
    end
  end.
Definition iter_take (md : mode) (r : recur) (k : nat) : list tp :=
  let '(p, fwd) := match r_start r with None => (r_end r, false) | Some _ => (r_start r, true) end in
  if zopt_eqb (r_reps r) 1 || dur_falsy (r_dur r) then
    match k, p, in_bounds md r p with
    | S _, Some t, Some true => [t]
    | _, _, _ => []
    end
  else iter_from md r fwd k p.

(* __getitem__: IndexError -> None *)
Definition rec_getitem (md : mode) (r : recur) (i : Z) : option tp :=
  if i <? 0 then None else nth_error (iter_take md r (S (Z.to_nat i))) (Z.to_nat i).

(* get_is_valid with explicit fuel: Some b, or None when the fuel ran out or a comparison raised *)
Fixpoint valid_scan (md : mode) (r : recur) (fwd : bool) (t : tp) (fuel : nat) (p : option tp) : option bool :=
  match fuel with
  | O => None
  | S f =>
    match p with
    | None => Some false
    | Some x =>
      match in_bounds md r p with
      | Some true =>
        match tp_cmp md x t with
        | None => None
        | Some Eq => Some true
        | Some c =>
          if match r_start r with None => cmp_op 1 c | Some _ => false end then Some false
          else if match r_end r with None => cmp_op 3 c | Some _ => false end then Some false
          else valid_scan md r fwd t f (step_point md r fwd p)
        end
      | Some false => Some false
      | None => None
      end
    end
  end.
Definition get_is_valid (md : mode) (r : recur) (t : tp) (fuel : nat) : option bool :=
  match in_bounds md r (Some t) with
  | Some false => Some false
  | None => None
  | Some true =>
    let '(p, fwd) := match r_start r with None => (r_end r, false) | Some _ => (r_start r, true) end in
    if zopt_eqb (r_reps r) 1 || dur_falsy (r_dur r) then
      match p, in_bounds md r p with
      | Some x, Some true => tp_eqb md x t
      | _, _ => Some false
      end
    else valid_scan md r fwd t fuel p
  end.

(* get_first_after (as repaired by the fix: commit for F5), for recurrences
   that have a start point.  Outer option: None = raised or out of fuel. *)
Fixpoint first_after_scan (md : mode) (r : recur) (t : tp) (fuel : nat) (cur : option tp)
  : option (option tp) :=
  match fuel with
  | O => None
  | S f =>
    match cur with
    | None => Some None
    | Some c =>
      match tp_leb md c t with
      | None => None
      | Some true => first_after_scan md r t f (get_next md r cur)
      | Some false => Some cur
      end
    end
  end.
Definition get_first_after (md : mode) (r : recur) (t : tp) (fuel : nat) : option (option tp) :=
  match r_start r with
  | None => None
  | Some s =>
    match in_bounds md r (Some t) with
    | None => None
    | Some true =>
      match r_dur r with
      | Some d =>
        if is_exact d then
          match tp_sub md t s with
          | None => None
          | Some delta =>
            let x := get_seconds md delta in
            let l := get_seconds md d in
            if qeqb l 0 then None   (* ZeroDivisionError *)
            else
              let qf := Qfloor (x / l) in
              let since := Qred (x - qz qf * l) in
              let nxt := tp_add md t (dur_sub d (dur_make 0 0 0 0 0 0 (qz (Qfloor since)))) in
              match in_bounds md r nxt with
              | Some true => Some nxt
              | Some false => Some None
              | None => None
              end
          end
        else first_after_scan md r t fuel (r_start r)
      | None => first_after_scan md r t fuel (r_start r)
      end
    | Some false =>
      match tp_ltb md t s with
      | Some true => Some (Some s)
      | Some false => Some None
      | None => None
      end
    end
  end.

(* __add__ (as repaired by the fix: commit for F6) / __sub__ *)
Definition opt_add (md : mode) (p : option tp) (d : dur) : option (option tp) :=
  match p with
  | None => None              (* None + Duration raises TypeError *)
  | Some t => match tp_add md t d with Some q => Some (Some q) | None => None end
  end.
Definition rec_add (md : mode) (r : recur) (d : dur) : res recur :=
  if r_fmt r =? 1 then
    match opt_add md (r_start r) d, opt_add md (r_second r) d with
    | Some s, Some e => rec_make md (r_reps r) s None e
    | _, _ => Err
    end
  else if r_fmt r =? 3 then
    match opt_add md (r_start r) d with
    | Some s => rec_make md (r_reps r) s (r_dur r) None
    | None => Err
    end
  else
    match opt_add md (r_end r) d with
    | Some e => rec_make md (r_reps r) (match r_dur r with None => e | Some _ => None end) (r_dur r) e
    | None => Err
    end.
Definition rec_sub (md : mode) (r : recur) (d : dur) : res recur := rec_add md r (dur_mul d (-1)).

(* __eq__ over repetitions, start, end, interval *)
Definition opt_tp_eqb (md : mode) (a b : option tp) : bool :=
  match a, b with
  | None, None => true
  | Some x, Some y => match tp_eqb md x y with Some c => c | None => false end
  | _, _ => false
  end.
Definition opt_dur_eqb (a b : option dur) : bool :=
  match a, b with
  | None, None => true
  | Some x, Some y => dur_eqb x y
  | _, _ => false
  end.
Definition opt_z_eqb (a b : option Z) : bool :=
  match a, b with None, None => true | Some x, Some y => x =? y | _, _ => false end.
Definition rec_eqb (md : mode) (a b : recur) : bool :=
  opt_z_eqb (r_reps a) (r_reps b) && opt_tp_eqb md (r_start a) (r_start b) &&
  opt_tp_eqb md (r_end a) (r_end b) && opt_dur_eqb (r_dur a) (r_dur b).
