(* Model/DriverText.v -- line-protocol operations for the parser, dumper and
   strftime/strptime models.  Text arguments are percent-encoded tokens. *)
From Coq Require Import ZArith QArith Qround List Bool String Ascii.
From Iso Require Import Spec.Cal Model.Num Model.Helpers Model.Duration Model.TimePoint Model.Forms
  Model.Parse Model.LocalZone Model.Dump Model.Strftime Model.Driver gen.Grammar.
Import ListNotations.
Local Open Scope string_scope.

Definition hexval (c : ascii) : option nat :=
  let n := nat_of_ascii c in
  if (Nat.leb 48 n && Nat.leb n 57)%bool then Some (n - 48)%nat
  else if (Nat.leb 65 n && Nat.leb n 70)%bool then Some (n - 55)%nat
  else if (Nat.leb 97 n && Nat.leb n 102)%bool then Some (n - 87)%nat else None.
Fixpoint pct_dec (fuel : nat) (l : list ascii) : list ascii :=
  match fuel with
  | O => []
  | S f =>
    match l with
    | c :: a :: b :: r =>
      if Ascii.eqb c "%" then
        match hexval a, hexval b with
        | Some x, Some y => ascii_of_nat (16 * x + y) :: pct_dec f r
        | _, _ => c :: pct_dec f (a :: b :: r)
        end
      else c :: pct_dec f (a :: b :: r)
    | c :: r => c :: pct_dec f r
    | [] => []
    end
  end.
Definition pct_decode (s : string) : string :=
  string_of_list_ascii (pct_dec (String.length s) (list_ascii_of_string s)).
Definition needs_pct (c : ascii) : bool :=
  let n := nat_of_ascii c in (Nat.leb n 32 || Nat.leb 127 n || Nat.eqb n 37 || Nat.eqb n 59)%bool.
Definition hexdigit (n : nat) : ascii := ascii_of_nat (if Nat.ltb n 10 then 48 + n else 55 + n).
Fixpoint pct_encode (s : string) : string :=
  match s with
  | String c r =>
    if needs_pct c then
      let n := nat_of_ascii c in String "%" (String (hexdigit (n / 16)) (String (hexdigit (n mod 16)) (pct_encode r)))
    else String c (pct_encode r)
  | EmptyString => ""
  end.
Definition is_ascii_str (s : string) : bool :=
  forallb (fun c => Nat.ltb (nat_of_ascii c) 128) (list_ascii_of_string s).
Definition rText : rd string := t <- tok ;; ret (if String.eqb t "%00" then "" else pct_decode t).

Definition date_forms_of (ned : Z) : list form :=
  if (ned =? 0)%Z then DATE_FORMS_0 else if (ned =? 3)%Z then DATE_FORMS_3 else DATE_FORMS_2.

(* ned trunc basic assumed(h m | - -) unknown local(h m) *)
Definition rCfg : rd pcfg :=
  n <- rZ ;; tr <- rZ ;; ba <- rZ ;; ah <- rOpt rZ ;; am <- rOpt rZ ;; un <- rZ ;; lh <- rZ ;; lm <- rZ ;;
  ret (mkCfg n (negb (tr =? 0)%Z) (negb (ba =? 0)%Z)
             (match ah, am with Some a, Some b => Some (a, b) | _, _ => None end)
             (negb (un =? 0)%Z) (lh, lm)).

Definition sh_oz (o : option Z) : string := match o with Some z => show_Z z | None => "-" end.
Definition sh_oq (o : option Q) : string := match o with Some q => show_Q q | None => "-" end.
Definition sh_ptp (p : ptp) : string :=
  unwords [sh_oz (p_year p); sh_oz (p_month p); sh_oz (p_dom p); sh_oz (p_doy p); sh_oz (p_week p); sh_oz (p_dow p);
           sh_oq (p_hour p); sh_oq (p_min p); sh_oq (p_sec p);
           (match p_zone p with Some z => sh_zone z | None => "- -" end);
           sh_bool (p_trunc p); (if String.eqb (p_tprop p) "" then "-" else p_tprop p);
           show_Z (p_ned p); (if String.eqb (p_fmt p) "" then "-" else pct_encode (p_fmt p))].
Definition sh_perr (e : perr) : string :=
  match e with ESyntax => "ERR syntax" | EBadInput => "ERR badinput" | EValue => "ERR value" | EUnmodelled => "UNMODELLED" end.
Definition sh_pres {A} (f : A -> string) (x : pres A) : string :=
  match x with POk a => f a | PErr e => sh_perr e end.
Definition sh_dres (d : dres) : string :=
  match d with
  | DOk s => pct_encode s | DBounds => "ERR bounds" | DSyntax => "ERR syntax" | DOverflow => "EXC OverflowError"
  | DErr => "ERR other" | DUnmodelled => "UNMODELLED" | DBadInput => "ERR badinput" end.

Definition parse_text (md : mode) (cfg : pcfg) (text : string) (as_parsed : bool) : pres ptp :=
  if negb (is_ascii_str text) then PErr EUnmodelled
  else
    match get_info (date_forms_of (c_ned cfg)) TIME_FORMS ZONE_FORMS cfg text with
    | PErr e => PErr e
    | POk i => create_timepoint md cfg i (if as_parsed then i_expr i else "") false
    end.

(* a parsed non-truncated point as a model time point *)
Definition ptp_to_tp (p : ptp) : option tp :=
  if p_trunc p then None
  else
    match p_year p, p_hour p, p_zone p with
    | Some y, Some h, Some z =>
      let date := match p_month p, p_dom p, p_doy p, p_week p, p_dow p with
                  | Some m, Some d, None, None, None => Some (Cal y m d)
                  | None, None, Some d, None, None => Some (Ord y d)
                  | None, None, None, Some w, Some d => Some (Wk y w d)
                  | _, _, _, _, _ => None end in
      let tod := match p_min p, p_sec p with
                 | Some m, Some s => Some (HMS h m s)
                 | Some m, None => Some (HM h m)
                 | None, None => Some (HH h)
                 | None, Some _ => None end in
      match date, tod with Some d, Some t => Some (mkTp d t z) | _, _ => None end
    | _, _, _ => None
    end.

Definition default_cfg (ned : Z) : pcfg := mkCfg ned false false None false (0, 0)%Z.
(* TimePointDumper.get_time_zone: a default parser's reading of a zone text *)
Definition zone_of_text (z : string) : option (Z * Z) :=
  match get_zone_info ZONE_FORMS (default_cfg 2) z [] with
  | None => None
  | Some (_, e) =>
    match process_zone (default_cfg 2) e with
    | POk ZUtc => Some (0, 0)%Z
    | POk (ZVal h m) =>
      match zfield h, (match m with Some x => zfield x | None => POk 0%Z end) with
      | POk a, POk b => Some (a, b) | _, _ => None end
    | _ => None
    end
  end.

Definition do_dump (md : mode) (ned : Z) (p : tp) (fmt : string) : dres :=
  if contains_char "%" fmt then
    match strftime ned STRFTIME_TABLE md p fmt with
    | DSyntax => dump ned (date_forms_of ned) TIME_FORMS ZONE_FORMS zone_of_text md p fmt   (* ValueError swallowed: falls through *)
    | x => x end
  else dump ned (date_forms_of ned) TIME_FORMS ZONE_FORMS zone_of_text md p fmt.
Definition do_str (md : mode) (ned : Z) (p : tp) : dres :=
  tp_str ned (date_forms_of ned) TIME_FORMS ZONE_FORMS zone_of_text md p.

Definition ops_text : list (string * rd string) :=
  [ ("parse", md <- rMode ;; cfg <- rCfg ;; asp <- rZ ;; t <- rText ;;
       ret (sh_pres sh_ptp (parse_text md cfg t (negb (asp =? 0)%Z))));
    (* parse with dump_as_parsed, then str(): the text the parsed point prints as *)
    ("pstr", md <- rMode ;; cfg <- rCfg ;; t <- rText ;;
       ret (match parse_text md cfg t true with
            | PErr e => sh_perr e
            | POk p => match ptp_to_tp p with
                       | Some q => sh_dres (do_dump md (p_ned p) q (p_fmt p))
                       | None => "TRUNCATED" end
            end));
    (* TimePoint(...) with keyword arguments: year month dom doy week dow h m s zh zm *)
    ("mk", md <- rMode ;; y <- rOpt rZ ;; mo <- rOpt rZ ;; d <- rOpt rZ ;; doy <- rOpt rZ ;; w <- rOpt rZ ;; dow <- rOpt rZ ;;
       h <- rOpt rQ ;; mi <- rOpt rQ ;; sec <- rOpt rQ ;; zh <- rOpt rZ ;; zm <- rOpt rZ ;;
       ret (let intq := fun (o : option Q) => match o with Some x => qis_int x | None => true end in
            if negb (intq h && intq mi && intq sec) then "UNMODELLED"
            else sh_pres sh_ptp
                   (construct md y mo d doy w dow h None mi None sec None
                              (match zh, zm with
                               | None, None => None
                               | Some a, b => Some (a, b)
                               | None, Some b => Some (0%Z, Some b) end)
                              false "" 0 "" false)));
    ("tpstr", md <- rMode ;; ned <- rZ ;; p <- rTp ;; ret (sh_dres (do_str md ned p)));
    ("tpdump", md <- rMode ;; ned <- rZ ;; p <- rTp ;; f <- rText ;; ret (sh_dres (do_dump md ned p f)));
    (* str(p) parsed back by a default parser with the same number of expanded digits *)
    ("roundtrip", md <- rMode ;; ned <- rZ ;; p <- rTp ;;
       ret (match do_str md ned p with
            | DOk s => unwords [pct_encode s; ";"; sh_pres sh_ptp (parse_text md (default_cfg (if (ned =? 0)%Z then 2 else ned)) s false)]
            | e => sh_dres e end));
    (* dump with a custom format, parse the text back, compare with the original *)
    ("dumpparse", md <- rMode ;; ned <- rZ ;; p <- rTp ;; f <- rText ;;
       ret (match do_dump md ned p f with
            | DOk s =>
              match parse_text md (default_cfg (if (ned =? 0)%Z then 2 else ned)) s false with
              | POk q => match ptp_to_tp q with
                         | Some q' => unwords [pct_encode s; ";"; sh_opt sh_cmp (tp_cmp md q' p)]
                         | None => unwords [pct_encode s; ";"; "TRUNCATED"] end
              | PErr e => unwords [pct_encode s; ";"; sh_perr e]
              end
            | e => sh_dres e end));
    ("strftime", md <- rMode ;; ned <- rZ ;; p <- rTp ;; f <- rText ;;
       ret (sh_dres (strftime ned STRFTIME_TABLE md p f)));
    (* strftime then strptime with the same format: the text and how the result compares with p *)
    ("strfp", md <- rMode ;; cfg <- rCfg ;; p <- rTp ;; f <- rText ;;
       ret (match strftime (c_ned cfg) STRFTIME_TABLE md p f with
            | DOk s =>
              match strptime STRFTIME_TABLE md cfg s f with
              | POk q => match ptp_to_tp q with
                         | Some q' => unwords [pct_encode s; ";"; sh_ptp q; ";"; sh_opt sh_cmp (tp_cmp md q' p)]
                         | None => unwords [pct_encode s; ";"; sh_ptp q; ";"; "TRUNCATED"] end
              | PErr e => unwords [pct_encode s; ";"; sh_perr e]
              end
            | e => sh_dres e end));
    ("strptime", md <- rMode ;; cfg <- rCfg ;; t <- rText ;; f <- rText ;;
       ret (sh_pres sh_ptp (strptime STRFTIME_TABLE md cfg t f)))
  ].
