(* Model/Num.v -- numbers and text helpers shared by the model and its line
   protocol: exact rationals, Python-style divmod/int on them, decimal
   printing and parsing.  No proofs in here. *)
From Coq Require Import ZArith QArith Qround List Bool String Ascii.
From Coq Require Import DecimalString DecimalZ.
Import ListNotations.
Open Scope Z_scope.

(* ---------- exact rationals (ideal semantics of Python floats) ---------- *)
Definition qz (z : Z) : Q := inject_Z z.
(* Python divmod(x, k) for k > 0: (floor(x/k), x - k*floor(x/k)) *)
Definition qdivmod (x : Q) (k : Z) : Z * Q :=
  let q := Qfloor (x / qz k) in (q, Qred (x - qz q * qz k)).
(* Python int(x): truncation toward zero *)
Definition qtrunc (x : Q) : Z := if Qle_bool 0 x then Qfloor x else Qceiling x.
Definition qeqb (a b : Q) : bool := Qeq_bool a b.
Definition qltb (a b : Q) : bool := negb (Qle_bool b a).
Definition qleb (a b : Q) : bool := Qle_bool a b.
Definition qis_int (x : Q) : bool := Qeq_bool x (qz (Qfloor x)).
Definition qadd (a b : Q) : Q := Qred (a + b).
Definition qsub (a b : Q) : Q := Qred (a - b).
Definition qmul (a b : Q) : Q := Qred (a * b).
Definition qdivz (a : Q) (k : Z) : Q := Qred (a / qz k).

(* ---------- text ---------- *)
Local Open Scope string_scope.
Definition show_Z (z : Z) : string := NilZero.string_of_int (Z.to_int z).
Definition read_Z (s : string) : option Z :=
  match NilZero.int_of_string s with Some i => Some (Z.of_int i) | None => None end.
Definition show_Q (q : Q) : string :=
  let r := Qred q in
  if (Zpos (Qden r) =? 1)%Z then show_Z (Qnum r)
  else show_Z (Qnum r) ++ "/" ++ show_Z (Zpos (Qden r)).

Fixpoint split_on (c : ascii) (s : string) (cur : string) : list string :=
  match s with
  | EmptyString => [cur]
  | String a r => if Ascii.eqb a c then cur :: split_on c r EmptyString
                  else split_on c r (cur ++ String a EmptyString)
  end.
Definition words (s : string) : list string :=
  filter (fun w => negb (String.eqb w "")) (split_on " "%char s "").

Definition read_Q (s : string) : option Q :=
  match split_on "/"%char s "" with
  | [n] => match read_Z n with Some z => Some (qz z) | None => None end
  | [n; d] => match read_Z n, read_Z d with
              | Some a, Some (Zpos p) => Some (Qred (Qmake a p))
              | _, _ => None
              end
  | _ => None
  end.

Definition unwords (l : list string) : string := String.concat " " l.
