(* Model/Strftime.v -- executable mirror of TimePointDumper.strftime and
   TimePointParser.strptime / _parse_from_custom_regex over the generated
   directive table.  No proofs in here. *)
From Coq Require Import ZArith QArith Qround List Bool String Ascii.
From Iso Require Import Spec.Cal Model.Num Model.Helpers Model.Duration Model.TimePoint Model.Forms
  Model.Parse Model.LocalZone Model.Dump.
Import ListNotations.
Local Open Scope string_scope.
Local Open Scope Z_scope.

(* \w for ASCII input: letters, digits, underscore *)
Definition is_word (c : ascii) : bool :=
  let n := nat_of_ascii c in
  ((Nat.leb 48 n && Nat.leb n 57) || (Nat.leb 65 n && Nat.leb n 90) || (Nat.leb 97 n && Nat.leb n 122) || Nat.eqb n 95)%bool.

(* REC_SPLIT_STRFTIME_DIRECTIVE.split: literal runs and %x directives *)
Inductive fitem := FLit (s : string) | FDir (d : string).
(* pct = the previous character was a '%' not yet consumed *)
Fixpoint split_fmt (s : string) (cur : string) (pct : bool) : list fitem :=
  let flush := fun c => if String.eqb c "" then [] else [FLit c] in
  match s with
  | EmptyString => flush (if pct then cur ++ "%" else cur)
  | String a r =>
    if pct then
      if is_word a then (flush cur ++ FDir (String "%" (String a "")) :: split_fmt r "" false)%list
      else if Ascii.eqb a "%" then split_fmt r (cur ++ "%") true
      else split_fmt r (cur ++ "%" ++ String a "") false
    else if Ascii.eqb a "%" then split_fmt r cur true
    else split_fmt r (cur ++ String a "") false
  end.
Definition split_format (s : string) (cur : string) : list fitem := split_fmt s cur false.

Section Tables.
Variable ned : Z.
Variable table : list (string * (list dtok * list string * list ptok)).
Variable date_forms time_forms zone_forms : list form.

Fixpoint lookup_dir (d : string) (t : list (string * (list dtok * list string * list ptok)))
  : option (list dtok * list string * list ptok) :=
  match t with [] => None | (k, v) :: r => if String.eqb k d then Some v else lookup_dir d r end.

(* TimePointDumper.strftime (with the fix: commit for F7a: week dates are converted first) *)
Definition strftime (md : mode) (p : tp) (fmt : string) : dres :=
  let fix build (items : list fitem) : option (list dtok * list string) :=
      match items with
      | [] => Some ([], [])
      | FLit s :: r => match build r with Some (t, ps) => Some (DLit s :: t, ps) | None => None end
      | FDir d :: r =>
        match lookup_dir d table, build r with
        | Some (dt, dp, _), Some (t, ps) => Some (dt ++ t, dp ++ ps)%list
        | _, _ => None
        end
      end in
  match build (split_format fmt "") with
  | None => DSyntax
  | Some (tmpl, props) =>
    let p' := match tdate p with
              | Wk _ _ _ => match to_calendar_date md (tdate p) with Some d => Some (with_date p d) | None => None end
              | _ => Some p end in
    match p' with
    | Some q =>
      if existsb (fun it => match it with FLit l => contains_char "%" l | FDir _ => false end) (split_format fmt "")
      then DUnmodelled        (* a stray '%' reaches Python's %-formatting *)
      else dump_with ned md (normalised md q) tmpl props None   (* fix: commit 37639a2: no hour 24 in strftime *)
    | None => DErr
    end
  end.

(* TimePointParser.strptime: the format as one regex, then groups -> info *)
Definition strptime (md : mode) (cfg : pcfg) (text fmt : string) : pres ptp :=
  let fix build (items : list fitem) : option (list ptok) :=
      match items with
      | [] => Some []
      | FLit s :: r => match build r with Some t => Some (PLit s :: t) | None => None end
      | FDir d :: r =>
        match lookup_dir d table, build r with
        | Some (_, _, pt), Some t => Some (pt ++ t)%list
        | _, _ => None
        end
      end in
  match build (split_format fmt "") with
  | None => PErr ESyntax
  | Some toks =>
    match pmatch toks text [] with
    | None => PErr ESyntax
    | Some e =>
      match lookup_env "seconds_since_unix_epoch" e with
      | Some _ => PErr EUnmodelled      (* %s goes through float(); handled by the correspondence only *)
      | None =>
        let is_date := fun k => mem k ["year_sign"; "century"; "year_of_century"; "month_of_year"; "day_of_year";
                                       "day_of_month"; "week_of_year"; "day_of_week"; "year_of_decade"; "expanded_year_digits"] in
        let is_time := fun k => mem k ["minute_of_hour"; "hour_of_day"; "hour_of_day_decimal_string";
                                       "minute_of_hour_decimal_string"; "second_of_minute"; "second_of_minute_decimal_string"] in
        let de := filter (fun kv => is_date (fst kv)) e in
        let te := filter (fun kv => is_time (fst kv)) e in
        let ze := filter (fun kv => negb (is_date (fst kv)) && negb (is_time (fst kv))) e in
        match process_zone cfg ze with
        | PErr x => PErr x
        | POk z => create_timepoint md cfg (mkInfo de te z "") "" false
        end
      end
    end
  end.

End Tables.
