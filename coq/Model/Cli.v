(* Model/Cli.v -- executable mirror of the command line after argument
   parsing: DateTimeOperator.date_parse / date_shift / date_diff /
   date_diff_format / format_duration_str / iter_recurrence_str and the
   dispatch in main (datetimeoper.py, main.py).  argparse, stdin, "now"/"ref"
   and the time.strptime fallback for the ctime formats are not modelled:
   inputs that would reach them yield CUnmodelled.  No proofs in here. *)
From Coq Require Import ZArith QArith Qround List Bool String Ascii.
From Iso Require Import Spec.Cal Model.Num Model.Helpers Model.Duration Model.TimePoint Model.Forms
  Model.Parse Model.LocalZone Model.Dump Model.Strftime Model.Recurrence Model.DurText Model.DriverText gen.Grammar.
Import ListNotations.
Local Open Scope string_scope.
Local Open Scope Z_scope.

Inductive cres := COut (s : string) | CExit | CUnmodelled.

(* the parser the operator builds: default expanded digits, assumed zone UTC in
   --utc mode, otherwise the system's local zone *)
Definition cli_cfg (utc : bool) (local : Z * Z) : pcfg :=
  mkCfg 2 false false (if utc then Some (0, 0) else None) false local.

(* text that could match one of the two ctime-like formats goes to time.strptime *)
Definition is_letter (c : ascii) : bool :=
  let n := nat_of_ascii c in ((Nat.leb 65 n && Nat.leb n 90) || (Nat.leb 97 n && Nat.leb n 122))%bool.
Definition may_be_ctime (s : string) : bool :=
  existsb (fun c => is_letter c && negb (Ascii.eqb c "T") && negb (Ascii.eqb c "Z") && negb (Ascii.eqb c "W"))
          (list_ascii_of_string s).

Definition ISO_STRPTIME_FORMATS : list string := ["%Y-%m-%dT%H:%M:%S"; "%Y%m%dT%H%M%S"].

(* date_parse: (time point, format to print it with) *)
Definition date_parse (md : mode) (utc : bool) (local : Z * Z) (text : string) : option (tp * string) + cres :=
  if negb (is_ascii_str text) || may_be_ctime text then inr CUnmodelled
  else
    let cfg := cli_cfg utc local in
    let via_strptime :=
      (fix try (fs : list string) : option (tp * string) :=
         match fs with
         | [] => None
         | f :: r =>
           match strptime STRFTIME_TABLE md cfg text f with
           | POk q => match ptp_to_tp q with Some p => Some (p, f) | None => try r end
           | PErr _ => try r
           end
         end) ISO_STRPTIME_FORMATS in
    let parsed :=
      match via_strptime with
      | Some x => inl (Some x)
      | None =>
        match parse_text md cfg text true with
        | POk q => match ptp_to_tp q with
                   | Some p => inl (Some (p, p_fmt q))
                   | None => inr CUnmodelled          (* truncated points are not produced by this parser *)
                   end
        | PErr EUnmodelled => inr CUnmodelled
        | PErr _ => inr CExit
        end
      end in
    match parsed with
    | inl (Some (p, f)) =>
      if utc then match to_utc md p with Some q => inl (Some (q, f)) | None => inr CExit end
      else inl (Some (p, f))
    | x => x
    end.

(* date_shift with one offset: [+-] then a duration *)
Definition date_shift (md : mode) (p : tp) (off : string) : option tp + cres :=
  if String.eqb off "" then inl (Some p)
  else
    let '(neg, body) := match off with
                        | String "-" r => (true, r)
                        | String "+" r => (false, r)
                        | _ => (false, off) end in
    match dur_parse body with
    | DurText.TOk d =>
      match (if neg then tp_sub_dur md p d else tp_add md p d) with
      | Some q => inl (Some q) | None => inr CExit end
    | DurText.TUnmodelled => inr CUnmodelled
    | _ => inr CExit                               (* OffsetValueError *)
    end.

Definition date_format (md : mode) (p : tp) (fmt : string) : cres :=
  match do_dump md 2 p fmt with
  | DOk s => COut s
  | DUnmodelled => CUnmodelled
  | DSyntax => CUnmodelled                          (* falls back to datetime.strftime *)
  | _ => CExit
  end.

(* isodatetime [--utc] ITEM [--offset=O ...] [--print-format=F] *)
Definition cli_shift (md : mode) (utc : bool) (local : Z * Z) (text : string) (offs : list string) (pf : option string) : cres :=
  match date_parse md utc local text with
  | inr e => e
  | inl None => CExit
  | inl (Some (p, f)) =>
    let shifted :=
      fold_left (fun acc o => match acc with
                              | inl (Some q) => date_shift md q o
                              | x => x end) offs (inl (Some p)) in
    match shifted with
    | inl (Some q) => date_format md q (match pf with Some x => x | None => f end)
    | inl None => CExit
    | inr e => e
    end
  end.

(* isodatetime ITEM1 ITEM2: the signed duration text *)
Definition cli_diff (md : mode) (local : Z * Z) (t1 t2 : string) : cres :=
  match date_parse md false local t1, date_parse md false local t2 with
  | inl (Some (p1, _)), inl (Some (p2, _)) =>
    match tp_cmp md p2 p1 with
    | None => CExit
    | Some c =>
      let '(d, sign) := if cmp_op 1 c then (tp_sub md p1 p2, "-") else (tp_sub md p2 p1, "") in
      match d with
      | None => CExit
      | Some dd => match dur_str dd with
                   | DurText.TOk s => COut (sign ++ s)
                   | DurText.TUnmodelled => CUnmodelled
                   | _ => CExit end
      end
    end
  | inr CUnmodelled, _ | _, inr CUnmodelled => CUnmodelled
  | _, _ => CExit
  end.

(* isodatetime --max=N R...: the first N points, one per line (default print format) *)
Definition cli_rec_points (md : mode) (local : Z * Z) (r : recur) (n : Z) : list tp :=
  if n <=? 0 then [] else iter_take md r (Z.to_nat n).
