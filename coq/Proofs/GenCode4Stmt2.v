(* Proofs/GenCode4Stmt2.v -- statements (Props) for the comparison / hash / difference
   part of gen/GenCode4.v (proved in Proofs/GenCode4Zone.v, assembled in
   Proofs/GenCode4Ok.v).  Definitions only, no proofs. *)
From Coq Require Import QArith Qround String.
From Iso Require Import Proofs.Tac Spec.Cal Spec.Instant Model.Num Model.Helpers Model.Duration Model.TimePoint
  gen.GenCode4 Proofs.GenCode4Base Proofs.GenCode4Stmt.
From Iso Require gen.GenCode3 Proofs.GenCode3Ok.
Open Scope Z_scope.

(* ---------- the two time-of-day observers ---------- *)
Definition GetHmsOk : Prop := forall md fl p p' fuel,
  tp_equiv p' p ->
  exists h m s, py_TimePoint_get_hour_minute_second fuel (cal_of md) (rep fl p') = Ok (Some h, Some m, Some s) /\
    let '(h0, m0, s0) := get_hour_minute_second (ttod p) in (h == h0 /\ m == m0 /\ s == s0)%Q.

Definition SodOk : Prop := forall md fl p p' fuel,
  tp_equiv p' p ->
  exists s, py_TimePoint_get_second_of_day fuel (cal_of md) (rep fl p') = Ok s /\
    (s == get_second_of_day (ttod p))%Q.

(* ---------- fuel bounds (mirrors of the model functions) ---------- *)
Definition norm_bound (md : mode) (p : tp) : Z :=
  if qeqb (tod_hour (ttod p)) 24 then tick_bound md p else 0.
Definition zone_bound (md : mode) (p : tp) (z : zone) : Z := tp_add_bound md p (zone_diff z (tzone p)).

Definition hash_bound (md : mode) (p : tp) : Z :=
  match to_utc md p with
  | Some u => Z.max (zone_bound md p zone_utc) (norm_bound md u)
  | None => zone_bound md p zone_utc
  end.

(* the general path of _cmp / __sub__: other re-zoned and normalised, self normalised *)
Definition cmp_bound (md : mode) (a b : tp) : Z :=
  match to_time_zone md b (tzone a) with
  | Some b1 => Z.max (zone_bound md b (tzone a)) (Z.max (norm_bound md b1) (norm_bound md a))
  | None => zone_bound md b (tzone a)
  end.

(* ---------- __hash__: the tuple handed to hash() ---------- *)
Definition HashOk : Prop := forall md fl p p' fuel k,
  tp_equiv p' p -> month_ok p -> tp_hash_key md p = Some k ->
  (Z.to_nat (hash_bound md p) <= fuel)%nat ->
  exists y m d h mi s,
    py_TimePoint___hash__ fuel (cal_of md) (rep fl p') = Ok (Some y, Some m, Some d, Some h, Some mi, Some s) /\
    let '(y0, m0, d0, (h0, mi0, s0)) := k in
    y = y0 /\ m = m0 /\ d = d0 /\ (h == h0 /\ mi == mi0 /\ s == s0)%Q.

(* ---------- _cmp (op = "eq" "lt" "le" "gt" "ge": cmp_op 0 1 2 3 4) ---------- *)
(* The code first compares ALL slots (get_props), the flags included; the model's
   tp_props_eqb compares date, time and zone.  The statement covers: the same
   flags on both sides, or points whose model properties differ. *)
Definition CmpOk (op : Z)
  (code : nat -> pyCalendar -> pyTimePoint -> pyTimePoint -> exc bool) : Prop :=
  forall md fl1 fl2 a a' b b' fuel c,
  tp_equiv a' a -> tp_equiv b' b -> month_ok a -> month_ok b ->
  (fl1 = fl2 \/ tp_props_eqb a b = false) ->
  tp_cmp md a b = Some c ->
  (Z.to_nat (cmp_bound md a b) <= fuel)%nat ->
  code fuel (cal_of md) (rep fl1 a') (rep fl2 b') = Ok (cmp_op op c).

(* ---------- __sub__ of two TimePoints ---------- *)
(* one unit of fuel per level of the (single) recursive call `-1 * (other - self)`; that the
   recursion stops after one level is the antisymmetry of the comparison, which holds on
   valid points (Proofs/CmpSpec.v tp_cmp_sym) *)
Definition SubTpOk : Prop := forall md fl1 fl2 a a' b b' fuel d,
  tp_equiv a' a -> tp_equiv b' b -> valid_tp md a = true -> valid_tp md b = true ->
  (fl1 = fl2 \/ tp_props_eqb a b = false) ->
  tp_sub md a b = Some d ->
  (Z.to_nat (Z.max (cmp_bound md a b) (cmp_bound md b a)) + 2 <= fuel)%nat ->
  exists od, py_TimePoint___sub____TimePoint fuel (cal_of md) (rep fl1 a') (rep fl2 b') = Ok od /\
             dur_denotes od d.
