(* Proofs/Tac.v -- common proof header: lia over booleans, div and mod. *)
From Coq Require Export ZArith List Bool Lia ZifyBool.
Export ListNotations.
Ltac Zify.zify_post_hook ::= Z.to_euclidean_division_equations.
Open Scope Z_scope.

(* one case split per boolean test appearing as an `if` scrutinee *)
Ltac split_if :=
  match goal with
  | |- context [if ?b then _ else _] => let E := fresh "E" in destruct b eqn:E
  | H : context [if ?b then _ else _] |- _ => let E := fresh "E" in destruct b eqn:E
  end.
