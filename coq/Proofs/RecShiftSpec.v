(* Proofs/RecShiftSpec.v -- recurrences as values (property C14): shifting by an
   exact duration, component-wise equality, and what both mean for the series. *)
From Coq Require Import QArith Qround Qabs Lqa ZifyNat.
From Iso Require Import Proofs.Tac Spec.Cal Spec.Instant Spec.Series Model.Num Model.Helpers
  Model.Duration Model.TimePoint Model.Recurrence Proofs.DurSpec Proofs.AddSpec Proofs.CmpSpec
  Proofs.SubSpec Proofs.RecSpec.
Open Scope Z_scope.

(* ====================================================================== *)
(* 0. the vocabulary of Props/C14.v (identical bodies)                     *)
(* ====================================================================== *)

Definition opt_instant_shift (md : mode) (a b : option tp) (x : Q) : Prop :=
  match a, b with
  | Some p, Some q => (instant md q == instant md p + x)%Q /\ valid_tp md q = true /\
                      rep_kind (tdate q) = rep_kind (tdate p) /\ tzone q = tzone p
  | None, None => True
  | _, _ => False
  end.

(* a recurrence produced by the constructor from valid points, exact interval *)
Definition made (md : mode) (r : recur) : Prop :=
  (r_start r <> None \/ r_end r <> None) /\
  exists reps s d e, rec_make md reps s d e = Ok r /\
    (match s with Some p => valid_tp md p = true | None => True end) /\
    (match e with Some p => valid_tp md p = true | None => True end) /\
    (match d with Some x => is_exact x = true | None => True end).

(* the shift without the "written like" part *)
Definition opt_instant_shift_w (md : mode) (a b : option tp) (x : Q) : Prop :=
  match a, b with
  | Some p, Some q => (instant md q == instant md p + x)%Q /\ valid_tp md q = true
  | None, None => True
  | _, _ => False
  end.

(* instants only *)
Definition wshift (md : mode) (a b : option tp) (x : Q) : Prop :=
  match a, b with
  | Some p, Some q => (instant md q == instant md p + x)%Q
  | None, None => True
  | _, _ => False
  end.

Definition dur_rel (a b : option dur) : Prop :=
  match a, b with
  | Some x, Some y => (dur_len x == dur_len y)%Q
  | None, None => True
  | _, _ => False
  end.

Lemma ois_some md p q x : (instant md q == instant md p + x)%Q -> valid_tp md q = true ->
  same_shape q p -> opt_instant_shift md (Some p) (Some q) x.
Proof. intros I V (K1 & _ & K3). cbn [opt_instant_shift]. repeat split; assumption. Qed.

Lemma ois_w md a b x : opt_instant_shift md a b x -> opt_instant_shift_w md a b x.
Proof.
  destruct a, b; cbn [opt_instant_shift opt_instant_shift_w]; try tauto.
Qed.

Lemma oisw_wshift md a b x : opt_instant_shift_w md a b x -> wshift md a b x.
Proof.
  destruct a, b; cbn [wshift opt_instant_shift_w]; try tauto.
Qed.

Lemma end_both md a b x (P : Prop) : opt_instant_shift md a b x ->
  opt_instant_shift_w md a b x /\ (P -> opt_instant_shift md a b x).
Proof. intros H. split; [apply ois_w; exact H|intros _; exact H]. Qed.

(* ====================================================================== *)
(* 1. what `made` gives                                                    *)
(* ====================================================================== *)

Lemma made_intro md reps s d e r : rec_make md reps s d e = Ok r ->
  opt_valid md s -> opt_valid md e ->
  match d with Some x => is_exact x = true | None => True end ->
  (r_start r <> None \/ r_end r <> None) -> made md r.
Proof.
  intros M Vs Ve Ex NE. split; [exact NE|]. exists reps, s, d, e. repeat split; assumption.
Qed.

Lemma made_shape md r : made md r -> exists reps s d e, rec_shape md reps s d e r.
Proof.
  intros (_ & reps & s & d & e & M & Vs & Ve & Ex). exists reps, s, d, e.
  apply rec_make_shape; assumption.
Qed.

Lemma made_classes md r : made md r ->
  (exists a, single_ok md r a) \/ (exists s0 d0, fwd_ok md r s0 d0) \/ (exists e0 d0, bwd_ok md r e0 d0).
Proof.
  intros M. destruct (made_shape md r M) as (reps & s & d & e & Sh).
  apply (rec_shape_cases md reps s d e r Sh). apply M.
Qed.

Lemma made_valid md r : made md r -> opt_valid md (r_start r) /\ opt_valid md (r_end r).
Proof.
  intros M. destruct (made_classes md r M) as [[a Sa] | [[s [d W]] | [e [d W]]]].
  - destruct Sa as (_ & _ & S & Va & e & En & Ve & _). rewrite S, En. split; assumption.
  - split; [exact (fwd_ok_start _ _ _ _ W)|exact (fwd_ok_end _ _ _ _ W)].
  - split; [exact (bwd_ok_start _ _ _ _ W)|exact (bwd_ok_end _ _ _ _ W)].
Qed.

Lemma made_dur md r : made md r ->
  match r_dur r with Some d => exact_pos d | None => True end.
Proof.
  intros M. destruct (made_classes md r M) as [[a Sa] | [[s [d W]] | [e [d W]]]].
  - destruct Sa as (_ & D & _). rewrite D. exact I.
  - destruct W as (_ & D & _ & P & _). rewrite D. exact P.
  - destruct W as (_ & _ & D & _ & _ & P). rewrite D. exact P.
Qed.

(* ====================================================================== *)
(* 2. related recurrences iterate related points                           *)
(* ====================================================================== *)

Lemma class_points md r r' L :
  made md r -> made md r' -> r_reps r' = r_reps r -> dur_rel (r_dur r') (r_dur r) ->
  wshift md (r_start r) (r_start r') L -> wshift md (r_end r) (r_end r') L ->
  forall k i p, nth_error (iter_take md r k) i = Some p ->
  exists q, nth_error (iter_take md r' k) i = Some q /\ (instant md q == instant md p + L)%Q.
Proof.
  intros M M' HR HD HS HE k i p Hp.
  destruct (made_classes md r M) as [[a Sa] | [[s [d W]] | [e [d W]]]];
  destruct (made_classes md r' M') as [[a' Sa'] | [[s' [d' W']] | [e' [d' W']]]].
  - (* single / single *)
    destruct (single_ok_nth md r a k i p Sa Hp) as [-> ->].
    destruct k as [|k]; [rewrite (iter_take_single_O md r a Sa) in Hp; discriminate Hp|].
    rewrite (iter_take_single md r' a' k Sa'). exists a'. split; [reflexivity|].
    destruct Sa as (_ & _ & S1 & _). destruct Sa' as (_ & _ & S1' & _).
    rewrite S1, S1' in HS. exact HS.
  - exfalso. destruct Sa as (_ & D & _). destruct W' as (_ & D' & _). rewrite D, D' in HD. exact HD.
  - exfalso. destruct Sa as (_ & D & _). destruct W' as (_ & _ & D' & _). rewrite D, D' in HD. exact HD.
  - exfalso. destruct Sa' as (_ & D' & _). destruct W as (_ & D & _). rewrite D, D' in HD. exact HD.
  - (* forward / forward *)
    destruct (fwd_ok_series md r s d k W) as [HL _].
    assert (Hi : (i < length (iter_take md r k))%nat) by (apply nth_error_Some; rewrite Hp; discriminate).
    rewrite HL in Hi.
    destruct (fwd_ok_nth md r s d k i W Hi) as (p0 & E0 & I0 & _).
    rewrite Hp in E0. injection E0 as <-.
    rewrite <- HR in Hi.
    destruct (fwd_ok_nth md r' s' d' k i W' Hi) as (q & Eq & Iq & _).
    exists q. split; [exact Eq|].
    destruct W as (S1 & D1 & _). destruct W' as (S1' & D1' & _).
    rewrite S1, S1' in HS. rewrite D1, D1' in HD. cbn [wshift dur_rel] in HS, HD.
    rewrite Iq, I0, HS, HD. ring.
  - exfalso. destruct W as (S1 & _). destruct W' as (S1' & _). rewrite S1, S1' in HS. exact HS.
  - exfalso. destruct Sa' as (_ & D' & _). destruct W as (_ & _ & D & _). rewrite D, D' in HD. exact HD.
  - exfalso. destruct W as (S1 & _). destruct W' as (S1' & _). rewrite S1, S1' in HS. exact HS.
  - (* backward / backward *)
    destruct (bwd_ok_series md r e d k W) as [HL _].
    assert (Hi : (i < length (iter_take md r k))%nat) by (apply nth_error_Some; rewrite Hp; discriminate).
    rewrite HL in Hi.
    destruct (bwd_ok_nth md r e d k i W Hi) as (p0 & E0 & I0 & _).
    rewrite Hp in E0. injection E0 as <-.
    destruct (bwd_ok_nth md r' e' d' k i W' Hi) as (q & Eq & Iq & _).
    exists q. split; [exact Eq|].
    destruct W as (_ & E1 & D1 & _). destruct W' as (_ & E1' & D1' & _).
    rewrite E1, E1' in HE. rewrite D1, D1' in HD. cbn [wshift dur_rel] in HE, HD.
    rewrite Iq, I0, HE, HD. ring.
Qed.

(* ====================================================================== *)
(* 3. rec_add, shape by shape                                              *)
(* ====================================================================== *)

Lemma rec_add_fmt1 md reps s d e sec x :
  rec_add md (mkRec reps s d e sec 1) x =
  match opt_add md s x, opt_add md sec x with
  | Some s', Some e' => rec_make md reps s' None e'
  | _, _ => Err
  end.
Proof. reflexivity. Qed.

Lemma rec_add_fmt3 md reps s d e sec x :
  rec_add md (mkRec reps s d e sec 3) x =
  match opt_add md s x with
  | Some s' => rec_make md reps s' d None
  | None => Err
  end.
Proof. reflexivity. Qed.

Lemma rec_add_fmt4 md reps s d e sec x :
  rec_add md (mkRec reps s d e sec 4) x =
  match opt_add md e x with
  | Some e' => rec_make md reps (match d with None => e' | Some _ => None end) d e'
  | None => Err
  end.
Proof. reflexivity. Qed.

Lemma shift_pt md p x : valid_tp md p = true -> is_exact x = true ->
  exists q, opt_add md (Some p) x = Some (Some q) /\
    (instant md q == instant md p + dur_len x)%Q /\ same_shape q p /\ valid_tp md q = true.
Proof.
  intros V Ex. destruct (tp_add_exact_spec md p x V Ex) as (q & E & I & K1 & K2 & K3 & Vq).
  exists q. split; [cbn [opt_add]; rewrite E; reflexivity|].
  split; [exact I|]. split; [repeat split; assumption|exact Vq].
Qed.

(* when a one-point recurrence carries two anchors, the end is written like the start *)
Definition end_like_start (r : recur) : Prop :=
  r_dur r = None -> forall s e, r_start r = Some s -> r_end r = Some e ->
    rep_kind (tdate e) = rep_kind (tdate s) /\ tzone e = tzone s.

Lemma rec_add_core md r x : made md r -> is_exact x = true ->
  exists r', rec_add md r x = Ok r' /\ made md r' /\
    r_reps r' = r_reps r /\ dur_rel (r_dur r') (r_dur r) /\
    opt_instant_shift md (r_start r) (r_start r') (dur_len x) /\
    opt_instant_shift_w md (r_end r) (r_end r') (dur_len x) /\
    (end_like_start r -> opt_instant_shift md (r_end r) (r_end r') (dur_len x)).
Proof.
  intros M Ex. pose proof M as [NE _].
  destruct (made_shape md r M) as (reps0 & s & d & e & Sh).
  destruct Sh as [s e Vs | reps s0 e0 R2 Vs Ve Ieq | s0 e0 dd Vs Ve Ilt Esub P Len
    | n s0 e0 dd e' Hn Vs Ve Ilt Esub P Len Eadd Ve' Sh' Ie'
    | reps s0 dd R1 Vs Exd L0 Z | s0 dd Vs P | n s0 dd e' Hn Vs P Eadd Ve' Sh' Ie'
    | reps e0 dd R1 Ve Exd L0 Z | e0 dd Ve P | n e0 dd s' Hn Ve P Esub Vs' Sh' Is'];
    cbn [r_reps r_dur r_start r_end] in *.
  - (* RS1_one *)
    destruct s as [a|]; [|exfalso; destruct NE as [K|K]; apply K; reflexivity].
    destruct (shift_pt md a x Vs Ex) as (a1 & Oa & Ia & Sa & Va1).
    pose proof (rec_make_fmt1_one md (Some a1) (Some a1)) as Mk.
    eexists. split; [rewrite rec_add_fmt1, Oa; exact Mk|].
    split; [apply (made_intro md _ _ _ _ _ Mk); [exact Va1 | exact Va1 | exact I | left; cbn [r_start]; discriminate]|].
    cbn [r_reps r_dur r_start r_end].
    split; [reflexivity|]. split; [exact I|].
    split; [apply ois_some; assumption|].
    apply end_both. apply ois_some; assumption.
  - (* RS1_equal *)
    destruct (shift_pt md s0 x Vs Ex) as (s1 & Oa & Is & Ss & Vs1).
    destruct (shift_pt md e0 x Ve Ex) as (e1 & Ob & Ie & Se & Ve1).
    pose proof (rec_make_fmt1_one md (Some s1) (Some e1)) as Mk.
    eexists. split; [rewrite rec_add_fmt1, Oa, Ob; exact Mk|].
    split; [apply (made_intro md _ _ _ _ _ Mk); [exact Vs1 | exact Ve1 | exact I | left; cbn [r_start]; discriminate]|].
    cbn [r_reps r_dur r_start r_end].
    split; [reflexivity|]. split; [exact I|].
    split; [apply ois_some; assumption|].
    split.
    + cbn [opt_instant_shift_w]. split; [rewrite Is, Ieq; reflexivity|exact Vs1].
    + intros EL. destruct (EL eq_refl s0 e0 eq_refl eq_refl) as [K1 K3].
      cbn [opt_instant_shift]. destruct Ss as (T1 & _ & T3).
      split; [rewrite Is, Ieq; reflexivity|]. split; [exact Vs1|]. split; congruence.
  - (* RS1_unbounded *)
    destruct (shift_pt md s0 x Vs Ex) as (s1 & Oa & Is & Ss & Vs1).
    destruct (shift_pt md e0 x Ve Ex) as (e1 & Ob & Ie & Se & Ve1).
    assert (Lt1 : (instant md s1 < instant md e1)%Q) by lra.
    destruct (rec_make_fmt1_later md None s1 e1 Vs1 Ve1 Lt1 I) as (d1 & _ & P1 & Len1 & Mk).
    eexists. split; [rewrite rec_add_fmt1, Oa, Ob; exact Mk|].
    split; [apply (made_intro md _ _ _ _ _ Mk); [exact Vs1 | exact Ve1 | exact I | left; cbn [r_start]; discriminate]|].
    cbn [r_reps r_dur r_start r_end].
    split; [reflexivity|]. split; [cbn [dur_rel]; lra|].
    split; [apply ois_some; assumption|].
    apply end_both. exact I.
  - (* RS1_bounded *)
    destruct (shift_pt md s0 x Vs Ex) as (s1 & Oa & Is & Ss & Vs1).
    destruct (shift_pt md e0 x Ve Ex) as (e1 & Ob & Ie & Se & Ve1).
    assert (Lt1 : (instant md s1 < instant md e1)%Q) by lra.
    destruct (rec_make_fmt1_later md (Some n) s1 e1 Vs1 Ve1 Lt1 Hn)
      as (d1 & _ & P1 & Len1 & e2 & _ & Ie2 & Se2 & Ve2 & Mk).
    assert (LD : (dur_len d1 == dur_len dd)%Q) by lra.
    eexists. split; [rewrite rec_add_fmt1, Oa, Ob; exact Mk|].
    split; [apply (made_intro md _ _ _ _ _ Mk); [exact Vs1 | exact Ve1 | exact I | left; cbn [r_start]; discriminate]|].
    cbn [r_reps r_dur r_start r_end].
    split; [reflexivity|]. split; [exact LD|].
    split; [apply ois_some; assumption|].
    apply end_both. apply ois_some; [rewrite Ie2, Ie', Is, LD; ring | exact Ve2 |].
    eapply same_shape_trans; [exact Se2|]. eapply same_shape_trans; [exact Ss|].
    apply same_shape_sym; exact Sh'.
  - (* RS3_single *)
    destruct (shift_pt md s0 x Vs Ex) as (s1 & Oa & Is & Ss & Vs1).
    pose proof (rec_make_fmt1_one md (Some s1) None) as Mk.
    eexists. split; [rewrite rec_add_fmt3, Oa; exact Mk|].
    split; [apply (made_intro md _ _ _ _ _ Mk); [exact Vs1 | exact I | exact I | left; cbn [r_start]; discriminate]|].
    cbn [r_reps r_dur r_start r_end].
    split; [reflexivity|]. split; [exact I|].
    split; [apply ois_some; assumption|].
    apply end_both. apply ois_some; assumption.
  - (* RS3_unbounded *)
    destruct (shift_pt md s0 x Vs Ex) as (s1 & Oa & Is & Ss & Vs1).
    pose proof (rec_make_fmt3_unbounded md s1 dd P) as Mk.
    eexists. split; [rewrite rec_add_fmt3, Oa; exact Mk|].
    split; [apply (made_intro md _ _ _ _ _ Mk); [exact Vs1 | exact I | exact (proj1 P) | left; cbn [r_start]; discriminate]|].
    cbn [r_reps r_dur r_start r_end].
    split; [reflexivity|]. split; [cbn [dur_rel]; reflexivity|].
    split; [apply ois_some; assumption|].
    apply end_both. exact I.
  - (* RS3_bounded *)
    destruct (shift_pt md s0 x Vs Ex) as (s1 & Oa & Is & Ss & Vs1).
    destruct (rec_make_fmt3_bounded md s1 dd n Vs1 P Hn) as (e1 & _ & Ie1 & Se1 & Ve1 & Mk).
    eexists. split; [rewrite rec_add_fmt3, Oa; exact Mk|].
    split; [apply (made_intro md _ _ _ _ _ Mk); [exact Vs1 | exact I | exact (proj1 P) | left; cbn [r_start]; discriminate]|].
    cbn [r_reps r_dur r_start r_end].
    split; [reflexivity|]. split; [cbn [dur_rel]; reflexivity|].
    split; [apply ois_some; assumption|].
    apply end_both. apply ois_some; [rewrite Ie1, Ie', Is; ring | exact Ve1 |].
    eapply same_shape_trans; [exact Se1|]. eapply same_shape_trans; [exact Ss|].
    apply same_shape_sym; exact Sh'.
  - (* RS4_single *)
    destruct (shift_pt md e0 x Ve Ex) as (e1 & Oa & Ie & Se & Ve1).
    pose proof (rec_make_fmt1_one md (Some e1) (Some e1)) as Mk.
    eexists. split; [rewrite rec_add_fmt4, Oa; exact Mk|].
    split; [apply (made_intro md _ _ _ _ _ Mk); [exact Ve1 | exact Ve1 | exact I | left; cbn [r_start]; discriminate]|].
    cbn [r_reps r_dur r_start r_end].
    split; [reflexivity|]. split; [exact I|].
    split; [apply ois_some; assumption|].
    apply end_both. apply ois_some; assumption.
  - (* RS4_unbounded *)
    destruct (shift_pt md e0 x Ve Ex) as (e1 & Oa & Ie & Se & Ve1).
    pose proof (rec_make_fmt4_unbounded md e1 dd P) as Mk.
    eexists. split; [rewrite rec_add_fmt4, Oa; exact Mk|].
    split; [apply (made_intro md _ _ _ _ _ Mk); [exact I | exact Ve1 | exact (proj1 P) | right; cbn [r_end]; discriminate]|].
    cbn [r_reps r_dur r_start r_end].
    split; [reflexivity|]. split; [cbn [dur_rel]; reflexivity|].
    split; [exact I|].
    apply end_both. apply ois_some; assumption.
  - (* RS4_bounded *)
    destruct (shift_pt md e0 x Ve Ex) as (e1 & Oa & Ie & Se & Ve1).
    destruct (rec_make_fmt4_bounded md e1 dd n Ve1 P Hn) as (s1 & _ & Is1 & Ss1 & Vs1 & Mk).
    eexists. split; [rewrite rec_add_fmt4, Oa; exact Mk|].
    split; [apply (made_intro md _ _ _ _ _ Mk); [exact I | exact Ve1 | exact (proj1 P) | left; cbn [r_start]; discriminate]|].
    cbn [r_reps r_dur r_start r_end].
    split; [reflexivity|]. split; [cbn [dur_rel]; reflexivity|].
    split.
    + apply ois_some; [rewrite Is1, Is', Ie; ring | exact Vs1 |].
      eapply same_shape_trans; [exact Ss1|]. eapply same_shape_trans; [exact Se|].
      apply same_shape_sym; exact Sh'.
    + apply end_both. apply ois_some; assumption.
Qed.

(* ====================================================================== *)
(* 4. consequences                                                         *)
(* ====================================================================== *)

Lemma dur_rel_eqb md a b : made md a -> made md b -> dur_rel (r_dur a) (r_dur b) ->
  opt_dur_eqb (r_dur a) (r_dur b) = true.
Proof.
  intros Ma Mb H. pose proof (made_dur md a Ma) as Da. pose proof (made_dur md b Mb) as Db.
  destruct (r_dur a) as [x|], (r_dur b) as [y|]; cbn [dur_rel opt_dur_eqb] in *; try contradiction;
    [|reflexivity].
  apply dur_eqb_same_len; [apply Da | apply Db | exact H].
Qed.

Lemma eqb_dur_rel md a b : made md a -> made md b -> opt_dur_eqb (r_dur a) (r_dur b) = true ->
  dur_rel (r_dur a) (r_dur b).
Proof.
  intros Ma Mb H. pose proof (made_dur md a Ma) as Da. pose proof (made_dur md b Mb) as Db.
  destruct (r_dur a) as [x|], (r_dur b) as [y|]; cbn [dur_rel opt_dur_eqb] in *; try discriminate H;
    [|exact I].
  apply (dur_eqb_exact x y (proj1 Da) (proj1 Db)). exact H.
Qed.

(* replacement (A) for the false C14_shift: the end keeps instant and validity *)
Lemma rec_add_spec_w : forall md r x, made md r -> is_exact x = true ->
  exists r', rec_add md r x = Ok r' /\
    r_reps r' = r_reps r /\ opt_dur_eqb (r_dur r') (r_dur r) = true /\
    opt_instant_shift md (r_start r) (r_start r') (dur_len x) /\
    opt_instant_shift_w md (r_end r) (r_end r') (dur_len x).
Proof.
  intros md r x M Ex. destruct (rec_add_core md r x M Ex) as (r' & E & M' & R & D & S & En & _).
  exists r'. split; [exact E|]. split; [exact R|]. split; [apply (dur_rel_eqb md); assumption|].
  split; assumption.
Qed.

(* replacement (B): the statement of C14_shift under one more hypothesis *)
Lemma rec_add_spec_h : forall md r x, made md r -> is_exact x = true ->
  (r_dur r = None -> forall s e, r_start r = Some s -> r_end r = Some e ->
     rep_kind (tdate e) = rep_kind (tdate s) /\ tzone e = tzone s) ->
  exists r', rec_add md r x = Ok r' /\
    r_reps r' = r_reps r /\ opt_dur_eqb (r_dur r') (r_dur r) = true /\
    opt_instant_shift md (r_start r) (r_start r') (dur_len x) /\
    opt_instant_shift md (r_end r) (r_end r') (dur_len x).
Proof.
  intros md r x M Ex EL. destruct (rec_add_core md r x M Ex) as (r' & E & M' & R & D & S & _ & En).
  exists r'. split; [exact E|]. split; [exact R|]. split; [apply (dur_rel_eqb md); assumption|].
  split; [exact S|]. apply En. exact EL.
Qed.

Lemma rec_add_points : forall md r x r' k i p, made md r -> is_exact x = true ->
  rec_add md r x = Ok r' -> nth_error (iter_take md r k) i = Some p ->
  exists q, nth_error (iter_take md r' k) i = Some q /\ (instant md q == instant md p + dur_len x)%Q.
Proof.
  intros md r x r' k i p M Ex E Hp.
  destruct (rec_add_core md r x M Ex) as (r0 & E0 & M' & R & D & S & En & _).
  rewrite E in E0. injection E0 as <-.
  apply (class_points md r r' (dur_len x) M M' R D); [| |exact Hp].
  - apply oisw_wshift, ois_w. exact S.
  - apply oisw_wshift. exact En.
Qed.

(* equality from related components *)
Lemma opt_z_eqb_refl a : opt_z_eqb a a = true.
Proof. destruct a; cbn [opt_z_eqb]; [apply Z.eqb_refl|reflexivity]. Qed.

Lemma wshift_eqb md a b : opt_valid md a -> opt_valid md b -> wshift md a b 0 ->
  opt_tp_eqb md b a = true.
Proof.
  destruct a as [p|], b as [q|]; cbn [opt_valid wshift opt_tp_eqb]; intros Va Vb H; try contradiction;
    [|reflexivity].
  rewrite (tp_eqb_true md q p Vb Va); [reflexivity|]. rewrite H. ring.
Qed.

Lemma eqb_wshift md a b : opt_valid md a -> opt_valid md b -> opt_tp_eqb md a b = true ->
  wshift md a b 0.
Proof.
  destruct a as [p|], b as [q|]; cbn [opt_valid wshift opt_tp_eqb]; intros Va Vb H; try discriminate H;
    [|exact I].
  destruct (tp_eqb_spec md p q Va Vb) as (c & E & Hc). rewrite E in H. subst c.
  assert (K : (instant md p == instant md q)%Q) by (apply Hc; reflexivity).
  rewrite K. ring.
Qed.

Lemma wshift_trans md a b c x y : wshift md a b x -> wshift md b c y -> wshift md a c (x + y).
Proof.
  destruct a, b, c; cbn [wshift]; try tauto. intros H1 H2. rewrite H2, H1. ring.
Qed.

Lemma wshift_ext md a b x y : (x == y)%Q -> wshift md a b x -> wshift md a b y.
Proof.
  destruct a, b; cbn [wshift]; try tauto. intros E H. rewrite H, E. reflexivity.
Qed.

Lemma dur_rel_trans a b c : dur_rel a b -> dur_rel b c -> dur_rel a c.
Proof.
  destruct a, b, c; cbn [dur_rel]; try tauto. intros H1 H2. rewrite H1. exact H2.
Qed.

Lemma rec_add_sub : forall md r x r1, made md r -> is_exact x = true ->
  rec_add md r x = Ok r1 -> exists r2, rec_sub md r1 x = Ok r2 /\ rec_eqb md r2 r = true.
Proof.
  intros md r x r1 M Ex E.
  destruct (rec_add_core md r x M Ex) as (r0 & E0 & M1 & R1 & D1 & S1 & En1 & _).
  rewrite E in E0. injection E0 as <-.
  pose proof (is_exact_mul x (-1) Ex) as Ex'.
  destruct (rec_add_core md r1 (dur_mul x (-1)) M1 Ex') as (r2 & E2 & M2 & R2 & D2 & S2 & En2 & _).
  exists r2. split; [exact E2|].
  pose proof (dur_len_neg x Ex) as LN.
  assert (Z0 : (dur_len x + dur_len (dur_mul x (-1)) == 0)%Q) by (rewrite LN; ring).
  destruct (made_valid md r M) as [V0s V0e]. destruct (made_valid md r2 M2) as [V2s V2e].
  unfold rec_eqb. rewrite R2, R1, opt_z_eqb_refl.
  rewrite (wshift_eqb md (r_start r) (r_start r2) V0s V2s).
  2:{ apply (wshift_ext md _ _ _ _ Z0). eapply wshift_trans; apply oisw_wshift, ois_w; eassumption. }
  rewrite (wshift_eqb md (r_end r) (r_end r2) V0e V2e).
  2:{ apply (wshift_ext md _ _ _ _ Z0). eapply wshift_trans; apply oisw_wshift; eassumption. }
  rewrite (dur_rel_eqb md r2 r M2 M); [reflexivity|].
  eapply dur_rel_trans; eassumption.
Qed.

Lemma rec_eqb_spec : forall md a b,
  rec_eqb md a b = true <->
  (opt_z_eqb (r_reps a) (r_reps b) = true /\ opt_tp_eqb md (r_start a) (r_start b) = true /\
   opt_tp_eqb md (r_end a) (r_end b) = true /\ opt_dur_eqb (r_dur a) (r_dur b) = true).
Proof.
  intros md a b. unfold rec_eqb. rewrite !andb_true_iff. tauto.
Qed.

Lemma opt_z_eqb_eq a b : opt_z_eqb a b = true -> a = b.
Proof.
  destruct a, b; cbn [opt_z_eqb]; intros H; try discriminate H; [|reflexivity].
  f_equal. lia.
Qed.

Lemma dur_rel_sym a b : dur_rel a b -> dur_rel b a.
Proof. destruct a, b; cbn [dur_rel]; try tauto. intros H. symmetry. exact H. Qed.

Lemma rec_eqb_iter : forall md a b k i p, made md a -> made md b -> rec_eqb md a b = true ->
  nth_error (iter_take md a k) i = Some p ->
  exists q, nth_error (iter_take md b k) i = Some q /\ (instant md q == instant md p)%Q.
Proof.
  intros md a b k i p Ma Mb E Hp.
  apply rec_eqb_spec in E. destruct E as (ER & ES & EE & ED).
  destruct (made_valid md a Ma) as [Vas Vae]. destruct (made_valid md b Mb) as [Vbs Vbe].
  destruct (class_points md a b 0 Ma Mb) with (k := k) (i := i) (p := p) as (q & Eq & Iq).
  - symmetry. apply opt_z_eqb_eq. exact ER.
  - apply dur_rel_sym. apply (eqb_dur_rel md a b Ma Mb ED).
  - apply eqb_wshift; assumption.
  - apply eqb_wshift; assumption.
  - exact Hp.
  - exists q. split; [exact Eq|]. rewrite Iq. ring.
Qed.
