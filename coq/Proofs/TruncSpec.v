(* Proofs/TruncSpec.v -- adding a truncated time point (Model/Truncated.v): the
   unit-stepping loops stop inside their bounds and land on the next match. *)
From Coq Require Import QArith Qround Qabs Lqa List.
From Iso Require Import Proofs.Tac Spec.Cal Spec.Instant Spec.NextMatch Model.Num Model.Helpers Model.Duration
  Model.TimePoint Model.Truncated Proofs.HelpersSpec Proofs.ConvSpec Proofs.TickSpec Proofs.AddSpec
  Proofs.MonthSpec Proofs.ZoneSpec Proofs.CmpSpec Proofs.NextMatchSpec.
Import ListNotations.
Open Scope Z_scope.

(* ---------- the definitions Props/C20.v states its theorems with ---------- *)
Definition whole_second (p : tp) : Prop :=
  match ttod p with HMS h m s => qis_int s = true | _ => False end.
Definition field_ok (o : option Q) (hi : Z) : Prop :=
  match o with Some v => qis_int v = true /\ (0 <= v)%Q /\ (v < inject_Z hi)%Q | None => True end.
Definition time_only (t : trunc) : Prop :=
  t_dow t = None /\ t_dom t = None /\ t_doy t = None /\ t_week t = None /\
  field_ok (t_hour t) 24 /\ field_ok (t_min t) 60 /\ field_ok (t_sec t) 60 /\
  (t_hour t <> None \/ t_min t <> None \/ t_sec t <> None).
Definition qfl (o : option Q) : option Z := match o with Some x => Some (Qfloor x) | None => None end.
Definition local_ds (md : mode) (p : tp) (z : zone) : Z * Q :=
  let x := (instant md p + inject_Z (zone_secs z))%Q in
  let n := Qfloor (x / inject_Z 86400) in (n, Qred (x - inject_Z (86400 * n))).
Definition day_only (md : mode) (t : trunc) : Prop :=
  t_hour t = None /\ t_min t = None /\ t_sec t = None /\ t_zone t = None /\
  ((exists d, 1 <= d <= 7 /\ t_dow t = Some d /\ t_dom t = None /\ t_doy t = None /\ t_week t = None) \/
   (exists d, 1 <= d <= 28 /\ t_dom t = Some d /\ t_dow t = None /\ t_doy t = None /\ t_week t = None) \/
   (exists d, 1 <= d <= 360 /\ t_doy t = Some d /\ t_dow t = None /\ t_dom t = None /\ t_week t = None)).

(* ---------- known findings F8b and F10, by computation ---------- *)
Lemma trunc_refuted :
  tp_add_trunc G (mkTrunc (Some 24%Q) None None None None None None None)
               (mkTp (Cal 2000 1 1) (HMS 5 0 0) (mkZone 0 0)) = THang /\
  tp_add_trunc G (mkTrunc None (Some 39%Q) None None (Some 1) None None None)
               (mkTp (Cal 2009 2 28) (HMS 12 0 0) (mkZone 0 0))
    = TOk (mkTp (Cal 2009 3 1) (HMS 12 39 0) (mkZone 0 0)) /\
  next_match G (mkDay None (Some 1) None None) (mkTod None (Some 39) None) 733831 43200 3000 = Some (733832, 2340).
Proof. vm_compute. repeat split; reflexivity. Qed.
Print Assumptions trunc_refuted.

(* ---------- shared facts ---------- *)
Lemma to_time_zone_same md r : to_time_zone md r (tzone r) = Some r.
Proof.
  unfold to_time_zone. rewrite tp_add_zero.
  - destruct r; reflexivity.
  - reflexivity.
  - unfold zone_diff. rewrite !Z.sub_diag. reflexivity.
Qed.

Lemma normalised_normal md p : normal_tod (ttod p) = true -> normalised md p = p.
Proof.
  intros N. unfold normalised. destruct (qeqb (tod_hour (ttod p)) 24) eqn:E; [|reflexivity].
  unfold normal_tod in N. apply andb_prop in N. destruct N as [_ N].
  apply qltb_inv in N. apply qeqb_inv in E. rewrite E in N. discriminate N.
Qed.

Lemma qeqb_Z a b : qeqb (inject_Z a) (inject_Z b) = (a =? b).
Proof.
  destruct (a =? b) eqn:E.
  - apply qeqb_iff. assert (a = b) by lia. subst. reflexivity.
  - destruct (qeqb (inject_Z a) (inject_Z b)) eqn:HQ; [|reflexivity].
    apply qeqb_iff in HQ. apply (proj1 (inject_Z_injective a b)) in HQ. lia.
Qed.

Lemma qeqb_eqv a b z w : (a == inject_Z z)%Q -> (b == inject_Z w)%Q -> qeqb a b = (z =? w).
Proof.
  intros A B. rewrite <- qeqb_Z. unfold qeqb.
  destruct (Qeq_bool (inject_Z z) (inject_Z w)) eqn:E.
  - apply Qeq_bool_iff. apply Qeq_bool_iff in E. rewrite A, B. exact E.
  - destruct (Qeq_bool a b) eqn:E'; [|reflexivity]. apply Qeq_bool_iff in E'.
    rewrite A, B in E'. apply Qeq_bool_iff in E'. congruence.
Qed.

Lemma floor_unique (q : Q) n : (inject_Z n <= q)%Q -> (q < inject_Z (n + 1))%Q -> Qfloor q = n.
Proof.
  intros A B. pose proof (Qfloor_le q) as F1. pose proof (Qlt_floor q) as F2.
  assert (L1 : (inject_Z (Qfloor q) < inject_Z (n + 1))%Q) by lra.
  assert (L2 : (inject_Z n < inject_Z (Qfloor q + 1))%Q) by lra.
  rewrite <- Zlt_Qlt in L1, L2. lia.
Qed.

Lemma tod_secs_red t : (tod_secs (tod_red t) == tod_secs t)%Q.
Proof. destruct t; cbn [tod_red tod_secs]; rewrite !Qred_correct; reflexivity. Qed.

Lemma isint_le_pred x k : isint x -> (x < inject_Z k)%Q -> (x <= inject_Z (k - 1))%Q.
Proof.
  intros [z H] L. rewrite H in *. rewrite <- Zlt_Qlt in L. rewrite <- Zle_Qle. lia.
Qed.

Lemma normal_tod_secs t : normal_tod t = true -> (0 <= tod_secs t /\ tod_secs t < 86400)%Q.
Proof.
  destruct t as [h m s | h m | h]; intros N; cbn [tod_secs]; qlit.
  - destruct (normal_hms_inv _ _ _ N) as (Ih & Im & H1 & H2 & H3 & H4 & H5 & H6).
    pose proof (isint_le_pred h 24 Ih H2) as A. pose proof (isint_le_pred m 60 Im H4) as B.
    change (inject_Z (24 - 1)) with 23%Q in A. change (inject_Z (60 - 1)) with 59%Q in B. split; lra.
  - destruct (normal_hm_inv _ _ N) as (Ih & H1 & H2 & H3 & H4).
    pose proof (isint_le_pred h 24 Ih H2) as A. change (inject_Z (24 - 1)) with 23%Q in A. split; lra.
  - destruct (normal_hh_inv _ N) as (H1 & H2). split; lra.
Qed.

(* the local day number of a point strictly inside its day is its date's *)
Lemma local_ds_normal md r : normal_tod (ttod r) = true ->
  fst (local_ds md r (tzone r)) = date_dn md (tdate r).
Proof.
  intros N. destruct (normal_tod_secs _ N) as [A B]. unfold local_ds. cbv zeta. cbn [fst].
  unfold instant. set (s := tod_secs (ttod r)) in *. clearbody s.
  apply floor_unique; unfold qz; rewrite ?inject_Z_plus, ?inject_Z_mult; qlit;
    set (n := inject_Z (date_dn md (tdate r))); change (inject_Z 1) with 1%Q.
  - apply Qle_shift_div_l; lra.
  - apply Qlt_shift_div_r; lra.
Qed.

(* ---------- stepping one day at a time ---------- *)
Lemma tick_over_normal md q : normal_tod (ttod q) = true ->
  match tdate q with Cal _ m _ => 1 <= m <= 12 | _ => True end ->
  valid_date md (tdate (tick_over md q)) = true /\
  date_dn md (tdate (tick_over md q)) = date_dn md (tdate q) /\
  rep_kind (tdate (tick_over md q)) = rep_kind (tdate q) /\
  ttod (tick_over md q) = tod_red (ttod q) /\ normal_tod (ttod (tick_over md q)) = true /\
  tzone (tick_over md q) = tzone q.
Proof.
  intros N M. destruct (tick_over_spec md q M) as (_ & _ & T3 & _).
  revert T3. unfold tick_over. rewrite (tick_time_normal _ N). cbn [tdate ttod tzone]. intros T3.
  destruct (tick_date_spec md (add_days_raw (tdate q) 0)) as (A & B & C).
  { destruct (tdate q); cbn [add_days_raw]; exact M. }
  rewrite add_days_raw_dn in B. rewrite add_days_raw_kind in C. rewrite Z.add_0_r in B. auto 10.
Qed.

Definition kind_of (k : Z) : Z := if k =? 1 then 0 else if k =? 2 then 1 else 2.
Definition field_of (x : tp) : Z := match tdate x with Wk _ _ d | Cal _ _ d | Ord _ d => d end.
Definition dgood (md : mode) (K : Z) (x : tp) : Prop :=
  valid_date md (tdate x) = true /\ rep_kind (tdate x) = K /\ normal_tod (ttod x) = true.

Lemma date_field_kind k x : 0 <= k <= 2 -> rep_kind (tdate x) = kind_of k ->
  date_field k x = Some (qz (field_of x)) /\ bump_date k x = with_date x (add_days_raw (tdate x) 1).
Proof.
  intros Hk K. assert (C : k = 0 \/ k = 1 \/ k = 2) by lia.
  unfold date_field, bump_date, field_of.
  destruct C as [-> | [-> | ->]]; destruct (tdate x); try discriminate K; split; reflexivity.
Qed.

Lemma day_step md k x : 0 <= k <= 2 -> dgood md (kind_of k) x ->
  let r := tick_over md (bump_date k x) in
  dgood md (kind_of k) r /\ date_dn md (tdate r) = date_dn md (tdate x) + 1 /\
  ttod r = tod_red (ttod x) /\ tzone r = tzone x.
Proof.
  intros Hk (V & K & N). cbv zeta.
  destruct (date_field_kind k x Hk K) as [_ ->].
  destruct (tick_over_normal md (with_date x (add_days_raw (tdate x) 1))) as (A & B & C & D & E & F).
  - exact N.
  - cbn [with_date tdate]. pose proof (valid_month md _ V) as M.
    destruct (tdate x); cbn [add_days_raw]; exact M.
  - cbn [with_date tdate ttod tzone] in *. rewrite add_days_raw_dn in B. rewrite add_days_raw_kind in C.
    unfold dgood. repeat split; try assumption. congruence.
Qed.

Lemma succ_week md y w d y' w' d' : valid_week md y w d = true -> valid_week md y' w' d' = true ->
  dn_week md y' w' d' = dn_week md y w d + 1 -> d' = d mod 7 + 1.
Proof.
  intros V V' E. pose proof (week_range _ _ _ _ V) as (_ & Hd & _).
  pose proof (week_range _ _ _ _ V') as (_ & Hd' & _).
  pose proof (week_date_weekday md y w d Hd) as W. pose proof (week_date_weekday md y' w' d' Hd') as W'.
  rewrite E in W'. destruct (weekday_continuous md (dn_week md y w d)) as [_ S]. congruence.
Qed.

Lemma succ_cal md y m d y' m' d' : valid_cal md y m d = true -> valid_cal md y' m' d' = true ->
  dn_cal md y' m' d' = dn_cal md y m d + 1 ->
  (d < mlen md y m /\ y' = y /\ m' = m /\ d' = d + 1) \/ (d = mlen md y m /\ d' = 1).
Proof.
  intros V V' E. pose proof (cal_range _ _ _ _ V) as (Hm & Hd & _).
  destruct (Z_lt_le_dec d (mlen md y m)) as [L | L].
  - left. split; [exact L|].
    assert (V2 : valid_cal md y m (d + 1) = true) by (unfold valid_cal; lia).
    assert (E2 : dn_cal md y' m' d' = dn_cal md y m (d + 1)) by (rewrite E; unfold dn_cal; lia).
    pose proof (dn_cal_inj md _ _ _ _ _ _ V' V2 E2) as I. injection I as -> -> ->. auto.
  - right. split; [lia|]. assert (d = mlen md y m) by lia.
    destruct (Z_lt_le_dec m 12) as [L2 | L2].
    + assert (V2 : valid_cal md y (m + 1) 1 = true).
      { pose proof (mlen_bounds md y (m + 1) ltac:(lia)). unfold valid_cal; lia. }
      assert (E2 : dn_cal md y' m' d' = dn_cal md y (m + 1) 1).
      { rewrite E. unfold dn_cal. replace (m + 1 - 1) with m by lia. rewrite (cum_step md y m Hm). lia. }
      pose proof (dn_cal_inj md _ _ _ _ _ _ V' V2 E2) as I. injection I as -> -> ->. reflexivity.
    + assert (m = 12) by lia. subst m.
      assert (V2 : valid_cal md (y + 1) 1 1 = true).
      { pose proof (mlen_bounds md (y + 1) 1 ltac:(lia)). unfold valid_cal; lia. }
      assert (E2 : dn_cal md y' m' d' = dn_cal md (y + 1) 1 1).
      { rewrite E. rewrite jan_dn, dby_succ, <- cum_12, (cum_step md y 12 ltac:(lia)). unfold dn_cal. lia. }
      pose proof (dn_cal_inj md _ _ _ _ _ _ V' V2 E2) as I. injection I as -> -> ->. reflexivity.
Qed.

Lemma succ_ord md y d y' d' : valid_ord md y d = true -> valid_ord md y' d' = true ->
  dn_ord md y' d' = dn_ord md y d + 1 ->
  (d < ylen md y /\ y' = y /\ d' = d + 1) \/ (d = ylen md y /\ d' = 1).
Proof.
  intros V V' E. pose proof (ord_range _ _ _ V) as (Hd & _).
  destruct (Z_lt_le_dec d (ylen md y)) as [L | L].
  - left. split; [exact L|].
    assert (V2 : valid_ord md y (d + 1) = true) by (unfold valid_ord; lia).
    assert (E2 : dn_ord md y' d' = dn_ord md y (d + 1)) by (rewrite E; unfold dn_ord; lia).
    pose proof (dn_ord_inj md _ _ _ _ V' V2 E2) as I. injection I as -> ->. auto.
  - right. split; [lia|].
    assert (V2 : valid_ord md (y + 1) 1 = true).
    { pose proof (ylen_bounds md (y + 1)). unfold valid_ord; lia. }
    assert (E2 : dn_ord md y' d' = dn_ord md (y + 1) 1).
    { rewrite E. unfold dn_ord. rewrite dby_succ. lia. }
    pose proof (dn_ord_inj md _ _ _ _ V' V2 E2) as I. injection I as -> ->. reflexivity.
Qed.

(* days until the designator next has the value d *)
Definition mu_day (md : mode) (d : Z) (x : tp) : Z :=
  match tdate x with
  | Wk _ _ dd => (d - dd) mod 7
  | Cal y m dd => if dd <=? d then d - dd else mlen md y m - dd + d
  | Ord y dd => if dd <=? d then d - dd else ylen md y - dd + d
  end.
Definition trange (k d : Z) : Prop :=
  1 <= d /\ (k = 0 -> d <= 7) /\ (k = 1 -> d <= 28) /\ (k = 2 -> d <= 360).

Lemma mu_day_step md k d x r : 0 <= k <= 2 -> trange k d ->
  dgood md (kind_of k) x -> dgood md (kind_of k) r ->
  date_dn md (tdate r) = date_dn md (tdate x) + 1 -> field_of x <> d ->
  mu_day md d r <= mu_day md d x - 1 /\ 1 <= mu_day md d x.
Proof.
  intros Hk (T1 & T2 & T3 & T4) (V & K & _) (V' & K' & _) E F.
  assert (C : k = 0 \/ k = 1 \/ k = 2) by lia. unfold mu_day, field_of in *.
  destruct C as [-> | [-> | ->]]; destruct (tdate x) as [y m dd | y dd | y w dd]; try discriminate K;
    destruct (tdate r) as [y' m' dd' | y' dd' | y' w' dd']; try discriminate K';
    cbn [valid_date date_dn] in V, V', E.
  - pose proof (succ_week md _ _ _ _ _ _ V V' E). pose proof (week_range _ _ _ _ V) as (_ & Hd & _). lia.
  - pose proof (cal_range _ _ _ _ V) as (Hm & Hd & _). pose proof (mlen_bounds md y m Hm).
    destruct (succ_cal md _ _ _ _ _ _ V V' E) as [(A & -> & -> & ->) | (A & ->)];
      destruct (dd <=? d) eqn:E1; try (destruct (dd + 1 <=? d) eqn:E2); try (destruct (1 <=? d) eqn:E3); lia.
  - pose proof (ord_range _ _ _ V) as (Hd & _). pose proof (ylen_bounds md y).
    destruct (succ_ord md _ _ _ _ V V' E) as [(A & -> & ->) | (A & ->)];
      destruct (dd <=? d) eqn:E1; try (destruct (dd + 1 <=? d) eqn:E2); try (destruct (1 <=? d) eqn:E3); lia.
Qed.

Lemma mu_day_bound md k d x : 0 <= k <= 2 -> trange k d -> dgood md (kind_of k) x ->
  mu_day md d x <= (if k =? 0 then 6 else if k =? 1 then 30 else 365).
Proof.
  intros Hk (T1 & T2 & T3 & T4) (V & K & _).
  assert (C : k = 0 \/ k = 1 \/ k = 2) by lia. unfold mu_day.
  destruct C as [-> | [-> | ->]]; destruct (tdate x) as [y m dd | y dd | y w dd]; try discriminate K;
    cbn [valid_date] in V; cbn [Z.eqb Pos.eqb].
  - lia.
  - pose proof (cal_range _ _ _ _ V) as (Hm & Hd & _). pose proof (mlen_bounds md y m Hm).
    destruct (dd <=? d) eqn:E1; lia.
  - pose proof (ord_range _ _ _ V) as (Hd & _). pose proof (ylen_bounds md y).
    destruct (dd <=? d) eqn:E1; lia.
Qed.

Lemma day_loop md k d bound x0 : 0 <= k <= 2 -> trange k d -> dgood md (kind_of k) x0 ->
  (if k =? 0 then 6 else if k =? 1 then 30 else 365) <= bound ->
  exists r, step_until md (date_field k) (bump_date k) (qz d) bound x0 = TOk r /\
    dgood md (kind_of k) r /\ tzone r = tzone x0 /\ (tod_secs (ttod r) == tod_secs (ttod x0))%Q /\
    date_dn md (tdate x0) <= date_dn md (tdate r) /\ field_of r = d.
Proof.
  intros Hk T G0 B. unfold step_until. cbv zeta.
  set (cond := fun x : tp => match date_field k x with Some v => negb (qeqb v (qz d)) | None => false end).
  set (step := fun x : tp => tick_over md (bump_date k x)).
  set (Inv := fun x : tp => dgood md (kind_of k) x /\ tzone x = tzone x0 /\
                 (tod_secs (ttod x) == tod_secs (ttod x0))%Q /\ date_dn md (tdate x0) <= date_dn md (tdate x)).
  assert (Hc : forall x, dgood md (kind_of k) x -> cond x = negb (field_of x =? d)).
  { intros x (_ & K & _). unfold cond. destruct (date_field_kind k x Hk K) as [-> _].
    unfold qz. rewrite qeqb_Z. reflexivity. }
  destruct (loop_spec cond step Inv (mu_day md d)) with (n := bound) (a := x0) as [(G & Z & S & D) C].
  - intros x (G & Z & S & D) Cx. rewrite (Hc x G) in Cx.
    destruct (day_step md k x Hk G) as (G' & D' & S' & Z'). fold (step x) in *.
    split.
    + unfold Inv. split; [exact G'|]. split; [congruence|]. split; [|lia].
      rewrite S', tod_secs_red. exact S.
    + apply (mu_day_step md k d x (step x) Hk T G G' D'). lia.
  - intros x (G & Z & S & D) Cx. rewrite (Hc x G) in Cx.
    destruct (day_step md k x Hk G) as (G' & D' & S' & Z').
    apply (mu_day_step md k d x _ Hk T G G' D'). lia.
  - unfold Inv. split; [exact G0|]. split; [reflexivity|]. split; [reflexivity|lia].
  - pose proof (mu_day_bound md k d x0 Hk T G0). lia.
  - match goal with |- context [if ?b then THang else _] => change b with (cond (loop cond step bound x0)) end.
    rewrite C. eexists. split; [reflexivity|]. rewrite (Hc _ G) in C.
    repeat split; try assumption; try apply G. lia.
Qed.

(* ---------- into the designator's representation ---------- *)
Lemma to_week_date_spec md d0 : valid_date md d0 = true ->
  exists d', to_week_date md d0 = Some d' /\ valid_date md d' = true /\
             date_dn md d' = date_dn md d0 /\ rep_kind d' = 2.
Proof.
  intros V. unfold to_week_date.
  assert (H : exists wy w wd, get_week_date md d0 = Some (wy, w, wd) /\ valid_week md wy w wd = true /\
                              dn_week md wy w wd = date_dn md d0).
  { destruct d0 as [y m d | y doy | y w d]; cbn [valid_date get_week_date date_dn] in *.
    - apply week_from_cal_spec; exact V.
    - apply week_from_ord_spec; exact V.
    - exists y, w, d. auto. }
  destruct H as (wy & w & wd & -> & Vw & Dw). exists (Wk wy w wd). auto.
Qed.
Lemma to_calendar_date_spec md d0 : valid_date md d0 = true ->
  exists d', to_calendar_date md d0 = Some d' /\ valid_date md d' = true /\
             date_dn md d' = date_dn md d0 /\ rep_kind d' = 0.
Proof.
  intros V. unfold to_calendar_date.
  destruct (get_calendar_date_spec md d0 V) as (y & m & d & -> & Vc & Dc). exists (Cal y m d). auto.
Qed.
Lemma to_ordinal_date_spec md d0 : valid_date md d0 = true ->
  exists d', to_ordinal_date md d0 = Some d' /\ valid_date md d' = true /\
             date_dn md d' = date_dn md d0 /\ rep_kind d' = 1.
Proof.
  intros V. unfold to_ordinal_date.
  destruct (get_ordinal_date_spec md d0 V) as (y & doy & -> & Vo & Do). exists (Ord y doy). auto.
Qed.

(* the designator of a valid date is the one the specification computes *)
Lemma day_matches_dow md y w d : valid_week md y w d = true ->
  day_matches md (mkDay (Some d) None None None) (dn_week md y w d) = true.
Proof.
  intros V. unfold day_matches. destruct (date_of_dn_spec md (dn_week md y w d)) as (_ & _ & W).
  destruct (cal_of_dn md _) as [[? ?] ?]. destruct (ord_of_dn md _) as [? ?].
  destruct (week_of_dn md _) as [[wy' w'] d']. destruct W as [V' E].
  pose proof (dn_week_inj md _ _ _ _ _ _ V' V E) as I. injection I as -> -> ->.
  cbn [ds_dow ds_dom ds_doy ds_week opt_match andb]. lia.
Qed.
Lemma day_matches_dom md y m d : valid_cal md y m d = true ->
  day_matches md (mkDay None (Some d) None None) (dn_cal md y m d) = true.
Proof.
  intros V. unfold day_matches. destruct (date_of_dn_spec md (dn_cal md y m d)) as (_ & W & _).
  destruct (cal_of_dn md _) as [[y' m'] d']. destruct (ord_of_dn md _) as [? ?].
  destruct (week_of_dn md _) as [[? ?] ?]. destruct W as [V' E].
  pose proof (dn_cal_inj md _ _ _ _ _ _ V' V E) as I. injection I as -> -> ->.
  cbn [ds_dow ds_dom ds_doy ds_week opt_match andb]. lia.
Qed.
Lemma day_matches_doy md y d : valid_ord md y d = true ->
  day_matches md (mkDay None None (Some d) None) (dn_ord md y d) = true.
Proof.
  intros V. unfold day_matches. destruct (date_of_dn_spec md (dn_ord md y d)) as (W & _ & _).
  destruct (cal_of_dn md _) as [[? ?] ?]. destruct (ord_of_dn md _) as [y' d'].
  destruct (week_of_dn md _) as [[? ?] ?]. destruct W as [V' E].
  pose proof (dn_ord_inj md _ _ _ _ V' V E) as I. injection I as -> ->.
  cbn [ds_dow ds_dom ds_doy ds_week opt_match andb]. lia.
Qed.

Lemma day_case md p k d bound cv d' : normal_tp md p = true -> 0 <= k <= 2 -> trange k d ->
  (if k =? 0 then 6 else if k =? 1 then 30 else 365) <= bound ->
  cv = Some d' -> valid_date md d' = true -> date_dn md d' = date_dn md (tdate p) -> rep_kind d' = kind_of k ->
  exists r, tbind (conv cv p) (step_until md (date_field k) (bump_date k) (qz d) bound) = TOk r /\
    to_time_zone md r (tzone p) = Some r /\
    valid_tp md r = true /\ tzone r = tzone p /\ (instant md p <= instant md r)%Q /\
    valid_date md (tdate r) = true /\ rep_kind (tdate r) = kind_of k /\ field_of r = d /\
    fst (local_ds md r (tzone p)) = date_dn md (tdate r) /\
    (tod_secs (ttod r) == tod_secs (ttod p))%Q.
Proof.
  intros N Hk T B -> V' D' K'. destruct (normal_tp_parts md p N) as (Vd & Nt & Vz).
  cbn [conv tbind].
  destruct (day_loop md k d bound (with_date p d') Hk T) as (r & E & (Vr & Kr & Nr) & Zr & Sr & Dr & Fr).
  { unfold dgood. cbn [with_date tdate ttod]. auto. }
  { exact B. }
  cbn [with_date tdate ttod tzone] in *. exists r. split; [exact E|].
  split; [rewrite <- Zr; apply to_time_zone_same|].
  split.
  { unfold valid_tp. rewrite Vr, Zr, Vz. unfold normal_tod in Nr. apply andb_prop in Nr. destruct Nr as [-> _]. reflexivity. }
  split; [exact Zr|]. split.
  { unfold instant. rewrite Zr, Sr. rewrite D' in Dr. unfold qz.
    assert (L : (inject_Z (86400 * date_dn md (tdate p)) <= inject_Z (86400 * date_dn md (tdate r)))%Q)
      by (rewrite <- Zle_Qle; lia).
    lra. }
  split; [exact Vr|]. split; [exact Kr|]. split; [exact Fr|].
  split; [rewrite <- Zr; apply local_ds_normal; exact Nr | exact Sr].
Qed.

Lemma add_trunc_day_partial : forall md p t, normal_tp md p = true -> day_only md t ->
  exists r, tp_add_trunc md t p = TOk r /\ valid_tp md r = true /\ tzone r = tzone p /\
    (instant md p <= instant md r)%Q /\
    (let '(n, _) := local_ds md r (tzone p) in
     day_matches md (mkDay (t_dow t) (t_dom t) (t_doy t) None) n = true) /\
    (tod_secs (ttod r) == tod_secs (ttod p))%Q.
Proof.
  intros md p t N (Hh & Hm & Hs & Hz & D).
  destruct (normal_tp_parts md p N) as (Vd & Nt & Vz).
  destruct t as [th tm ts tdow tdom tdoy twk tzn].
  cbn [t_hour t_min t_sec t_dow t_dom t_doy t_week t_zone] in *. subst th tm ts tzn.
  unfold tp_add_trunc, add_truncated. cbn [t_hour t_min t_sec t_dow t_dom t_doy t_week t_zone].
  cbv zeta. rewrite (normalised_normal md p Nt). cbn [tbind].
  destruct D as [(d & Hd & -> & -> & -> & ->) | [(d & Hd & -> & -> & -> & ->) | (d & Hd & -> & -> & -> & ->)]];
    cbn [tbind].
  - destruct (to_week_date_spec md _ Vd) as (d' & E & V' & D' & K').
    destruct (day_case md p 0 d 8 _ d' N ltac:(lia) ltac:(unfold trange; lia) ltac:(cbn; lia) E V' D' K')
      as (r & E1 & E2 & Vr & Zr & Ir & Vdr & Kr & Fr & Lr & Sr).
    exists r. rewrite E1. cbn [tbind]. rewrite E2.
    split; [reflexivity|]. split; [exact Vr|]. split; [exact Zr|]. split; [exact Ir|]. split; [|exact Sr].
    destruct (local_ds md r (tzone p)) as [n s]. cbn [fst] in Lr. subst n.
    unfold field_of in Fr. destruct (tdate r) as [? ? ?|? ?|y w dd]; try discriminate Kr. subst dd.
    apply day_matches_dow. exact Vdr.
  - destruct (to_calendar_date_spec md _ Vd) as (d' & E & V' & D' & K').
    destruct (day_case md p 1 d 63 _ d' N ltac:(lia) ltac:(unfold trange; lia) ltac:(cbn; lia) E V' D' K')
      as (r & E1 & E2 & Vr & Zr & Ir & Vdr & Kr & Fr & Lr & Sr).
    exists r. rewrite E1. cbn [tbind]. rewrite E2.
    split; [reflexivity|]. split; [exact Vr|]. split; [exact Zr|]. split; [exact Ir|]. split; [|exact Sr].
    destruct (local_ds md r (tzone p)) as [n s]. cbn [fst] in Lr. subst n.
    unfold field_of in Fr. destruct (tdate r) as [y m dd|? ?|? ? ?]; try discriminate Kr. subst dd.
    apply day_matches_dom. exact Vdr.
  - destruct (to_ordinal_date_spec md _ Vd) as (d' & E & V' & D' & K').
    destruct (day_case md p 2 d 2929 _ d' N ltac:(lia) ltac:(unfold trange; lia) ltac:(cbn; lia) E V' D' K')
      as (r & E1 & E2 & Vr & Zr & Ir & Vdr & Kr & Fr & Lr & Sr).
    exists r. rewrite E1. cbn [tbind]. rewrite E2.
    split; [reflexivity|]. split; [exact Vr|]. split; [exact Zr|]. split; [exact Ir|]. split; [|exact Sr].
    destruct (local_ds md r (tzone p)) as [n s]. cbn [fst] in Lr. subst n.
    unfold field_of in Fr. destruct (tdate r) as [? ? ?|y dd|? ? ?]; try discriminate Kr. subst dd.
    apply day_matches_doy. exact Vdr.
Qed.
Print Assumptions add_trunc_day_partial.
