(* Proofs/TruncSpec.v -- adding a truncated time point (Model/Truncated.v): the
   unit-stepping loops stop inside their bounds; with time fields only they land
   on the least match of Spec/NextMatch.v and adding again changes nothing; with
   one day designator they land on a matching day not earlier than the start. *)
From Coq Require Import QArith Qround Qabs Lqa List.
From Iso Require Import Proofs.Tac Spec.Cal Spec.Instant Spec.NextMatch Model.Num Model.Helpers Model.Duration
  Model.TimePoint Model.Truncated Proofs.HelpersSpec Proofs.ConvSpec Proofs.TickSpec Proofs.AddSpec
  Proofs.MonthSpec Proofs.ZoneSpec Proofs.CmpSpec Proofs.NextMatchSpec.
Import ListNotations.
Open Scope Z_scope.

(* ---------- the definitions Props/C20.v states its theorems with ---------- *)
Definition whole_second (p : tp) : Prop :=
  match ttod p with HMS h m s => qis_int s = true | _ => False end.
Definition field_ok (o : option Q) (hi : Z) : Prop :=
  match o with Some v => qis_int v = true /\ (0 <= v)%Q /\ (v < inject_Z hi)%Q | None => True end.
Definition time_only (t : trunc) : Prop :=
  t_dow t = None /\ t_dom t = None /\ t_doy t = None /\ t_week t = None /\
  field_ok (t_hour t) 24 /\ field_ok (t_min t) 60 /\ field_ok (t_sec t) 60 /\
  (t_hour t <> None \/ t_min t <> None \/ t_sec t <> None).
Definition qfl (o : option Q) : option Z := match o with Some x => Some (Qfloor x) | None => None end.
Definition local_ds (md : mode) (p : tp) (z : zone) : Z * Q :=
  let x := (instant md p + inject_Z (zone_secs z))%Q in
  let n := Qfloor (x / inject_Z 86400) in (n, Qred (x - inject_Z (86400 * n))).
Definition day_only (md : mode) (t : trunc) : Prop :=
  t_hour t = None /\ t_min t = None /\ t_sec t = None /\ t_zone t = None /\
  ((exists d, 1 <= d <= 7 /\ t_dow t = Some d /\ t_dom t = None /\ t_doy t = None /\ t_week t = None) \/
   (exists d, 1 <= d <= 28 /\ t_dom t = Some d /\ t_dow t = None /\ t_doy t = None /\ t_week t = None) \/
   (exists d, 1 <= d <= 360 /\ t_doy t = Some d /\ t_dow t = None /\ t_dom t = None /\ t_week t = None)).

(* ---------- known findings F8b and F10, by computation ---------- *)
Lemma trunc_refuted :
  tp_add_trunc G (mkTrunc (Some 24%Q) None None None None None None None)
               (mkTp (Cal 2000 1 1) (HMS 5 0 0) (mkZone 0 0)) = THang /\
  tp_add_trunc G (mkTrunc None (Some 39%Q) None None (Some 1) None None None)
               (mkTp (Cal 2009 2 28) (HMS 12 0 0) (mkZone 0 0))
    = TOk (mkTp (Cal 2009 3 1) (HMS 12 39 0) (mkZone 0 0)) /\
  next_match G (mkDay None (Some 1) None None) (mkTod None (Some 39) None) 733831 43200 3000 = Some (733832, 2340).
Proof. vm_compute. repeat split; reflexivity. Qed.
Print Assumptions trunc_refuted.

(* ---------- shared facts ---------- *)
Lemma to_time_zone_same md r : to_time_zone md r (tzone r) = Some r.
Proof.
  unfold to_time_zone. rewrite tp_add_zero.
  - destruct r; reflexivity.
  - reflexivity.
  - unfold zone_diff. rewrite !Z.sub_diag. reflexivity.
Qed.

Lemma normalised_normal md p : normal_tod (ttod p) = true -> normalised md p = p.
Proof.
  intros N. unfold normalised. destruct (qeqb (tod_hour (ttod p)) 24) eqn:E; [|reflexivity].
  unfold normal_tod in N. apply andb_prop in N. destruct N as [_ N].
  apply qltb_inv in N. apply qeqb_inv in E. rewrite E in N. discriminate N.
Qed.

Lemma qeqb_Z a b : qeqb (inject_Z a) (inject_Z b) = (a =? b).
Proof.
  destruct (a =? b) eqn:E.
  - apply qeqb_iff. assert (a = b) by lia. subst. reflexivity.
  - destruct (qeqb (inject_Z a) (inject_Z b)) eqn:HQ; [|reflexivity].
    apply qeqb_iff in HQ. apply (proj1 (inject_Z_injective a b)) in HQ. lia.
Qed.

Lemma qeqb_eqv a b z w : (a == inject_Z z)%Q -> (b == inject_Z w)%Q -> qeqb a b = (z =? w).
Proof.
  intros A B. rewrite <- qeqb_Z. unfold qeqb.
  destruct (Qeq_bool (inject_Z z) (inject_Z w)) eqn:E.
  - apply Qeq_bool_iff. apply Qeq_bool_iff in E. rewrite A, B. exact E.
  - destruct (Qeq_bool a b) eqn:E'; [|reflexivity]. apply Qeq_bool_iff in E'.
    rewrite A, B in E'. apply Qeq_bool_iff in E'. congruence.
Qed.

Lemma floor_unique (q : Q) n : (inject_Z n <= q)%Q -> (q < inject_Z (n + 1))%Q -> Qfloor q = n.
Proof.
  intros A B. pose proof (Qfloor_le q) as F1. pose proof (Qlt_floor q) as F2.
  assert (L1 : (inject_Z (Qfloor q) < inject_Z (n + 1))%Q) by lra.
  assert (L2 : (inject_Z n < inject_Z (Qfloor q + 1))%Q) by lra.
  rewrite <- Zlt_Qlt in L1, L2. lia.
Qed.

Lemma tod_secs_red t : (tod_secs (tod_red t) == tod_secs t)%Q.
Proof. destruct t; cbn [tod_red tod_secs]; rewrite !Qred_correct; reflexivity. Qed.

Lemma isint_le_pred x k : isint x -> (x < inject_Z k)%Q -> (x <= inject_Z (k - 1))%Q.
Proof.
  intros [z H] L. rewrite H in *. rewrite <- Zlt_Qlt in L. rewrite <- Zle_Qle. lia.
Qed.

Lemma normal_tod_secs t : normal_tod t = true -> (0 <= tod_secs t /\ tod_secs t < 86400)%Q.
Proof.
  destruct t as [h m s | h m | h]; intros N; cbn [tod_secs]; qlit.
  - destruct (normal_hms_inv _ _ _ N) as (Ih & Im & H1 & H2 & H3 & H4 & H5 & H6).
    pose proof (isint_le_pred h 24 Ih H2) as A. pose proof (isint_le_pred m 60 Im H4) as B.
    change (inject_Z (24 - 1)) with 23%Q in A. change (inject_Z (60 - 1)) with 59%Q in B. split; lra.
  - destruct (normal_hm_inv _ _ N) as (Ih & H1 & H2 & H3 & H4).
    pose proof (isint_le_pred h 24 Ih H2) as A. change (inject_Z (24 - 1)) with 23%Q in A. split; lra.
  - destruct (normal_hh_inv _ N) as (H1 & H2). split; lra.
Qed.

(* the local day number of a point strictly inside its day is its date's *)
Lemma local_ds_normal md r : normal_tod (ttod r) = true ->
  fst (local_ds md r (tzone r)) = date_dn md (tdate r).
Proof.
  intros N. destruct (normal_tod_secs _ N) as [A B]. unfold local_ds. cbv zeta. cbn [fst].
  unfold instant. set (s := tod_secs (ttod r)) in *. clearbody s.
  apply floor_unique; unfold qz; rewrite ?inject_Z_plus, ?inject_Z_mult; qlit;
    set (n := inject_Z (date_dn md (tdate r))); change (inject_Z 1) with 1%Q.
  - apply Qle_shift_div_l; lra.
  - apply Qlt_shift_div_r; lra.
Qed.

(* ---------- stepping one day at a time ---------- *)
Lemma tick_over_normal md q : normal_tod (ttod q) = true ->
  match tdate q with Cal _ m _ => 1 <= m <= 12 | _ => True end ->
  valid_date md (tdate (tick_over md q)) = true /\
  date_dn md (tdate (tick_over md q)) = date_dn md (tdate q) /\
  rep_kind (tdate (tick_over md q)) = rep_kind (tdate q) /\
  ttod (tick_over md q) = tod_red (ttod q) /\ normal_tod (ttod (tick_over md q)) = true /\
  tzone (tick_over md q) = tzone q.
Proof.
  intros N M. destruct (tick_over_spec md q M) as (_ & _ & T3 & _).
  revert T3. unfold tick_over. rewrite (tick_time_normal _ N). cbn [tdate ttod tzone]. intros T3.
  destruct (tick_date_spec md (add_days_raw (tdate q) 0)) as (A & B & C).
  { destruct (tdate q); cbn [add_days_raw]; exact M. }
  rewrite add_days_raw_dn in B. rewrite add_days_raw_kind in C. rewrite Z.add_0_r in B. auto 10.
Qed.

Definition kind_of (k : Z) : Z := if k =? 1 then 0 else if k =? 2 then 1 else 2.
Definition field_of (x : tp) : Z := match tdate x with Wk _ _ d | Cal _ _ d | Ord _ d => d end.
Definition dgood (md : mode) (K : Z) (x : tp) : Prop :=
  valid_date md (tdate x) = true /\ rep_kind (tdate x) = K /\ normal_tod (ttod x) = true.

Lemma date_field_kind k x : 0 <= k <= 2 -> rep_kind (tdate x) = kind_of k ->
  date_field k x = Some (qz (field_of x)) /\ bump_date k x = with_date x (add_days_raw (tdate x) 1).
Proof.
  intros Hk K. assert (C : k = 0 \/ k = 1 \/ k = 2) by lia.
  unfold date_field, bump_date, field_of.
  destruct C as [-> | [-> | ->]]; destruct (tdate x); try discriminate K; split; reflexivity.
Qed.

Lemma day_step md k x : 0 <= k <= 2 -> dgood md (kind_of k) x ->
  let r := tick_over md (bump_date k x) in
  dgood md (kind_of k) r /\ date_dn md (tdate r) = date_dn md (tdate x) + 1 /\
  ttod r = tod_red (ttod x) /\ tzone r = tzone x.
Proof.
  intros Hk (V & K & N). cbv zeta.
  destruct (date_field_kind k x Hk K) as [_ ->].
  destruct (tick_over_normal md (with_date x (add_days_raw (tdate x) 1))) as (A & B & C & D & E & F).
  - exact N.
  - cbn [with_date tdate]. pose proof (valid_month md _ V) as M.
    destruct (tdate x); cbn [add_days_raw]; exact M.
  - cbn [with_date tdate ttod tzone] in *. rewrite add_days_raw_dn in B. rewrite add_days_raw_kind in C.
    unfold dgood. repeat split; try assumption. congruence.
Qed.

Lemma succ_week md y w d y' w' d' : valid_week md y w d = true -> valid_week md y' w' d' = true ->
  dn_week md y' w' d' = dn_week md y w d + 1 -> d' = d mod 7 + 1.
Proof.
  intros V V' E. pose proof (week_range _ _ _ _ V) as (_ & Hd & _).
  pose proof (week_range _ _ _ _ V') as (_ & Hd' & _).
  pose proof (week_date_weekday md y w d Hd) as W. pose proof (week_date_weekday md y' w' d' Hd') as W'.
  rewrite E in W'. destruct (weekday_continuous md (dn_week md y w d)) as [_ S]. congruence.
Qed.

Lemma succ_cal md y m d y' m' d' : valid_cal md y m d = true -> valid_cal md y' m' d' = true ->
  dn_cal md y' m' d' = dn_cal md y m d + 1 ->
  (d < mlen md y m /\ y' = y /\ m' = m /\ d' = d + 1) \/ (d = mlen md y m /\ d' = 1).
Proof.
  intros V V' E. pose proof (cal_range _ _ _ _ V) as (Hm & Hd & _).
  destruct (Z_lt_le_dec d (mlen md y m)) as [L | L].
  - left. split; [exact L|].
    assert (V2 : valid_cal md y m (d + 1) = true) by (unfold valid_cal; lia).
    assert (E2 : dn_cal md y' m' d' = dn_cal md y m (d + 1)) by (rewrite E; unfold dn_cal; lia).
    pose proof (dn_cal_inj md _ _ _ _ _ _ V' V2 E2) as I. injection I as -> -> ->. auto.
  - right. split; [lia|]. assert (d = mlen md y m) by lia.
    destruct (Z_lt_le_dec m 12) as [L2 | L2].
    + assert (V2 : valid_cal md y (m + 1) 1 = true).
      { pose proof (mlen_bounds md y (m + 1) ltac:(lia)). unfold valid_cal; lia. }
      assert (E2 : dn_cal md y' m' d' = dn_cal md y (m + 1) 1).
      { rewrite E. unfold dn_cal. replace (m + 1 - 1) with m by lia. rewrite (cum_step md y m Hm). lia. }
      pose proof (dn_cal_inj md _ _ _ _ _ _ V' V2 E2) as I. injection I as -> -> ->. reflexivity.
    + assert (m = 12) by lia. subst m.
      assert (V2 : valid_cal md (y + 1) 1 1 = true).
      { pose proof (mlen_bounds md (y + 1) 1 ltac:(lia)). unfold valid_cal; lia. }
      assert (E2 : dn_cal md y' m' d' = dn_cal md (y + 1) 1 1).
      { rewrite E. rewrite jan_dn, dby_succ, <- cum_12, (cum_step md y 12 ltac:(lia)). unfold dn_cal. lia. }
      pose proof (dn_cal_inj md _ _ _ _ _ _ V' V2 E2) as I. injection I as -> -> ->. reflexivity.
Qed.

Lemma succ_ord md y d y' d' : valid_ord md y d = true -> valid_ord md y' d' = true ->
  dn_ord md y' d' = dn_ord md y d + 1 ->
  (d < ylen md y /\ y' = y /\ d' = d + 1) \/ (d = ylen md y /\ d' = 1).
Proof.
  intros V V' E. pose proof (ord_range _ _ _ V) as (Hd & _).
  destruct (Z_lt_le_dec d (ylen md y)) as [L | L].
  - left. split; [exact L|].
    assert (V2 : valid_ord md y (d + 1) = true) by (unfold valid_ord; lia).
    assert (E2 : dn_ord md y' d' = dn_ord md y (d + 1)) by (rewrite E; unfold dn_ord; lia).
    pose proof (dn_ord_inj md _ _ _ _ V' V2 E2) as I. injection I as -> ->. auto.
  - right. split; [lia|].
    assert (V2 : valid_ord md (y + 1) 1 = true).
    { pose proof (ylen_bounds md (y + 1)). unfold valid_ord; lia. }
    assert (E2 : dn_ord md y' d' = dn_ord md (y + 1) 1).
    { rewrite E. unfold dn_ord. rewrite dby_succ. lia. }
    pose proof (dn_ord_inj md _ _ _ _ V' V2 E2) as I. injection I as -> ->. reflexivity.
Qed.

(* days until the designator next has the value d *)
Definition mu_day (md : mode) (d : Z) (x : tp) : Z :=
  match tdate x with
  | Wk _ _ dd => (d - dd) mod 7
  | Cal y m dd => if dd <=? d then d - dd else mlen md y m - dd + d
  | Ord y dd => if dd <=? d then d - dd else ylen md y - dd + d
  end.
Definition trange (k d : Z) : Prop :=
  1 <= d /\ (k = 0 -> d <= 7) /\ (k = 1 -> d <= 28) /\ (k = 2 -> d <= 360).

Lemma mu_day_step md k d x r : 0 <= k <= 2 -> trange k d ->
  dgood md (kind_of k) x -> dgood md (kind_of k) r ->
  date_dn md (tdate r) = date_dn md (tdate x) + 1 -> field_of x <> d ->
  mu_day md d r <= mu_day md d x - 1 /\ 1 <= mu_day md d x.
Proof.
  intros Hk (T1 & T2 & T3 & T4) (V & K & _) (V' & K' & _) E F.
  assert (C : k = 0 \/ k = 1 \/ k = 2) by lia. unfold mu_day, field_of in *.
  destruct C as [-> | [-> | ->]]; destruct (tdate x) as [y m dd | y dd | y w dd]; try discriminate K;
    destruct (tdate r) as [y' m' dd' | y' dd' | y' w' dd']; try discriminate K';
    cbn [valid_date date_dn] in V, V', E.
  - pose proof (succ_week md _ _ _ _ _ _ V V' E). pose proof (week_range _ _ _ _ V) as (_ & Hd & _). lia.
  - pose proof (cal_range _ _ _ _ V) as (Hm & Hd & _). pose proof (mlen_bounds md y m Hm).
    destruct (succ_cal md _ _ _ _ _ _ V V' E) as [(A & -> & -> & ->) | (A & ->)];
      destruct (dd <=? d) eqn:E1; try (destruct (dd + 1 <=? d) eqn:E2); try (destruct (1 <=? d) eqn:E3); lia.
  - pose proof (ord_range _ _ _ V) as (Hd & _). pose proof (ylen_bounds md y).
    destruct (succ_ord md _ _ _ _ V V' E) as [(A & -> & ->) | (A & ->)];
      destruct (dd <=? d) eqn:E1; try (destruct (dd + 1 <=? d) eqn:E2); try (destruct (1 <=? d) eqn:E3); lia.
Qed.

Lemma mu_day_bound md k d x : 0 <= k <= 2 -> trange k d -> dgood md (kind_of k) x ->
  mu_day md d x <= (if k =? 0 then 6 else if k =? 1 then 30 else 365).
Proof.
  intros Hk (T1 & T2 & T3 & T4) (V & K & _).
  assert (C : k = 0 \/ k = 1 \/ k = 2) by lia. unfold mu_day.
  destruct C as [-> | [-> | ->]]; destruct (tdate x) as [y m dd | y dd | y w dd]; try discriminate K;
    cbn [valid_date] in V; cbn [Z.eqb Pos.eqb].
  - lia.
  - pose proof (cal_range _ _ _ _ V) as (Hm & Hd & _). pose proof (mlen_bounds md y m Hm).
    destruct (dd <=? d) eqn:E1; lia.
  - pose proof (ord_range _ _ _ V) as (Hd & _). pose proof (ylen_bounds md y).
    destruct (dd <=? d) eqn:E1; lia.
Qed.

Lemma day_loop md k d bound x0 : 0 <= k <= 2 -> trange k d -> dgood md (kind_of k) x0 ->
  (if k =? 0 then 6 else if k =? 1 then 30 else 365) <= bound ->
  exists r, step_until md (date_field k) (bump_date k) (qz d) bound x0 = TOk r /\
    dgood md (kind_of k) r /\ tzone r = tzone x0 /\ (tod_secs (ttod r) == tod_secs (ttod x0))%Q /\
    date_dn md (tdate x0) <= date_dn md (tdate r) /\ field_of r = d.
Proof.
  intros Hk T G0 B. unfold step_until. cbv zeta.
  set (cond := fun x : tp => match date_field k x with Some v => negb (qeqb v (qz d)) | None => false end).
  set (step := fun x : tp => tick_over md (bump_date k x)).
  set (Inv := fun x : tp => dgood md (kind_of k) x /\ tzone x = tzone x0 /\
                 (tod_secs (ttod x) == tod_secs (ttod x0))%Q /\ date_dn md (tdate x0) <= date_dn md (tdate x)).
  assert (Hc : forall x, dgood md (kind_of k) x -> cond x = negb (field_of x =? d)).
  { intros x (_ & K & _). unfold cond. destruct (date_field_kind k x Hk K) as [-> _].
    unfold qz. rewrite qeqb_Z. reflexivity. }
  destruct (loop_spec cond step Inv (mu_day md d)) with (n := bound) (a := x0) as [(G & Z & S & D) C].
  - intros x (G & Z & S & D) Cx. rewrite (Hc x G) in Cx.
    destruct (day_step md k x Hk G) as (G' & D' & S' & Z'). fold (step x) in *.
    split.
    + unfold Inv. split; [exact G'|]. split; [congruence|]. split; [|lia].
      rewrite S', tod_secs_red. exact S.
    + apply (mu_day_step md k d x (step x) Hk T G G' D'). lia.
  - intros x (G & Z & S & D) Cx. rewrite (Hc x G) in Cx.
    destruct (day_step md k x Hk G) as (G' & D' & S' & Z').
    apply (mu_day_step md k d x _ Hk T G G' D'). lia.
  - unfold Inv. split; [exact G0|]. split; [reflexivity|]. split; [reflexivity|lia].
  - pose proof (mu_day_bound md k d x0 Hk T G0). lia.
  - match goal with |- context [if ?b then THang else _] => change b with (cond (loop cond step bound x0)) end.
    rewrite C. eexists. split; [reflexivity|]. rewrite (Hc _ G) in C.
    repeat split; try assumption; try apply G. lia.
Qed.

(* ---------- into the designator's representation ---------- *)
Lemma to_week_date_spec md d0 : valid_date md d0 = true ->
  exists d', to_week_date md d0 = Some d' /\ valid_date md d' = true /\
             date_dn md d' = date_dn md d0 /\ rep_kind d' = 2.
Proof.
  intros V. unfold to_week_date.
  assert (H : exists wy w wd, get_week_date md d0 = Some (wy, w, wd) /\ valid_week md wy w wd = true /\
                              dn_week md wy w wd = date_dn md d0).
  { destruct d0 as [y m d | y doy | y w d]; cbn [valid_date get_week_date date_dn] in *.
    - apply week_from_cal_spec; exact V.
    - apply week_from_ord_spec; exact V.
    - exists y, w, d. auto. }
  destruct H as (wy & w & wd & -> & Vw & Dw). exists (Wk wy w wd). auto.
Qed.
Lemma to_calendar_date_spec md d0 : valid_date md d0 = true ->
  exists d', to_calendar_date md d0 = Some d' /\ valid_date md d' = true /\
             date_dn md d' = date_dn md d0 /\ rep_kind d' = 0.
Proof.
  intros V. unfold to_calendar_date.
  destruct (get_calendar_date_spec md d0 V) as (y & m & d & -> & Vc & Dc). exists (Cal y m d). auto.
Qed.
Lemma to_ordinal_date_spec md d0 : valid_date md d0 = true ->
  exists d', to_ordinal_date md d0 = Some d' /\ valid_date md d' = true /\
             date_dn md d' = date_dn md d0 /\ rep_kind d' = 1.
Proof.
  intros V. unfold to_ordinal_date.
  destruct (get_ordinal_date_spec md d0 V) as (y & doy & -> & Vo & Do). exists (Ord y doy). auto.
Qed.

(* the designator of a valid date is the one the specification computes *)
Lemma day_matches_dow md y w d : valid_week md y w d = true ->
  day_matches md (mkDay (Some d) None None None) (dn_week md y w d) = true.
Proof.
  intros V. unfold day_matches. destruct (date_of_dn_spec md (dn_week md y w d)) as (_ & _ & W).
  destruct (cal_of_dn md _) as [[? ?] ?]. destruct (ord_of_dn md _) as [? ?].
  destruct (week_of_dn md _) as [[wy' w'] d']. destruct W as [V' E].
  pose proof (dn_week_inj md _ _ _ _ _ _ V' V E) as I. injection I as -> -> ->.
  cbn [ds_dow ds_dom ds_doy ds_week opt_match andb]. lia.
Qed.
Lemma day_matches_dom md y m d : valid_cal md y m d = true ->
  day_matches md (mkDay None (Some d) None None) (dn_cal md y m d) = true.
Proof.
  intros V. unfold day_matches. destruct (date_of_dn_spec md (dn_cal md y m d)) as (_ & W & _).
  destruct (cal_of_dn md _) as [[y' m'] d']. destruct (ord_of_dn md _) as [? ?].
  destruct (week_of_dn md _) as [[? ?] ?]. destruct W as [V' E].
  pose proof (dn_cal_inj md _ _ _ _ _ _ V' V E) as I. injection I as -> -> ->.
  cbn [ds_dow ds_dom ds_doy ds_week opt_match andb]. lia.
Qed.
Lemma day_matches_doy md y d : valid_ord md y d = true ->
  day_matches md (mkDay None None (Some d) None) (dn_ord md y d) = true.
Proof.
  intros V. unfold day_matches. destruct (date_of_dn_spec md (dn_ord md y d)) as (W & _ & _).
  destruct (cal_of_dn md _) as [[? ?] ?]. destruct (ord_of_dn md _) as [y' d'].
  destruct (week_of_dn md _) as [[? ?] ?]. destruct W as [V' E].
  pose proof (dn_ord_inj md _ _ _ _ V' V E) as I. injection I as -> ->.
  cbn [ds_dow ds_dom ds_doy ds_week opt_match andb]. lia.
Qed.

Lemma day_case md p k d bound cv d' : normal_tp md p = true -> 0 <= k <= 2 -> trange k d ->
  (if k =? 0 then 6 else if k =? 1 then 30 else 365) <= bound ->
  cv = Some d' -> valid_date md d' = true -> date_dn md d' = date_dn md (tdate p) -> rep_kind d' = kind_of k ->
  exists r, tbind (conv cv p) (step_until md (date_field k) (bump_date k) (qz d) bound) = TOk r /\
    to_time_zone md r (tzone p) = Some r /\
    valid_tp md r = true /\ tzone r = tzone p /\ (instant md p <= instant md r)%Q /\
    valid_date md (tdate r) = true /\ rep_kind (tdate r) = kind_of k /\ field_of r = d /\
    fst (local_ds md r (tzone p)) = date_dn md (tdate r) /\
    (tod_secs (ttod r) == tod_secs (ttod p))%Q.
Proof.
  intros N Hk T B -> V' D' K'. destruct (normal_tp_parts md p N) as (Vd & Nt & Vz).
  cbn [conv tbind].
  destruct (day_loop md k d bound (with_date p d') Hk T) as (r & E & (Vr & Kr & Nr) & Zr & Sr & Dr & Fr).
  { unfold dgood. cbn [with_date tdate ttod]. auto. }
  { exact B. }
  cbn [with_date tdate ttod tzone] in *. exists r. split; [exact E|].
  split; [rewrite <- Zr; apply to_time_zone_same|].
  split.
  { unfold valid_tp. rewrite Vr, Zr, Vz. unfold normal_tod in Nr. apply andb_prop in Nr. destruct Nr as [-> _]. reflexivity. }
  split; [exact Zr|]. split.
  { unfold instant. rewrite Zr, Sr. rewrite D' in Dr. unfold qz.
    assert (L : (inject_Z (86400 * date_dn md (tdate p)) <= inject_Z (86400 * date_dn md (tdate r)))%Q)
      by (rewrite <- Zle_Qle; lia).
    lra. }
  split; [exact Vr|]. split; [exact Kr|]. split; [exact Fr|].
  split; [rewrite <- Zr; apply local_ds_normal; exact Nr | exact Sr].
Qed.

Lemma add_trunc_day_partial : forall md p t, normal_tp md p = true -> day_only md t ->
  exists r, tp_add_trunc md t p = TOk r /\ valid_tp md r = true /\ tzone r = tzone p /\
    (instant md p <= instant md r)%Q /\
    (let '(n, _) := local_ds md r (tzone p) in
     day_matches md (mkDay (t_dow t) (t_dom t) (t_doy t) None) n = true) /\
    (tod_secs (ttod r) == tod_secs (ttod p))%Q.
Proof.
  intros md p t N (Hh & Hm & Hs & Hz & D).
  destruct (normal_tp_parts md p N) as (Vd & Nt & Vz).
  destruct t as [th tm ts tdow tdom tdoy twk tzn].
  cbn [t_hour t_min t_sec t_dow t_dom t_doy t_week t_zone] in *. subst th tm ts tzn.
  unfold tp_add_trunc, add_truncated. cbn [t_hour t_min t_sec t_dow t_dom t_doy t_week t_zone].
  cbv zeta. rewrite (normalised_normal md p Nt). cbn [tbind].
  destruct D as [(d & Hd & -> & -> & -> & ->) | [(d & Hd & -> & -> & -> & ->) | (d & Hd & -> & -> & -> & ->)]];
    cbn [tbind].
  - destruct (to_week_date_spec md _ Vd) as (d' & E & V' & D' & K').
    destruct (day_case md p 0 d 8 _ d' N ltac:(lia) ltac:(unfold trange; lia) ltac:(cbn; lia) E V' D' K')
      as (r & E1 & E2 & Vr & Zr & Ir & Vdr & Kr & Fr & Lr & Sr).
    exists r. rewrite E1. cbn [tbind]. rewrite E2.
    split; [reflexivity|]. split; [exact Vr|]. split; [exact Zr|]. split; [exact Ir|]. split; [|exact Sr].
    destruct (local_ds md r (tzone p)) as [n s]. cbn [fst] in Lr. subst n.
    unfold field_of in Fr. destruct (tdate r) as [? ? ?|? ?|y w dd]; try discriminate Kr. subst dd.
    apply day_matches_dow. exact Vdr.
  - destruct (to_calendar_date_spec md _ Vd) as (d' & E & V' & D' & K').
    destruct (day_case md p 1 d 63 _ d' N ltac:(lia) ltac:(unfold trange; lia) ltac:(cbn; lia) E V' D' K')
      as (r & E1 & E2 & Vr & Zr & Ir & Vdr & Kr & Fr & Lr & Sr).
    exists r. rewrite E1. cbn [tbind]. rewrite E2.
    split; [reflexivity|]. split; [exact Vr|]. split; [exact Zr|]. split; [exact Ir|]. split; [|exact Sr].
    destruct (local_ds md r (tzone p)) as [n s]. cbn [fst] in Lr. subst n.
    unfold field_of in Fr. destruct (tdate r) as [y m dd|? ?|? ? ?]; try discriminate Kr. subst dd.
    apply day_matches_dom. exact Vdr.
  - destruct (to_ordinal_date_spec md _ Vd) as (d' & E & V' & D' & K').
    destruct (day_case md p 2 d 2929 _ d' N ltac:(lia) ltac:(unfold trange; lia) ltac:(cbn; lia) E V' D' K')
      as (r & E1 & E2 & Vr & Zr & Ir & Vdr & Kr & Fr & Lr & Sr).
    exists r. rewrite E1. cbn [tbind]. rewrite E2.
    split; [reflexivity|]. split; [exact Vr|]. split; [exact Zr|]. split; [exact Ir|]. split; [|exact Sr].
    destruct (local_ds md r (tzone p)) as [n s]. cbn [fst] in Lr. subst n.
    unfold field_of in Fr. destruct (tdate r) as [? ? ?|y dd|? ? ?]; try discriminate Kr. subst dd.
    apply day_matches_doy. exact Vdr.
Qed.
Print Assumptions add_trunc_day_partial.

(* ====================================================================== *)
(* time fields only                                                        *)
(* ====================================================================== *)
Open Scope Q_scope.

(* the whole number of seconds a point is past local midnight of day 0 *)
Definition wholeT (md : mode) (x : tp) (T : Z) : Prop :=
  inject_Z T == qz (86400 * date_dn md (tdate x)) + tod_secs (ttod x).
Definition good (md : mode) (x : tp) : Prop :=
  normal_tp md x = true /\ match ttod x with HMS _ _ s => isint s | _ => False end.
Definition TT (md : mode) (x : tp) : Z := Qfloor (qz (86400 * date_dn md (tdate x)) + tod_secs (ttod x)).

Lemma wholeT_TT md x T : wholeT md x T -> TT md x = T.
Proof. unfold wholeT, TT. intros H. rewrite <- (Qfloor_comp _ _ H). apply Qfloor_Z. Qed.

Lemma isint_bounds x lo hi : isint x -> inject_Z lo <= x -> x < inject_Z hi ->
  exists z, x == inject_Z z /\ (lo <= z < hi)%Z.
Proof.
  intros [z H] A B. exists z. split; [exact H|]. rewrite H in A, B.
  rewrite <- Zle_Qle in A. rewrite <- Zlt_Qlt in B. lia.
Qed.

Lemma good_fields md x : good md x ->
  exists h m s, ttod x = HMS h m s /\ wholeT md x (TT md x) /\
    h == inject_Z ((TT md x mod 86400) / 3600) /\ m == inject_Z ((TT md x mod 3600) / 60) /\
    s == inject_Z (TT md x mod 60).
Proof.
  intros [N I]. destruct (normal_tp_parts md x N) as (_ & Nt & _).
  destruct (ttod x) as [h m s | |] eqn:Et; try contradiction.
  destruct (normal_hms_inv _ _ _ Nt) as (Ih & Im & H1 & H2 & H3 & H4 & H5 & H6).
  destruct (isint_bounds h 0 24 Ih H1 H2) as (hz & Eh & Bh).
  destruct (isint_bounds m 0 60 Im H3 H4) as (mz & Em & Bm).
  destruct (isint_bounds s 0 60 I H5 H6) as (sz & Es & Bs).
  exists h, m, s. split; [reflexivity|].
  set (dn := date_dn md (tdate x)).
  assert (W : wholeT md x (86400 * dn + 3600 * hz + 60 * mz + sz)).
  { unfold wholeT. rewrite Et. cbn [tod_secs]. fold dn. rewrite Eh, Em, Es. unfold qz.
    rewrite !inject_Z_plus, !inject_Z_mult. ring. }
  rewrite (wholeT_TT md x _ W). split; [exact W|].
  clearbody dn.
  replace ((86400 * dn + 3600 * hz + 60 * mz + sz) mod 86400 / 3600)%Z with hz by lia.
  replace ((86400 * dn + 3600 * hz + 60 * mz + sz) mod 3600 / 60)%Z with mz by lia.
  replace ((86400 * dn + 3600 * hz + 60 * mz + sz) mod 60)%Z with sz by lia.
  auto.
Qed.

Lemma valid_whole md p : valid_tp md p = true -> whole_second p -> exists T, wholeT md p T.
Proof.
  intros V W. destruct (valid_tp_parts md p V) as (_ & Vt & _). unfold whole_second in W.
  destruct (ttod p) as [h m s | |] eqn:Et; try contradiction.
  unfold valid_tod in Vt. apply andb_prop in Vt. destruct Vt as [Vt _]. apply andb_prop in Vt.
  destruct Vt as [Ih Im]. apply qis_int_iff in Ih, Im, W.
  destruct Ih as [hz Eh]. destruct Im as [mz Em]. destruct W as [sz Es].
  exists (86400 * date_dn md (tdate p) + hz * 3600 + mz * 60 + sz)%Z.
  unfold wholeT. rewrite Et. cbn [tod_secs]. rewrite Eh, Em, Es. unfold qz.
  rewrite !inject_Z_plus, !inject_Z_mult. ring.
Qed.

(* a normalised whole-second point delta seconds later *)
Lemma good_after md x T r delta : wholeT md x T -> normal_tp md r = true -> tod_kind (ttod r) = 0%Z ->
  tzone r = tzone x -> instant md r == instant md x + inject_Z delta ->
  good md r /\ TT md r = (T + delta)%Z.
Proof.
  intros W N K Z I. unfold instant in I. rewrite Z in I. unfold wholeT in W.
  assert (W' : wholeT md r (T + delta)).
  { unfold wholeT. rewrite inject_Z_plus, W. lra. }
  split; [|apply wholeT_TT; exact W'].
  split; [exact N|]. destruct (normal_tp_parts md r N) as (_ & Nt & _).
  destruct (ttod r) as [h m s | |] eqn:Et; try discriminate K.
  destruct (normal_hms_inv _ _ _ Nt) as (Ih & Im & _).
  unfold wholeT in W'. rewrite Et in W'. cbn [tod_secs] in W'.
  apply isint_eq with (inject_Z (T + delta) - qz (86400 * date_dn md (tdate r)) - h * qz 3600 - m * qz 60).
  - rewrite W'. ring.
  - repeat apply isint_sub; try apply isint_mul; try apply isint_Z; assumption.
Qed.

Lemma good_bump md x t' delta : good md x ->
  tod_secs t' == tod_secs (ttod x) + inject_Z delta -> tod_kind t' = 0%Z ->
  let r := tick_over md (with_tod x t') in
  good md r /\ TT md r = (TT md x + delta)%Z /\ tzone r = tzone x /\ rep_kind (tdate r) = rep_kind (tdate x).
Proof.
  intros G S K. cbv zeta. destruct (good_fields md x G) as (h & m & s & Et & W & _).
  destruct G as [N I].
  destruct (time_stage md x t' (inject_Z delta) (normal_valid md x N) S) as [(R1 & R2 & R3 & R4 & R5) N'].
  { rewrite Et. exact K. }
  destruct (good_after md x _ _ delta W N') as [G' T']; try assumption.
  { rewrite R4, Et. reflexivity. }
  auto.
Qed.

Lemma bump_sec_step md x : good md x -> let r := tick_over md (bump_sec x) in
  good md r /\ TT md r = (TT md x + 1)%Z /\ tzone r = tzone x /\ rep_kind (tdate r) = rep_kind (tdate x).
Proof.
  intros G. destruct (good_fields md x G) as (h & m & s & Et & _). unfold bump_sec. rewrite Et.
  apply good_bump; [exact G | | reflexivity]. rewrite Et. cbn [tod_secs]. rewrite qadd_eq.
  change (inject_Z 1) with 1. ring.
Qed.
Lemma bump_min_step md x : good md x -> let r := tick_over md (bump_min x) in
  good md r /\ TT md r = (TT md x + 60)%Z /\ tzone r = tzone x /\ rep_kind (tdate r) = rep_kind (tdate x).
Proof.
  intros G. destruct (good_fields md x G) as (h & m & s & Et & _). unfold bump_min. rewrite Et.
  apply good_bump; [exact G | | reflexivity]. rewrite Et. cbn [tod_secs]. rewrite qadd_eq. qlit. ring.
Qed.
Lemma bump_hr_step md x : good md x -> let r := tick_over md (bump_hr x) in
  good md r /\ TT md r = (TT md x + 3600)%Z /\ tzone r = tzone x /\ rep_kind (tdate r) = rep_kind (tdate x).
Proof.
  intros G. destruct (good_fields md x G) as (h & m & s & Et & _). unfold bump_hr. rewrite Et.
  cbn [add_hours].
  apply good_bump; [exact G | | reflexivity]. rewrite Et. cbn [tod_secs]. rewrite qadd_eq. qlit. ring.
Qed.

Lemma get_sec md x : good md x -> exists v, tod_sec x = Some v /\ v == inject_Z (TT md x mod 60).
Proof.
  intros G. destruct (good_fields md x G) as (h & m & s & Et & _ & _ & _ & Es).
  exists s. unfold tod_sec. rewrite Et. auto.
Qed.
Lemma get_min md x : good md x -> exists v, tod_min x = Some v /\ v == inject_Z ((TT md x mod 3600) / 60).
Proof.
  intros G. destruct (good_fields md x G) as (h & m & s & Et & _ & _ & Em & _).
  exists m. unfold tod_min. rewrite Et. auto.
Qed.
Lemma get_hr md x : good md x -> exists v, tod_hr x = Some v /\ v == inject_Z ((TT md x mod 86400) / 3600).
Proof.
  intros G. destruct (good_fields md x G) as (h & m & s & Et & _ & Eh & _ & _).
  exists h. unfold tod_hr. rewrite Et. auto.
Qed.

Open Scope Z_scope.

(* ---------- one field stepped up to its target ---------- *)
Section TLoop.
  Variables (md : mode) (get : tp -> option Q) (bump : tp -> tp) (delta M : Z) (fld : Z -> Z) (tz : Z).
  Hypothesis Hget : forall x, good md x -> exists v, get x = Some v /\ (v == inject_Z (fld (TT md x)))%Q.
  Hypothesis Hbump : forall x, good md x -> let r := tick_over md (bump x) in
    good md r /\ TT md r = TT md x + delta /\ tzone r = tzone x /\ rep_kind (tdate r) = rep_kind (tdate x).
  Hypothesis Hmu : forall T, fld T <> tz ->
    1 <= (tz - fld T) mod M /\ (tz - fld (T + delta)) mod M = (tz - fld T) mod M - 1.
  Hypothesis Hmu0 : forall T, 0 <= (tz - fld T) mod M < M /\ (fld T = tz -> (tz - fld T) mod M = 0).

  Lemma tloop_cond target x : (target == inject_Z tz)%Q -> good md x ->
    match get x with Some v => negb (qeqb v target) | None => false end = negb (fld (TT md x) =? tz).
  Proof.
    intros Ht G. destruct (Hget x G) as (v & -> & Ev). rewrite (qeqb_eqv _ _ _ _ Ev Ht). reflexivity.
  Qed.

  Lemma tloop target bound x0 : (target == inject_Z tz)%Q -> good md x0 -> M <= bound + 1 ->
    exists r j, step_until md get bump target bound x0 = TOk r /\ good md r /\ tzone r = tzone x0 /\
      rep_kind (tdate r) = rep_kind (tdate x0) /\ 0 <= j < M /\ TT md r = TT md x0 + delta * j /\
      fld (TT md r) = tz /\ (forall i, 0 <= i < j -> fld (TT md x0 + delta * i) <> tz).
  Proof.
    intros Ht G0 B. unfold step_until. cbv zeta.
    set (cond := fun x : tp => match get x with Some v => negb (qeqb v target) | None => false end).
    set (step := fun x : tp => tick_over md (bump x)).
    set (mu := fun x : tp => (tz - fld (TT md x)) mod M).
    set (Inv := fun x : tp => good md x /\ tzone x = tzone x0 /\ rep_kind (tdate x) = rep_kind (tdate x0) /\
                   exists j, 0 <= j /\ TT md x = TT md x0 + delta * j /\ j + mu x = mu x0 /\
                             forall i, 0 <= i < j -> fld (TT md x0 + delta * i) <> tz).
    destruct (loop_spec cond step Inv mu) with (n := bound) (a := x0) as [(G & Z & K & j & J0 & J1 & J2 & J3) C].
    - intros x (G & Z & K & j & J0 & J1 & J2 & J3) Cx. unfold cond in Cx. rewrite (tloop_cond _ _ Ht G) in Cx.
      assert (F : fld (TT md x) <> tz) by lia. clear Cx.
      destruct (Hbump x G) as (G' & T' & Z' & K'). fold (step x) in *.
      destruct (Hmu _ F) as [M1 M2]. split; [|unfold mu; rewrite T', M2; apply Z.le_refl].
      split; [exact G'|]. split; [congruence|]. split; [congruence|].
      exists (j + 1). split; [lia|]. split; [rewrite T', J1; ring|].
      split; [unfold mu in *; rewrite T', M2, <- J2; ring|].
      intros i Hi. destruct (Z.eq_dec i j) as [->|Ne]; [rewrite <- J1; exact F | apply J3; lia].
    - intros x (G & _) Cx. unfold cond in Cx. rewrite (tloop_cond _ _ Ht G) in Cx.
      assert (F : fld (TT md x) <> tz) by lia. apply (Hmu _ F).
    - split; [exact G0|]. split; [reflexivity|]. split; [reflexivity|].
      exists 0. split; [lia|]. split; [ring|]. split; [ring|]. intros; lia.
    - destruct (Hmu0 (TT md x0)) as [A _]. unfold mu. set (a := (tz - _) mod M) in *. clearbody a. lia.
    - match goal with |- context [if ?b then THang else _] => change b with (cond (loop cond step bound x0)) end.
      rewrite C. pose proof (tloop_cond target _ Ht G) as C'.
      change (cond (loop cond step bound x0) = negb (fld (TT md (loop cond step bound x0)) =? tz)) in C'.
      rewrite C in C'.
      assert (F : fld (TT md (loop cond step bound x0)) = tz) by lia.
      exists (loop cond step bound x0), j. split; [reflexivity|]. split; [exact G|]. split; [exact Z|].
      split; [exact K|]. split; [|auto]. unfold mu in J2.
      destruct (Hmu0 (TT md (loop cond step bound x0))) as [_ A]. specialize (A F). rewrite A in J2.
      destruct (Hmu0 (TT md x0)) as [A0 _]. set (a := (tz - _) mod M) in *. clearbody a. lia.
  Qed.

  Lemma tloop_done target bound x : (target == inject_Z tz)%Q -> good md x -> fld (TT md x) = tz ->
    step_until md get bump target bound x = TOk x.
  Proof.
    intros Ht G F. unfold step_until. cbv zeta. rewrite loop_done.
    - rewrite (tloop_cond _ _ Ht G). rewrite F, Z.eqb_refl. reflexivity.
    - rewrite (tloop_cond _ _ Ht G). rewrite F, Z.eqb_refl. reflexivity.
  Qed.
End TLoop.

Definition fs (T : Z) : Z := T mod 60.
Definition fm (T : Z) : Z := (T mod 3600) / 60.
Definition fh (T : Z) : Z := (T mod 86400) / 3600.

Lemma sec_loop md sQ sT x0 : (sQ == inject_Z sT)%Q -> 0 <= sT < 60 -> good md x0 ->
  exists r j, step_until md tod_sec bump_sec sQ 61 x0 = TOk r /\ good md r /\ tzone r = tzone x0 /\
    rep_kind (tdate r) = rep_kind (tdate x0) /\ 0 <= j < 60 /\ TT md r = TT md x0 + 1 * j /\
    fs (TT md r) = sT /\ (forall i, 0 <= i < j -> fs (TT md x0 + 1 * i) <> sT).
Proof.
  intros Ht B G. apply (tloop md tod_sec bump_sec 1 60 fs sT); try assumption; unfold fs; try lia.
  - apply get_sec.
  - apply bump_sec_step.
Qed.
Lemma min_loop md sQ sT x0 : (sQ == inject_Z sT)%Q -> 0 <= sT < 60 -> good md x0 ->
  exists r j, step_until md tod_min bump_min sQ 61 x0 = TOk r /\ good md r /\ tzone r = tzone x0 /\
    rep_kind (tdate r) = rep_kind (tdate x0) /\ 0 <= j < 60 /\ TT md r = TT md x0 + 60 * j /\
    fm (TT md r) = sT /\ (forall i, 0 <= i < j -> fm (TT md x0 + 60 * i) <> sT).
Proof.
  intros Ht B G. apply (tloop md tod_min bump_min 60 60 fm sT); try assumption; unfold fm; try lia.
  - apply get_min.
  - apply bump_min_step.
Qed.
Lemma hr_loop md sQ sT x0 : (sQ == inject_Z sT)%Q -> 0 <= sT < 24 -> good md x0 ->
  exists r j, step_until md tod_hr bump_hr sQ 25 x0 = TOk r /\ good md r /\ tzone r = tzone x0 /\
    rep_kind (tdate r) = rep_kind (tdate x0) /\ 0 <= j < 24 /\ TT md r = TT md x0 + 3600 * j /\
    fh (TT md r) = sT /\ (forall i, 0 <= i < j -> fh (TT md x0 + 3600 * i) <> sT).
Proof.
  intros Ht B G. apply (tloop md tod_hr bump_hr 3600 24 fh sT); try assumption; unfold fh; try lia.
  - apply get_hr.
  - apply bump_hr_step.
Qed.

(* ---------- the three loops together reach the least matching second ---------- *)
Definition omatch (o : option Z) (v : Z) : Prop := match o with Some a => v = a | None => True end.
Definition pm (sT : Z) (mo ho : option Z) (T : Z) : Prop :=
  fs T = sT /\ omatch mo (fm T) /\ omatch ho (fh T).
Definition least (sT : Z) (mo ho : option Z) (T0 T3 : Z) : Prop :=
  T0 <= T3 < T0 + 86400 /\ pm sT mo ho T3 /\ forall T', T0 <= T' -> pm sT mo ho T' -> T3 <= T'.

Lemma omatch_none_zero (o : option Z) (f : Z -> Z) j : 0 <= j ->
  (forall i, 0 <= i < j -> ~ omatch o (f i)) -> o = None -> j = 0.
Proof.
  intros Hj H ->. destruct (Z.eq_dec j 0) as [E|E]; [exact E|].
  exfalso. apply (H 0); [lia | exact I].
Qed.

Lemma combine sT mo ho T0 j1 j2 j3 : 0 <= j1 < 60 -> 0 <= j2 < 60 -> 0 <= j3 < 24 ->
  fs (T0 + 1 * j1) = sT -> (forall i, 0 <= i < j1 -> fs (T0 + 1 * i) <> sT) ->
  omatch mo (fm (T0 + 1 * j1 + 60 * j2)) ->
  (forall i, 0 <= i < j2 -> ~ omatch mo (fm (T0 + 1 * j1 + 60 * i))) ->
  omatch ho (fh (T0 + 1 * j1 + 60 * j2 + 3600 * j3)) ->
  (forall i, 0 <= i < j3 -> ~ omatch ho (fh (T0 + 1 * j1 + 60 * j2 + 3600 * i))) ->
  (mo = None -> ho = None) ->
  least sT mo ho T0 (T0 + 1 * j1 + 60 * j2 + 3600 * j3).
Proof.
  intros B1 B2 B3 S1 L1 M2 L2 H3 L3 MH.
  set (T1 := T0 + 1 * j1) in *. set (T2 := T1 + 60 * j2) in *. set (T3 := T2 + 3600 * j3) in *.
  split; [unfold T3, T2, T1; lia|]. split.
  - split; [|split].
    + unfold fs in *. unfold T3, T2. lia.
    + destruct mo as [b|]; [|exact I]. cbn [omatch] in *. unfold fm in *. unfold T3. lia.
    + exact H3.
  - intros T' HT (P1 & P2 & P3).
    assert (A1 : T1 <= T').
    { destruct (Z_lt_le_dec T' T1) as [G|G]; [exfalso|exact G].
      apply (L1 (T' - T0)); [unfold T1 in G; lia|]. replace (T0 + 1 * (T' - T0)) with T' by lia. exact P1. }
    assert (A2 : T2 <= T').
    { destruct mo as [b|].
      - destruct (Z_lt_le_dec T' T2) as [G|G]; [exfalso|exact G].
        assert (E : T' = T1 + 60 * ((T' - T1) / 60)) by (unfold fs in *; lia).
        apply (L2 ((T' - T1) / 60)); [unfold T2 in G; lia|]. rewrite <- E. exact P2.
      - pose proof (omatch_none_zero None (fun i => fm (T1 + 60 * i)) j2 ltac:(lia) L2 eq_refl).
        unfold T2. lia. }
    destruct ho as [a|].
    + destruct mo as [b|]; [|specialize (MH eq_refl); discriminate MH].
      destruct (Z_lt_le_dec T' T3) as [G|G]; [exfalso|exact G].
      cbn [omatch] in *.
      assert (S2 : fs T2 = sT) by (unfold fs in *; unfold T2; lia).
      assert (E : T' = T2 + 3600 * ((T' - T2) / 3600)) by (unfold fs, fm in *; lia).
      apply (L3 ((T' - T2) / 3600)); [unfold T3 in G; lia|]. rewrite <- E. exact P3.
    + pose proof (omatch_none_zero None (fun i => fh (T2 + 3600 * i)) j3 ltac:(lia) L3 eq_refl).
      unfold T3. lia.
Qed.

Definition opt_rel (oq : option Q) (oz : option Z) (hi : Z) : Prop :=
  match oq, oz with
  | Some q, Some z => (q == inject_Z z)%Q /\ 0 <= z < hi
  | None, None => True
  | _, _ => False
  end.

Definition time_chain (md : mode) (sQ : Q) (mQ hQ : option Q) (x : tp) : tres :=
  tbind (step_until md tod_sec bump_sec sQ 61 x) (fun p1 =>
  tbind (match mQ with Some m => step_until md tod_min bump_min m 61 p1 | None => TOk p1 end) (fun p2 =>
  tbind (match hQ with Some h => step_until md tod_hr bump_hr h 25 p2 | None => TOk p2 end) (fun p3 => TOk p3))).

Lemma opt_min_loop md mQ mo x0 : opt_rel mQ mo 60 -> good md x0 ->
  exists r j, match mQ with Some m => step_until md tod_min bump_min m 61 x0 | None => TOk x0 end = TOk r /\
    good md r /\ tzone r = tzone x0 /\ rep_kind (tdate r) = rep_kind (tdate x0) /\ 0 <= j < 60 /\
    TT md r = TT md x0 + 60 * j /\ omatch mo (fm (TT md r)) /\
    (forall i, 0 <= i < j -> ~ omatch mo (fm (TT md x0 + 60 * i))).
Proof.
  intros R G. destruct mQ as [q|], mo as [z|]; cbn [opt_rel] in R; try contradiction.
  - destruct R as [E B]. destruct (min_loop md q z x0 E B G) as (r & j & H). exists r, j. exact H.
  - exists x0, 0. split; [reflexivity|]. split; [exact G|]. split; [reflexivity|]. split; [reflexivity|].
    split; [lia|]. split; [lia|]. split; [exact I|]. intros i Hi. lia.
Qed.
Lemma opt_hr_loop md hQ ho x0 : opt_rel hQ ho 24 -> good md x0 ->
  exists r j, match hQ with Some h => step_until md tod_hr bump_hr h 25 x0 | None => TOk x0 end = TOk r /\
    good md r /\ tzone r = tzone x0 /\ rep_kind (tdate r) = rep_kind (tdate x0) /\ 0 <= j < 24 /\
    TT md r = TT md x0 + 3600 * j /\ omatch ho (fh (TT md r)) /\
    (forall i, 0 <= i < j -> ~ omatch ho (fh (TT md x0 + 3600 * i))).
Proof.
  intros R G. destruct hQ as [q|], ho as [z|]; cbn [opt_rel] in R; try contradiction.
  - destruct R as [E B]. destruct (hr_loop md q z x0 E B G) as (r & j & H). exists r, j. exact H.
  - exists x0, 0. split; [reflexivity|]. split; [exact G|]. split; [reflexivity|]. split; [reflexivity|].
    split; [lia|]. split; [lia|]. split; [exact I|]. intros i Hi. lia.
Qed.

Lemma time_chain_spec md x sQ mQ hQ sT mo ho : good md x -> (sQ == inject_Z sT)%Q -> 0 <= sT < 60 ->
  opt_rel mQ mo 60 -> opt_rel hQ ho 24 -> (mo = None -> ho = None) ->
  exists r, time_chain md sQ mQ hQ x = TOk r /\ good md r /\ tzone r = tzone x /\
    rep_kind (tdate r) = rep_kind (tdate x) /\ least sT mo ho (TT md x) (TT md r).
Proof.
  intros G Es Bs Rm Rh MH. unfold time_chain.
  destruct (sec_loop md sQ sT x Es Bs G) as (r1 & j1 & -> & G1 & Z1 & K1 & B1 & T1 & F1 & L1).
  cbn [tbind].
  destruct (opt_min_loop md mQ mo r1 Rm G1) as (r2 & j2 & -> & G2 & Z2 & K2 & B2 & T2 & F2 & L2).
  cbn [tbind].
  destruct (opt_hr_loop md hQ ho r2 Rh G2) as (r3 & j3 & -> & G3 & Z3 & K3 & B3 & T3 & F3 & L3).
  cbn [tbind].
  exists r3. split; [reflexivity|]. split; [exact G3|]. split; [congruence|]. split; [congruence|].
  rewrite T3, T2, T1 in *. apply combine; assumption.
Qed.

Lemma time_chain_done md r sQ mQ hQ sT mo ho : good md r -> (sQ == inject_Z sT)%Q ->
  opt_rel mQ mo 60 -> opt_rel hQ ho 24 -> pm sT mo ho (TT md r) ->
  time_chain md sQ mQ hQ r = TOk r.
Proof.
  intros G Es Rm Rh (P1 & P2 & P3). unfold time_chain.
  rewrite (tloop_done md tod_sec bump_sec fs sT (get_sec md) sQ 61 r Es G P1). cbn [tbind].
  assert (E2 : match mQ with Some m => step_until md tod_min bump_min m 61 r | None => TOk r end = TOk r).
  { destruct mQ as [q|], mo as [z|]; cbn [opt_rel] in Rm; try contradiction; [|reflexivity].
    destruct Rm as [E _]. apply (tloop_done md tod_min bump_min fm z (get_min md) q 61 r E G P2). }
  rewrite E2. cbn [tbind].
  assert (E3 : match hQ with Some h => step_until md tod_hr bump_hr h 25 r | None => TOk r end = TOk r).
  { destruct hQ as [q|], ho as [z|]; cbn [opt_rel] in Rh; try contradiction; [|reflexivity].
    destruct Rh as [E _]. apply (tloop_done md tod_hr bump_hr fh z (get_hr md) q 25 r E G P3). }
  rewrite E3. reflexivity.
Qed.

(* ---------- add_truncated with time fields only is the chain of three loops ---------- *)
Definition eff_sec (t : trunc) : Q := match t_sec t with Some s => s | None => 0%Q end.
Definition eff_min (t : trunc) : option Q :=
  match t_hour t, t_min t with Some _, None => Some 0%Q | _, m => m end.
Definition eff_sT (ts : option Z) : Z := match ts with Some c => c | None => 0 end.
Definition eff_mo (th tm : option Z) : option Z := match th, tm with Some _, None => Some 0 | _, m => m end.

Lemma to_hms_hms x h m s : ttod x = HMS h m s -> to_hms x = x.
Proof. intros E. unfold to_hms. rewrite E. cbn [get_hour_minute_second]. destruct x; cbn in *; subst; reflexivity. Qed.

Lemma add_truncated_chain md p t h m s : time_only t -> ttod (normalised md p) = HMS h m s ->
  add_truncated md p t = time_chain md (eff_sec t) (eff_min t) (t_hour t) (normalised md p).
Proof.
  intros (D1 & D2 & D3 & D4 & _ & _ & _ & Any) Et.
  destruct t as [th tm ts tdow tdom tdoy twk tzn].
  cbn [t_hour t_min t_sec t_dow t_dom t_doy t_week t_zone] in *. subst tdow tdom tdoy twk.
  unfold add_truncated, time_chain, eff_sec, eff_min.
  cbn [t_hour t_min t_sec t_dow t_dom t_doy t_week t_zone].
  destruct th as [a|], tm as [b|], ts as [c|]; cbv beta iota zeta;
    rewrite ?(to_hms_hms _ _ _ _ Et); cbn [tbind]; try reflexivity.
  exfalso. destruct Any as [A | [A | A]]; apply A; reflexivity.
Qed.

Lemma field_rel o hi : field_ok o hi -> opt_rel o (qfl o) hi.
Proof.
  destruct o as [v|]; cbn [field_ok qfl opt_rel]; [|trivial]. intros (I & A & B).
  assert (E : (v == inject_Z (Qfloor v))%Q) by (apply Qeq_bool_iff; exact I).
  split; [exact E|]. rewrite E in A, B. change 0%Q with (inject_Z 0) in A.
  rewrite <- Zle_Qle in A. rewrite <- Zlt_Qlt in B. lia.
Qed.

Lemma sod_pm th tm ts T : has_time (mkTod th tm ts) = true ->
  (sod_matches (mkTod th tm ts) (T mod 86400) = true <-> pm (eff_sT ts) (eff_mo th tm) th T).
Proof.
  intros H. unfold sod_matches, pm, fs, fm, fh, eff_sT, eff_mo. cbn [ts_h ts_m ts_s]. cbv zeta.
  destruct th as [a|], tm as [b|], ts as [c|]; cbn [omatch]; try discriminate H; lia.
Qed.

Lemma day_matches_any md n : day_matches md (mkDay None None None None) n = true.
Proof.
  unfold day_matches. destruct (cal_of_dn md n) as [[? ?] ?]. destruct (ord_of_dn md n) as [? ?].
  destruct (week_of_dn md n) as [[? ?] ?]. reflexivity.
Qed.

Lemma local_ds_whole md x T : wholeT md x T ->
  fst (local_ds md x (tzone x)) = T / 86400 /\
  (snd (local_ds md x (tzone x)) == inject_Z (T mod 86400))%Q.
Proof.
  intros W. unfold wholeT in W. unfold local_ds. cbv zeta. cbn [fst snd].
  assert (X : (instant md x + inject_Z (zone_secs (tzone x)) == inject_Z T)%Q).
  { unfold instant. rewrite W. unfold qz. ring. }
  assert (F : Qfloor ((instant md x + inject_Z (zone_secs (tzone x))) / inject_Z 86400) = T / 86400).
  { apply floor_unique.
    - apply Qle_shift_div_l; [reflexivity|]. rewrite X, <- inject_Z_mult, <- Zle_Qle. lia.
    - apply Qlt_shift_div_r; [reflexivity|]. rewrite X, <- inject_Z_mult, <- Zlt_Qlt. lia. }
  rewrite F. split; [reflexivity|]. rewrite Qred_correct, X.
  replace (T mod 86400) with (T + - (86400 * (T / 86400))) by lia.
  rewrite inject_Z_plus, inject_Z_opp. reflexivity.
Qed.

Lemma least_next_match md th tm ts T0 T3 : has_time (mkTod th tm ts) = true ->
  least (eff_sT ts) (eff_mo th tm) th T0 T3 ->
  next_match md (mkDay None None None None) (mkTod th tm ts) (T0 / 86400) (T0 mod 86400) 2 =
    Some (T3 / 86400, T3 mod 86400).
Proof.
  intros H (B & P & L).
  apply next_match_intro; try assumption; try lia.
  - unfold lex_le. cbn [fst snd]. lia.
  - apply day_matches_any.
  - apply sod_pm; assumption.
  - intros n' x' Le Hn Hx _ Sm. unfold lex_le in *. cbn [fst snd] in *.
    assert (E1 : (86400 * n' + x') mod 86400 = x') by lia.
    rewrite <- E1 in Sm. apply (sod_pm th tm ts _ H) in Sm.
    specialize (L (86400 * n' + x') ltac:(lia) Sm). lia.
Qed.

Lemma eff_rels t : time_only t ->
  (eff_sec t == inject_Z (eff_sT (qfl (t_sec t))))%Q /\ 0 <= eff_sT (qfl (t_sec t)) < 60 /\
  opt_rel (eff_min t) (eff_mo (qfl (t_hour t)) (qfl (t_min t))) 60 /\
  opt_rel (t_hour t) (qfl (t_hour t)) 24 /\
  (eff_mo (qfl (t_hour t)) (qfl (t_min t)) = None -> qfl (t_hour t) = None) /\
  has_time (mkTod (qfl (t_hour t)) (qfl (t_min t)) (qfl (t_sec t))) = true.
Proof.
  intros (_ & _ & _ & _ & Fh & Fm & Fs & Any).
  pose proof (field_rel _ _ Fh) as Rh. pose proof (field_rel _ _ Fm) as Rm. pose proof (field_rel _ _ Fs) as Rs.
  unfold eff_sec, eff_min, eff_sT, eff_mo, has_time. cbn [ts_h ts_m ts_s].
  destruct (t_hour t) as [a|], (t_min t) as [b|], (t_sec t) as [c|]; cbn [qfl opt_rel] in *;
    repeat split; try tauto; try lia; try reflexivity; try discriminate.
Qed.

Lemma add_trunc_time_only : forall md p t, valid_tp md p = true -> whole_second p -> time_only t -> t_zone t = None ->
  exists r, tp_add_trunc md t p = TOk r /\ valid_tp md r = true /\ tzone r = tzone p /\
    rep_kind (tdate r) = rep_kind (tdate p) /\
    (let '(n0, s0) := local_ds md p (tzone p) in let '(n, s) := local_ds md r (tzone p) in
     next_match md (mkDay None None None None) (mkTod (qfl (t_hour t)) (qfl (t_min t)) (qfl (t_sec t)))
                n0 (Qfloor s0) 2 = Some (n, Qfloor s) /\ qis_int s = true) /\
    tp_add_trunc md t r = TOk r.
Proof.
  intros md p t V W TO Hz.
  destruct (valid_whole md p V W) as [T0 W0].
  destruct (normalised_spec md p V) as (Nx & Ix & Kx & Ktx & Zx).
  assert (Ktx' : tod_kind (ttod (normalised md p)) = 0).
  { rewrite Ktx. unfold whole_second in W. destruct (ttod p); try contradiction. reflexivity. }
  destruct (good_after md p T0 (normalised md p) 0 W0 Nx Ktx' Zx) as [Gx Tx].
  { rewrite Ix. change (inject_Z 0) with 0%Q. ring. }
  rewrite Z.add_0_r in Tx.
  destruct (good_fields md _ Gx) as (h & m & s & Et & _).
  destruct (eff_rels t TO) as (Es & Bs & Rm & Rh & MH & HT).
  destruct (time_chain_spec md _ _ _ _ _ _ _ Gx Es Bs Rm Rh MH) as (r & Er & Gr & Zr & Kr & L).
  rewrite Tx in L.
  assert (Zr' : tzone r = tzone p) by congruence.
  exists r. unfold tp_add_trunc. rewrite Hz.
  rewrite (add_truncated_chain md p t h m s TO Et), Er. cbn [tbind].
  rewrite <- Zr', to_time_zone_same.
  split; [reflexivity|]. split; [apply normal_valid; apply Gr|]. split; [reflexivity|].
  split; [congruence|].
  destruct (good_fields md r Gr) as (h' & m' & s' & Et' & Wr & _).
  assert (Nr : normalised md r = r).
  { apply normalised_normal. destruct Gr as [N _]. apply (normal_tp_parts md r N). }
  split.
  - rewrite Zr'.
    destruct (local_ds_whole md p T0 W0) as [A0 B0]. destruct (local_ds_whole md r _ Wr) as [A1 B1].
    rewrite Zr' in A1, B1.
    destruct (local_ds md p (tzone p)) as [n0 s0]. destruct (local_ds md r (tzone p)) as [n1 s1].
    cbn [fst snd] in *. subst n0 n1.
    rewrite (Qfloor_comp _ _ B0), (Qfloor_comp _ _ B1), !Qfloor_Z.
    split; [apply least_next_match; assumption|].
    apply qis_int_iff. eexists. exact B1.
  - rewrite (add_truncated_chain md r t h' m' s' TO); [|rewrite Nr; exact Et'].
    rewrite Nr. rewrite (time_chain_done md r _ _ _ _ _ _ Gr Es Rm Rh (proj1 (proj2 L))). cbn [tbind].
    rewrite to_time_zone_same. reflexivity.
Qed.
Print Assumptions add_trunc_time_only.
Open Scope Z_scope.
