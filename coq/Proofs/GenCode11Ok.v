(* Proofs/GenCode11Ok.v -- the translated method bodies of class DateTimeOperator (gen/GenCode11.v, regenerated
   from datetimeoper.py on every run) are the command-line model of Model/Cli.v, once the abstract operations
   are instantiated with the model's parsers, dumper and TimePoint / Duration functions.  Property C19. *)
From Coq Require Import ZArith QArith List Bool String Ascii Lia.
From Iso Require Import Spec.Cal Model.Num Model.Helpers Model.Duration Model.TimePoint Model.Forms
  Model.Parse Model.LocalZone Model.Dump Model.Strftime Model.Recurrence Model.DurText Model.DriverText Model.Cli
  gen.Grammar gen.GenCode11 Proofs.CliSpec.
Import ListNotations.
Local Open Scope string_scope.
Local Open Scope Z_scope.

Lemma gen_code11_accepted : translator_ok_code11 = true.
Proof. reflexivity. Qed.

(* ---------- the instantiation ---------- *)
(* a time point object: the model's point and its dump_format attribute *)
Definition xp : Type := (tp * option string)%type.
Notation pv := (pyval xp dur).

Definition lift {A : Type} (o : option A) : exc A :=
  match o with Some a => Ret a | None => Raise (OpError 0) end.
Definition of_dres (d : dres) : exc string :=
  match d with
  | DOk s => Ret s
  | DSyntax => Raise StrftimeSyntaxError
  | DUnmodelled => Raise (OpError 2)
  | DOverflow => Raise (OpError 1)
  | DBounds | DErr | DBadInput => Raise ValueError
  end.
Definition of_tres {A : Type} (t : tres A) : exc A :=
  match t with
  | TOk s => Ret s
  | TUnmodelled => Raise (OpError 2)
  | TValueError | TSyntax | TBadInput => Raise ValueError
  end.
Definition of_pres (keep_fmt : bool) (r : pres ptp) : exc xp :=
  match r with
  | POk q => match ptp_to_tp q with
             | Some p => Ret (p, if keep_fmt then Some (p_fmt q) else None)
             | None => Raise (OpError 2)           (* a truncated point: outside the model of the command line *)
             end
  | PErr EUnmodelled => Raise (OpError 2)
  | PErr _ => Raise ValueError                      (* ISO8601SyntaxError, BadInputError, ValueError *)
  end.
(* every directive of a strftime / strptime format is in the table *)
Definition fmt_supported (f : string) : bool :=
  forallb (fun it => match it with
                     | FLit _ => true
                     | FDir d => match lookup_dir d STRFTIME_TABLE with Some _ => true | None => false end
                     end) (split_format f "").

Definition m_getenv (k : string) : option string := None.             (* the environment: ISODATETIMEREF / ISODATETIMECALENDAR unset *)
Definition m_now : exc xp := Raise (OpError 2).                       (* the clock: not modelled *)
Definition m_tp_parse (md : mode) (utc : bool) (local : Z * Z) (s : string) : exc xp :=
  of_pres true (parse_text md (cli_cfg utc local) s true).
Definition m_tp_strptime (md : mode) (utc : bool) (local : Z * Z) (s f : string) : exc xp :=
  if fmt_supported f then of_pres false (strptime STRFTIME_TABLE md (cli_cfg utc local) s f)
  else Raise StrftimeSyntaxError.
Definition m_dur_parse (s : string) : exc dur := of_tres (dur_parse s).
(* dump never answers DSyntax (only strftime does); the model's date_format reads it as "no answer" *)
Definition of_dres_dump (d : dres) : exc string :=
  match d with DSyntax => Raise (OpError 2) | _ => of_dres d end.
Definition m_dump (md : mode) (p : xp) (f : string) : exc string := of_dres_dump (do_dump md 2 (fst p) f).
(* time.strptime: the model's stance (Model/Cli.v): a text without letters other than T, Z, W matches neither
   ctime-like format (ValueError); any other text is outside the model *)
Definition m_datetime_strptime (s f : string) : exc xp :=
  if negb (is_ascii_str s) || may_be_ctime s then Raise (OpError 2) else Raise ValueError.
(* datetime.strftime: the model's stance (date_format): reached after a format-syntax error it is outside the
   model; reached after another ValueError of TimePoint.strftime (year out of bounds ...) it raises ValueError too *)
Definition m_strftime (md : mode) (p : xp) (f : string) : exc string := of_dres (strftime 2 STRFTIME_TABLE md (fst p) f).
Definition m_datetime_strftime (md : mode) (p : xp) (f : string) : exc string :=
  match strftime 2 STRFTIME_TABLE md (fst p) f with
  | DSyntax | DUnmodelled | DOk _ => Raise (OpError 2)
  | _ => Raise ValueError
  end.
Definition keep (x : xp) (o : option tp) : exc xp := match o with Some q => Ret (q, snd x) | None => Raise (OpError 0) end.
Definition m_to_utc (md : mode) (p : xp) : exc xp := keep p (to_utc md (fst p)).
Definition m_to_local (md : mode) (local : Z * Z) (p : xp) : exc xp :=
  keep p (to_time_zone md (fst p) (mkZone (fst local) (snd local))).
Definition m_get_time_zone_utc (p : xp) : exc bool := Raise (OpError 2).
Definition m_add (md : mode) (p : xp) (d : dur) : exc xp := keep p (tp_add md (fst p) d).
Definition m_sub_dur (md : mode) (p : xp) (d : dur) : exc xp := keep p (tp_sub_dur md (fst p) d).
Definition m_sub (md : mode) (a b : xp) : exc dur := lift (tp_sub md (fst a) (fst b)).
Definition m_lt (md : mode) (a b : xp) : exc bool := lift (tp_ltb md (fst a) (fst b)).
Definition m_D_str (d : dur) : exc string := of_tres (dur_str d).
Definition m_D_get_seconds (md : mode) (d : dur) : exc Q := Ret (get_seconds md d).
Definition m_D_attr (name : string) (d : dur) : exc pv := Raise (OpError 2).
Definition m_N_str (v : pv) : exc string := Raise (OpError 2).

Definition mops (md : mode) (utc : bool) (local : Z * Z) : oper_ops xp dur :=
  mkOps11 m_getenv m_now (m_tp_parse md utc local) (m_tp_strptime md utc local) m_dur_parse (m_dump md)
    m_datetime_strptime (m_datetime_strftime md) (m_strftime md) (fun p => snd p) (m_to_utc md) (m_to_local md local)
    m_get_time_zone_utc (m_add md) (m_sub_dur md) (m_sub md) (m_lt md) m_D_str (m_D_get_seconds md) m_D_attr m_N_str.

Arguments m_tp_parse : simpl never.
Arguments m_tp_strptime : simpl never.
Arguments m_dur_parse : simpl never.
Arguments m_dump : simpl never.
Arguments m_datetime_strptime : simpl never.
Arguments m_datetime_strftime : simpl never.
Arguments m_strftime : simpl never.
Arguments m_to_utc : simpl never.
Arguments m_to_local : simpl never.
Arguments m_add : simpl never.
Arguments m_sub_dur : simpl never.
Arguments m_sub : simpl never.
Arguments m_lt : simpl never.
Arguments m_D_str : simpl never.
Arguments m_D_get_seconds : simpl never.

(* the operator object: no custom parse format, no reference point; utc_mode as given.  (That __init__ passes
   assumed_time_zone = (0, 0) to the parser exactly in utc mode is the instantiation's `cli_cfg utc local`.) *)
Definition self_of (utc : bool) : pyOper xp dur := mkOper11 VNone (VBool utc) VNone.

(* ---------- how results are read ---------- *)
(* an exception: OpError 2 = "the model has no answer", anything else ends the command with an error *)
Definition cres_exn (e : pyexn) : cres :=
  match e with OpError 2 => CUnmodelled | _ => CExit end.
Definition cres_of (r : exc pv) : cres :=
  match r with Ret (VStr s) => COut s | Ret _ => CExit | Raise e => cres_exn e end.
Definition res_point (r : exc pv) : option tp + cres :=
  match r with Ret (VPoint p) => inl (Some (fst p)) | Ret _ => inr CExit | Raise e => inr (cres_exn e) end.
Definition res_parse (r : exc pv) : option (tp * string) + cres :=
  match r with
  | Ret (VTuple [VPoint p; VStr f]) => inl (Some (fst p, f))
  | Ret _ => inl None                       (* any other value: what the model never answers (C19_parse_total) *)
  | Raise e => inr (cres_exn e)
  end.

(* ---------- date_shift ---------- *)
Lemma off_split_cases c r :
  off_split (String c r) =
  if Ascii.eqb "-" c then (true, r) else if Ascii.eqb "+" c then (false, r) else (false, String c r).
Proof. destruct c as [[] [] [] [] [] [] [] []]; reflexivity. Qed.

(* evaluation of the translated code (left-hand side only): the combinators, the state, the Python operations on
   constructors; the instantiated operations m_* and the model stay folded *)
Ltac evl :=
  match goal with
  | |- ?l = _ =>
    let l' := eval cbv beta iota zeta delta
      [run_method s_seq s_if s_assign s_try s_raise s_return s_pass s_for s_unpack s_break s_continue s_expr
       for_loop e_var e_const e_app0 e_app1 e_app2 e_app3 e_or e_and e_not e_ifexp e_tuple e_list e_seq e_dict
       e_dict_go e_appn get set set_all py_bound truth bind py_iter chars
       py_m_startswith py_getitem py_slice_from1 py_eq py_ne py_is_none py_is_not_none py_in py_not_in
       py_add py_sub py_lt py_str py_getattr recv_err str_tail dict_get nth_error Z.to_nat Z.ltb Z.compare
       py_m_to_utc py_m_to_local_time_zone py_m_get_time_zone_utc py_m_strftime py_m_get_seconds
       py_now py_tp_parse py_tp_strptime py_dur_parse py_dump py_get_datetime_strptime py_get_datetime_strftime
       name_eqb char_eqb bit_eqb negb andb orb existsb exn_isa pyexn_eqb VALUE_ERRORS_code11
       K_PARSE_FORMATS K_STR_REF K_STR_NOW K_CURRENT_TIME_DUMP_FORMAT K_CURRENT_TIME_DUMP_FORMAT_Z
       f_custom_parse_format f_utc_mode f_ref_point_str self_of
       mops O_now O_tp_parse O_tp_strptime O_dur_parse O_dump O_datetime_strptime O_datetime_strftime
       P_strftime P_dump_format P_to_utc P_to_local_time_zone P_get_time_zone_utc P_add P_sub_dur P_sub P_lt
       D_str D_get_seconds D_attr N_str app fst snd keep lift of_tres of_dres of_dres_dump] in l in
    change l with l'
  end;
  cbn [String.eqb Ascii.eqb Bool.eqb].

Lemma starts_with_1 a c r : starts_with (String a "") (String c r) = Ascii.eqb a c.
Proof. unfold starts_with. cbn [str_prefix]. destruct (Ascii.eqb a c); reflexivity. Qed.

(* date_shift as an outcome in the exception monad: which exception is raised where *)
Definition shift_exc (md : mode) (p : tp) (x : option string) (off : string) : exc pv :=
  if String.eqb off "" then Ret (VPoint (p, x))
  else match dur_parse (snd (off_split off)) with
       | TOk d => match (if fst (off_split off) then tp_sub_dur md p d else tp_add md p d) with
                  | Some q => Ret (VPoint (q, x))
                  | None => Raise (OpError 0)              (* the TimePoint arithmetic raised *)
                  end
       | TUnmodelled => Raise (OpError 2)
       | _ => Raise OffsetValueError                       (* the parser's ValueError, caught and replaced *)
       end.

Lemma gen11_date_shift md utc local sf p x off :
  py_date_shift (mops md utc local) sf (VPoint (p, x)) (VStr off) = shift_exc md p x off.
Proof.
  unfold shift_exc. destruct off as [|c r]; [reflexivity|].
  rewrite off_split_cases. change (String.eqb (String c r) "") with false. cbv iota.
  unfold py_date_shift.
  destruct (Ascii.eqb "-" c) eqn:E1; [|destruct (Ascii.eqb "+" c) eqn:E2].
  - apply Ascii.eqb_eq in E1. subst c. cbn [fst snd]. evl. rewrite !starts_with_1. evl.
    unfold m_dur_parse. destruct (dur_parse r) as [d| | | |]; evl; try reflexivity.
    unfold m_sub_dur; evl. destruct (tp_sub_dur md p d); evl; reflexivity.
  - apply Ascii.eqb_eq in E2. subst c. cbn [fst snd]. evl. rewrite !starts_with_1. evl.
    unfold m_dur_parse. destruct (dur_parse r) as [d| | | |]; evl; try reflexivity.
    unfold m_add; evl. destruct (tp_add md p d); evl; reflexivity.
  - cbn [fst snd]. evl. rewrite !starts_with_1, ?E1, ?E2. evl.
    unfold m_dur_parse. destruct (dur_parse (String c r)) as [d| | | |]; evl; try reflexivity.
    unfold m_add; evl. destruct (tp_add md p d); evl; reflexivity.
Qed.

(* read as the model reads it: this is Model/Cli.v's date_shift *)
Lemma shift_exc_model md p x off : res_point (shift_exc md p x off) = date_shift md p off.
Proof.
  rewrite date_shift_eq. unfold shift_exc. destruct (String.eqb off ""); [reflexivity|].
  destruct (dur_parse (snd (off_split off))) as [d| | | |]; try reflexivity.
  destruct (if fst (off_split off) then tp_sub_dur md p d else tp_add md p d); reflexivity.
Qed.

Theorem gen11_date_shift_model md utc local sf p x off :
  res_point (py_date_shift (mops md utc local) sf (VPoint (p, x)) (VStr off)) = date_shift md p off.
Proof. rewrite gen11_date_shift. apply shift_exc_model. Qed.

(* no offset (the default None, or an empty list element "") leaves the point alone *)
Lemma gen11_date_shift_none md utc local sf v : v <> VUnbound ->
  py_date_shift (mops md utc local) sf v VNone = Ret v.
Proof. intros H. unfold py_date_shift. evl. destruct v; try reflexivity. exfalso; apply H; reflexivity. Qed.

(* the sign prefix, the OffsetValueError *)
Lemma gen11_date_shift_refused md utc local sf p x off : off_refused off ->
  py_date_shift (mops md utc local) sf (VPoint (p, x)) (VStr off) = Raise OffsetValueError.
Proof.
  intros [N H]. rewrite gen11_date_shift. unfold shift_exc. apply String.eqb_neq in N. rewrite N.
  destruct H as [H | [H | H]]; rewrite H; reflexivity.
Qed.

(* ---------- date_format (and the strftime wrapper with its datetime fall-back) ---------- *)
Theorem gen11_date_format md utc local sf p x fmt :
  cres_of (py_date_format (mops md utc local) sf (VStr fmt) (VPoint (p, x))) = date_format md p fmt.
Proof.
  unfold date_format, do_dump, py_date_format, py_strftime.
  destruct (contains_char "%" fmt) eqn:C; evl; rewrite C; evl.
  - unfold m_strftime. evl. destruct (strftime 2 STRFTIME_TABLE md p fmt) eqn:S; evl; try reflexivity.
    + unfold m_datetime_strftime. evl. rewrite S. reflexivity.
    + unfold m_datetime_strftime. evl. rewrite S. unfold dump. rewrite C. reflexivity.
    + unfold m_datetime_strftime. evl. rewrite S. reflexivity.
    + unfold m_datetime_strftime. evl. rewrite S. reflexivity.
  - unfold m_dump, do_dump. rewrite C. evl.
    destruct (dump 2 (date_forms_of 2) TIME_FORMS ZONE_FORMS zone_of_text md p fmt); evl; reflexivity.
Qed.

(* ---------- strptime (the wrapper with its time.strptime fall-back), date_parse ---------- *)
Lemma gen11_strptime md utc local sf s f :
  py_strptime (mops md utc local) sf (VStr s) (VStr f) =
  match m_tp_strptime md utc local s f with
  | Ret p => Ret (VPoint p)
  | Raise StrftimeSyntaxError =>
      match m_datetime_strptime s f with Ret p => Ret (VPoint p) | Raise e => Raise e end
  | Raise e => Raise e
  end.
Proof.
  unfold py_strptime. evl. destruct (m_tp_strptime md utc local s f) as [q|[]]; evl; try reflexivity.
  destruct (m_datetime_strptime s f); reflexivity.
Qed.

Lemma m_tp_strptime_unsupported md utc local s f : fmt_supported f = false ->
  m_tp_strptime md utc local s f = Raise StrftimeSyntaxError.
Proof. intros H. unfold m_tp_strptime. rewrite H. reflexivity. Qed.

(* the two strptime attempts with the ISO formats stay inside the model *)
Definition sp_modelled (md : mode) (cfg : pcfg) (text : string) : Prop :=
  forall f, f = F1 \/ f = F2 ->
    match strptime STRFTIME_TABLE md cfg text f with
    | POk q => ptp_to_tp q <> None
    | PErr e => e <> EUnmodelled
    end.

Lemma F1_supported : fmt_supported F1 = true.
Proof. vm_compute. reflexivity. Qed.
Lemma F2_supported : fmt_supported F2 = true.
Proof. vm_compute. reflexivity. Qed.

Theorem gen11_date_parse md utc local text : sp_modelled md (cli_cfg utc local) text ->
  res_parse (py_date_parse (mops md utc local) (self_of utc) (VStr text)) = date_parse md utc local text.
Proof.
  intros M. rewrite date_parse_eq. unfold py_date_parse. try code11_helpers_unfold.
  destruct (String.eqb text "ref") eqn:R.
  { apply String.eqb_eq in R. subst text. evl. reflexivity. }
  destruct (String.eqb text "now") eqn:N.
  { apply String.eqb_eq in N. subst text. evl. reflexivity. }
  set (SP := py_strptime (mops md utc local) (self_of utc)).
  evl. rewrite R. evl. rewrite N. evl.
  (* the two ctime-like formats: StrftimeSyntaxError, then time.strptime *)
  unfold SP at 1. rewrite gen11_strptime, m_tp_strptime_unsupported by reflexivity.
  unfold m_datetime_strptime.
  destruct (negb (is_ascii_str text) || may_be_ctime text) eqn:G; [evl; reflexivity|].
  evl. unfold SP at 1. rewrite gen11_strptime, m_tp_strptime_unsupported by reflexivity.
  unfold m_datetime_strptime. rewrite G. evl.
  (* the two ISO formats *)
  pose proof (M F1 (or_introl eq_refl)) as M1. pose proof (M F2 (or_intror eq_refl)) as M2.
  unfold parsed_stage, via_strptime, via_iso, sp_try, utc_stage.
  assert (FIN : forall (p : tp) (x : option string) (f : string),
    res_parse
      match (if utc then match m_to_utc md (p, x) with Ret q => Ret (VPoint q) | Raise e => Raise e end
             else Ret (VPoint (p, x))) with
      | Ret v => Ret (VTuple [v; VStr f])
      | Raise e => Raise e
      end =
    (if utc then match to_utc md p with Some q => inl (Some (q, f)) | None => inr CExit end
     else inl (Some (p, f)))).
  { intros p x f. destruct utc; [|reflexivity]. unfold m_to_utc. evl. destruct (to_utc md p); reflexivity. }
  unfold SP at 1. rewrite gen11_strptime. fold F1 F2. unfold m_tp_strptime at 1. rewrite F1_supported.
  destruct (strptime STRFTIME_TABLE md (cli_cfg utc local) text F1) as [q|e].
  { unfold of_pres. destruct (ptp_to_tp q) as [p|]; [|exfalso; apply M1; reflexivity].
    evl. rewrite <- (FIN p None F1). destruct utc; evl; [destruct (m_to_utc md (p, None))|]; reflexivity. }
  assert (E1 : of_pres false (PErr e) = Raise ValueError).
  { destruct e; try reflexivity. exfalso; apply M1; reflexivity. }
  rewrite E1. evl.
  unfold SP at 1. rewrite gen11_strptime. fold F1 F2. unfold m_tp_strptime at 1. rewrite F2_supported.
  destruct (strptime STRFTIME_TABLE md (cli_cfg utc local) text F2) as [q|e2].
  { unfold of_pres. destruct (ptp_to_tp q) as [p|]; [|exfalso; apply M2; reflexivity].
    evl. rewrite <- (FIN p None F2). destruct utc; evl; [destruct (m_to_utc md (p, None))|]; reflexivity. }
  assert (E2 : of_pres false (PErr e2) = Raise ValueError).
  { destruct e2; try reflexivity. exfalso; apply M2; reflexivity. }
  rewrite E2. evl.
  (* the ISO 8601 parser, dump_as_parsed *)
  unfold m_tp_parse. destruct (parse_text md (cli_cfg utc local) text true) as [q|e3].
  { unfold of_pres. destruct (ptp_to_tp q) as [p|]; [|evl; reflexivity].
    evl. rewrite <- (FIN p (Some (p_fmt q)) (p_fmt q)).
    destruct utc; evl; [destruct (m_to_utc md (p, Some (p_fmt q)))|]; reflexivity. }
  destruct e3; evl; reflexivity.
Qed.

(* ---------- evaluation by cbn (keeps what is stuck folded: callees, loops, reads of a symbolic state) ---------- *)
#[local] Arguments run_method {P D} _ _ /.
#[local] Arguments s_seq {P D} _ _ _ /.
#[local] Arguments s_if {P D} _ _ _ _ /.
#[local] Arguments s_assign {P D} _ _ _ /.
#[local] Arguments s_try {P D} _ _ _ _ _ /.
#[local] Arguments s_raise {P D} _ _ /.
#[local] Arguments s_return {P D} _ _ /.
#[local] Arguments s_pass {P D} _ /.
#[local] Arguments s_break {P D} _ /.
#[local] Arguments s_continue {P D} _ /.
#[local] Arguments s_for {P D} _ _ _ _ /.
#[local] Arguments s_unpack {P D} _ _ _ /.
#[local] Arguments s_expr {P D} _ _ /.
#[local] Arguments e_var {P D} _ _ /.
#[local] Arguments e_const {P D} _ _ /.
#[local] Arguments e_app0 {P D} _ _ /.
#[local] Arguments e_app1 {P D} _ _ _ /.
#[local] Arguments e_app2 {P D} _ _ _ _ /.
#[local] Arguments e_app3 {P D} _ _ _ _ _ /.
#[local] Arguments e_appn {P D} _ _ _ /.
#[local] Arguments e_or {P D} _ _ _ /.
#[local] Arguments e_and {P D} _ _ _ /.
#[local] Arguments e_not {P D} _ _ /.
#[local] Arguments e_ifexp {P D} _ _ _ _ /.
#[local] Arguments e_tuple {P D} _ _ /.
#[local] Arguments e_list {P D} _ _ /.
#[local] Arguments e_dict {P D} _ _ /.
#[local] Arguments bind {A B} _ _ /.
#[local] Arguments run_init {P D} _ _ /.
#[local] Arguments e_ctor {P D} _ _ _ _ /.
#[local] Arguments for_loop : simpl never.
#[local] Arguments Ascii.eqb !_ !_.
#[local] Arguments String.eqb !_ !_.
Arguments m_D_attr : simpl never.
Arguments m_N_str : simpl never.
Ltac ev := match goal with |- ?l = _ => let l' := eval cbn in l in change l with l' end.

(* names *)
Lemma bit_eqb_eq a b : bit_eqb a b = true -> a = b.
Proof. destruct a, b; cbn; congruence. Qed.
Lemma char_eqb_eq a b : char_eqb a b = true -> a = b.
Proof.
  destruct a as [a0 a1 a2 a3 a4 a5 a6 a7], b as [b0 b1 b2 b3 b4 b5 b6 b7]. unfold char_eqb.
  rewrite !andb_true_iff. intros [[[[[[[H0 H1] H2] H3] H4] H5] H6] H7].
  apply bit_eqb_eq in H0, H1, H2, H3, H4, H5, H6, H7. subst. reflexivity.
Qed.
Lemma name_eqb_eq : forall a b, name_eqb a b = true -> a = b.
Proof.
  induction a as [|c a IH]; destruct b as [|d b]; cbn [name_eqb]; try discriminate; [reflexivity|].
  rewrite andb_true_iff. intros [H1 H2]. f_equal; [apply char_eqb_eq|apply IH]; assumption.
Qed.
Lemma name_eqb_refl : forall a, name_eqb a a = true.
Proof.
  induction a as [|c a IH]; cbn [name_eqb]; [reflexivity|]. rewrite IH, andb_true_r.
  destruct c as [[] [] [] [] [] [] [] []]; reflexivity.
Qed.
Lemma get_set_same (k : string) (v : pv) : forall st, get k (set k v st) = v.
Proof.
  induction st as [|[a w] r IH]; cbn [set get].
  - rewrite name_eqb_refl. reflexivity.
  - destruct (name_eqb a k) eqn:E; cbn [get]; rewrite E; [reflexivity|exact IH].
Qed.
Lemma get_set_other (k y : string) (v : pv) : name_eqb k y = false -> forall st, get y (set k v st) = get y st.
Proof.
  intros N. induction st as [|[a w] r IH]; cbn [set get].
  - rewrite N. reflexivity.
  - destruct (name_eqb a k) eqn:E; cbn [get].
    + apply name_eqb_eq in E. subst a. rewrite N. reflexivity.
    + destruct (name_eqb a y); [reflexivity|exact IH].
Qed.

(* ---------- the offsets loop ---------- *)
Lemma shift_exc_shape md p x o v : shift_exc md p x o = Ret v -> exists q, v = VPoint (q, x).
Proof.
  unfold shift_exc. destruct (String.eqb o ""); [intros H; injection H as <-; eexists; reflexivity|].
  destruct (dur_parse (snd (off_split o))) as [d| | | |]; try discriminate.
  destruct (if fst (off_split o) then tp_sub_dur md p d else tp_add md p d); [|discriminate].
  intros H; injection H as <-; eexists; reflexivity.
Qed.

Lemma shift_loop md (x : option string) (body : stm xp dur) (tpn offn : string) :
  name_eqb offn tpn = false -> name_eqb tpn offn = false ->
  (forall (st : state xp dur) o p, get tpn st = VPoint (p, x) ->
     body (set offn (VStr o) st) =
     match shift_exc md p x o with
     | Ret v => Ret (ONext (set tpn v (set offn (VStr o) st)))
     | Raise e => Raise e
     end) ->
  forall offs (st : state xp dur) p, get tpn st = VPoint (p, x) ->
  match fold_left (shift_step md) offs (inl (Some p)) with
  | inl (Some q) => exists st', for_loop offn body (map VStr offs) st = Ret (ONext st') /\
                                get tpn st' = VPoint (q, x) /\
                                (forall y, name_eqb offn y = false -> name_eqb tpn y = false -> get y st' = get y st)
  | inl None => False
  | inr c => exists e, for_loop offn body (map VStr offs) st = Raise e /\ cres_exn e = c
  end.
Proof.
  intros N1 N2 HB. induction offs as [|o r IH]; intros st p G.
  - cbn [fold_left]. exists st. split; [reflexivity|]. split; [exact G|]. intros; reflexivity.
  - cbn [fold_left map]. unfold for_loop; fold (for_loop (P:=xp) (D:=dur)). rewrite (HB st o p G).
    unfold shift_step at 2. rewrite <- (shift_exc_model md p x o).
    destruct (shift_exc md p x o) as [v|e] eqn:S.
    + destruct (shift_exc_shape md p x o v S) as [q ->]. cbn [res_point fst bind].
      specialize (IH (set tpn (VPoint (q, x)) (set offn (VStr o) st)) q (get_set_same tpn _ _)).
      destruct (fold_left (shift_step md) r (inl (Some q))) as [[q'|]|c]; [|exact IH|].
      * destruct IH as (st' & E & G' & K). exists st'. repeat split; [exact E|exact G'|].
        intros y Y1 Y2. rewrite (K y Y1 Y2), (get_set_other tpn y _ Y2), (get_set_other offn y _ Y1). reflexivity.
      * exact IH.
    + cbn [res_point bind]. rewrite fold_stuck by (intros q; discriminate).
      exists e. split; reflexivity.
Qed.

(* ---------- process_time_point_str = cli_shift ---------- *)
Lemma res_parse_inv (r : exc pv) :
  match res_parse r with
  | inl (Some (p, f)) => exists x, r = Ret (VTuple [VPoint (p, x); VStr f])
  | inl None => True
  | inr c => exists e, r = Raise e /\ cres_exn e = c
  end.
Proof.
  destruct r as [v|e]; [|cbn; eexists; split; reflexivity].
  destruct v as [| | | | | | |l| | | |]; try exact I.
  destruct l as [|a [|b [|c l]]]; try exact I; destruct a as [| | | | | | | | |[p x]| |]; try exact I;
    destruct b; try exact I.
  cbn. exists x. reflexivity.
Qed.

Definition optstr (o : option string) : pv := match o with Some s => VStr s | None => VNone end.

(* the value returned by date_format, seen through the caller's `return` *)
Lemma ret_date_format md utc local sf p x fmt :
  cres_of match match py_date_format (mops md utc local) sf (VStr fmt) (VPoint (p, x)) with
                | Ret a => Ret (OReturn a) | Raise e => Raise e end with
          | Ret (ONext _) => Ret VNone
          | Ret (OReturn v) => Ret v
          | Raise e => Raise e
          | _ => Raise NotTranslated
          end = date_format md p fmt.
Proof.
  rewrite <- (gen11_date_format md utc local sf p x fmt).
  destruct (py_date_format (mops md utc local) sf (VStr fmt) (VPoint (p, x))); reflexivity.
Qed.

(* the loop body `tp = self.date_shift(tp, offset)` (whatever the two locals are called) *)
Lemma shift_body md utc local sf (x : option string) (tpn offn : string) :
  name_eqb offn tpn = false ->
  forall (st : state xp dur) o p, get tpn st = VPoint (p, x) ->
    s_assign tpn (e_app2 (py_date_shift (mops md utc local) sf) (e_var tpn) (e_var offn)) (set offn (VStr o) st) =
    match shift_exc md p x o with
    | Ret v => Ret (ONext (set tpn v (set offn (VStr o) st)))
    | Raise e => Raise e
    end.
Proof.
  intros N st o p G. cbn. rewrite (get_set_other offn tpn _ N), G, get_set_same. cbn.
  rewrite gen11_date_shift. destruct (shift_exc md p x o); reflexivity.
Qed.

(* `if offsets: for offset in offsets: tp = self.date_shift(tp, offset)` on a list of strings *)
Lemma shift_all_stm md utc local sf (x : option string) (tpn offn : string) (offs : list string) (st : state xp dur) p :
  name_eqb offn tpn = false -> name_eqb tpn offn = false -> get tpn st = VPoint (p, x) ->
  let loop := (if match map (@VStr xp dur) offs with [] => false | _ :: _ => true end
               then for_loop offn (s_assign tpn (e_app2 (py_date_shift (mops md utc local) sf) (e_var tpn) (e_var offn)))
                      (map VStr offs) st
               else Ret (ONext st)) in
  match fold_left (shift_step md) offs (inl (Some p)) with
  | inl (Some q) => exists st', loop = Ret (ONext st') /\ get tpn st' = VPoint (q, x) /\
                                (forall y, name_eqb offn y = false -> name_eqb tpn y = false -> get y st' = get y st)
  | inl None => False
  | inr c => exists e, loop = Raise e /\ cres_exn e = c
  end.
Proof.
  intros N1 N2 G loop.
  pose proof (shift_loop md x _ tpn offn N1 N2 (shift_body md utc local sf x tpn offn N1) offs st p G) as L.
  destruct offs as [|o r]; [|exact L].
  cbn. exists st. split; [reflexivity|]. split; [exact G|]. intros; reflexivity.
Qed.

(* the last step: the value of date_format is what the method returns *)
Ltac fin_df :=
  match goal with
  | |- context [py_date_format (mops ?md ?utc ?local) ?sf (VStr ?fmt) (VPoint (?q, ?x))] =>
    let T := fresh "T" in let H := fresh "H" in
    set (T := py_date_format _ _ _ _) in *;
    assert (H : cres_of T = date_format md q fmt) by (subst T; apply gen11_date_format);
    rewrite <- H; destruct T; reflexivity
  end.

Theorem gen11_process md utc local text offs pf :
  sp_modelled md (cli_cfg utc local) text -> pf <> Some "" ->
  cres_of (py_process_time_point_str (mops md utc local) (self_of utc) (VStr text) (VList (map VStr offs)) (optstr pf))
  = cli_shift md utc local text offs pf.
Proof.
  intros M PF. rewrite cli_shift_eq.
  pose proof (gen11_date_parse md utc local text M) as DPE.
  pose proof (res_parse_inv (py_date_parse (mops md utc local) (self_of utc) (VStr text))) as INV.
  rewrite DPE in INV. unfold py_process_time_point_str. try code11_helpers_unfold.
  destruct (date_parse md utc local text) as [[[p f]|]|c] eqn:DP.
  - destruct INV as [x E]. ev. rewrite E. ev.
    destruct offs as [|o r].
    + ev. unfold for_loop. ev. cbn [fold_left]. destruct pf as [[|ch s]|]; [exfalso; apply PF; reflexivity| |]; ev; fin_df.
    + cbn [map]. ev. change (VStr o :: map VStr r) with (map (@VStr xp dur) (o :: r)).
      match goal with
      | |- context [for_loop ?offn (s_assign ?tpn ?b) (map VStr (o :: r)) ?st] =>
        pose proof (shift_loop md x _ tpn offn eq_refl eq_refl
                      (shift_body md utc local (self_of utc) x tpn offn eq_refl) (o :: r) st p eq_refl) as L
      end.
      destruct (fold_left (shift_step md) (o :: r) (inl (Some p))) as [[q|]|c].
      * destruct L as (st' & -> & G & K). ev. rewrite ?G, ?K by reflexivity. ev.
        destruct pf as [[|ch s]|]; [exfalso; apply PF; reflexivity| |]; ev; fin_df.
      * destruct L.
      * destruct L as (e & -> & <-). reflexivity.
  - exfalso. exact (date_parse_not_none md utc local text DP).
  - destruct INV as (e & E & <-). ev. rewrite E. reflexivity.
Qed.

(* ---------- date_diff, date_diff_format (no print format), diff_time_point_strs = cli_diff ---------- *)
Definition diff_exc (md : mode) (p1 p2 : tp) : exc pv :=
  match tp_cmp md p2 p1 with
  | None => Raise (OpError 0)                                   (* the comparison raised *)
  | Some c =>
    if cmp_op 1 c
    then match tp_sub md p1 p2 with Some d => Ret (VTuple [VDur d; VStr "-"]) | None => Raise (OpError 0) end
    else match tp_sub md p2 p1 with Some d => Ret (VTuple [VDur d; VStr ""]) | None => Raise (OpError 0) end
  end.

Lemma gen11_date_diff md utc local sf p1 x1 p2 x2 :
  py_date_diff (mops md utc local) sf (VPoint (p1, x1)) (VPoint (p2, x2)) = diff_exc md p1 p2.
Proof.
  unfold py_date_diff, diff_exc. ev. unfold m_lt, tp_ltb. cbn [fst].
  destruct (tp_cmp md p2 p1) as [c|]; [|reflexivity]. ev.
  destruct c; ev; unfold m_sub; cbn [fst cmp_op];
    [destruct (tp_sub md p2 p1)|destruct (tp_sub md p1 p2)|destruct (tp_sub md p2 p1)]; reflexivity.
Qed.

Lemma gen11_date_diff_format_default md utc local sf d sign :
  py_date_diff_format (mops md utc local) sf VNone (VDur d) (VStr sign) =
  match dur_str d with
  | TOk s => Ret (VStr (sign ++ s))
  | TUnmodelled => Raise (OpError 2)
  | _ => Raise ValueError
  end.
Proof. unfold py_date_diff_format. ev. unfold m_D_str. destruct (dur_str d); reflexivity. Qed.

Theorem gen11_diff md local t1 t2 :
  sp_modelled md (cli_cfg false local) t1 -> sp_modelled md (cli_cfg false local) t2 ->
  cli_diff md local t1 t2 <> CUnmodelled ->
  cres_of (py_diff_time_point_strs (mops md false local) (self_of false) (VStr t1) (VStr t2) VNone VNone VNone VNone)
  = cli_diff md local t1 t2.
Proof.
  intros M1 M2 NU.
  pose proof (gen11_date_parse md false local t1 M1) as D1.
  pose proof (gen11_date_parse md false local t2 M2) as D2.
  pose proof (res_parse_inv (py_date_parse (mops md false local) (self_of false) (VStr t1))) as I1.
  pose proof (res_parse_inv (py_date_parse (mops md false local) (self_of false) (VStr t2))) as I2.
  rewrite D1 in I1. rewrite D2 in I2. unfold py_diff_time_point_strs. try code11_helpers_unfold. unfold cli_diff in *.
  destruct (date_parse md false local t1) as [[[p1 f1]|]|c1] eqn:P1;
    [|exfalso; exact (date_parse_not_none md false local t1 P1)|].
  - destruct I1 as [x1 E1].
    destruct (date_parse md false local t2) as [[[p2 f2]|]|c2] eqn:P2;
      [|exfalso; exact (date_parse_not_none md false local t2 P2)|].
    + destruct I2 as [x2 E2]. ev. rewrite E1. ev. rewrite E2. ev.
      try (progress unfold for_loop; ev).
      rewrite gen11_date_diff. unfold diff_exc.
      destruct (tp_cmp md p2 p1) as [c|]; [|reflexivity].
      destruct (cmp_op 1 c).
      * destruct (tp_sub md p1 p2) as [d|]; [|reflexivity]. ev. rewrite gen11_date_diff_format_default.
        destruct (dur_str d); reflexivity.
      * destruct (tp_sub md p2 p1) as [d|]; [|reflexivity]. ev. rewrite gen11_date_diff_format_default.
        destruct (dur_str d); reflexivity.
    + destruct I2 as (e & E2 & <-). ev. rewrite E1. ev. rewrite E2.
      destruct e as [| | | | | | | | | |[|[|[|[]|]|]|]]; reflexivity.
  - destruct I1 as (e & E1 & <-). ev. rewrite E1.
    destruct (date_parse md false local t2) as [[[p2 f2]|]|c2] eqn:P2.
    + destruct e as [| | | | | | | | | |[|[|[|[]|]|]|]]; reflexivity.
    + exfalso; exact (date_parse_not_none md false local t2 P2).
    + destruct e as [| | | | | | | | | |[|[|[|[]|]|]|]]; destruct c2; try reflexivity; exfalso; apply NU; reflexivity.
Qed.

(* no --offset at all: argparse passes None *)
Theorem gen11_process_no_offsets md utc local text pf :
  sp_modelled md (cli_cfg utc local) text -> pf <> Some "" ->
  cres_of (py_process_time_point_str (mops md utc local) (self_of utc) (VStr text) VNone (optstr pf))
  = cli_shift md utc local text [] pf.
Proof.
  intros M PF. rewrite cli_shift_eq.
  pose proof (gen11_date_parse md utc local text M) as DPE.
  pose proof (res_parse_inv (py_date_parse (mops md utc local) (self_of utc) (VStr text))) as INV.
  rewrite DPE in INV. unfold py_process_time_point_str. try code11_helpers_unfold.
  destruct (date_parse md utc local text) as [[[p f]|]|c] eqn:DP.
  - destruct INV as [x E]. ev. rewrite E. ev. try (progress unfold for_loop; ev). cbn [fold_left].
    destruct pf as [[|ch s]|]; [exfalso; apply PF; reflexivity| |]; ev; fin_df.
  - exfalso. exact (date_parse_not_none md utc local text DP).
  - destruct INV as (e & E & <-). ev. rewrite E. reflexivity.
Qed.

(* ---------- date_parse with a custom parse format (--parse-format) ---------- *)
(* the operator object with a custom parse format: the text is read by strptime with that format alone (the
   time.strptime fall-back is reached only for a format with a directive outside the table, excluded here), and
   the point is converted to UTC exactly in utc mode *)
Definition self_pf (utc : bool) (fmt : string) : pyOper xp dur := mkOper11 (VStr fmt) (VBool utc) VNone.

Theorem gen11_date_parse_custom md utc local text fmt :
  fmt_supported fmt = true -> String.eqb text "ref" = false -> String.eqb text "now" = false ->
  py_date_parse (mops md utc local) (self_pf utc fmt) (VStr text) =
  match m_tp_strptime md utc local text fmt with
  | Ret p => if utc then match m_to_utc md p with Ret q => Ret (VTuple [VPoint q; VStr fmt]) | Raise e => Raise e end
             else Ret (VTuple [VPoint p; VStr fmt])
  | Raise e => Raise e
  end.
Proof.
  intros S R N. unfold py_date_parse, self_pf. try code11_helpers_unfold.
  set (SP := py_strptime (mops md utc local) (mkOper11 (VStr fmt) (VBool utc) VNone)).
  cbn [f_custom_parse_format f_utc_mode f_ref_point_str].
  evl. rewrite R. evl. rewrite N. evl.
  unfold SP. rewrite gen11_strptime. unfold m_tp_strptime. rewrite S.
  destruct (strptime STRFTIME_TABLE md (cli_cfg utc local) text fmt) as [q|e].
  - unfold of_pres. destruct (ptp_to_tp q) as [p|]; [|reflexivity].
    evl. destruct utc; evl; [destruct (m_to_utc md (p, None))|]; reflexivity.
  - destruct e; reflexivity.
Qed.

(* ---------- the runners of the Example (Props/C19Code.v) ---------- *)
Definition run_shift (md : mode) (utc : bool) (local : Z * Z) (text : string) (offs : list string)
  (pf : option string) : cres :=
  cres_of (py_process_time_point_str (mops md utc local) (self_of utc) (VStr text) (VList (map VStr offs)) (optstr pf)).
Definition run_diff (md : mode) (local : Z * Z) (t1 t2 : string) : cres :=
  cres_of (py_diff_time_point_strs (mops md false local) (self_of false) (VStr t1) (VStr t2) VNone VNone VNone VNone).

(* ---------- __init__: the attributes it assigns, the calendar mode it sets, the parser it creates ---------- *)
Definition str_or_none (v : pv) : Prop := v = VNone \/ exists s, v = VStr s.
Definition getenv_val (ops : oper_ops xp dur) (k : string) : pv :=
  match O_getenv ops k with Some v => VStr v | None => VNone end.

Lemma py_bound_env (o : option string) :
  py_bound (match o with Some v => VStr v | None => VNone end) =
  Ret (match o with Some v => VStr v | None => @VNone xp dur end).
Proof. destruct o; reflexivity. Qed.

Theorem gen11_init (ops : oper_ops xp dur) sf pf utc cal ref :
  str_or_none pf -> str_or_none cal -> str_or_none ref ->
  exists st, py___init__ ops sf pf (VBool utc) cal ref = Ret (VDict st) /\
    dict_get "self.custom_parse_format" st = Some pf /\
    dict_get "self.utc_mode" st = Some (VBool utc) /\
    (* the option wins over the environment variable; an empty option counts as absent *)
    dict_get "!calendar_mode" st =
      Some (match cal with VStr (String _ _) => cal | _ => getenv_val ops "ISODATETIMECALENDAR" end) /\
    (* the parser assumes UTC exactly in utc mode *)
    dict_get "self.time_point_parser" st =
      Some (VTuple [VStr "TimePointParser"; VList [];
                    VDict [("assumed_time_zone", if utc then VTuple [VInt 0; VInt 0] else VNone)]]) /\
    dict_get "self.duration_parser" st = Some (VTuple [VStr "DurationParser"; VList []; VDict []]) /\
    dict_get "self.time_point_dumper" st = Some (VTuple [VStr "TimePointDumper"; VList []; VDict []]) /\
    dict_get "self.ref_point_str" st = Some (match ref with VNone => getenv_val ops "ISODATETIMEREF" | _ => ref end).
Proof.
  intros [->|[s1 ->]] [->|[s2 ->]] [->|[s3 ->]]; unfold py___init__, getenv_val; try code11_helpers_unfold;
    destruct utc; try destruct s2 as [|c2 s2];
    (eexists; split; [cbn; repeat (progress (rewrite ?py_bound_env; cbn)); reflexivity|]); cbn; repeat split; reflexivity.
Qed.
