(* Proofs/GenCodeOk.v -- the function bodies the translator read from
   data.py / timezone.py on this run (gen/GenCode.v) are equal, for all
   arguments, to the hand-written model functions of Model/Helpers.v and
   Model/LocalZone.v.  The mode-dependent CALENDAR attributes, parameters of
   the generated functions, are instantiated with the model's tables. *)
From Coq Require Import String.
From Iso Require Import Proofs.Tac Spec.Cal Model.Helpers Model.LocalZone
  gen.CalTables gen.GenCode Proofs.TablesOk.
Open Scope Z_scope.

Lemma gen_code_accepted : translator_ok_code = true.
Proof. reflexivity. Qed.

(* ---------- the fuelled loop is the Python loop ---------- *)
(* `while cond(x): x += 1` where cond(x) implies x < B.  W x, the generated
   term, satisfies the loop's defining equation and exits with cond false:
   the fuel taken from the loop's own bound never runs out. *)
Lemma while_inc_stop cond n x : cond x = false -> while_inc n cond x = x.
Proof. intros C. destruct n; cbn [while_inc]; [|rewrite C]; reflexivity. Qed.

Lemma while_inc_unroll cond B : (forall x, cond x = true -> x < B) -> forall x,
  while_inc (Z.to_nat (B - x)) cond x =
  if cond x then while_inc (Z.to_nat (B - (x + 1))) cond (x + 1) else x.
Proof.
  intros HB x. destruct (cond x) eqn:C.
  - pose proof (HB x C).
    replace (Z.to_nat (B - x)) with (S (Z.to_nat (B - (x + 1)))) by lia.
    cbn [while_inc]. rewrite C. reflexivity.
  - apply while_inc_stop; exact C.
Qed.

Lemma while_inc_exit cond B : (forall x, cond x = true -> x < B) -> forall x,
  cond (while_inc (Z.to_nat (B - x)) cond x) = false.
Proof.
  intros HB x. remember (Z.to_nat (B - x)) as n eqn:Hn. revert x Hn.
  induction n; intros x Hn; cbn [while_inc].
  - destruct (cond x) eqn:C; [|reflexivity]. pose proof (HB x C). lia.
  - destruct (cond x) eqn:C; [|exact C]. pose proof (HB x C). apply IHn. lia.
Qed.

(* the search of _get_days_in_year_range finds the model's closed form *)
Lemma next_multiple_step x f : 0 < f -> x mod f <> 0 ->
  next_multiple (x + 1) f = next_multiple x f.
Proof.
  intros Hf Hx. unfold next_multiple.
  pose proof (Z.mod_pos_bound x f Hf) as Hr.
  rewrite (Z.mod_opp_l_nz x f) by lia.
  destruct (Z.eq_dec ((x + 1) mod f) 0) as [E | E].
  - rewrite (Z.mod_opp_l_z (x + 1) f) by lia.
    assert (x mod f = f - 1); [|lia].
    symmetry. apply (Z.mod_unique x f ((x + 1) / f - 1)); [lia|].
    pose proof (Z.div_mod (x + 1) f). lia.
  - rewrite (Z.mod_opp_l_nz (x + 1) f) by lia.
    assert ((x + 1) mod f = x mod f + 1); [|lia].
    pose proof (Z.mod_pos_bound (x + 1) f Hf) as Hr1.
    symmetry. apply (Z.mod_unique (x + 1) f (x / f)).
    + assert (x mod f + 1 <> f); [|lia]. intros Hc. apply E.
      pose proof (Z.div_mod x f).
      replace (x + 1) with ((x / f + 1) * f) by lia. apply Z.mod_mul. lia.
    + pose proof (Z.div_mod x f). lia.
Qed.

Lemma while_inc_next_multiple f e x : 0 < f -> x <= e ->
  while_inc (Z.to_nat (e - x)) (fun x => negb (x mod f =? 0) && (x <? e)) x =
  Z.min (next_multiple x f) e.
Proof.
  intros Hf. remember (Z.to_nat (e - x)) as n eqn:Hn. revert x Hn.
  induction n; intros x Hn Hx; cbn [while_inc].
  - assert (x = e) by lia. unfold next_multiple.
    pose proof (Z.mod_pos_bound (- x) f Hf). lia.
  - destruct (negb (x mod f =? 0) && (x <? e)) eqn:C.
    + rewrite IHn by lia. rewrite next_multiple_step by lia. reflexivity.
    + unfold next_multiple. pose proof (Z.mod_pos_bound (- x) f Hf).
      destruct (x mod f =? 0) eqn:E0.
      * rewrite (Z.mod_opp_l_z x f) by lia. lia.
      * cbn [negb andb] in C. lia.
Qed.

Lemma fold_left_ext_in {A B} (f g : A -> B -> A) (l : list B) :
  (forall a x, In x l -> f a x = g a x) -> forall a, fold_left f l a = fold_left g l a.
Proof.
  induction l as [|x l IH]; intros H a; cbn [fold_left]; [reflexivity|].
  rewrite (H a x) by (left; reflexivity). apply IH. intros a' y Hy. apply H. right; exact Hy.
Qed.

(* ---------- data.py ---------- *)
Lemma gen_get_is_leap_year_eq y : py_get_is_leap_year y = get_is_leap_year y.
Proof. reflexivity. Qed.

Lemma gen__get_days_in_year_eq md y :
  py__get_days_in_year (DAYS_IN_YEAR md) (DAYS_IN_YEAR_LEAP md) y = get_days_in_year md y.
Proof. reflexivity. Qed.

Lemma gen_get_days_in_year_eq md y :
  py_get_days_in_year (DAYS_IN_YEAR md) (DAYS_IN_YEAR_LEAP md) y = get_days_in_year md y.
Proof. reflexivity. Qed.

Lemma gen__get_days_in_month_eq md m y :
  py__get_days_in_month (DAYS_IN_MONTHS md) (DAYS_IN_MONTHS_LEAP md) m y = get_days_in_month md m y.
Proof.
  unfold py__get_days_in_month, get_days_in_month, znth, year_months.
  rewrite gen_get_is_leap_year_eq. destruct (get_is_leap_year y); reflexivity.
Qed.

(* year = "leap" and year = None *)
Lemma gen__get_days_in_month_leap_eq md m :
  py__get_days_in_month__leap (DAYS_IN_MONTHS_LEAP md) m = get_days_in_month_leap md m.
Proof. reflexivity. Qed.

Lemma gen__get_days_in_month_none_eq md m :
  py__get_days_in_month__none (DAYS_IN_MONTHS md) m = znth (DAYS_IN_MONTHS md) (m - 1).
Proof. reflexivity. Qed.

Lemma gen__get_days_in_year_range_eq md s e :
  py__get_days_in_year_range (DAYS_IN_YEAR md) (DAYS_IN_YEAR_LEAP md) s e =
  get_days_in_year_range md s e.
Proof.
  unfold py__get_days_in_year_range, get_days_in_year_range.
  rewrite gen_get_days_in_year_eq.
  destruct (s =? e) eqn:E1; [reflexivity|].
  destruct (e <? s) eqn:E2; [reflexivity|].
  cbv zeta. rewrite leap_factors_ok.
  apply fold_left_ext_in. intros a x Hx.
  unfold leap_factors in Hx; cbn [In] in Hx.
  destruct Hx as [<- | [<- | [<- | []]]]; cbv beta iota; cbn [fst snd];
    rewrite while_inc_next_multiple by lia; unfold range_corrections;
    repeat match goal with |- context [if ?b then _ else _] => destruct b eqn:? end;
    cbn [andb negb] in *; lia.
Qed.

Lemma gen_get_days_in_year_range_eq md s e :
  py_get_days_in_year_range (DAYS_IN_YEAR md) (DAYS_IN_YEAR_LEAP md) s e =
  get_days_in_year_range md s e.
Proof. exact (gen__get_days_in_year_range_eq md s e). Qed.

Lemma gen__get_days_since_1_ad_eq md y :
  py__get_days_since_1_ad (DAYS_IN_YEAR md) (DAYS_IN_YEAR_LEAP md) y = get_days_since_1_ad md y.
Proof.
  unfold py__get_days_since_1_ad, get_days_since_1_ad.
  rewrite gen_get_days_in_year_eq, gen_get_days_in_year_range_eq. reflexivity.
Qed.

(* _get_calendar_date_week_date_start up to its final loop over
   iter_months_days: either the generated prefix returns, and the model returns
   the same date, or it reaches the loop with day_of_week_start_year = dow in
   2..4, and the model's (hand-written, correspondence-tested) treatment of the
   loop is the Monday (dow - 1) days before 1 January. *)
Lemma gen_week_date_start_cut :
  py__get_calendar_date_week_date_start__prefix_cut =
  "for month, day in iter_months_days(year - 1, in_reverse=True):"%string.
Proof. reflexivity. Qed.

Lemma gen_week_date_start_prefix_eq md y :
  match py__get_calendar_date_week_date_start__prefix (DAYS_IN_YEAR md) (DAYS_IN_YEAR_LEAP md) y with
  | inl r => week_date_start md y = r
  | inr dow => 1 < dow <= 4 /\
      week_date_start md y = (y - 1, 12, znth (year_months md (y - 1)) 11 - (dow - 2))
  end.
Proof.
  unfold py__get_calendar_date_week_date_start__prefix, week_date_start,
    WEEK_REF_CALENDAR, WEEK_REF_ORDINAL, DAYS_IN_WEEK, REF_YEAR, REF_MONTH, REF_DAY, REF_ORD.
  cbv beta iota zeta. rewrite !gen_get_days_in_year_range_eq.
  destruct (y =? 2000) eqn:E0; [reflexivity|].
  destruct (2000 <? y) eqn:E1.
  - set (R := get_days_in_year_range md 2000 (y - 1)).
    destruct ((1 - 3 + R) mod 7 + 1 =? 1) eqn:E2; [reflexivity|].
    destruct (4 <? (1 - 3 + R) mod 7 + 1) eqn:E3; [reflexivity|].
    split; [lia|reflexivity].
  - destruct (y <? 2000) eqn:E1'; [|lia].
    set (R := get_days_in_year_range md y (2000 - 1)).
    destruct (7 - (3 - 2 + R) mod 7 =? 1) eqn:E2; [reflexivity|].
    destruct (4 <? 7 - (3 - 2 + R) mod 7) eqn:E3; [reflexivity|].
    split; [lia|reflexivity].
Qed.

(* ---------- timezone.py ---------- *)
Lemma gen_get_local_time_zone_eq tz alt dl isdst :
  py_get_local_time_zone tz alt dl isdst = get_local_time_zone tz alt dl isdst.
Proof.
  unfold py_get_local_time_zone, get_local_time_zone, split_offset, utc_offset_seconds.
  cbv zeta.
  first [ destruct ((isdst =? 1) && negb (dl =? 0)); reflexivity
        | (* not syntactically the model: decide it arithmetically *)
          repeat split_if; try lia; f_equal; try reflexivity;
          try change (-1 * 60) with (-60); try change (1 * 60) with 60; lia ].
Qed.

Lemma gen_get_local_time_zone_split tz alt dl isdst :
  py_get_local_time_zone tz alt dl isdst = split_offset (utc_offset_seconds tz alt dl isdst).
Proof. exact (gen_get_local_time_zone_eq tz alt dl isdst). Qed.

(* the model's two parts, read off the generated function: with daylight = 0
   the offset is -timezone, so split_offset is the generated arithmetic ... *)
Lemma gen_split_offset_eq off : py_get_local_time_zone (- off) 0 0 0 = split_offset off.
Proof.
  rewrite gen_get_local_time_zone_eq. unfold get_local_time_zone, utc_offset_seconds.
  cbn [Z.eqb negb andb]. rewrite Z.opp_involutive. reflexivity.
Qed.

(* ... and the generated function only depends on the four reads through the
   model's selection of one of the two system offsets *)
Lemma gen_utc_offset_seconds_eq tz alt dl isdst :
  py_get_local_time_zone tz alt dl isdst =
  py_get_local_time_zone (- utc_offset_seconds tz alt dl isdst) 0 0 0.
Proof. rewrite gen_split_offset_eq. apply gen_get_local_time_zone_split. Qed.

(* ---------- no division by zero in the covered bodies ---------- *)
(* the divisors of // and % there are: the literals 60 and 3600, a factor of
   LEAP_YEAR_FACTOR_TRUTHS, DAYS_IN_WEEK, and sign * 60 with sign = -1 or 1 *)
Lemma gen_divisors_nonzero :
  forallb (fun ft : Z * bool => 0 <? fst ft) LEAP_YEAR_FACTOR_TRUTHS = true /\
  0 < DAYS_IN_WEEK /\ forall off, (if off <? 0 then -1 else 1) * 60 <> 0.
Proof.
  split; [reflexivity|]. split; [reflexivity|]. intros off. destruct (off <? 0); lia.
Qed.
