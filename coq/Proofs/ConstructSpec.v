(* Proofs/ConstructSpec.v -- the TimePoint constructor model (Model/Parse.v
   `construct`): it accepts exactly the valid field tuples (calendar, ordinal
   and week notation), and every full point the text parser returns is a
   valid time point (property C09). *)
From Coq Require Import QArith Qround Lqa List String.
From Iso Require Import Proofs.Tac Spec.Cal Spec.Instant Model.Num Model.Helpers Model.Duration Model.TimePoint
  Model.Forms Model.Parse Model.DriverText gen.Grammar
  Proofs.HelpersSpec Proofs.ConvSpec Proofs.TickSpec Proofs.CmpSpec.
Import ListNotations.
Open Scope Z_scope.

(* ---------- the definitions Props/C09.v states its theorems with ---------- *)
Definition tod_ints (h mi s : option Q) : bool :=
  let iq := fun (o : option Q) => match o with Some x => qis_int x | None => true end in
  iq h && iq mi && iq s.
Definition tod_fields_ok (h mi s : option Q) : bool :=
  in_rngq h 0 24 &&
  (if match h with Some x => qeqb x 24 | None => false end
   then in_rngq mi 0 0 && in_rngq s 0 0 else below_q mi 0 60 && below_q s 0 60).
Definition zone_fields_ok (zn : option (Z * option Z)) : bool :=
  match zn with
  | None => true
  | Some (zh, zmo) => valid_zone (mkZone zh (match zmo with Some m => m | None => 0 end))
  end.

(* ---------- the constructor, stage by stage ---------- *)
Definition dec_h (hour hdec minute sec : option Q) : pres (option Q) :=
  match hdec with
  | None => POk hour
  | Some f => match hour with
              | None => PErr EBadInput
              | Some h => if negb (qleb 0 f && qltb f 1) then PErr EBadInput
                          else match minute, sec with
                               | None, None => POk (Some (qadd h f))
                               | _, _ => PErr EBadInput end
              end
  end.
Definition dec_m (minute mdec sec : option Q) : pres (option Q) :=
  match mdec with
  | None => POk minute
  | Some f => match minute with
              | None => PErr EBadInput
              | Some m => if negb (qleb 0 f && qltb f 1) then PErr EBadInput
                          else match sec with None => POk (Some (qadd m f)) | Some _ => PErr EBadInput end
              end
  end.
Definition dec_s (sec sdec : option Q) : pres (option Q) :=
  match sdec with
  | None => POk sec
  | Some f => match sec with
              | None => PErr EBadInput
              | Some s => if negb (qleb 0 f && qltb f 1) then PErr EBadInput else POk (Some (qadd s f))
              end
  end.
Definition dfl_h (h1 : option Q) : option Q := match h1 with None => Some 0%Q | x => x end.
Definition dfl_m (hdec m1 : option Q) : option Q := match hdec, m1 with None, None => Some 0%Q | _, x => x end.
Definition dfl_s (hdec mdec s1 : option Q) : option Q :=
  match hdec, mdec, s1 with None, None, None => Some 0%Q | _, _, x => x end.

Definition zone_stage (zn : option (Z * option Z)) : pres (option zone) :=
  match zn with
  | None => POk (Some (mkZone 0 0))
  | Some (zh, zmo) =>
    let zmv := match zmo with Some x => x | None => 0 end in
    if negb ((-99 <=? zh) && (zh <=? 99)) then PErr EBadInput
    else
      let lo := if 0 <? zh then 0 else -59 in
      let hi := if zh <? 0 then 0 else 59 in
      if negb ((lo <=? zmv) && (zmv <=? hi)) then PErr EBadInput
      else POk (Some (mkZone zh zmv))
  end.

Definition is_some {A} (o : option A) : bool := match o with Some _ => true | None => false end.
Definition conflict (month dom doy week dow : option Z) : bool :=
  let month_spec := truthy month || truthy dom in
  let week_spec := truthy week || truthy dow in
  if month_spec && week_spec then true
  else if month_spec && is_some doy then true
  else if week_spec && is_some doy then true else false.
Definition date_dfl (month dom doy week dow : option Z) : option Z * option Z * option Z * option Z :=
  match doy with
  | None =>
    if negb (truthy week || truthy dow) then
      (match month with None => Some 1 | x => x end, match dom with None => Some 1 | x => x end, week, dow)
    else
      (month, dom, match week with None => Some 1 | x => x end, match dow with None => Some 1 | x => x end)
  | Some _ => (month, dom, week, dow)
  end.

(* everything after the decimals, for a full (non-truncated) point with a year *)
Definition tail (md : mode) (y : Z) (month dom doy week dow : option Z) (h2 m2 s2 : option Q)
           (zn : option (Z * option Z)) (tprop : string) (ned : Z) (fmt : string) : pres ptp :=
  match zone_stage zn with
  | PErr e => PErr e
  | POk z =>
    if conflict month dom doy week dow then PErr EBadInput
    else
      let '(month', dom', week', dow') := date_dfl month dom doy week dow in
      let p := mkPtp (Some y) month' dom' doy week' dow' h2 m2 s2 z false tprop ned fmt in
      if check_bounds md p then POk p else PErr EBadInput
  end.

Lemma construct_eq md yr month dom doy week dow hour hdec minute mdec sec sdec zn tprop ned fmt :
  construct md yr month dom doy week dow hour hdec minute mdec sec sdec zn false tprop ned fmt false =
  (h1 <-- dec_h hour hdec minute sec ;;;
   m1 <-- dec_m minute mdec sec ;;;
   s1 <-- dec_s sec sdec ;;;
   match yr with
   | None => PErr EBadInput
   | Some y => tail md y month dom doy week dow (dfl_h h1) (dfl_m hdec m1) (dfl_s hdec mdec s1) zn tprop ned fmt
   end).
Proof.
  unfold construct.
  change (match hdec with
          | None => POk hour
          | Some f => match hour with
                      | None => PErr EBadInput
                      | Some h => if negb (qleb 0 f && qltb f 1) then PErr EBadInput
                                  else match minute, sec with
                                       | None, None => POk (Some (qadd h f))
                                       | _, _ => PErr EBadInput end
                      end
          end) with (dec_h hour hdec minute sec).
  destruct (dec_h hour hdec minute sec) as [h1|e]; [|reflexivity]. cbn [pbind].
  change (match mdec with
          | None => POk minute
          | Some f => match minute with
                      | None => PErr EBadInput
                      | Some m => if negb (qleb 0 f && qltb f 1) then PErr EBadInput
                                  else match sec with None => POk (Some (qadd m f)) | Some _ => PErr EBadInput end
                      end
          end) with (dec_m minute mdec sec).
  destruct (dec_m minute mdec sec) as [m1|e]; [|reflexivity]. cbn [pbind].
  change (match sdec with
          | None => POk sec
          | Some f => match sec with
                      | None => PErr EBadInput
                      | Some s => if negb (qleb 0 f && qltb f 1) then PErr EBadInput else POk (Some (qadd s f))
                      end
          end) with (dec_s sec sdec).
  destruct (dec_s sec sdec) as [s1|e]; [|reflexivity]. cbn [pbind].
  destruct yr as [y|]; [|reflexivity].
  cbn [negb andb]. unfold tail, zone_stage, conflict, date_dfl, is_some. cbv zeta.
  destruct zn as [[zh zmo]|].
  - destruct (negb ((-99 <=? zh) && (zh <=? 99))); [reflexivity|].
    match goal with |- context [if negb ?c then _ else _] => destruct (negb c) end; [reflexivity|].
    cbn [pbind].
    destruct (truthy month || truthy dom), (truthy week || truthy dow), doy; reflexivity.
  - cbn [pbind].
    destruct (truthy month || truthy dom), (truthy week || truthy dow), doy; reflexivity.
Qed.

(* ---------- zone ---------- *)
Lemma zone_stage_spec zn :
  match zone_stage zn with
  | POk (Some z) => zone_fields_ok zn = true /\ valid_zone z = true
  | POk None => False
  | PErr _ => zone_fields_ok zn = false
  end.
Proof.
  destruct zn as [[a zmo]|]; unfold zone_stage, zone_fields_ok; [|split; reflexivity].
  cbv zeta. set (b := match zmo with Some x => x | None => 0 end). clearbody b.
  unfold valid_zone; cbn [zh zm].
  destruct (negb ((-99 <=? a) && (a <=? 99))) eqn:E3; [lia|].
  match goal with |- context [if negb ?c then _ else _] => destruct (negb c) eqn:E4 end.
  - destruct (0 <? a) eqn:E1; destruct (a <? 0) eqn:E2; lia.
  - cbn [zh zm]. destruct (0 <? a) eqn:E1; destruct (a <? 0) eqn:E2; split; lia.
Qed.

(* ---------- bounds ---------- *)
Definition date_chk (md : mode) (y : Z) (month dom doy week dow : option Z) : bool :=
  in_rng month 1 12 &&
  in_rng dom 1 (match month with Some m => get_days_in_month md m y | None => MAX_DAYS_IN_MONTH md end) &&
  (in_rng week 1 (get_weeks_in_year md y) && in_rng doy 1 (get_days_in_year md y)) &&
  in_rng dow 1 7.

Lemma check_bounds_eq md y mo d doy w dw h m s z tr tp ned fmt :
  check_bounds md (mkPtp (Some y) mo d doy w dw h m s z tr tp ned fmt) =
  date_chk md y mo d doy w dw && tod_fields_ok h m s.
Proof.
  unfold check_bounds, date_chk, tod_fields_ok.
  cbn [p_year p_month p_dom p_doy p_week p_dow p_hour p_min p_sec].
  rewrite <- !andb_assoc. reflexivity.
Qed.

Lemma date_chk_cal md y m d : date_chk md y (Some m) (Some d) None None None = valid_cal md y m d.
Proof.
  unfold date_chk, valid_cal. cbn [in_rng]. rewrite !andb_true_r.
  destruct ((1 <=? m) && (m <=? 12)) eqn:E; [|reflexivity].
  rewrite get_days_in_month_spec by lia. rewrite andb_assoc. reflexivity.
Qed.
Lemma date_chk_ord md y doy : date_chk md y None None (Some doy) None None = valid_ord md y doy.
Proof.
  unfold date_chk, valid_ord. cbn [in_rng andb]. rewrite andb_true_r.
  rewrite get_days_in_year_spec. reflexivity.
Qed.
Lemma date_chk_week md y w dw : date_chk md y None None None (Some w) (Some dw) = valid_week md y w dw.
Proof.
  unfold date_chk, valid_week. cbn [in_rng andb]. rewrite andb_true_r.
  rewrite (proj1 (get_weeks_in_year_spec md y)). rewrite andb_assoc. reflexivity.
Qed.

(* ---------- time-of-day defaults ---------- *)
Lemma tod_dfl h mi s : tod_fields_ok (dfl_h h) (dfl_m None mi) (dfl_s None None s) = tod_fields_ok h mi s.
Proof.
  assert (A : in_rngq (Some 0%Q) 0 24 = true) by (vm_compute; reflexivity).
  assert (B : qeqb 0 24 = false) by (vm_compute; reflexivity).
  assert (C : below_q (Some 0%Q) 0 60 = true) by (vm_compute; reflexivity).
  assert (D : in_rngq (Some 0%Q) 0 0 = true) by (vm_compute; reflexivity).
  unfold tod_fields_ok.
  destruct h as [h|], mi as [mi|], s as [s|]; cbn [dfl_h dfl_m dfl_s];
    rewrite ?A, ?B, ?C, ?D; cbn [in_rngq below_q andb]; rewrite ?andb_true_r; try reflexivity;
    destruct (qeqb h 24); reflexivity.
Qed.

(* ---------- construction accepts exactly the valid tuples ---------- *)
Lemma construct_calendar_iff : forall md y m d h mi s zn, tod_ints h mi s = true ->
  (exists p, construct md (Some y) (Some m) (Some d) None None None h None mi None s None zn false "" 0 "" false = POk p)
  <-> (valid_cal md y m d = true /\ tod_fields_ok h mi s = true /\ zone_fields_ok zn = true).
Proof.
  intros md y m d h mi s zn _. rewrite construct_eq. cbn [dec_h dec_m dec_s pbind]. unfold tail.
  pose proof (zone_stage_spec zn) as HZ. destruct (zone_stage zn) as [[z|]|e].
  - destruct HZ as [HZ _]. rewrite HZ.
    unfold conflict, date_dfl. cbn [truthy is_some orb negb]. rewrite !andb_false_r.
    rewrite check_bounds_eq, date_chk_cal, tod_dfl.
    destruct (valid_cal md y m d), (tod_fields_ok h mi s); cbn [andb];
      split; try (intros [p H]; discriminate); try (intros (A & B & C); discriminate); eauto.
  - destruct HZ.
  - rewrite HZ. split; [intros [p H]; discriminate | intros (A & B & C); discriminate].
Qed.

Lemma construct_ordinal_iff : forall md y doy h mi s zn, tod_ints h mi s = true ->
  (exists p, construct md (Some y) None None (Some doy) None None h None mi None s None zn false "" 0 "" false = POk p)
  <-> (valid_ord md y doy = true /\ tod_fields_ok h mi s = true /\ zone_fields_ok zn = true).
Proof.
  intros md y doy h mi s zn _. rewrite construct_eq. cbn [dec_h dec_m dec_s pbind]. unfold tail.
  pose proof (zone_stage_spec zn) as HZ. destruct (zone_stage zn) as [[z|]|e].
  - destruct HZ as [HZ _]. rewrite HZ.
    unfold conflict, date_dfl. cbn [truthy is_some orb negb andb].
    rewrite check_bounds_eq, date_chk_ord, tod_dfl.
    destruct (valid_ord md y doy), (tod_fields_ok h mi s); cbn [andb];
      split; try (intros [p H]; discriminate); try (intros (A & B & C); discriminate); eauto.
  - destruct HZ.
  - rewrite HZ. split; [intros [p H]; discriminate | intros (A & B & C); discriminate].
Qed.

Lemma construct_week_iff : forall md y w dow h mi s zn, tod_ints h mi s = true ->
  (exists p, construct md (Some y) None None None (Some w) (Some dow) h None mi None s None zn false "" 0 "" false = POk p)
  <-> (valid_week md y w dow = true /\ tod_fields_ok h mi s = true /\ zone_fields_ok zn = true).
Proof.
  intros md y w dw h mi s zn _. rewrite construct_eq. cbn [dec_h dec_m dec_s pbind]. unfold tail.
  pose proof (zone_stage_spec zn) as HZ. destruct (zone_stage zn) as [[z|]|e].
  - destruct HZ as [HZ _]. rewrite HZ.
    unfold conflict, date_dfl. cbn [truthy is_some orb negb andb]. rewrite !andb_false_r.
    destruct (negb (w =? 0) || negb (dw =? 0)) eqn:E; cbn [negb].
    + rewrite check_bounds_eq, date_chk_week, tod_dfl.
      destruct (valid_week md y w dw), (tod_fields_ok h mi s); cbn [andb];
        split; try (intros [p H]; discriminate); try (intros (A & B & C); discriminate); eauto.
    + assert (w = 0 /\ dw = 0) as [-> ->] by lia.
      rewrite check_bounds_eq. unfold date_chk, valid_week. cbn [in_rng Z.leb Z.compare andb].
      rewrite !andb_false_r. cbn [andb].
      split; [intros [p H]; discriminate | intros (A & B & C); discriminate].
  - destruct HZ.
  - rewrite HZ. split; [intros [p H]; discriminate | intros (A & B & C); discriminate].
Qed.

(* ---------- every constructed full point is a valid time point ---------- *)
Definition ptp_date (y : Z) (mo d doy w dw : option Z) : option date :=
  match mo, d, doy, w, dw with
  | Some m, Some d, None, None, None => Some (Cal y m d)
  | None, None, Some d, None, None => Some (Ord y d)
  | None, None, None, Some w, Some d => Some (Wk y w d)
  | _, _, _, _, _ => None
  end.
Definition ptp_tod (h : Q) (om os : option Q) : option tod :=
  match om, os with
  | Some m, Some s => Some (HMS h m s)
  | Some m, None => Some (HM h m)
  | None, None => Some (HH h)
  | None, Some _ => None
  end.
Lemma ptp_to_tp_eq p :
  ptp_to_tp p =
  if p_trunc p then None
  else match p_year p, p_hour p, p_zone p with
       | Some y, Some h, Some z =>
         match ptp_date y (p_month p) (p_dom p) (p_doy p) (p_week p) (p_dow p), ptp_tod h (p_min p) (p_sec p) with
         | Some d, Some t => Some (mkTp d t z)
         | _, _ => None
         end
       | _, _, _ => None
       end.
Proof. reflexivity. Qed.

Lemma date_shape md y month dom doy week dow mo' d' w' dw' :
  conflict month dom doy week dow = false ->
  date_dfl month dom doy week dow = (mo', d', w', dw') ->
  date_chk md y mo' d' doy w' dw' = true ->
  exists dt, ptp_date y mo' d' doy w' dw' = Some dt /\ valid_date md dt = true.
Proof.
  intros HC HD CB. pose proof CB as CB'.
  unfold conflict, date_dfl, truthy, is_some in HC, HD.
  unfold date_chk, in_rng in CB.
  destruct month as [m|], dom as [d|], doy as [o|], week as [w|], dow as [dw|];
    repeat match type of HC with context [?z =? 0] => destruct (z =? 0) eqn:? end;
    repeat match type of HD with context [?z =? 0] => destruct (z =? 0) eqn:? end;
    cbn [negb orb andb] in HC, HD; try discriminate HC;
    inversion HD; subst mo' d' w' dw'; clear HD;
    first [ exfalso; lia
          | eexists; split; [reflexivity|]; cbn [valid_date];
            first [rewrite <- date_chk_cal | rewrite <- date_chk_ord | rewrite <- date_chk_week]; exact CB' ].
Qed.

Definition oint (o : option Q) : Prop := match o with Some x => qis_int x = true | None => True end.

Lemma valid_hh h : tod_fields_ok (Some h) None None = true -> valid_tod (HH h) = true.
Proof.
  unfold tod_fields_ok, in_rngq, valid_tod. intros H. apply andb_prop in H. destruct H as [H _].
  exact H.
Qed.
Lemma valid_hm h m : qis_int h = true -> tod_fields_ok (Some h) (Some m) None = true -> valid_tod (HM h m) = true.
Proof.
  unfold tod_fields_ok, in_rngq, below_q, valid_tod. intros Hh H. rewrite Hh. cbn [andb].
  destruct (qeqb h 24) eqn:E.
  - b2p H. unfold qz, inject_Z in H. destruct H as [_ [[A B] _]].
    assert (M : qeqb m 0 = true) by (apply qeqb_iff; lra). rewrite M. cbn [andb]. apply orb_true_r.
  - apply qeqb_false in E. b2p H. unfold qz, inject_Z in H. destruct H as [[A B] [[C D] _]].
    rewrite !qin_true; [reflexivity| | | |]; unfold inject_Z; lra.
Qed.
Lemma valid_hms h m s : qis_int h = true -> qis_int m = true ->
  tod_fields_ok (Some h) (Some m) (Some s) = true -> valid_tod (HMS h m s) = true.
Proof.
  unfold tod_fields_ok, in_rngq, below_q, valid_tod. intros Hh Hm H. rewrite Hh, Hm. cbn [andb].
  destruct (qeqb h 24) eqn:E.
  - b2p H. unfold qz, inject_Z in H. destruct H as [_ [[A B] [C D]]].
    assert (M : qeqb m 0 = true) by (apply qeqb_iff; lra).
    assert (S : qeqb s 0 = true) by (apply qeqb_iff; lra). rewrite M, S. cbn [andb]. apply orb_true_r.
  - apply qeqb_false in E. b2p H. unfold qz, inject_Z in H. destruct H as [[A B] [[C D] [F G]]].
    rewrite !qin_true; [reflexivity| | | | | |]; unfold inject_Z; lra.
Qed.

Lemma tod_shape hour hdec minute mdec sec sdec h1 m1 s1 :
  oint hour -> oint minute ->
  dec_h hour hdec minute sec = POk h1 -> dec_m minute mdec sec = POk m1 -> dec_s sec sdec = POk s1 ->
  tod_fields_ok (dfl_h h1) (dfl_m hdec m1) (dfl_s hdec mdec s1) = true ->
  exists h t, dfl_h h1 = Some h /\ ptp_tod h (dfl_m hdec m1) (dfl_s hdec mdec s1) = Some t /\ valid_tod t = true.
Proof.
  assert (Z0 : qis_int 0 = true) by (vm_compute; reflexivity).
  intros Ih Im Hh Hm Hs HT. unfold dec_h, dec_m, dec_s in Hh, Hm, Hs.
  destruct hdec as [fh|], mdec as [fm|], sdec as [fs|],
           hour as [h|], minute as [m|], sec as [s|]; try discriminate;
    repeat match goal with
           | H : (if ?c then _ else _) = POk _ |- _ => destruct c; [discriminate H|]
           end;
    inversion Hh; inversion Hm; inversion Hs; subst h1 m1 s1;
    cbn [dfl_h dfl_m dfl_s oint] in *;
    (eexists; eexists; split; [reflexivity|]; split; [reflexivity|]);
    first [ apply valid_hms; assumption | apply valid_hm; assumption | apply valid_hh; assumption ].
Qed.

Lemma pbind_inv {A B} (x : pres A) (f : A -> pres B) b :
  pbind x f = POk b -> exists a, x = POk a /\ f a = POk b.
Proof. destruct x as [a|e]; cbn [pbind]; intros H; [exists a; auto | discriminate]. Qed.

Lemma construct_valid md yr month dom doy week dow hour hdec minute mdec sec sdec zn tprop ned fmt p :
  oint hour -> oint minute ->
  construct md yr month dom doy week dow hour hdec minute mdec sec sdec zn false tprop ned fmt false = POk p ->
  exists q, ptp_to_tp p = Some q /\ valid_tp md q = true.
Proof.
  intros Ih Im H. rewrite construct_eq in H.
  apply pbind_inv in H. destruct H as (h1 & Hh & H).
  apply pbind_inv in H. destruct H as (m1 & Hm & H).
  apply pbind_inv in H. destruct H as (s1 & Hs & H).
  destruct yr as [y|]; [|discriminate]. unfold tail in H.
  pose proof (zone_stage_spec zn) as HZ. destruct (zone_stage zn) as [[z|]|e]; [|destruct HZ|discriminate].
  destruct HZ as [_ HZ].
  destruct (conflict month dom doy week dow) eqn:HC; [discriminate|].
  destruct (date_dfl month dom doy week dow) as [[[mo' d'] w'] dw'] eqn:HD.
  match type of H with (if ?c then _ else _) = _ => destruct c eqn:CB end; [|discriminate].
  inversion H; subst p; clear H.
  rewrite check_bounds_eq in CB. apply andb_prop in CB. destruct CB as [CD CT].
  destruct (date_shape md y _ _ _ _ _ _ _ _ _ HC HD CD) as (dt & E1 & V1).
  destruct (tod_shape _ _ _ _ _ _ _ _ _ Ih Im Hh Hm Hs CT) as (h & t & E2 & E3 & V2).
  exists (mkTp dt t z). rewrite ptp_to_tp_eq.
  cbn [p_trunc p_year p_hour p_zone p_month p_dom p_doy p_week p_dow p_min p_sec].
  rewrite E2, E1, E3. split; [reflexivity|].
  unfold valid_tp. cbn [tdate ttod tzone]. rewrite V1, V2, HZ. reflexivity.
Qed.

Lemma construct_trunc_true md yr month dom doy week dow hour hdec minute mdec sec sdec zn tprop ned fmt p :
  construct md yr month dom doy week dow hour hdec minute mdec sec sdec zn true tprop ned fmt false = POk p ->
  p_trunc p = true.
Proof.
  intros H. unfold construct in H.
  apply pbind_inv in H. destruct H as (h1 & _ & H).
  apply pbind_inv in H. destruct H as (m1 & _ & H).
  apply pbind_inv in H. destruct H as (s1 & _ & H).
  cbn [negb andb] in H.
  apply pbind_inv in H. destruct H as (z & _ & H).
  repeat match type of H with (if ?c then _ else _) = _ => destruct c; [try discriminate H|try discriminate H] end.
  inversion H. reflexivity.
Qed.

(* ---------- the text parser ---------- *)
Lemma oq_int e k o : oq e k = POk o -> oint o.
Proof.
  unfold oq. destruct (lookup_env k e); [destruct (digits_to_Z s)|]; intros H; inversion H; cbn [oint]; [|exact I].
  apply qis_int_iff. apply isint_Z.
Qed.

Lemma create_timepoint_valid md cfg i fmt p :
  create_timepoint md cfg i fmt false = POk p -> p_trunc p = false ->
  exists q, ptp_to_tp p = Some q /\ valid_tp md q = true.
Proof.
  intros H HT. unfold create_timepoint in H. cbv zeta in H.
  apply pbind_inv in H. destruct H as (yr & _ & H).
  apply pbind_inv in H. destruct H as (month & _ & H).
  apply pbind_inv in H. destruct H as (dom & _ & H).
  apply pbind_inv in H. destruct H as (doy & _ & H).
  apply pbind_inv in H. destruct H as (week & _ & H).
  apply pbind_inv in H. destruct H as (dow & _ & H).
  apply pbind_inv in H. destruct H as (hour & Ih & H).
  apply pbind_inv in H. destruct H as (hdec & _ & H).
  apply pbind_inv in H. destruct H as (minute & Im & H).
  apply pbind_inv in H. destruct H as (mdec & _ & H).
  apply pbind_inv in H. destruct H as (sec & _ & H).
  apply pbind_inv in H. destruct H as (sdec & _ & H).
  apply pbind_inv in H. destruct H as (zn & _ & H).
  apply oq_int in Ih. apply oq_int in Im.
  match type of H with construct _ _ _ _ _ _ _ _ _ _ _ _ _ _ ?tr _ _ _ _ = _ => destruct tr end.
  - apply construct_trunc_true in H. congruence.
  - eapply construct_valid; [| |exact H]; assumption.
Qed.

Lemma parse_text_valid : forall md cfg text asp p,
  parse_text md cfg text asp = POk p -> p_trunc p = false ->
  exists q, ptp_to_tp p = Some q /\ valid_tp md q = true.
Proof.
  intros md cfg text asp p H HT. unfold parse_text in H.
  destruct (negb (is_ascii_str text)); [discriminate|].
  destruct (get_info _ _ _ cfg text) as [i|e]; [|discriminate].
  eapply create_timepoint_valid; eassumption.
Qed.

Lemma parse_text_date_valid : forall md cfg text asp p q,
  parse_text md cfg text asp = POk p -> ptp_to_tp p = Some q -> valid_date md (tdate q) = true.
Proof.
  intros md cfg text asp p q H HQ.
  assert (HT : p_trunc p = false).
  { unfold ptp_to_tp in HQ. destruct (p_trunc p); [discriminate|reflexivity]. }
  destruct (parse_text_valid md cfg text asp p H HT) as (q' & E & V).
  rewrite HQ in E. inversion E; subst q'.
  unfold valid_tp in V. apply andb_prop in V. destruct V as [V _]. apply andb_prop in V. destruct V as [V _].
  exact V.
Qed.
