(* Proofs/GenCode6Ok.v -- the truncated-point addition of class TimePoint as translated
   from data.py on this run (gen/GenCode6.v: to_hour_minute_second, add_truncated,
   get_truncated_properties, __add__ with a TimePoint operand) against the
   hand-written model Model/Truncated.v (add_truncated, tp_add_trunc).

   Shape of the result.  The model bounds every unit-stepping loop and says THang
   when a loop is unfinished at its bound; the translated code has one `fuel`
   for all its `while` loops (Raise OutOfFuel when one runs out).  With the
   instrumented mirror `add_truncated_i` of the model (same function, erased by
   `erase` to the model's own: add_truncated_i_erase) that also reports the fuel
   a finished run needs / the bound of the loop that hangs:
     TOk r   -> every fuel >= the need returns `rep fl r` (up to Qeq), and EVERY
                fuel either runs out or returns that (partial correctness);
     TErr    -> ValueError (a date conversion of an invalid date), likewise;
     THang   -> with fuel <= the bound of the hanging loop the code runs out of
                fuel: the real `while` needs more iterations than the bound.
   Fuel monotonicity of the translated callees (fmono, proved by a syntax-directed
   tactic over whatever the translator emitted) turns phase 4's "fuel >= bound"
   lemmas into "any fuel: OutOfFuel or the model's value".

   Nothing below depends on the names of temporaries or on the order of
   independent statements of the generated code: the per-loop lemmas are about
   an arbitrary `cond` / `body` pair satisfying semantic hypotheses, which are
   discharged by evaluation on constructor-headed states. *)
From Coq Require Import QArith Qround Qabs Lqa Lia String.
From Iso Require Import Proofs.Tac Spec.Cal Spec.Instant Model.Num Model.Helpers Model.Duration Model.TimePoint
  Model.Truncated gen.CalTables gen.GenCode gen.GenCode2 gen.GenCode4 gen.GenCode6
  Proofs.TablesOk Proofs.DurSpec Proofs.TickSpec Proofs.GenCode4Base Proofs.GenCode4Stmt Proofs.GenCode4Stmt2
  Proofs.GenCode4Tick Proofs.GenCode4Conv Proofs.GenCode4Add Proofs.GenCode4Zone Proofs.GenCode4Ok.
From Iso Require gen.GenCode3 Proofs.GenCode3Ok Proofs.AddSpec Spec.NextMatch Proofs.TruncSpec.
Open Scope Z_scope.

Lemma gen_code6_accepted : translator_ok_code6 = true.
Proof. reflexivity. Qed.

(* ====================================================================== *)
(* 1. fuel monotonicity                                                    *)
(* ====================================================================== *)
(* once a run does not run out of fuel, more fuel changes nothing *)
Definition fmono {A : Type} (F : nat -> exc A) : Prop :=
  forall f f', (f <= f')%nat -> F f <> Raise OutOfFuel -> F f' = F f.

Lemma fmono_const {A} (c : exc A) : fmono (fun _ => c).
Proof. intros f f' _ _. reflexivity. Qed.

Lemma fmono_bind {A B} (F : nat -> exc A) (G : nat -> A -> exc B) :
  fmono F -> (forall a, fmono (fun f => G f a)) -> fmono (fun f => ebind (F f) (G f)).
Proof.
  intros HF HG f f' Hle Hn.
  assert (HF' : F f <> Raise OutOfFuel).
  { intros E. apply Hn. rewrite E. reflexivity. }
  rewrite (HF f f' Hle HF'). destruct (F f) as [a|e]; cbn [ebind] in *; [|reflexivity].
  apply (HG a f f' Hle Hn).
Qed.

Lemma fmono_while {S R} (C : nat -> S -> exc bool) (Bd : nat -> S -> exc (flow S R)) :
  (forall s, fmono (fun f => C f s)) -> (forall s, fmono (fun f => Bd f s)) ->
  forall s, fmono (fun f => while_flow f (C f) (Bd f) s).
Proof.
  intros HC HB.
  assert (G : forall n n' f f' s, (n <= n')%nat -> (f <= f')%nat ->
            while_flow n (C f) (Bd f) s <> Raise OutOfFuel ->
            while_flow n' (C f') (Bd f') s = while_flow n (C f) (Bd f) s).
  { induction n as [|n IH]; intros n' f f' s Hn Hf Hne.
    - destruct n'; cbn [while_flow] in *.
      + assert (HC' : C f s <> Raise OutOfFuel) by (intros E; apply Hne; rewrite E; reflexivity).
        rewrite (HC s f f' Hf HC'). reflexivity.
      + assert (HC' : C f s <> Raise OutOfFuel) by (intros E; apply Hne; rewrite E; reflexivity).
        rewrite (HC s f f' Hf HC'). destruct (C f s) as [[|]|e]; cbn [ebind] in *; try reflexivity.
        exfalso; apply Hne; reflexivity.
    - destruct n' as [|n']; [lia|]. cbn [while_flow] in *.
      assert (HC' : C f s <> Raise OutOfFuel) by (intros E; apply Hne; rewrite E; reflexivity).
      rewrite (HC s f f' Hf HC'). destruct (C f s) as [[|]|e]; cbn [ebind] in *; try reflexivity.
      assert (HB' : Bd f s <> Raise OutOfFuel) by (intros E; apply Hne; rewrite E; reflexivity).
      rewrite (HB s f f' Hf HB'). destruct (Bd f s) as [[s'|s'|r]|e]; cbn [ebind] in *; try reflexivity.
      apply IH; [lia | exact Hf | exact Hne]. }
  intros s f f' Hle Hne. apply G; assumption.
Qed.

Lemma fmono_for {X S R} (l : list X) (Bd : nat -> S -> X -> exc (flow S R)) :
  (forall s x, fmono (fun f => Bd f s x)) -> forall s, fmono (fun f => for_flow l (Bd f) s).
Proof.
  intros HB. induction l as [|x l IH]; intros s f f' Hle Hne; [reflexivity|].
  cbn [for_flow] in *.
  assert (HB' : Bd f s x <> Raise OutOfFuel) by (intros E; apply Hne; rewrite E; reflexivity).
  rewrite (HB s x f f' Hle HB'). destruct (Bd f s x) as [[s'|s'|r]|e]; cbn [ebind] in *; try reflexivity.
  apply IH; assumption.
Qed.

(* syntax-directed: whatever the translator emitted is built from these *)
Create HintDb fmono_db.
Ltac fm_step :=
  lazymatch goal with
  | |- fmono (fun _ => ?c) => apply fmono_const
  | |- fmono (fun f => ebind _ _) => apply fmono_bind; [|intro]
  | |- fmono (fun f => while_flow f _ _ _) => apply fmono_while; intro
  | |- fmono (fun f => for_flow _ _ _) => apply fmono_for; intros
  | |- fmono (fun f => if ?b then _ else _) => destruct b
  | |- fmono (fun f => match ?x with _ => _ end) => destruct x
  | |- fmono _ => solve [auto with fmono_db]
  end.
Ltac fm := cbv zeta; repeat fm_step.

Lemma fmono_dom cal o : fmono (fun f => py_TimePoint__tick_over_day_of_month f cal o).
Proof. unfold py_TimePoint__tick_over_day_of_month. code4_helpers. fm. Qed.
#[global] Hint Resolve fmono_dom : fmono_db.
Lemma fmono_tick cal o : fmono (fun f => py_TimePoint__tick_over f cal o).
Proof. unfold py_TimePoint__tick_over. code4_helpers. fm. Qed.
#[global] Hint Resolve fmono_tick : fmono_db.
Lemma fmono_copy cal o : fmono (fun f => py_TimePoint__copy f cal o).
Proof. unfold py_TimePoint__copy. fm. Qed.
Lemma fmono_is_cal cal o : fmono (fun f => py_TimePoint_get_is_calendar_date f cal o).
Proof. unfold py_TimePoint_get_is_calendar_date. fm. Qed.
Lemma fmono_is_ord cal o : fmono (fun f => py_TimePoint_get_is_ordinal_date f cal o).
Proof. unfold py_TimePoint_get_is_ordinal_date. fm. Qed.
Lemma fmono_is_week cal o : fmono (fun f => py_TimePoint_get_is_week_date f cal o).
Proof. unfold py_TimePoint_get_is_week_date. fm. Qed.
#[global] Hint Resolve fmono_copy fmono_is_cal fmono_is_ord fmono_is_week : fmono_db.
Lemma fmono_get_cal cal o : fmono (fun f => py_TimePoint_get_calendar_date f cal o).
Proof. unfold py_TimePoint_get_calendar_date. code4_helpers. fm. Qed.
Lemma fmono_get_ord cal o : fmono (fun f => py_TimePoint_get_ordinal_date f cal o).
Proof. unfold py_TimePoint_get_ordinal_date. code4_helpers. fm. Qed.
Lemma fmono_get_week cal o : fmono (fun f => py_TimePoint_get_week_date f cal o).
Proof. unfold py_TimePoint_get_week_date. code4_helpers. fm. Qed.
#[global] Hint Resolve fmono_get_cal fmono_get_ord fmono_get_week : fmono_db.
Lemma fmono_to_cal cal o : fmono (fun f => py_TimePoint_to_calendar_date f cal o).
Proof. unfold py_TimePoint_to_calendar_date. code4_helpers. fm. Qed.
Lemma fmono_to_ord cal o : fmono (fun f => py_TimePoint_to_ordinal_date f cal o).
Proof. unfold py_TimePoint_to_ordinal_date. code4_helpers. fm. Qed.
Lemma fmono_to_week cal o : fmono (fun f => py_TimePoint_to_week_date f cal o).
Proof. unfold py_TimePoint_to_week_date. code4_helpers. fm. Qed.
#[global] Hint Resolve fmono_to_cal fmono_to_ord fmono_to_week : fmono_db.
Lemma fmono_add_months cal o n : fmono (fun f => py_TimePoint_add_months f cal o n).
Proof. unfold py_TimePoint_add_months. code4_helpers. fm. Qed.
#[global] Hint Resolve fmono_add_months : fmono_db.
Lemma fmono_add_dur cal o d : fmono (fun f => py_TimePoint___add____Duration f cal o d).
Proof. unfold py_TimePoint___add____Duration. code4_helpers. fm. Qed.
#[global] Hint Resolve fmono_add_dur : fmono_db.
Lemma fmono_to_zone cal o z : fmono (fun f => py_TimePoint_to_time_zone f cal o z).
Proof. unfold py_TimePoint_to_time_zone. code4_helpers. fm. Qed.
Lemma fmono_hms cal o : fmono (fun f => py_TimePoint_get_hour_minute_second f cal o).
Proof. unfold py_TimePoint_get_hour_minute_second. code4_helpers. fm. Qed.
#[global] Hint Resolve fmono_to_zone fmono_hms : fmono_db.
Lemma fmono_normalised cal o : fmono (fun f => py_TimePoint__normalised f cal o).
Proof. unfold py_TimePoint__normalised. code4_helpers. fm. Qed.
Lemma fmono_to_utc cal o : fmono (fun f => py_TimePoint_to_utc f cal o).
Proof. unfold py_TimePoint_to_utc. code4_helpers. fm. Qed.
#[global] Hint Resolve fmono_normalised fmono_to_utc : fmono_db.
(* the code of this phase *)
Lemma fmono_to_hms cal o : fmono (fun f => py_TimePoint_to_hour_minute_second f cal o).
Proof. unfold py_TimePoint_to_hour_minute_second. code4_helpers. code6_helpers. fm. Qed.
#[global] Hint Resolve fmono_to_hms : fmono_db.
Lemma fmono_props cal o : fmono (fun f => py_TimePoint_get_truncated_properties f cal o).
Proof. unfold py_TimePoint_get_truncated_properties. code4_helpers. code6_helpers. fm. Qed.
#[global] Hint Resolve fmono_props : fmono_db.
Lemma fmono_add_truncated cal o a1 a2 a3 a4 a5 a6 a7 a8 a9 a10 :
  fmono (fun f => py_TimePoint_add_truncated f cal o a1 a2 a3 a4 a5 a6 a7 a8 a9 a10).
Proof. unfold py_TimePoint_add_truncated. code4_helpers. code6_helpers. fm. Qed.
#[global] Hint Resolve fmono_add_truncated : fmono_db.

Lemma oof_dec {A} (m : exc A) : {m = Raise OutOfFuel} + {m <> Raise OutOfFuel}.
Proof. destruct m as [a|[]]; try (right; discriminate). left; reflexivity. Qed.

(* "every fuel >= B gives P"  +  monotonicity  =  "every fuel: out of fuel, or P" *)
Lemma any_of_big {A} (F : nat -> exc A) (P : exc A -> Prop) (B : nat) :
  fmono F -> (forall f, (B <= f)%nat -> P (F f)) -> forall f, F f = Raise OutOfFuel \/ P (F f).
Proof.
  intros HM HB f. destruct (oof_dec (F f)) as [E|NE]; [left; exact E|right].
  destruct (Nat.le_gt_cases B f) as [L|L]; [apply HB, L|].
  rewrite <- (HM f B ltac:(lia) NE). apply HB. lia.
Qed.

(* ====================================================================== *)
(* 2. the instrumented model                                               *)
(* ====================================================================== *)
(* IOk p n: the model returns p, the translated code needs fuel n;
   IHang b: a stepping loop is unfinished after its b iterations;
   IErr n: a date conversion failed (fuel n was needed to get there) *)
Inductive ires := IOk (p : tp) (n : Z) | IHang (b : Z) | IErr (n : Z).
Definition erase (r : ires) : tres :=
  match r with IOk p _ => TOk p | IHang _ => THang | IErr _ => TErr end.
Definition ibind (r : ires) (f : tp -> ires) : ires :=
  match r with
  | IOk p n => match f p with
               | IOk q m => IOk q (Z.max n m) | IHang b => IHang b | IErr m => IErr (Z.max n m) end
  | IHang b => IHang b
  | IErr n => IErr n
  end.

Lemma erase_ibind r f r' f' :
  erase r = r' -> (forall p, erase (f p) = f' p) -> erase (ibind r f) = tbind r' f'.
Proof.
  intros <- H. destruct r as [p n|b|n]; cbn [ibind erase tbind]; try reflexivity.
  rewrite <- H. destruct (f p); reflexivity.
Qed.

Lemma erase_ibind_ok p n f : erase (ibind (IOk p n) f) = erase (f p).
Proof. cbn [ibind]. destruct (f p); reflexivity. Qed.

Definition step_cond (get : tp -> option Q) (target : Q) (x : tp) : bool :=
  match get x with Some v => negb (qeqb v target) | None => false end.

(* j guarded iterations of `field += 1; tick_over`: the state reached, the number of
   iterations made, the largest tick_bound met *)
Fixpoint run (md : mode) (get : tp -> option Q) (bump : tp -> tp) (target : Q) (j : nat) (a : tp)
  : tp * nat * Z :=
  match j with
  | O => (a, O, 0)
  | Datatypes.S j =>
    if step_cond get target a then
      let '(r, k, b) := run md get bump target j (tick_over md (bump a)) in
      (r, Datatypes.S k, Z.max (tick_bound md (bump a)) b)
    else (a, O, 0)
  end.

Definition step_until_i (md : mode) (get : tp -> option Q) (bump : tp -> tp) (target : Q) (bound : Z)
  (p : tp) : ires :=
  let '(r, k, b) := run md get bump target (Pos.to_nat (Z.to_pos bound)) p in
  if step_cond get target r then IHang bound else IOk r (Z.max (Z.of_nat k) b).

Lemma run_fst md get bump target : forall j a,
  fst (fst (run md get bump target j a)) =
  Nat.iter j (guarded (step_cond get target) (fun x => tick_over md (bump x))) a.
Proof.
  induction j as [|j IH]; intros a; [reflexivity|].
  rewrite nat_iter_succ_r. cbn [run]. unfold guarded at 2.
  destruct (step_cond get target a) eqn:E.
  - rewrite <- IH. destruct (run md get bump target j (tick_over md (bump a))) as [[r k] b]. reflexivity.
  - rewrite nat_iter_guarded_done by exact E. reflexivity.
Qed.

Lemma step_until_i_erase md get bump target bound p :
  erase (step_until_i md get bump target bound p) = step_until md get bump target bound p.
Proof.
  unfold step_until_i, step_until.
  change (fun x => match get x with Some v => negb (qeqb v target) | None => false end)
    with (step_cond get target).
  cbv zeta. rewrite loop_nat_iter, <- run_fst.
  destruct (run md get bump target _ p) as [[r k] b]. cbn [fst].
  unfold step_cond. destruct (get r) as [v|]; [destruct (negb (qeqb v target))|]; reflexivity.
Qed.

Definition conv_i (o : option date) (p : tp) : ires :=
  match o with Some d => IOk (with_date p d) 0 | None => IErr 0 end.

Definition add_truncated_i (md : mode) (p : tp) (t : trunc) : ires :=
  let minute := match t_hour t, t_min t with Some _, None => Some 0%Q | _, m => m end in
  let second := match t_sec t with
                | Some s => Some s
                | None => match t_hour t, minute with None, None => None | _, _ => Some 0%Q end
                end in
  ibind (IOk (normalised md p) (norm_bound md p)) (fun p =>
  ibind (IOk (match second, minute with None, None => p | _, _ => to_hms p end) 0) (fun p0 =>
  ibind (match second with Some s => step_until_i md tod_sec bump_sec s 61 p0 | None => IOk p0 0 end) (fun p1 =>
  ibind (match minute with Some m => step_until_i md tod_min bump_min m 61 p1 | None => IOk p1 0 end) (fun p2 =>
  ibind (match t_hour t with Some h => step_until_i md tod_hr bump_hr h 25 p2 | None => IOk p2 0 end) (fun p3 =>
  ibind (match t_dow t with
         | Some d => ibind (conv_i (to_week_date md (tdate p3)) p3)
                           (step_until_i md (date_field 0) (bump_date 0) (qz d) 8)
         | None => IOk p3 0 end) (fun p4 =>
  ibind (match t_dom t with
         | Some d => ibind (conv_i (to_calendar_date md (tdate p4)) p4)
                           (step_until_i md (date_field 1) (bump_date 1) (qz d) 63)
         | None => IOk p4 0 end) (fun p5 =>
  ibind (match t_doy t with
         | Some d => ibind (conv_i (to_ordinal_date md (tdate p5)) p5)
                           (step_until_i md (date_field 2) (bump_date 2) (qz d) 2929)
         | None => IOk p5 0 end) (fun p6 =>
  match t_week t with
  | Some w => ibind (conv_i (to_week_date md (tdate p6)) p6)
                    (step_until_i md (date_field 3) (bump_date 3) (qz w) 1500)
  | None => IOk p6 0
  end)))))))).

Lemma conv_i_erase o p : erase (conv_i o p) = conv o p.
Proof. destruct o; reflexivity. Qed.

(* the instrumented function IS the model's add_truncated, plus the fuel figures *)
Lemma add_truncated_i_erase md p t : erase (add_truncated_i md p t) = add_truncated md p t.
Proof.
  unfold add_truncated_i, add_truncated. cbv zeta. rewrite !erase_ibind_ok.
  repeat (apply erase_ibind;
          [ repeat match goal with
                   | |- erase (match ?o with Some _ => _ | None => _ end) = _ => destruct o
                   end;
            first [ reflexivity | apply step_until_i_erase
                  | apply erase_ibind; [apply conv_i_erase | intro; apply step_until_i_erase] ]
          | intro ]).
  destruct (t_week t); [|reflexivity].
  apply erase_ibind; [apply conv_i_erase | intro; apply step_until_i_erase].
Qed.

(* the fuel that suffices / the bound of the hanging loop *)
Definition ires_fuel (r : ires) : Z := match r with IOk _ n | IErr n => n | IHang b => b end.
Definition trunc_fuel (md : mode) (p : tp) (t : trunc) : Z := ires_fuel (add_truncated_i md p t).

(* ====================================================================== *)
(* 3. code against instrumented model: the relation and its composition    *)
(* ====================================================================== *)
Definition agrees (fl : flags) (fuel : nat) (m : exc pyTimePoint) (r : ires) : Prop :=
  match r with
  | IOk q n => (m = Raise OutOfFuel \/ returns_tp fl m q) /\
               ((Z.to_nat n <= fuel)%nat -> returns_tp fl m q)
  | IErr n => (m = Raise OutOfFuel \/ m = Raise ValueError) /\
              ((Z.to_nat n <= fuel)%nat -> m = Raise ValueError)
  | IHang b => (fuel <= Z.to_nat b)%nat -> m = Raise OutOfFuel
  end.

Lemma agrees_bind fl fuel m (k : pyTimePoint -> exc pyTimePoint) r f (P : tp -> Prop) :
  agrees fl fuel m r ->
  (forall q n, r = IOk q n -> P q) ->
  (forall q q', P q -> tp_equiv q' q -> agrees fl fuel (k (rep fl q')) (f q)) ->
  agrees fl fuel (ebind m k) (ibind r f).
Proof.
  intros H HP HK. destruct r as [q n|b|n]; cbn [ibind agrees] in *.
  - destruct H as [Hany Hbig]. specialize (HP q n eq_refl).
    assert (Hk : forall q', tp_equiv q' q -> agrees fl fuel (k (rep fl q')) (f q)) by (intros; apply HK; assumption).
    destruct (f q) as [q2 n2|b2|n2]; cbn [agrees] in *.
    + split.
      * destruct Hany as [->|Hr]; [left; reflexivity|].
        apply returns_tp_elim in Hr. destruct Hr as (q' & -> & Hq). rewrite ebind_ok.
        apply (Hk q' Hq).
      * intros Hf. specialize (Hbig ltac:(lia)).
        apply returns_tp_elim in Hbig. destruct Hbig as (q' & -> & Hq). rewrite ebind_ok.
        apply (Hk q' Hq). lia.
    + intros Hf. destruct Hany as [->|Hr]; [reflexivity|].
      apply returns_tp_elim in Hr. destruct Hr as (q' & -> & Hq). rewrite ebind_ok.
      apply (Hk q' Hq Hf).
    + split.
      * destruct Hany as [->|Hr]; [left; reflexivity|].
        apply returns_tp_elim in Hr. destruct Hr as (q' & -> & Hq). rewrite ebind_ok.
        apply (Hk q' Hq).
      * intros Hf. specialize (Hbig ltac:(lia)).
        apply returns_tp_elim in Hbig. destruct Hbig as (q' & -> & Hq). rewrite ebind_ok.
        apply (Hk q' Hq). lia.
  - intros Hf. rewrite (H Hf). reflexivity.
  - destruct H as [Hany Hbig]. split.
    + destruct Hany as [->| ->]; [left|right]; reflexivity.
    + intros Hf. rewrite (Hbig Hf). reflexivity.
Qed.

Lemma agrees_ret fl fuel q q' : tp_equiv q' q -> agrees fl fuel (Ok (rep fl q')) (IOk q 0).
Proof.
  intros H. cbn [agrees]. split; [right|intros _]; apply returns_tp_intro with q'; auto.
Qed.

(* `v <- m ;; Ok v` *)
Lemma agrees_bind_ret fl fuel m r : agrees fl fuel m r -> agrees fl fuel (ebind m (fun v => Ok v)) r.
Proof.
  replace (ebind m (fun v => Ok v)) with m; [auto|]. destruct m; reflexivity.
Qed.

(* a callee known by a "fuel >= bound" lemma and monotone in the fuel *)
Lemma agrees_callee fl (F : nat -> exc pyTimePoint) q n :
  fmono F -> (forall f, (Z.to_nat n <= f)%nat -> returns_tp fl (F f) q) ->
  forall fuel, agrees fl fuel (F fuel) (IOk q n).
Proof.
  intros HM HB fuel. cbn [agrees]. split; [|apply HB].
  apply (any_of_big F (fun m => returns_tp fl m q) (Z.to_nat n) HM HB).
Qed.

(* ====================================================================== *)
(* 4. one stepping loop                                                    *)
(* ====================================================================== *)
Section LoopStage.
  Context {R : Type}.
  Variables (md : mode) (fl : flags) (fuel : nat).
  Variables (cond : pyTimePoint -> exc bool) (body : pyTimePoint -> exc (flow pyTimePoint R)).
  Variables (get : tp -> option Q) (bump : tp -> tp) (target : Q) (Inv : tp -> Prop).
  Let mcond := step_cond get target.
  Let mstep := fun x => tick_over md (bump x).
  Let stepped (m : exc (flow pyTimePoint R)) (x : tp) : Prop :=
    exists q', m = Ok (Next (rep fl q')) /\ tp_equiv q' x.

  Hypothesis Hc : forall q a, tp_equiv q a -> Inv a -> cond (rep fl q) = Ok (mcond a).
  Hypothesis Hb : forall q a, tp_equiv q a -> Inv a -> mcond a = true ->
    (body (rep fl q) = Raise OutOfFuel \/ stepped (body (rep fl q)) (mstep a)) /\
    ((Z.to_nat (tick_bound md (bump a)) <= fuel)%nat -> stepped (body (rep fl q)) (mstep a)).
  Hypothesis Hi : forall a, Inv a -> mcond a = true -> Inv (mstep a).

  Lemma run_inv : forall j a r k b, Inv a -> run md get bump target j a = (r, k, b) -> Inv r.
  Proof.
    induction j as [|j IH]; intros a r k b HI E; cbn [run] in E.
    - injection E as <- _ _. exact HI.
    - fold mcond in E. destruct (mcond a) eqn:Em.
      + destruct (run md get bump target j (tick_over md (bump a))) as [[r1 k1] b1] eqn:E1.
        injection E as <- _ _. eapply IH; [|exact E1]. apply Hi; assumption.
      + injection E as <- _ _. exact HI.
  Qed.

  (* enough fuel: the loop exits in the model's state *)
  Lemma loop_big : forall j n q a r k b, tp_equiv q a -> Inv a ->
    run md get bump target j a = (r, k, b) -> mcond r = false ->
    (k <= n)%nat -> (Z.to_nat b <= fuel)%nat ->
    stepped (while_flow n cond body (rep fl q)) r.
  Proof.
    induction j as [|j IH]; intros n q a r k b Hq HI E Hr Hk Hf; cbn [run] in E.
    - injection E as <- <- <-. exists q. split; [|exact Hq].
      apply while_flow_false. rewrite (Hc q a Hq HI), Hr. reflexivity.
    - fold mcond in E. destruct (mcond a) eqn:Em.
      + destruct (run md get bump target j (tick_over md (bump a))) as [[r1 k1] b1] eqn:E1.
        injection E as <- <- <-. destruct n as [|n]; [lia|].
        destruct (Hb q a Hq HI Em) as [_ Hbig].
        destruct (Hbig ltac:(lia)) as (q1 & Eb & Hq1).
        destruct (IH n q1 (mstep a) r1 k1 b1 Hq1 (Hi a HI Em) E1 Hr ltac:(lia) ltac:(lia)) as (q2 & Ew & Hq2).
        exists q2. split; [|exact Hq2].
        cbn [while_flow]. rewrite (Hc q a Hq HI), Em. cbn [ebind]. rewrite Eb. cbn [ebind]. exact Ew.
      + injection E as <- <- <-. exists q. split; [|exact Hq].
        apply while_flow_false. rewrite (Hc q a Hq HI), Em. reflexivity.
  Qed.

  (* any fuel: out of fuel, or the loop exits in the model's state *)
  Lemma loop_any : forall j n q a r k b, tp_equiv q a -> Inv a ->
    run md get bump target j a = (r, k, b) -> mcond r = false ->
    while_flow n cond body (rep fl q) = Raise OutOfFuel \/
    stepped (while_flow n cond body (rep fl q)) r.
  Proof.
    induction j as [|j IH]; intros n q a r k b Hq HI E Hr; cbn [run] in E.
    - injection E as <- <- <-. right. exists q. split; [|exact Hq].
      apply while_flow_false. rewrite (Hc q a Hq HI), Hr. reflexivity.
    - fold mcond in E. destruct (mcond a) eqn:Em.
      + destruct (run md get bump target j (tick_over md (bump a))) as [[r1 k1] b1] eqn:E1.
        injection E as <- <- <-.
        destruct n as [|n]; [left; cbn [while_flow]; rewrite (Hc q a Hq HI), Em; reflexivity|].
        cbn [while_flow]. rewrite (Hc q a Hq HI), Em. cbn [ebind].
        destruct (Hb q a Hq HI Em) as [[Eo|(q1 & Eb & Hq1)] _]; [left; rewrite Eo; reflexivity|].
        rewrite Eb. cbn [ebind].
        apply (IH n q1 (mstep a) r1 k1 b1 Hq1 (Hi a HI Em) E1 Hr).
      + injection E as <- <- <-. right. exists q. split; [|exact Hq].
        apply while_flow_false. rewrite (Hc q a Hq HI), Em. reflexivity.
  Qed.

  (* the model's loop is unfinished after j iterations: so is the code's, with any
     fuel up to j *)
  Lemma loop_hang : forall j n q a r k b, tp_equiv q a -> Inv a ->
    run md get bump target j a = (r, k, b) -> mcond r = true -> (n <= j)%nat ->
    while_flow n cond body (rep fl q) = Raise OutOfFuel.
  Proof.
    induction j as [|j IH]; intros n q a r k b Hq HI E Hr Hn; cbn [run] in E.
    - injection E as <- <- <-. assert (n = O) as -> by lia.
      cbn [while_flow]. rewrite (Hc q a Hq HI), Hr. reflexivity.
    - fold mcond in E. destruct (mcond a) eqn:Em.
      + destruct (run md get bump target j (tick_over md (bump a))) as [[r1 k1] b1] eqn:E1.
        injection E as <- <- <-.
        destruct n as [|n]; cbn [while_flow]; rewrite (Hc q a Hq HI), Em; cbn [ebind]; [reflexivity|].
        destruct (Hb q a Hq HI Em) as [[Eo|(q1 & Eb & Hq1)] _]; [rewrite Eo; reflexivity|].
        rewrite Eb. cbn [ebind].
        apply (IH n q1 (mstep a) r1 k1 b1 Hq1 (Hi a HI Em) E1 Hr). lia.
      + injection E as <- <- <-. congruence.
  Qed.

  (* the three facts about the `while` of the code, for the model's step_until_i *)
  Lemma loop_stage bound p' p : tp_equiv p' p -> Inv p ->
    let W := while_flow fuel cond body (rep fl p') in
    match step_until_i md get bump target bound p with
    | IOk q n => (W = Raise OutOfFuel \/ stepped W q) /\
                 ((Z.to_nat n <= fuel)%nat -> stepped W q) /\ Inv q
    | IHang b => (fuel <= Z.to_nat b)%nat -> W = Raise OutOfFuel
    | IErr _ => False
    end.
  Proof.
    intros Hq HI W. unfold step_until_i.
    destruct (run md get bump target (Pos.to_nat (Z.to_pos bound)) p) as [[r k] b] eqn:E.
    fold mcond. destruct (mcond r) eqn:Er.
    - intros Hf. apply (loop_hang _ fuel p' p r k b Hq HI E Er).
      destruct bound; cbn [Z.to_pos Z.to_nat] in *; lia.
    - split; [|split].
      + apply (loop_any _ fuel p' p r k b Hq HI E Er).
      + intros Hf. apply (loop_big _ fuel p' p r k b Hq HI E Er); lia.
      + apply (run_inv _ p r k b HI E).
  Qed.
End LoopStage.

(* ====================================================================== *)
(* 5. the stages of add_truncated                                          *)
(* ====================================================================== *)
(* the loop of the code followed by whatever it does with the final state *)
Lemma loop_agrees {R} md fl fuel cond (body : pyTimePoint -> exc (flow pyTimePoint R)) post
  get bump target (Inv : tp -> Prop) bound p' p :
  (forall s, post (Next s) = Ok s) ->
  (forall q a, tp_equiv q a -> Inv a -> cond (rep fl q) = Ok (step_cond get target a)) ->
  (forall q a, tp_equiv q a -> Inv a -> step_cond get target a = true ->
    (body (rep fl q) = Raise OutOfFuel \/
     exists q', body (rep fl q) = Ok (Next (rep fl q')) /\ tp_equiv q' (tick_over md (bump a))) /\
    ((Z.to_nat (tick_bound md (bump a)) <= fuel)%nat ->
     exists q', body (rep fl q) = Ok (Next (rep fl q')) /\ tp_equiv q' (tick_over md (bump a)))) ->
  (forall a, Inv a -> step_cond get target a = true -> Inv (tick_over md (bump a))) ->
  tp_equiv p' p -> Inv p ->
  agrees fl fuel (ebind (while_flow fuel cond body (rep fl p')) post)
         (step_until_i md get bump target bound p).
Proof.
  intros Hpost Hc Hb Hi Hq HI.
  pose proof (loop_stage md fl fuel cond body get bump target Inv Hc Hb Hi bound p' p Hq HI) as H.
  cbv zeta in H. destruct (step_until_i md get bump target bound p) as [q n|b|n]; cbn [agrees].
  - destruct H as (Hany & Hbig & HIq). split.
    + destruct Hany as [->|(q' & -> & Hq')]; [left; reflexivity|right].
      rewrite ebind_ok, Hpost. apply returns_tp_intro with q'; auto.
    + intros Hf. destruct (Hbig Hf) as (q' & -> & Hq').
      rewrite ebind_ok, Hpost. apply returns_tp_intro with q'; auto.
  - intros Hf. rewrite (H Hf). reflexivity.
  - contradiction.
Qed.

(* the invariant of a loop holds of what the model's loop returns *)
Lemma step_until_i_inv md get bump target (Inv : tp -> Prop) bound p q n :
  (forall a, Inv a -> step_cond get target a = true -> Inv (tick_over md (bump a))) ->
  Inv p -> step_until_i md get bump target bound p = IOk q n -> Inv q.
Proof.
  intros Hi HI. unfold step_until_i.
  destruct (run md get bump target (Pos.to_nat (Z.to_pos bound)) p) as [[r k] b] eqn:E.
  destruct (step_cond get target r); [discriminate|]. intros E'; injection E' as <- _.
  exact (run_inv md get bump target Inv Hi _ p r k b HI E).
Qed.

Lemma tick_agrees md fl p p' fuel : tp_equiv p' p -> month_ok p ->
  agrees fl fuel (py_TimePoint__tick_over fuel (cal_of md) (rep fl p')) (IOk (tick_over md p) (tick_bound md p)).
Proof.
  intros Hq Hm.
  apply (agrees_callee fl (fun f => py_TimePoint__tick_over f (cal_of md) (rep fl p'))); [apply fmono_tick|].
  intros f Hf. apply gen4_tick_over; assumption.
Qed.

(* the body of a stepping loop once it is brought to `_tick_over` of an updated state *)
Lemma tick_body {R} md fl fuel p1' p1 :
  tp_equiv p1' p1 -> month_ok p1 ->
  let m := ebind (py_TimePoint__tick_over fuel (cal_of md) (rep fl p1'))
                 (fun v => Ok (Next (R := R) v)) in
  (m = Raise OutOfFuel \/ exists q', m = Ok (Next (rep fl q')) /\ tp_equiv q' (tick_over md p1)) /\
  ((Z.to_nat (tick_bound md p1) <= fuel)%nat ->
   exists q', m = Ok (Next (rep fl q')) /\ tp_equiv q' (tick_over md p1)).
Proof.
  intros Hq Hm m. destruct (tick_agrees md fl p1 p1' fuel Hq Hm) as [Hany Hbig]. subst m. split.
  - destruct Hany as [->|Hr]; [left; reflexivity|right].
    apply returns_tp_elim in Hr. destruct Hr as (q' & -> & Hq'). exists q'. split; [reflexivity|exact Hq'].
  - intros Hf. specialize (Hbig Hf).
    apply returns_tp_elim in Hbig. destruct Hbig as (q' & -> & Hq'). exists q'. split; [reflexivity|exact Hq'].
Qed.

(* a date conversion of the code, given its phase-4 equation *)
Lemma conv_agrees md fl fuel (code : nat -> pyCalendar -> pyTimePoint -> exc pyTimePoint)
  (mconv : mode -> date -> option date) p' p :
  (forall md fl p fuel, code fuel (cal_of md) (rep fl p) =
     match mconv md (tdate p) with Some d => Ok (rep fl (with_date p d)) | None => Raise ValueError end) ->
  tp_equiv p' p ->
  agrees fl fuel (code fuel (cal_of md) (rep fl p')) (conv_i (mconv md (tdate p)) p).
Proof.
  intros H Hq. rewrite H. assert (E : tdate p' = tdate p) by apply Hq. rewrite E.
  destruct (mconv md (tdate p)) as [d|]; cbn [conv_i agrees].
  - split; [right|intros _]; apply returns_tp_intro with (with_date p' d); auto using tp_equiv_with_date.
  - split; [right|intros _]; reflexivity.
Qed.

(* ---------- to_hour_minute_second ---------- *)
Lemma set_hms_rep fl p h m s :
  set_second_of_minute (set_minute_of_hour (set_hour_of_day (rep fl p) (Some h)) (Some m)) (Some s) =
  rep fl (with_tod p (HMS h m s)).
Proof. destruct p as [[?|?|?] [?|?|?] ?]; reflexivity. Qed.

Theorem gen6_to_hour_minute_second md fl p p' fuel : tp_equiv p' p ->
  returns_tp fl (py_TimePoint_to_hour_minute_second fuel (cal_of md) (rep fl p')) (to_hms p).
Proof.
  intros Hq. unfold py_TimePoint_to_hour_minute_second. rewrite gen4_copy, ebind_ok. cbv zeta.
  destruct (gen4_get_hms md fl p p' fuel Hq) as (h & m & s & -> & Hhms). rewrite ebind_ok.
  cbv beta iota. rewrite set_hms_rep. unfold to_hms.
  destruct (get_hour_minute_second (ttod p)) as [[h0 m0] s0].
  apply returns_tp_intro with (with_tod p' (HMS h m s)); [reflexivity|].
  apply tp_equiv_with_tod; [exact Hq | exact Hhms].
Qed.

Lemma to_hms_agrees md fl p p' fuel : tp_equiv p' p ->
  agrees fl fuel (py_TimePoint_to_hour_minute_second fuel (cal_of md) (rep fl p')) (IOk (to_hms p) 0).
Proof.
  intros Hq. cbn [agrees]. split; [right|intros _]; apply gen6_to_hour_minute_second; exact Hq.
Qed.

(* ---------- invariants of the loops ---------- *)
Definition is_hms (p : tp) : Prop := match ttod p with HMS _ _ _ => True | _ => False end.
Definition inv_time (p : tp) : Prop := month_ok p /\ is_hms p.
Definition inv_date (k : Z) (p : tp) : Prop := month_ok p /\ rep_kind (tdate p) = k.

Lemma tick_time_kind t : tod_kind (fst (tick_time t)) = tod_kind t.
Proof.
  destruct t as [h m s|h m|h]; cbv beta iota zeta delta [tick_time];
    repeat match goal with |- context [qdivmod ?a ?b] => destruct (qdivmod a b) end; reflexivity.
Qed.

Lemma is_hms_tick md p : is_hms p -> is_hms (tick_over md p).
Proof.
  unfold is_hms, tick_over. pose proof (tick_time_kind (ttod p)) as K.
  destruct (tick_time (ttod p)) as [t' nd]. cbn [fst ttod] in *.
  destruct (ttod p), t'; cbn [tod_kind] in K; try discriminate; auto.
Qed.

Lemma tick_date_kind md d : rep_kind (tick_date md d) = rep_kind d.
Proof.
  destruct d as [y m d|y doy|y w d]; cbn [tick_date].
  - destruct (tick_month _) as [[? ?] ?]. reflexivity.
  - destruct (tick_doy _ _) as [? ?]. reflexivity.
  - destruct (tick_woy _ _) as [? ?]. reflexivity.
Qed.

Lemma kind_tick md p : rep_kind (tdate (tick_over md p)) = rep_kind (tdate p).
Proof.
  unfold tick_over. destruct (tick_time (ttod p)) as [t' nd]. cbn [tdate].
  rewrite tick_date_kind, add_days_raw_kind. reflexivity.
Qed.

Lemma qeqb_qz a b : qeqb (qz a) (qz b) = (a =? b).
Proof.
  unfold qeqb, qz. apply Bool.eq_true_iff_eq. rewrite Qeq_bool_iff, Z.eqb_eq.
  unfold Qeq, inject_Z. cbn [Qnum Qden]. lia.
Qed.

(* ---------- the opening: 24:00 is normalised ---------- *)
Lemma norm_agrees md fl p p' fuel : tp_equiv p' p -> month_ok p ->
  agrees fl fuel
    (if opt_eqb Qeq_bool (s_hour_of_day (rep fl p')) (Some (inject_Z HOURS_IN_DAY))
     then ebind (py_TimePoint__tick_over fuel (cal_of md) (rep fl p')) (fun v => Ok v)
     else Ok (rep fl p'))
    (IOk (normalised md p) (norm_bound md p)).
Proof.
  intros Hq Hm. consts4. rewrite s_hour_of_day_rep. cbn [opt_eqb].
  assert (Eh : Qeq_bool (tod_hour (ttod p')) (inject_Z 24) = qeqb (tod_hour (ttod p)) 24).
  { unfold qeqb. apply qeqb_comp; [apply tod_hour_equiv, Hq | reflexivity]. }
  rewrite Eh. unfold normalised, norm_bound. destruct (qeqb (tod_hour (ttod p)) 24).
  - apply agrees_bind_ret. apply tick_agrees; assumption.
  - apply agrees_ret. exact Hq.
Qed.

(* the same test with its operands the other way round (`24 == new._hour_of_day`) *)
Lemma opt_eqb_Qeq_sym a b : opt_eqb Qeq_bool a b = opt_eqb Qeq_bool b a.
Proof.
  destruct a as [x|], b as [y|]; cbn [opt_eqb]; try reflexivity.
  apply Bool.eq_true_iff_eq. rewrite !Qeq_bool_iff. split; intros H; symmetry; exact H.
Qed.
Lemma norm_agrees_sym md fl p p' fuel : tp_equiv p' p -> month_ok p ->
  agrees fl fuel
    (if opt_eqb Qeq_bool (Some (inject_Z HOURS_IN_DAY)) (s_hour_of_day (rep fl p'))
     then ebind (py_TimePoint__tick_over fuel (cal_of md) (rep fl p')) (fun v => Ok v)
     else Ok (rep fl p'))
    (IOk (normalised md p) (norm_bound md p)).
Proof. intros Hq Hm. rewrite opt_eqb_Qeq_sym. apply norm_agrees; assumption. Qed.

Lemma normalised_agrees md fl p p' fuel : tp_equiv p' p -> month_ok p ->
  agrees fl fuel (py_TimePoint__normalised fuel (cal_of md) (rep fl p')) (IOk (normalised md p) (norm_bound md p)).
Proof.
  intros Hq Hm.
  apply (agrees_callee fl (fun f => py_TimePoint__normalised f (cal_of md) (rep fl p'))); [apply fmono_normalised|].
  intros f Hf. apply gen4_normalised; assumption.
Qed.

(* ---------- the invariants are kept by one iteration ---------- *)
Lemma inv_time_sec md s a : inv_time a -> step_cond tod_sec s a = true -> inv_time (tick_over md (bump_sec a)).
Proof.
  intros [Hm Hk] _. destruct a as [d [h m x|h m|h] z]; try contradiction.
  split; [apply month_ok_tick, Hm | apply is_hms_tick; exact I].
Qed.
Lemma inv_time_min md s a : inv_time a -> step_cond tod_min s a = true -> inv_time (tick_over md (bump_min a)).
Proof.
  intros [Hm Hk] _. destruct a as [d [h m x|h m|h] z]; try contradiction.
  split; [apply month_ok_tick, Hm | apply is_hms_tick; exact I].
Qed.
Lemma inv_time_hr md s a : inv_time a -> step_cond tod_hr s a = true -> inv_time (tick_over md (bump_hr a)).
Proof.
  intros [Hm Hk] _. destruct a as [d [h m x|h m|h] z]; try contradiction.
  split; [apply month_ok_tick, Hm | apply is_hms_tick; exact I].
Qed.
Lemma inv_date_step md k j s a : (j = 0 \/ j = 1 \/ j = 2 \/ j = 3) ->
  inv_date k a -> step_cond (date_field j) s a = true -> inv_date k (tick_over md (bump_date j a)).
Proof.
  intros Hj [Hm Hk] _.
  assert (H : month_ok (bump_date j a) /\ rep_kind (tdate (bump_date j a)) = k).
  { destruct a as [[y m d|y d|y w d] t z], Hj as [->|[->|[->| ->]]]; cbn in *; auto. }
  destruct H as [H1 H2]. split; [apply month_ok_tick, H1 | rewrite kind_tick; exact H2].
Qed.

(* what the date conversions establish *)
Lemma conv_week_inv md p q n : conv_i (to_week_date md (tdate p)) p = IOk q n -> inv_date 2 q.
Proof.
  unfold to_week_date. destruct (get_week_date md (tdate p)) as [[[y w] d]|]; [|discriminate].
  cbn [conv_i]. intros E; injection E as <- _. split; [exact I|reflexivity].
Qed.
Lemma conv_ord_inv md p q n : conv_i (to_ordinal_date md (tdate p)) p = IOk q n -> inv_date 1 q.
Proof.
  unfold to_ordinal_date. destruct (get_ordinal_date md (tdate p)) as [[y d]|]; [|discriminate].
  cbn [conv_i]. intros E; injection E as <- _. split; [exact I|reflexivity].
Qed.
Lemma conv_cal_inv md p q n : month_ok p -> conv_i (to_calendar_date md (tdate p)) p = IOk q n -> inv_date 0 q.
Proof.
  intros Hm. unfold to_calendar_date.
  destruct (get_calendar_date md (tdate p)) as [[[y m] d]|] eqn:E; [|discriminate].
  cbn [conv_i]. intros E'; injection E' as <- _. split; [|reflexivity].
  unfold month_ok. cbn [with_date tdate]. eapply get_calendar_date_month; [exact Hm | exact E].
Qed.

Lemma inv_time_to_hms p : month_ok p -> inv_time (to_hms p).
Proof.
  intros H. unfold to_hms. destruct (get_hour_minute_second (ttod p)) as [[h m] s]. split; [exact H | exact I].
Qed.

(* ---------- evaluation of the generated code on constructor-headed states ---------- *)
Ltac run6_in B :=
  eval cbv beta iota zeta delta [rep rep_zone tdate ttod tzone zh zm f_digits f_tprop f_tdump f_dump
    ebind need is_none negb andb orb opt_eqb
    s_num_expanded_year_digits s_year s_month_of_year s_day_of_year s_day_of_month s_day_of_week
    s_week_of_year s_hour_of_day s_minute_of_hour s_second_of_minute s_truncated s_truncated_property
    s_truncated_dump_format s_dump_format s_time_zone
    set_num_expanded_year_digits set_year set_month_of_year set_day_of_year set_day_of_month
    set_day_of_week set_week_of_year set_hour_of_day set_minute_of_hour set_second_of_minute
    set_truncated set_truncated_property set_truncated_dump_format set_dump_format set_time_zone] in B.

(* split a hypothesis tp_equiv q a /\ invariant into constructor-headed points *)
Ltac open_points q a Hqa :=
  let Hd := fresh "Hd" in let Ht := fresh "Ht" in let Hz := fresh "Hz" in
  destruct Hqa as (Hd & Ht & Hz);
  destruct a as [da ta [z1 z2]], q as [dq tq zq]; cbn [tdate ttod tzone] in Hd, Ht, Hz; subst dq zq;
  destruct ta as [h m s|h m|h], tq as [h' m' s'|h' m'|h']; cbn [tod_equiv] in Ht; try (exfalso; exact Ht);
  destruct da as [y mo d|y d|y w d];
  repeat match goal with H : _ /\ _ |- _ => destruct H end.

Lemma Qeq_bool_comm a b : Qeq_bool a b = Qeq_bool b a.
Proof. apply Bool.eq_true_iff_eq. rewrite !Qeq_bool_iff. split; intros H; symmetry; exact H. Qed.

(* cond of the code = cond of the model *)
Ltac cond_tac :=
  match goal with |- ?C = Ok ?M =>
    let C' := run6_in C in change C with C';
    cbv beta iota delta [step_cond tod_sec tod_min tod_hr tod_hour date_field ttod tdate];
    rewrite ?qeqb_qz; unfold qeqb;
    repeat match goal with
           | H : (?x == ?y)%Q |- context [Qeq_bool ?x ?t] => rewrite (qeqb_comp x y t t H (Qeq_refl t))
           | H : (?x == ?y)%Q |- context [Qeq_bool ?t ?x] => rewrite (qeqb_comp t t x y (Qeq_refl t) H)
           end;
    (* `a != b` or `b != a` *)
    first [ reflexivity | rewrite Qeq_bool_comm; reflexivity | rewrite Z.eqb_sym; reflexivity ]
  end.

Ltac tod_eq := cbn [tod_equiv]; unfold qadd; rewrite ?Qred_correct; repeat split; lra.

(* body of the code = _tick_over of the model's bumped point *)
Ltac body_tac md fl fuel Hmo :=
  match goal with |- (?B = _ \/ _) /\ _ =>
    let B' := run6_in B in
    match B' with context [py_TimePoint__tick_over _ _ ?R] =>
      let q := abs4_eval R in
      lazymatch q with Some ?p1' =>
        change B with (ebind (py_TimePoint__tick_over fuel (cal_of md) (rep fl p1'))
                             (fun v => Ok (Next (R := Empty_set) v)));
        refine (tick_body md fl fuel p1' _ _ _);
        [ unfold tp_equiv; cbn [bump_sec bump_min bump_hr bump_date add_hours with_tod with_date tdate ttod tzone];
          split; [first [reflexivity | f_equal; lia] | split; [first [assumption | tod_eq] | reflexivity]]
        | exact Hmo ]
      end
    end
  end.

Lemma agrees_bind_triv fl fuel m (K : pyTimePoint -> exc pyTimePoint) r :
  agrees fl fuel m r -> (forall o, K o = Ok o) -> agrees fl fuel (ebind m K) r.
Proof.
  intros H HK. replace (ebind m K) with m; [exact H|]. destruct m; cbn [ebind]; [rewrite HK|]; reflexivity.
Qed.

Lemma date_stage_inv md (mconv : mode -> date -> option date) j k tgt bound p q n :
  (j = 0 \/ j = 1 \/ j = 2 \/ j = 3) ->
  (forall q1 n1, conv_i (mconv md (tdate p)) p = IOk q1 n1 -> inv_date k q1) ->
  ibind (conv_i (mconv md (tdate p)) p) (step_until_i md (date_field j) (bump_date j) tgt bound) = IOk q n ->
  month_ok q.
Proof.
  intros Hj Hc. destruct (conv_i (mconv md (tdate p)) p) as [q1 n1|b|n1]; cbn [ibind]; try discriminate.
  destruct (step_until_i md (date_field j) (bump_date j) tgt bound q1) as [q2 n2|b|n2] eqn:E; try discriminate.
  intros E'; injection E' as <- _.
  refine (proj1 (step_until_i_inv md _ _ tgt (inv_date k) bound q1 q2 n2 _ (Hc q1 n1 eq_refl) E)).
  intros a. apply inv_date_step. exact Hj.
Qed.

(* the stepping loop of one field *)
Ltac loop_tac md fl fuel INV INVSTEP :=
  cbn [need]; rewrite ?ebind_ok; cbv beta zeta;
  try (apply agrees_bind_ret);
  match goal with
  | Hq : tp_equiv ?p' ?p, HI : INV ?p
    |- agrees _ _ (ebind (while_flow _ ?C ?B (rep _ ?p')) ?post) (step_until_i _ ?get ?bump ?tgt ?bound ?p) =>
    refine (loop_agrees md fl fuel C B post get bump tgt INV bound p' p _ _ _ _ Hq HI);
    [ intros; reflexivity
    | let q := fresh "q" in let a := fresh "a" in let Hqa := fresh "Hqa" in let Hinv := fresh "Hinv" in
      intros q a Hqa Hinv; destruct Hinv as [Hmo Hk]; unfold is_hms in Hk; open_points q a Hqa;
      cbn [ttod tdate rep_kind] in Hk; try (exfalso; exact Hk); try discriminate Hk; cond_tac
    | let q := fresh "q" in let a := fresh "a" in let Hqa := fresh "Hqa" in let Hinv := fresh "Hinv" in
      intros q a Hqa Hinv _; destruct Hinv as [Hmo Hk]; unfold is_hms in Hk; open_points q a Hqa;
      cbn [ttod tdate rep_kind] in Hk; try (exfalso; exact Hk); try discriminate Hk; body_tac md fl fuel Hmo
    | INVSTEP ]
  end.

Ltac time_stage md fl fuel INVSTEP :=
  match goal with
  | Hq : tp_equiv ?p' ?p, HI : inv_time ?p |- _ =>
    eapply agrees_bind with (P := inv_time);
    [ first [ apply agrees_ret; exact Hq
            | loop_tac md fl fuel inv_time ltac:(intros; eapply INVSTEP; eassumption) ]
    | let q := fresh "q" in let n := fresh "n" in
      intros q n;
      first [ apply step_until_i_inv with (Inv := inv_time); [intros ?; apply INVSTEP | exact HI]
            | let E := fresh in intros E; injection E as <- _; exact HI ]
    | clear p p' HI Hq; intros p p' HI Hq ]
  end.

Ltac conv_inv_tac Hm E :=
  first [ apply (conv_week_inv _ _ _ _ E) | apply (conv_ord_inv _ _ _ _ E) | apply (conv_cal_inv _ _ _ _ Hm E) ].
(* one optional day-designator stage: convert, then step *)
Ltac date_core md fl fuel x CODE MCONV GEN4 k :=
  match goal with
  | Hq : tp_equiv ?p' ?p, Hm : month_ok ?p |- _ =>
    destruct x as [x|]; cbn [is_none negb need]; rewrite ?ebind_ok;
    [ eapply agrees_bind with (P := inv_date k);
      [ apply (conv_agrees md fl fuel CODE MCONV p' p GEN4 Hq)
      | let q := fresh "q" in let n := fresh "n" in let E := fresh "E" in
        intros q n E; conv_inv_tac Hm E
      | let q := fresh "q" in let q' := fresh "q'" in let HI' := fresh "HI'" in let Hq' := fresh "Hq'" in
        intros q q' HI' Hq';
        loop_tac md fl fuel (inv_date k) ltac:(intros ?; apply inv_date_step; lia) ]
    | apply agrees_ret; exact Hq ]
  end.
Ltac date_stage md fl fuel x CODE MCONV GEN4 k j :=
  match goal with
  | Hq : tp_equiv ?p' ?p, Hm : month_ok ?p |- _ =>
    eapply agrees_bind with (P := month_ok);
    [ date_core md fl fuel x CODE MCONV GEN4 k
    | let q := fresh "q" in let n := fresh "n" in
      intros q n; destruct x;
      [ apply (date_stage_inv md MCONV j k); [lia | let E := fresh "E" in intros ? ? E; conv_inv_tac Hm E]
      | let E := fresh in intros E; injection E as <- _; exact Hm ]
    | clear p p' Hm Hq; intros p p' Hm Hq ]
  end.

Lemma agrees_ibind0 fl fuel m p f : agrees fl fuel m (f p) -> agrees fl fuel m (ibind (IOk p 0) f).
Proof.
  cbn [ibind]. destruct (f p) as [q n|b|n]; cbn [agrees]; auto.
  - intros [H1 H2]. split; [exact H1|]. intros Hf. apply H2. lia.
  - intros [H1 H2]. split; [exact H1|]. intros Hf. apply H2. lia.
Qed.

Theorem gen6_add_truncated md fl p p' t fuel : tp_equiv p' p -> month_ok p ->
  agrees fl fuel (py_TimePoint_add_truncated fuel (cal_of md) (rep fl p') None None None
     (t_week t) (t_doy t) (t_dom t) (t_dow t) (t_hour t) (t_min t) (t_sec t)) (add_truncated_i md p t).
Proof.
  intros Hq Hm.
  unfold py_TimePoint_add_truncated, add_truncated_i. code4_helpers. code6_helpers. cbv beta zeta.
  (* the opening: `new = self._copy(); if new._hour_of_day == 24: new._tick_over()`, or the same
     thing spelled `self._normalised()._copy()` *)
  (* the defaulting of minute / second from the given time fields is independent of the opening
     and may come before or after it: decide the three time fields first *)
  destruct t as [th tm ts tdow tdom tdoy tw tz]. cbn [t_hour t_min t_sec t_dow t_dom t_doy t_week].
  destruct th as [th|], tm as [tm|], ts as [ts|];
    repeat (progress (cbn [is_none negb andb orb]; rewrite ?ebind_ok)); cbv zeta.
  all: first
  [ rewrite gen4_copy, ebind_ok; cbv zeta;
    eapply agrees_bind with (P := month_ok);
    [ first [apply norm_agrees | apply norm_agrees_sym]; assumption
    | intros q n E; injection E as <- _; apply month_ok_normalised, Hm
    | clear p p' Hq Hm; intros p p' Hm Hq ]
  | eapply agrees_bind with (P := month_ok);
    [ apply normalised_agrees; assumption
    | intros q n E; injection E as <- _; apply month_ok_normalised, Hm
    | clear p p' Hq Hm; intros p p' Hm Hq; rewrite ?gen4_copy, ?ebind_ok; cbv zeta ] ].
    all: repeat (progress (cbn [is_none negb andb orb]; rewrite ?ebind_ok)); cbv zeta.
    8: do 4 apply agrees_ibind0.
    1-7: (eapply agrees_bind with (P := inv_time);
          [ apply agrees_bind_ret, to_hms_agrees, Hq
          | intros q n E; injection E as <- _; apply inv_time_to_hms, Hm
          | clear p p' Hq Hm; intros p p' HI Hq]).
    1-7: time_stage md fl fuel inv_time_sec.
    1-7: time_stage md fl fuel inv_time_min.
    1-7: time_stage md fl fuel inv_time_hr.
    1-7: destruct HI as [Hm _].
    all: date_stage md fl fuel tdow py_TimePoint_to_week_date to_week_date gen4_to_week_date 2 0.
    all: date_stage md fl fuel tdom py_TimePoint_to_calendar_date to_calendar_date gen4_to_calendar_date 0 1.
    all: date_stage md fl fuel tdoy py_TimePoint_to_ordinal_date to_ordinal_date gen4_to_ordinal_date 1 2.
    all: apply agrees_bind_triv; [|intros; reflexivity].
    all: date_core md fl fuel tw py_TimePoint_to_week_date to_week_date gen4_to_week_date 2.
Qed.
Print Assumptions gen6_add_truncated.

(* ====================================================================== *)
(* 6. truncated points as object states, get_truncated_properties, __add__ *)
(* ====================================================================== *)
(* the state TimePoint.__init__(truncated=True, ...) leaves behind for the fields of the model's
   `trunc`: no year, no month, _truncated True, _truncated_property None; an unknown zone is
   TimeZone(hours=0, minutes=0, unknown=True) *)
Definition trunc_zone (t : trunc) : pyTimeZone :=
  match t_zone t with Some z => rep_zone z | None => mkTimeZone 0 0 true end.
Definition rep_trunc (fl : flags) (t : trunc) : pyTimePoint :=
  mkTimePoint (f_digits fl) None None (t_doy t) (t_dom t) (t_dow t) (t_week t)
              (t_hour t) (t_min t) (t_sec t) true None (f_tdump fl) (f_dump fl) (trunc_zone t).
Definition props_of (t : trunc) : pyTruncProps :=
  mkTruncProps None None None (t_week t) (t_doy t) (t_dom t) (t_dow t) (t_hour t) (t_min t) (t_sec t).

Theorem gen6_get_truncated_properties fuel cal fl t :
  py_TimePoint_get_truncated_properties fuel cal (rep_trunc fl t) = Ok (Some (props_of t)).
Proof.
  destruct t as [[h|] [m|] [s|] [dow|] [dom|] [doy|] [w|] z]; reflexivity.
Qed.

Theorem gen6_get_truncated_properties_full fuel cal fl p :
  py_TimePoint_get_truncated_properties fuel cal (rep fl p) = Ok None.
Proof. destruct p as [[?|?|?] [?|?|?] ?]; reflexivity. Qed.

(* ---------- the instrumented model of tp_add_trunc ---------- *)
Definition zone_i (md : mode) (p : tp) (z : zone) : ires :=
  match to_time_zone md p z with Some q => IOk q (zone_bound md p z) | None => IErr 0 end.
Definition tp_add_trunc_i (md : mode) (t : trunc) (p : tp) : ires :=
  ibind (match t_zone t with Some z => zone_i md p z | None => IOk p 0 end) (fun p1 =>
  ibind (add_truncated_i md p1 t) (fun r => zone_i md r (tzone p))).
(* one level of the Fixpoint on the fuel *)
Definition ishift (k : Z) (r : ires) : ires :=
  match r with
  | IOk p n => IOk p (Z.max n 0 + k) | IErr n => IErr (Z.max n 0 + k) | IHang b => IHang (Z.max b 0 + k)
  end.

Lemma erase_ishift k r : erase (ishift k r) = erase r.
Proof. destruct r; reflexivity. Qed.

Lemma tp_add_trunc_i_erase md t p : erase (tp_add_trunc_i md t p) = tp_add_trunc md t p.
Proof.
  unfold tp_add_trunc_i, tp_add_trunc, zone_i.
  destruct (t_zone t) as [z|].
  - destruct (to_time_zone md p z) as [p1|]; [|reflexivity].
    rewrite erase_ibind_ok.
    apply erase_ibind; [apply add_truncated_i_erase|]. intros r.
    destruct (to_time_zone md r (tzone p)); reflexivity.
  - rewrite erase_ibind_ok.
    apply erase_ibind; [apply add_truncated_i_erase|]. intros r.
    destruct (to_time_zone md r (tzone p)); reflexivity.
Qed.

Lemma to_time_zone_some md p z : exists q, to_time_zone md p z = Some q.
Proof.
  unfold to_time_zone, tp_add, zone_diff. cbn [to_days]. cbn [Z.eqb].
  eexists. reflexivity.
Qed.

Lemma zone_agrees md fl p p' z fuel : tp_equiv p' p -> month_ok p ->
  agrees fl fuel (py_TimePoint_to_time_zone fuel (cal_of md) (rep fl p') (rep_zone z)) (zone_i md p z).
Proof.
  intros Hq Hm. unfold zone_i. destruct (to_time_zone md p z) as [q|] eqn:E.
  - apply (agrees_callee fl (fun f => py_TimePoint_to_time_zone f (cal_of md) (rep fl p') (rep_zone z)));
      [apply fmono_to_zone|].
    intros f Hf. apply (gen4_to_time_zone md fl p p' z f q Hq Hm E Hf).
  - destruct (to_time_zone_some md p z) as (q & E'). congruence.
Qed.

Lemma zone_i_month md p z q n : month_ok p -> zone_i md p z = IOk q n -> month_ok q.
Proof.
  unfold zone_i. destruct (to_time_zone md p z) as [q'|] eqn:E; [|discriminate].
  intros Hm E'; injection E' as <- _. eapply month_ok_to_time_zone; eassumption.
Qed.

(* the model's points keep month_ok through add_truncated *)
Lemma ibind_inv (P Q : tp -> Prop) r f :
  (forall q1 n1, r = IOk q1 n1 -> P q1) ->
  (forall q1, P q1 -> forall q2 n2, f q1 = IOk q2 n2 -> Q q2) ->
  forall q n, ibind r f = IOk q n -> Q q.
Proof.
  intros H1 H2 q n. destruct r as [q1 n1|b|n1]; cbn [ibind]; try discriminate.
  destruct (f q1) as [q2 n2|b|n2] eqn:E; try discriminate.
  intros E'; injection E' as <- _. eapply H2; [eapply H1; reflexivity | exact E].
Qed.

Ltac time_inv INVSTEP :=
  match goal with
  | HI : inv_time ?p |- forall q n, ibind _ _ = IOk q n -> _ =>
    apply (ibind_inv inv_time);
    [ let q := fresh "q" in let n := fresh "n" in
      intros q n;
      first [ apply step_until_i_inv with (Inv := inv_time); [intros ?; apply INVSTEP | exact HI]
            | let E := fresh in intros E; injection E as <- _; exact HI ]
    | clear p HI; intros p HI ]
  end.
Ltac date_inv md x MCONV k j :=
  match goal with
  | Hm : month_ok ?p |- forall q n, ibind _ _ = IOk q n -> _ =>
    apply (ibind_inv month_ok);
    [ let q := fresh "q" in let n := fresh "n" in
      intros q n; destruct x;
      [ apply (date_stage_inv md MCONV j k); [lia | let E := fresh "E" in intros ? ? E; conv_inv_tac Hm E]
      | let E := fresh in intros E; injection E as <- _; exact Hm ]
    | clear p Hm; intros p Hm ]
  end.

Lemma add_truncated_i_month md p t : month_ok p -> forall q n, add_truncated_i md p t = IOk q n -> month_ok q.
Proof.
  intros Hm. unfold add_truncated_i. cbv zeta.
  apply (ibind_inv month_ok).
  { intros q n E; injection E as <- _. apply month_ok_normalised, Hm. }
  clear p Hm. intros p Hm.
  destruct t as [th tm ts tdow tdom tdoy tw tz]. cbn [t_hour t_min t_sec t_dow t_dom t_doy t_week].
  assert (Dates : forall p, month_ok p -> forall q n,
    ibind (match tdow with
           | Some d => ibind (conv_i (to_week_date md (tdate p)) p) (step_until_i md (date_field 0) (bump_date 0) (qz d) 8)
           | None => IOk p 0 end) (fun p4 =>
    ibind (match tdom with
           | Some d => ibind (conv_i (to_calendar_date md (tdate p4)) p4) (step_until_i md (date_field 1) (bump_date 1) (qz d) 63)
           | None => IOk p4 0 end) (fun p5 =>
    ibind (match tdoy with
           | Some d => ibind (conv_i (to_ordinal_date md (tdate p5)) p5) (step_until_i md (date_field 2) (bump_date 2) (qz d) 2929)
           | None => IOk p5 0 end) (fun p6 =>
    match tw with
    | Some w => ibind (conv_i (to_week_date md (tdate p6)) p6) (step_until_i md (date_field 3) (bump_date 3) (qz w) 1500)
    | None => IOk p6 0
    end))) = IOk q n -> month_ok q).
  { clear p Hm. intros p Hm.
    date_inv md tdow to_week_date 2 0.
    date_inv md tdom to_calendar_date 0 1.
    date_inv md tdoy to_ordinal_date 1 2.
    intros q n. destruct tw.
    - apply (date_stage_inv md to_week_date 3 2); [lia | intros ? ? E; conv_inv_tac Hm E].
    - intros E; injection E as <- _; exact Hm. }
  destruct th as [th|], tm as [tm|], ts as [ts|].
  8: { apply (ibind_inv month_ok); [intros ? ? E; injection E as <- _; exact Hm|]. clear p Hm; intros p Hm.
       do 3 (apply (ibind_inv month_ok); [intros ? ? E; injection E as <- _; exact Hm|]; clear p Hm; intros p Hm).
       apply Dates, Hm. }
  all: (apply (ibind_inv inv_time); [intros ? ? E; injection E as <- _; apply inv_time_to_hms, Hm|];
        clear p Hm; intros p HI;
        time_inv inv_time_sec; time_inv inv_time_min; time_inv inv_time_hr;
        apply Dates, HI).
Qed.

Lemma agrees_oof fl r : agrees fl 0 (Raise OutOfFuel) (ishift 1 r).
Proof.
  destruct r; cbn [ishift agrees]; [split; [left; reflexivity | lia] | reflexivity | split; [left; reflexivity | lia]].
Qed.

Lemma agrees_shift fl fuel m r : agrees fl fuel m r -> agrees fl (Datatypes.S fuel) m (ishift 1 r).
Proof.
  destruct r as [q n|b|n]; cbn [ishift agrees].
  - intros [H1 H2]. split; [exact H1|]. intros Hf. apply H2. lia.
  - intros H Hf. apply H. lia.
  - intros [H1 H2]. split; [exact H1|]. intros Hf. apply H2. lia.
Qed.

Lemma to_zone_unknown fuel cal o h m : py_TimePoint_to_time_zone fuel cal o (mkTimeZone h m true) = Ok o.
Proof. reflexivity. Qed.

(* truncated + full *)
Theorem gen6_add_trunc_left md fl flt t p p' fuel : tp_equiv p' p -> month_ok p ->
  agrees fl fuel (py_TimePoint___add____TimePoint fuel (cal_of md) (rep_trunc flt t) (rep fl p'))
         (ishift 1 (tp_add_trunc_i md t p)).
Proof.
  intros Hq Hm. destruct fuel as [|fuel]; [apply agrees_oof|].
  apply agrees_shift. cbn [py_TimePoint___add____TimePoint].
  rewrite s_truncated_rep. change (s_truncated (rep_trunc flt t)) with true. cbn [andb negb].
  change (s_time_zone (rep_trunc flt t)) with (trunc_zone t). rewrite s_time_zone_rep.
  assert (Ez : tzone p' = tzone p) by apply Hq. rewrite Ez.
  unfold tp_add_trunc_i, trunc_zone.
  eapply agrees_bind with (P := month_ok).
  - destruct (t_zone t) as [z|].
    + apply zone_agrees; assumption.
    + rewrite to_zone_unknown. apply agrees_ret, Hq.
  - intros q n. destruct (t_zone t) as [z|].
    + apply zone_i_month, Hm.
    + intros E; injection E as <- _; exact Hm.
  - clear p' Hq Ez. intros q q' Hmq Hq.
    rewrite gen6_get_truncated_properties. cbn [ebind need].
    cbv beta iota delta [props_of k_year_of_century k_year_of_decade k_month_of_year k_week_of_year
      k_day_of_year k_day_of_month k_day_of_week k_hour_of_day k_minute_of_hour k_second_of_minute].
    eapply agrees_bind with (P := month_ok).
    + apply gen6_add_truncated; assumption.
    + apply add_truncated_i_month, Hmq.
    + intros r r' Hmr Hr. apply agrees_bind_ret. apply zone_agrees; assumption.
Qed.
Print Assumptions gen6_add_trunc_left.

(* full + truncated: `return other + self` *)
Theorem gen6_add_trunc_right md fl flt t p p' fuel : tp_equiv p' p -> month_ok p ->
  agrees fl fuel (py_TimePoint___add____TimePoint fuel (cal_of md) (rep fl p') (rep_trunc flt t))
         (ishift 1 (ishift 1 (tp_add_trunc_i md t p))).
Proof.
  intros Hq Hm. destruct fuel as [|fuel]; [apply agrees_oof|].
  apply agrees_shift. cbn [py_TimePoint___add____TimePoint].
  rewrite s_truncated_rep. change (s_truncated (rep_trunc flt t)) with true. cbn [andb negb].
  apply agrees_bind_ret. apply gen6_add_trunc_left; assumption.
Qed.
Print Assumptions gen6_add_trunc_right.

(* ====================================================================== *)
(* 7. the statements in terms of the model of Model/Truncated.v            *)
(* ====================================================================== *)
Definition add_trunc_fuel (md : mode) (t : trunc) (p : tp) : Z := ires_fuel (tp_add_trunc_i md t p).

Lemma agrees_ok fl fuel m r q : agrees fl fuel m r -> erase r = TOk q ->
  ((Z.to_nat (ires_fuel r) <= fuel)%nat -> returns_tp fl m q) /\
  (m = Raise OutOfFuel \/ returns_tp fl m q).
Proof.
  destruct r as [q' n|b|n]; cbn [erase]; try discriminate. intros [H1 H2] E; injection E as <-.
  split; assumption.
Qed.
Lemma agrees_err fl fuel m r : agrees fl fuel m r -> erase r = TErr ->
  ((Z.to_nat (ires_fuel r) <= fuel)%nat -> m = Raise ValueError) /\
  (m = Raise OutOfFuel \/ m = Raise ValueError).
Proof.
  destruct r as [q' n|b|n]; cbn [erase]; try discriminate. intros [H1 H2] _. split; assumption.
Qed.
Lemma agrees_hang fl fuel m r : agrees fl fuel m r -> erase r = THang ->
  (fuel <= Z.to_nat (ires_fuel r))%nat -> m = Raise OutOfFuel.
Proof. destruct r as [q' n|b|n]; cbn [erase]; try discriminate. intros H _. exact H. Qed.

Lemma ires_fuel_shift r : Z.to_nat (ires_fuel (ishift 1 r)) = Datatypes.S (Z.to_nat (ires_fuel r)).
Proof. destruct r; cbn [ishift ires_fuel]; lia. Qed.

Section Statements.
  Variables (md : mode) (fl : flags) (p p' : tp) (t : trunc) (fuel : nat).
  Hypothesis Hq : tp_equiv p' p.
  Hypothesis Hm : month_ok p.
  Let code := py_TimePoint_add_truncated fuel (cal_of md) (rep fl p') None None None
                (t_week t) (t_doy t) (t_dom t) (t_dow t) (t_hour t) (t_min t) (t_sec t).

  Theorem gen6_add_truncated_ok r : add_truncated md p t = TOk r ->
    (Z.to_nat (trunc_fuel md p t) <= fuel)%nat -> returns_tp fl code r.
  Proof.
    intros E. rewrite <- add_truncated_i_erase in E.
    exact (proj1 (agrees_ok fl fuel code _ r (gen6_add_truncated md fl p p' t fuel Hq Hm) E)).
  Qed.
  Theorem gen6_add_truncated_partial r : add_truncated md p t = TOk r ->
    code = Raise OutOfFuel \/ returns_tp fl code r.
  Proof.
    intros E. rewrite <- add_truncated_i_erase in E.
    exact (proj2 (agrees_ok fl fuel code _ r (gen6_add_truncated md fl p p' t fuel Hq Hm) E)).
  Qed.
  Theorem gen6_add_truncated_err : add_truncated md p t = TErr ->
    ((Z.to_nat (trunc_fuel md p t) <= fuel)%nat -> code = Raise ValueError) /\
    (code = Raise OutOfFuel \/ code = Raise ValueError).
  Proof.
    intros E. rewrite <- add_truncated_i_erase in E.
    exact (agrees_err fl fuel code _ (gen6_add_truncated md fl p p' t fuel Hq Hm) E).
  Qed.
  Theorem gen6_add_truncated_hang : add_truncated md p t = THang ->
    (fuel <= Z.to_nat (trunc_fuel md p t))%nat -> code = Raise OutOfFuel.
  Proof.
    intros E. rewrite <- add_truncated_i_erase in E.
    exact (agrees_hang fl fuel code _ (gen6_add_truncated md fl p p' t fuel Hq Hm) E).
  Qed.

  (* __add__: t + p (one unit of fuel for the call itself) and p + t (one more for `other + self`) *)
  Variable flt : flags.
  Let left := py_TimePoint___add____TimePoint fuel (cal_of md) (rep_trunc flt t) (rep fl p').
  Let right := py_TimePoint___add____TimePoint fuel (cal_of md) (rep fl p') (rep_trunc flt t).
  Let AL := gen6_add_trunc_left md fl flt t p p' fuel Hq Hm.
  Let AR := gen6_add_trunc_right md fl flt t p p' fuel Hq Hm.
  Lemma erase_left : erase (ishift 1 (tp_add_trunc_i md t p)) = tp_add_trunc md t p.
  Proof. rewrite erase_ishift. apply tp_add_trunc_i_erase. Qed.
  Lemma erase_right : erase (ishift 1 (ishift 1 (tp_add_trunc_i md t p))) = tp_add_trunc md t p.
  Proof. rewrite !erase_ishift. apply tp_add_trunc_i_erase. Qed.

  Theorem gen6_add_left_ok r : tp_add_trunc md t p = TOk r ->
    (Z.to_nat (add_trunc_fuel md t p) + 1 <= fuel)%nat -> returns_tp fl left r.
  Proof.
    intros E Hf. rewrite <- erase_left in E. apply (proj1 (agrees_ok fl fuel left _ r AL E)).
    rewrite ires_fuel_shift. unfold add_trunc_fuel in Hf. lia.
  Qed.
  Theorem gen6_add_left_partial r : tp_add_trunc md t p = TOk r ->
    left = Raise OutOfFuel \/ returns_tp fl left r.
  Proof. intros E. rewrite <- erase_left in E. exact (proj2 (agrees_ok fl fuel left _ r AL E)). Qed.
  Theorem gen6_add_left_err : tp_add_trunc md t p = TErr ->
    ((Z.to_nat (add_trunc_fuel md t p) + 1 <= fuel)%nat -> left = Raise ValueError) /\
    (left = Raise OutOfFuel \/ left = Raise ValueError).
  Proof.
    intros E. rewrite <- erase_left in E. destruct (agrees_err fl fuel left _ AL E) as [H1 H2].
    split; [|exact H2]. intros Hf. apply H1. rewrite ires_fuel_shift. unfold add_trunc_fuel in Hf. lia.
  Qed.
  Theorem gen6_add_left_hang : tp_add_trunc md t p = THang ->
    (fuel <= Z.to_nat (add_trunc_fuel md t p) + 1)%nat -> left = Raise OutOfFuel.
  Proof.
    intros E Hf. rewrite <- erase_left in E. apply (agrees_hang fl fuel left _ AL E).
    rewrite ires_fuel_shift. unfold add_trunc_fuel in Hf. lia.
  Qed.

  Theorem gen6_add_right_ok r : tp_add_trunc md t p = TOk r ->
    (Z.to_nat (add_trunc_fuel md t p) + 2 <= fuel)%nat -> returns_tp fl right r.
  Proof.
    intros E Hf. rewrite <- erase_right in E. apply (proj1 (agrees_ok fl fuel right _ r AR E)).
    rewrite !ires_fuel_shift. unfold add_trunc_fuel in Hf. lia.
  Qed.
  Theorem gen6_add_right_partial r : tp_add_trunc md t p = TOk r ->
    right = Raise OutOfFuel \/ returns_tp fl right r.
  Proof. intros E. rewrite <- erase_right in E. exact (proj2 (agrees_ok fl fuel right _ r AR E)). Qed.
  Theorem gen6_add_right_err : tp_add_trunc md t p = TErr ->
    ((Z.to_nat (add_trunc_fuel md t p) + 2 <= fuel)%nat -> right = Raise ValueError) /\
    (right = Raise OutOfFuel \/ right = Raise ValueError).
  Proof.
    intros E. rewrite <- erase_right in E. destruct (agrees_err fl fuel right _ AR E) as [H1 H2].
    split; [|exact H2]. intros Hf. apply H1. rewrite !ires_fuel_shift. unfold add_trunc_fuel in Hf. lia.
  Qed.
  Theorem gen6_add_right_hang : tp_add_trunc md t p = THang ->
    (fuel <= Z.to_nat (add_trunc_fuel md t p) + 2)%nat -> right = Raise OutOfFuel.
  Proof.
    intros E Hf. rewrite <- erase_right in E. apply (agrees_hang fl fuel right _ AR E).
    rewrite !ires_fuel_shift. unfold add_trunc_fuel in Hf. lia.
  Qed.
End Statements.

(* the fuel figures belong to the model's own outcome *)
Theorem gen6_model_link md p t :
  erase (add_truncated_i md p t) = add_truncated md p t /\
  erase (tp_add_trunc_i md t p) = tp_add_trunc md t p.
Proof. split; [apply add_truncated_i_erase | apply tp_add_trunc_i_erase]. Qed.

(* the translated code is monotone in the fuel: a result obtained with some fuel is the result
   with any larger fuel (so "the" result of the Python method is well defined) *)
Theorem gen6_fuel_monotone cal o a1 a2 a3 a4 a5 a6 a7 a8 a9 a10 f f' : (f <= f')%nat ->
  py_TimePoint_add_truncated f cal o a1 a2 a3 a4 a5 a6 a7 a8 a9 a10 <> Raise OutOfFuel ->
  py_TimePoint_add_truncated f' cal o a1 a2 a3 a4 a5 a6 a7 a8 a9 a10 =
  py_TimePoint_add_truncated f cal o a1 a2 a3 a4 a5 a6 a7 a8 a9 a10.
Proof. apply (fmono_add_truncated cal o a1 a2 a3 a4 a5 a6 a7 a8 a9 a10). Qed.

(* ---------- property C20 stated of the translated code (one shape; every other theorem of
   Props/C20.v / C20Ext.v about `tp_add_trunc md t p = TOk r` transfers the same way) ---------- *)
Theorem gen6_c20_time_only md fl flt p t fuel :
  valid_tp md p = true -> TruncSpec.whole_second p -> TruncSpec.time_only t -> t_zone t = None ->
  (Z.to_nat (add_trunc_fuel md t p) + 2 <= fuel)%nat ->
  exists r,
    returns_tp fl (py_TimePoint___add____TimePoint fuel (cal_of md) (rep_trunc flt t) (rep fl p)) r /\
    returns_tp fl (py_TimePoint___add____TimePoint fuel (cal_of md) (rep fl p) (rep_trunc flt t)) r /\
    valid_tp md r = true /\ tzone r = tzone p /\ rep_kind (tdate r) = rep_kind (tdate p) /\
    (let '(n0, s0) := TruncSpec.local_ds md p (tzone p) in let '(n, s) := TruncSpec.local_ds md r (tzone p) in
     NextMatch.next_match md (NextMatch.mkDay None None None None)
       (NextMatch.mkTod (TruncSpec.qfl (t_hour t)) (TruncSpec.qfl (t_min t)) (TruncSpec.qfl (t_sec t)))
       n0 (Qfloor s0) 2 = Some (n, Qfloor s) /\ qis_int s = true).
Proof.
  intros V W T Z Hf.
  destruct (TruncSpec.add_trunc_time_only md p t V W T Z) as (r & E & V' & Zr & K & N & _).
  assert (M : month_ok p).
  { unfold month_ok. apply (AddSpec.valid_month md). apply (AddSpec.valid_tp_parts md p V). }
  exists r. split; [|split; [|exact (conj V' (conj Zr (conj K N)))]].
  - apply (gen6_add_left_ok md fl p p t fuel (tp_equiv_refl p) M flt r E). lia.
  - apply (gen6_add_right_ok md fl p p t fuel (tp_equiv_refl p) M flt r E). lia.
Qed.

(* ---------- checkers used by the closed Example of Props/C20Code.v ---------- *)
Definition props_eqb (a b : pyTruncProps) : bool :=
  oz_eqb (k_year_of_century a) (k_year_of_century b) && oz_eqb (k_year_of_decade a) (k_year_of_decade b) &&
  oz_eqb (k_month_of_year a) (k_month_of_year b) && oz_eqb (k_week_of_year a) (k_week_of_year b) &&
  oz_eqb (k_day_of_year a) (k_day_of_year b) && oz_eqb (k_day_of_month a) (k_day_of_month b) &&
  oz_eqb (k_day_of_week a) (k_day_of_week b) && oq_eqb (k_hour_of_day a) (k_hour_of_day b) &&
  oq_eqb (k_minute_of_hour a) (k_minute_of_hour b) && oq_eqb (k_second_of_minute a) (k_second_of_minute b).
Definition props_is (m : exc (option pyTruncProps)) (v : option pyTruncProps) : bool :=
  match m, v with
  | Ok (Some a), Some b => props_eqb a b
  | Ok None, None => true
  | _, _ => false
  end.
Definition raises_value_error {A} (m : exc A) : bool := match m with Raise ValueError => true | _ => false end.
