(* Proofs/RecTextSpec.v -- property C14, the parts about hashing and text:
   (1) equal recurrences hash equally; (2) the text str(r) of each of the
   three notations; (3) that text, given to the recurrence parser, is split
   and read back part by part; (4) parse(str(r)) == r with the same points. *)
From Coq Require Import ZArith QArith Qround Qabs Lqa List Bool String Ascii Lia.
From Iso Require Import Proofs.Tac Spec.Cal Spec.Instant Model.Num Model.Helpers Model.Duration Model.TimePoint
  Model.Forms Model.Parse Model.Dump Spec.FormText Proofs.MatchSpec gen.Grammar Model.DriverText
  Model.Recurrence Model.DurText Model.Cli Model.DriverCli Model.RecText
  Proofs.HelpersSpec Proofs.ConvSpec Proofs.TickSpec Proofs.AddSpec Proofs.ZoneSpec Proofs.DurSpec Proofs.CmpSpec Proofs.SubSpec Proofs.RecSpec Proofs.RecShiftSpec Proofs.ConstructSpec
  Proofs.RoundTripSpec Proofs.DurTextSpec Proofs.CliSpec Proofs.RecTextCongr.
Import ListNotations.
Close Scope Z_scope.
Local Open Scope string_scope.

(* ====================================================================== *)
(* 1. equal recurrences have equal hashes                                  *)
(* ====================================================================== *)
Definition opt_key_equiv (a b : option tp_key) : Prop :=
  match a, b with
  | None, None => True
  | Some x, Some y => hash_key_equiv x y
  | _, _ => False
  end.
Definition dur_key_equiv (a b : option dur_key) : Prop :=
  match a, b with
  | None, None => True
  | Some (y1, m1, s1), Some (y2, m2, s2) => y1 = y2 /\ m1 = m2 /\ (s1 == s2)%Q
  | _, _ => False
  end.
Definition rec_key_equiv (a b : rec_key) : Prop :=
  k_reps a = k_reps b /\ opt_key_equiv (k_start a) (k_start b) /\ opt_key_equiv (k_end a) (k_end b) /\
  dur_key_equiv (k_dur a) (k_dur b) /\
  k_min a = None /\ k_min b = None /\ k_max a = None /\ k_max b = None.

Lemma opt_key_eq md a b : opt_valid md a -> opt_valid md b -> opt_tp_eqb md a b = true ->
  exists ka kb, opt_tp_key md a = Some ka /\ opt_tp_key md b = Some kb /\ opt_key_equiv ka kb.
Proof.
  destruct a as [x|], b as [y|]; cbn [opt_valid opt_tp_eqb opt_tp_key]; intros Va Vb H; try discriminate H.
  - assert (C : tp_cmp md x y = Some Eq).
    { unfold tp_eqb in H. destruct (tp_cmp md x y) as [[| |]|]; try discriminate H; reflexivity. }
    destruct (tp_eq_hash md x y Va Vb C) as (k1 & k2 & H1 & H2 & E).
    rewrite H1, H2. exists (Some k1), (Some k2). auto.
  - exists None, None. cbn [opt_key_equiv]. auto.
Qed.

Lemma rec_hash_valid : forall md a b,
  opt_valid md (r_start a) -> opt_valid md (r_end a) -> opt_valid md (r_start b) -> opt_valid md (r_end b) ->
  rec_eqb md a b = true ->
  exists ka kb, rec_hash_key md a = Some ka /\ rec_hash_key md b = Some kb /\ rec_key_equiv ka kb.
Proof.
  intros md a b Vas Vae Vbs Vbe E. apply rec_eqb_spec in E. destruct E as (ER & ES & EE & ED).
  destruct (opt_key_eq md _ _ Vas Vbs ES) as (ks1 & ks2 & S1 & S2 & KS).
  destruct (opt_key_eq md _ _ Vae Vbe EE) as (ke1 & ke2 & E1 & E2 & KE).
  unfold rec_hash_key. rewrite S1, S2, E1, E2. eexists. eexists. split; [reflexivity|]. split; [reflexivity|].
  unfold rec_key_equiv. cbn [k_reps k_start k_end k_dur k_min k_max].
  split; [apply opt_z_eqb_eq; exact ER|]. split; [exact KS|]. split; [exact KE|].
  split; [|auto].
  destruct (r_dur a) as [x|], (r_dur b) as [y|]; cbn [opt_dur_eqb option_map dur_key_equiv] in *; try discriminate ED; [|exact I].
  pose proof (dur_eqb_hash x y ED) as H.
  destruct (dur_hash_key x) as [[y1 m1] s1], (dur_hash_key y) as [[y2 m2] s2]. exact H.
Qed.

Lemma rec_hash_made : forall md a b, made md a -> made md b -> rec_eqb md a b = true ->
  exists ka kb, rec_hash_key md a = Some ka /\ rec_hash_key md b = Some kb /\ rec_key_equiv ka kb.
Proof.
  intros md a b Ma Mb E.
  destruct (made_valid md a Ma) as [Vas Vae]. destruct (made_valid md b Mb) as [Vbs Vbe].
  apply rec_hash_valid; assumption.
Qed.

(* ====================================================================== *)
(* 2. the text of the three notations                                      *)
(* ====================================================================== *)
Definition reps_text (o : option Z) : string :=
  match o with None => "R/" | Some n => "R" ++ show_Z n ++ "/" end.
Definition reps_fit (o : option Z) : Prop :=
  match o with None => True | Some n => int_fits n = true end.

Lemma rec_prefix_ok o : reps_fit o -> rec_prefix o = RtOk (reps_text o).
Proof.
  destruct o as [n|]; cbn [reps_fit rec_prefix reps_text]; [|reflexivity].
  intros H. unfold int_str. unfold int_fits in H. rewrite H. reflexivity.
Qed.

Lemma point_text_ok md p : (0 <= date_year (tdate p))%Z -> opt_point_text md (Some p) = RtOk (str_text 0 p).
Proof. intros H. unfold opt_point_text. rewrite (str_shape md 0 p (fun _ => H)). reflexivity. Qed.

(* format 1: the duration text is computed and discarded *)
Lemma rec_str_fmt1 : forall md r s e x,
  r_fmt r = 1%Z -> r_start r = Some s -> r_second r = Some e -> reps_fit (r_reps r) ->
  duration_text_unused (r_dur r) = RtOk x ->
  (0 <= date_year (tdate s))%Z -> (0 <= date_year (tdate e))%Z ->
  rec_str md r = RtOk (reps_text (r_reps r) ++ str_text 0 s ++ "/" ++ str_text 0 e).
Proof.
  intros md r s e x F S E R D Ys Ye. unfold rec_str.
  rewrite (rec_prefix_ok _ R), F, S, E, D. cbn [rt_bind Z.eqb Pos.eqb].
  rewrite (point_text_ok md s Ys), (point_text_ok md e Ye). reflexivity.
Qed.
Lemma rec_str_fmt3 : forall md r s ds,
  r_fmt r = 3%Z -> r_start r = Some s -> reps_fit (r_reps r) ->
  duration_text (r_dur r) = RtOk ds -> (0 <= date_year (tdate s))%Z ->
  rec_str md r = RtOk (reps_text (r_reps r) ++ str_text 0 s ++ "/" ++ ds).
Proof.
  intros md r s ds F S R D Ys. unfold rec_str.
  rewrite (rec_prefix_ok _ R), F, S, D. cbn [rt_bind Z.eqb Pos.eqb].
  rewrite (point_text_ok md s Ys). reflexivity.
Qed.
Lemma rec_str_fmt4 : forall md r e ds,
  r_fmt r = 4%Z -> r_end r = Some e -> reps_fit (r_reps r) ->
  duration_text (r_dur r) = RtOk ds -> (0 <= date_year (tdate e))%Z ->
  rec_str md r = RtOk (reps_text (r_reps r) ++ ds ++ "/" ++ str_text 0 e).
Proof.
  intros md r e ds F E R D Ye. unfold rec_str.
  rewrite (rec_prefix_ok _ R), F, E, D. cbn [rt_bind Z.eqb Pos.eqb].
  rewrite (point_text_ok md e Ye). reflexivity.
Qed.

(* ====================================================================== *)
(* 3. reading the text back: the parts                                      *)
(* ====================================================================== *)

(* --- 3a. a printed point, read by the recurrence parser's time point parser
       (default TimePointParser(): two expanded year digits allowed, zone
       taken from the text, whatever the local zone is) --- *)
Theorem rt_triples_cli : forall local,
  forallb (fun fd => num_keys_ok DATE_KEYS (f_parse fd) &&
      forallb (fun ft => num_keys_ok TIME_KEYS (f_parse ft) &&
        forallb (fun fz => num_keys_ok ZONE_KEYS (f_parse fz) &&
           triple_ok (date_forms_of 2) TIME_FORMS ZONE_FORMS (cli_cfg false local) fd ft (Some fz))
          rt_zone_forms) rt_time_forms) (rt_date_forms 2) = true.
Proof. intros [a b]. vm_compute. reflexivity. Qed.

Lemma rt_triple_cli : forall local d t z,
  triple_ok (date_forms_of 2) TIME_FORMS ZONE_FORMS (cli_cfg false local) (date_form 0 d) (time_form t) (Some (zone_form z)) = true /\
  num_keys_ok DATE_KEYS (f_parse (date_form 0 d)) = true /\ num_keys_ok TIME_KEYS (f_parse (time_form t)) = true /\
  num_keys_ok ZONE_KEYS (f_parse (zone_form z)) = true.
Proof.
  intros local d t z. pose proof (rt_triples_cli local) as T. rewrite forallb_forall in T.
  assert (N : In 0%Z [0; 2; 3]%Z) by (cbn; auto).
  specialize (T _ (date_form_in 0 d N)).
  apply andb_true_iff in T. destruct T as [K1 T]. rewrite forallb_forall in T. specialize (T _ (time_form_in t)).
  apply andb_true_iff in T. destruct T as [K2 T]. rewrite forallb_forall in T. specialize (T _ (zone_form_in z)).
  apply andb_true_iff in T. destruct T as [K3 T]. auto.
Qed.

Definition pt_ok (md : mode) (p : tp) : Prop :=
  valid_tp md p = true /\ (0 <= date_year (tdate p) <= 9999)%Z /\ tod_fits6 (ttod p) = true.

Lemma year_ok0 y : (0 <= y <= 9999)%Z -> year_ok 0 y.
Proof. intros H. unfold year_ok. cbn [Z.eqb]. exact H. Qed.

Theorem parse_str_text_cli : forall md local p, pt_ok md p ->
  exists t', tod_eq t' (ttod p) /\
    parse_text md (cli_cfg false local) (str_text 0 p) false =
    POk (mkPtp (Some (date_year (tdate p))) (d_month (tdate p)) (d_dom (tdate p)) (d_doy (tdate p))
               (d_week (tdate p)) (d_dow (tdate p)) (tod_h t') (tod_m t') (tod_s t') (Some (tzone p))
               false "" 0 "").
Proof.
  intros md local [d t z] (V & Y0 & F). cbn [tdate ttod tzone] in *.
  pose proof (year_ok0 _ Y0) as Y.
  assert (N : In 0%Z [0; 2; 3]%Z) by (cbn; auto).
  destruct (valid_tp_parts md _ V) as (Vd & Vt & Vz). cbn [tdate ttod tzone] in *.
  pose proof (valid_date_ranges md d Vd) as R.
  destruct (rt_triple_cli local d t z) as (OK & K1 & K2 & K3).
  destruct (date_vals 0 d N Y R) as (Wd & PY & PT & PP & PN & Mo & Do & Oy & Wk & Dw).
  destruct (time_vals t Vt F) as (Wt & HT & TH & THD & TM & TMD & TS & TSD).
  destruct (zone_vals (cli_cfg false local) z Vz) as (Wz & ZN).
  destruct (time_stage t Vt F) as (h1 & m1 & s1 & t' & Hh & Hm & Hs & Dh & Dm & Ds & TE).
  exists t'. split; [exact TE|].
  unfold str_text. cbn [tdate ttod tzone].
  rewrite <- (date_render 0 d N Y), <- (time_render t), <- (zone_render z).
  change (date_forms_of 2) with (date_forms_of (c_ned (cli_cfg false local))) in OK.
  rewrite (parse_text_num md (cli_cfg false local) _ _ _ _ _ _ false OK K1 K2 K3 Wd Wt Wz).
  rewrite ZN. cbn [pbind]. rewrite point_num_eq.
  rewrite PY, PT, PP, PN, Mo, Do, Oy, Wk, Dw, HT, TH, THD, TM, TMD, TS, TSD. cbn [orb].
  rewrite construct_eq, Hh, Hm, Hs. cbn [pbind]. unfold tail.
  rewrite (zone_stage_val z Vz).
  destruct (date_stage md d Vd) as (CF & DF & DC & _). rewrite CF, DF.
  rewrite check_bounds_eq, DC, Dh, Dm, Ds, (tod_fields_ok_valid t t' Vt TE). cbn [andb].
  reflexivity.
Qed.

(* the parser of the parts, as named in Proofs/CliSpec.v *)
Lemma rec_ptp_of_str : forall md local p, pt_ok md p ->
  exists q, rec_ptp_of md local (str_text 0 p) = inl q /\ same_point q p.
Proof.
  intros md local p P. destruct (parse_str_text_cli md local p P) as (t' & TE & E).
  exists (mkTp (tdate p) t' (tzone p)). split.
  - unfold rec_ptp_of. rewrite E. rewrite ptp_to_tp_eq.
    cbn [p_trunc p_year p_hour p_zone p_month p_dom p_doy p_week p_dow p_min p_sec]. unfold tod_h.
    destruct P as (V & _). destruct (valid_tp_parts md p V) as (Vd & _ & _).
    destruct (date_stage md (tdate p) Vd) as (_ & _ & _ & PD). rewrite PD, ptp_tod_fields. reflexivity.
  - unfold same_point. cbn [tdate ttod tzone]. auto.
Qed.

(* --- 3b. the characters of a printed point: no "/" and no "P", ASCII, not empty --- *)
Definition rt_forms : list form := (rt_date_forms 2 ++ rt_time_forms ++ rt_zone_forms)%list.
Theorem rt_forms_chars :
  forallb (fun f => MatchSpec.no_char "/" (f_parse f) && MatchSpec.no_char "P" (f_parse f) && ascii_toks (f_parse f)) rt_forms = true.
Proof. vm_compute. reflexivity. Qed.
Lemma rt_form_chars f : In f rt_forms ->
  MatchSpec.no_char "/" (f_parse f) = true /\ MatchSpec.no_char "P" (f_parse f) = true /\ ascii_toks (f_parse f) = true.
Proof.
  intros I. pose proof rt_forms_chars as H. rewrite forallb_forall in H. specialize (H f I).
  apply andb_true_iff in H. destruct H as [H C]. apply andb_true_iff in H. destruct H as [A B]. auto.
Qed.

Lemma str_text_chars : forall md p, pt_ok md p ->
  contains_char "/" (str_text 0 p) = false /\ contains_char "P" (str_text 0 p) = false /\
  is_ascii_str (str_text 0 p) = true /\ String.eqb (str_text 0 p) "" = false.
Proof.
  intros md [d t z] (V & Y0 & F). cbn [tdate ttod tzone] in *.
  pose proof (year_ok0 _ Y0) as Y.
  assert (N : In 0%Z [0; 2; 3]%Z) by (cbn; auto).
  destruct (valid_tp_parts md _ V) as (Vd & Vt & Vz). cbn [tdate ttod tzone] in *.
  pose proof (valid_date_ranges md d Vd) as R.
  destruct (date_vals 0 d N Y R) as (Wd & _).
  destruct (time_vals t Vt F) as (Wt & _).
  destruct (zone_vals (cli_cfg false (0, 0)%Z) z Vz) as (Wz & _). cbn [zo_wf] in Wz.
  assert (Id : In (date_form 0 d) rt_forms).
  { unfold rt_forms. apply in_or_app. left. exact (date_form_in 0 d N). }
  assert (It : In (time_form t) rt_forms).
  { unfold rt_forms. apply in_or_app. right. apply in_or_app. left. apply time_form_in. }
  assert (Iz : In (zone_form z) rt_forms).
  { unfold rt_forms. apply in_or_app. right. apply in_or_app. right. apply zone_form_in. }
  destruct (rt_form_chars _ Id) as (D1 & D2 & D3).
  destruct (rt_form_chars _ It) as (T1 & T2 & T3).
  destruct (rt_form_chars _ Iz) as (Z1 & Z2 & Z3).
  unfold str_text. cbn [tdate ttod tzone].
  rewrite <- (date_render 0 d N Y), <- (time_render t), <- (zone_render z). cbn [zo_text].
  repeat split.
  - rewrite !contains_char_app. rewrite (render_no_char _ _ _ D1 Wd), (render_no_char _ _ _ T1 Wt), (render_no_char _ _ _ Z1 Wz).
    reflexivity.
  - rewrite !contains_char_app. rewrite (render_no_char _ _ _ D2 Wd), (render_no_char _ _ _ T2 Wt), (render_no_char _ _ _ Z2 Wz).
    reflexivity.
  - rewrite !is_ascii_app. rewrite (render_ascii _ _ D3 Wd), (render_ascii _ _ T3 Wt), (render_ascii _ _ Z3 Wz). reflexivity.
  - destruct (render_toks (f_parse (date_form 0 d)) (date_env 0 d)); reflexivity.
Qed.

(* --- 3c. the characters of a printed duration; reading it back --- *)
Lemma ascii7_nat c : is_ascii7 c = true -> Nat.ltb (nat_of_ascii c) 128 = true.
Proof. destruct c as [[] [] [] [] [] [] [] []]; vm_compute; intros H; congruence. Qed.
Lemma ascii7_str s : str_all is_ascii7 s = true -> is_ascii_str s = true.
Proof.
  unfold is_ascii_str. induction s as [|c s IH]; cbn [str_all list_ascii_of_string forallb]; [reflexivity|].
  intros H. apply andb_true_iff in H. destruct H as [H1 H2]. rewrite (ascii7_nat c H1), (IH H2). reflexivity.
Qed.
Lemma str_all_no_char (p : ascii -> bool) c s : p c = false -> str_all p s = true -> contains_char c s = false.
Proof.
  intros Hc. induction s as [|a s IH]; cbn [str_all contains_char]; [reflexivity|].
  intros H. apply andb_true_iff in H. destruct H as [H1 H2]. rewrite (IH H2), orb_false_r.
  destruct (Ascii.eqb a c) eqn:E; [|reflexivity]. apply Ascii.eqb_eq in E. subst a. congruence.
Qed.

Definition durch (a : ascii) : bool :=
  DurText.is_digit a || existsb (Ascii.eqb a) [","; "."; "P"; "Y"; "M"; "D"; "T"; "H"; "S"; "W"]%char.
Lemma digit_durch c : DurText.is_digit c = true -> durch c = true.
Proof. intros H. unfold durch. rewrite H. reflexivity. Qed.
Lemma plain_durch c : plain_char c = true -> durch c = true.
Proof.
  unfold plain_char, durch. cbn [existsb]. intros H.
  destruct (DurText.is_digit c); [reflexivity|]. cbn [orb] in *.
  destruct (Ascii.eqb c ","); [reflexivity|]. cbn [orb] in *. rewrite H. reflexivity.
Qed.
Lemma durch_int o c : int_ok o = true -> durch c = true -> str_all durch (opt_text o c) = true.
Proof.
  destruct o as [ds|]; cbn [int_ok opt_text]; intros H Hc; [|reflexivity].
  apply andb_true_iff in H. destruct H as [H _]. apply andb_true_iff in H. destruct H as [H _].
  rewrite str_all_app. cbn [str_all]. rewrite Hc.
  rewrite (str_all_impl DurText.is_digit durch ds digit_durch H). reflexivity.
Qed.
Lemma durch_num o c : num_ok o = true -> durch c = true -> str_all durch (opt_text (omap dnum_text o) c) = true.
Proof.
  intros H Hc. destruct (num_ok_inv o H) as [P _].
  destruct (omap dnum_text o) as [[|d r]|]; cbn [ok_plain opt_text] in *; [contradiction| |reflexivity].
  destruct P as [Hd Hp]. cbn [String.append str_all]. rewrite (digit_durch d Hd).
  rewrite str_all_app. cbn [str_all]. rewrite Hc.
  rewrite (str_all_impl plain_char durch r plain_durch Hp). reflexivity.
Qed.

Lemma dur_body_chars x text : nonneg_dur x = true -> dur_str_body x = TOk text -> str_all durch text = true.
Proof.
  destruct x as [w | y mo d h mi s]; cbn [dur_str_body nonneg_dur]; intros Hnn.
  - unfold tmap, tbind, int_str. assert (Hw : (0 <= w)%Z) by lia.
    destruct (slen (show_Z (Z.abs w)) <=? INT_MAX_STR_DIGITS)%nat; [|discriminate].
    intros H. injection H as <-. destruct (show_Z_nonneg w Hw) as [H1 _].
    cbn [String.append str_all]. rewrite str_all_app. cbn [str_all].
    rewrite (str_all_impl DurText.is_digit durch _ digit_durch H1). reflexivity.
  - assert (Hall : (0 <= y /\ 0 <= mo /\ 0 <= d /\ 0 <= Qnum h /\ 0 <= Qnum mi /\ 0 <= Qnum s)%Z) by lia.
    destruct Hall as [Ny [Nmo [Nd [Nh [Nmi Ns]]]]].
    unfold tbind.
    destruct (z_unit y "Y") as [ys| | | |] eqn:Ey; try discriminate.
    destruct (z_unit mo "M") as [mos| | | |] eqn:Emo; try discriminate.
    destruct (z_unit d "D") as [ds| | | |] eqn:Ed; try discriminate.
    destruct (q_unit h "H") as [hs| | | |] eqn:Eh; try discriminate.
    destruct (q_unit mi "M") as [mis| | | |] eqn:Emi; try discriminate.
    destruct (q_unit s "S") as [ss| | | |] eqn:Es; try discriminate.
    intros H'. injection H' as <-.
    destruct (z_unit_spec _ _ _ Ny Ey) as [oy [Ky [_ ->]]].
    destruct (z_unit_spec _ _ _ Nmo Emo) as [omo [Kmo [_ ->]]].
    destruct (z_unit_spec _ _ _ Nd Ed) as [od [Kd [_ ->]]].
    destruct (q_unit_spec _ _ _ Nh Eh) as [oh [Kh [_ ->]]].
    destruct (q_unit_spec _ _ _ Nmi Emi) as [omi [Kmi [_ ->]]].
    destruct (q_unit_spec _ _ _ Ns Es) as [os [Ks [_ ->]]].
    cbn [String.append str_all]. rewrite !str_all_app.
    rewrite (durch_int oy "Y" Ky eq_refl), (durch_int omo "M" Kmo eq_refl), (durch_int od "D" Kd eq_refl).
    cbn [andb].
    destruct (str_nonempty _); [|reflexivity].
    cbn [String.append str_all]. rewrite !str_all_app.
    rewrite (durch_num oh "H" Kh eq_refl), (durch_num omi "M" Kmi eq_refl), (durch_num os "S" Ks eq_refl). reflexivity.
Qed.

Lemma dur_text_chars d ds : nonneg_dur d = true -> dur_str d = TOk ds ->
  (exists rest, ds = String "P" rest) /\ contains_char "/" ds = false.
Proof.
  intros NN DS. split; [exact (dur_str_P d ds NN DS)|].
  apply (str_all_no_char durch); [reflexivity|].
  unfold dur_str in DS. destruct (dur_bool d); cbn [negb] in DS.
  - rewrite (nonneg_not_fully_negative d NN) in DS. exact (dur_body_chars d ds NN DS).
  - injection DS as <-. reflexivity.
Qed.

(* DurationParser on the text of a non-negative duration *)
Lemma rec_dur_of_str d ds : nonneg_dur d = true -> dur_str d = TOk ds ->
  exists d', rec_dur_of ds = inl d' /\ dur_eqb d' d = true /\ (dur_bool d = true -> dur_equiv d' d) /\
             is_ascii_str ds = true.
Proof.
  intros NN DS.
  assert (SS : single_signed d = true) by (unfold single_signed; rewrite NN; reflexivity).
  destruct (roundtrip_full d ds SS DS) as (d' & P & E & _ & Q).
  exists d'. unfold rec_dur_of. rewrite P. repeat split; try assumption.
  apply ascii7_str. unfold dur_parse in P.
  destruct (str_all is_ascii7 ds); [reflexivity|discriminate P].
Qed.

(* --- 3d. the recurrence parser on "R[n]/a/b" --- *)
Definition isP (t : string) : bool := match t with String "P" _ => true | _ => false end.
Definition rec_dispatch (md : mode) (local : Z * Z) (n : option Z) (a b : string) : option recur + cres :=
  let mk := fun s d e => match rec_make md n s d e with Ok x => inl (Some x) | Err => inr CExit end in
  if String.eqb a "" || String.eqb b "" then inr CExit
  else if negb (isP a) && negb (isP b) then
    match rec_ptp_of md local a, rec_ptp_of md local b with
    | inl s, inl e => mk (Some s) None (Some e) | inr x, _ => inr x | _, inr x => inr x end
  else if negb (isP a) && isP b then
    match rec_ptp_of md local a, rec_dur_of b with
    | inl s, inl d => mk (Some s) (Some d) None | inr x, _ => inr x | _, inr x => inr x end
  else if isP a && negb (isP b) then
    match rec_dur_of a, rec_ptp_of md local b with
    | inl d, inl e => mk None (Some d) (Some e) | inr x, _ => inr x | _, inr x => inr x end
  else inr CExit.

Definition reps_nonneg (o : option Z) : Prop := match o with None => True | Some n => (0 <= n)%Z end.

Lemma forallb_str_all (p : ascii -> bool) s : forallb p (list_ascii_of_string s) = str_all p s.
Proof. induction s as [|c s IH]; cbn [list_ascii_of_string forallb str_all]; [reflexivity|]. rewrite IH. reflexivity. Qed.

Lemma rec_of_text_parts : forall md local reps a b,
  reps_nonneg reps ->
  contains_char "/" a = false -> contains_char "/" b = false ->
  is_ascii_str a = true -> is_ascii_str b = true ->
  rec_of_text md local (reps_text reps ++ a ++ "/" ++ b) = rec_dispatch md local reps a b.
Proof.
  intros md local reps a b RN Sa Sb Aa Ab.
  set (nd := match reps with None => "" | Some n => show_Z n end).
  assert (ET : reps_text reps ++ a ++ "/" ++ b = String "R" nd ++ String "/" (a ++ String "/" b)).
  { unfold nd. destruct reps; cbn [reps_text String.append]; [|reflexivity].
    rewrite DurTextSpec.sapp_assoc. reflexivity. }
  assert (ND : DurText.all_digits nd = true).
  { unfold nd. destruct reps as [n|]; [|reflexivity]. exact (proj1 (show_Z_nonneg n RN)). }
  assert (NS : contains_char "/" (String "R" nd) = false).
  { cbn [contains_char]. change (Ascii.eqb "R" "/") with false. cbn [orb].
    apply (str_all_no_char DurText.is_digit); [reflexivity|exact ND]. }
  assert (NA : is_ascii_str (String "R" nd) = true).
  { change (String "R" nd) with ("R" ++ nd). rewrite is_ascii_app. cbn [andb].
    change (is_ascii_str "R") with true. cbn [andb]. apply ascii7_str. apply digits_ascii7. exact ND. }
  unfold rec_of_text. rewrite ET.
  rewrite !is_ascii_app. change (String "/" (a ++ String "/" b)) with ("/" ++ a ++ "/" ++ b).
  rewrite !is_ascii_app, NA, Aa, Ab. change (is_ascii_str "/") with true. cbn [andb negb].
  change ("/" ++ a ++ "/" ++ b) with (String "/" (a ++ String "/" b)).
  rewrite (split_on_at "/" (String "R" nd) (a ++ String "/" b) "" NS).
  rewrite (split_on_at "/" a b "" Sa), (split_on_nochar "/" b "" Sb).
  cbn [String.append].
  assert (RP : (if String.eqb nd "" then Some None
                else if forallb DurText.is_digit (list_ascii_of_string nd)
                     then match read_Z nd with Some z => Some (Some z) | None => None end else None) = Some reps).
  { unfold nd. destruct reps as [n|]; [|reflexivity].
    rewrite show_Z_nonempty, forallb_str_all.
    change (str_all DurText.is_digit (show_Z n)) with (DurText.all_digits (show_Z n)).
    rewrite (proj1 (show_Z_nonneg n RN)).
    unfold read_Z, show_Z. rewrite DecimalString.NilZero.isi.
    - rewrite DecimalZ.of_to. reflexivity.
    - destruct n; cbn; try discriminate; intros H; injection H as H; revert H; apply DecimalPos.Unsigned.to_uint_nonnil.
    - destruct n; cbn; try discriminate; intros H; injection H as H; revert H; apply DecimalPos.Unsigned.to_uint_nonnil. }
  rewrite RP. reflexivity.
Qed.

(* ====================================================================== *)
(* 4. the discarded duration text of format 1 cannot raise                  *)
(* ====================================================================== *)
Local Open Scope Z_scope.

Lemma int_fits_small n k : (1 <= k <= 4300)%nat -> Z.abs n < 10 ^ Z.of_nat k -> int_fits n = true.
Proof.
  intros K H. unfold int_fits, INT_MAX_STR_DIGITS. apply Nat.leb_le.
  pose proof (show_Z_len (Z.abs n) k ltac:(split; [apply Z.abs_nonneg|exact H]) ltac:(lia)). lia.
Qed.

(* day numbers of the years 0000..9999 *)
Lemma date_dn_bounds md d : valid_date md d = true -> 0 <= date_year d <= 9999 ->
  -3 <= date_dn md d <= 3660003.
Proof.
  intros V Y.
  assert (B : forall y, 0 <= y <= 10000 -> 0 <= dby md y <= 3660000) by (intros y Hy; destruct md; cbn [dby]; lia).
  destruct d as [y m dd|y doy|y w dd]; cbn [valid_date date_dn date_year] in *.
  - destruct (cal_range md y m dd V) as (_ & _ & _ & R). pose proof (B y ltac:(lia)). pose proof (B (y + 1) ltac:(lia)). lia.
  - destruct (ord_range md y doy V) as (_ & R). pose proof (B y ltac:(lia)). pose proof (B (y + 1) ltac:(lia)). lia.
  - destruct (week_range md y w dd V) as (_ & _ & R).
    pose proof (wys_bounds md y). pose proof (wys_bounds md (y + 1)).
    pose proof (B y ltac:(lia)). pose proof (B (y + 1) ltac:(lia)). lia.
Qed.

Lemma valid_tod_secs t : valid_tod t = true -> (0 <= tod_secs t /\ tod_secs t <= 90060)%Q.
Proof.
  destruct t as [h m s|h m|h]; intros V; unfold valid_tod in V; CmpSpec.b2p V; cbn [tod_secs]; unfold qz, inject_Z in *.
  - destruct V as [_ [V|V]]; [|destruct V as [[A B] C]]; split; lra.
  - destruct V as [_ [V|V]]; split; lra.
  - split; lra.
Qed.

Lemma instant_bounds md p : valid_tp md p = true -> 0 <= date_year (tdate p) <= 9999 ->
  (- (320000000000) <= instant md p /\ instant md p <= 320000000000)%Q.
Proof.
  intros V Y. destruct (valid_tp_parts md p V) as (Vd & Vt & Vz).
  pose proof (date_dn_bounds md _ Vd Y) as D. pose proof (valid_tod_secs _ Vt) as [T0 T1].
  unfold instant, qz.
  assert (Z1 : -360000 <= zone_secs (tzone p) <= 360000) by (unfold valid_zone in Vz; unfold zone_secs; lia).
  assert (A1 : (-259200 # 1 <= inject_Z (86400 * date_dn md (tdate p)))%Q)
    by (change (-259200 # 1)%Q with (inject_Z (-259200)); apply le_inj; lia).
  assert (A2 : (inject_Z (86400 * date_dn md (tdate p)) <= 316224259200 # 1)%Q)
    by (change (316224259200 # 1)%Q with (inject_Z 316224259200); apply le_inj; lia).
  assert (A3 : (-360000 # 1 <= inject_Z (zone_secs (tzone p)))%Q)
    by (change (-360000 # 1)%Q with (inject_Z (-360000)); apply le_inj; lia).
  assert (A4 : (inject_Z (zone_secs (tzone p)) <= 360000 # 1)%Q)
    by (change (360000 # 1)%Q with (inject_Z 360000); apply le_inj; lia).
  split; lra.
Qed.

Lemma q_fits_small x : (0 <= x)%Q -> (x < 100)%Q -> q_fits x = true.
Proof.
  intros A B. unfold q_fits. cbv zeta.
  destruct (Zpos (Qden (Qred x)) =? 1) eqn:E; [|reflexivity]. cbn [negb orb].
  apply (int_fits_small _ 2%nat); [lia|]. change (10 ^ Z.of_nat 2) with 100.
  pose proof (Qred_correct x) as R. assert (D : Qden (Qred x) = 1%positive) by lia.
  assert (E1 : (Qred x == inject_Z (Qnum (Qred x)))%Q).
  { unfold Qeq, inject_Z. cbn [Qnum Qden]. rewrite D. lia. }
  assert (E2 : (x == inject_Z (Qnum (Qred x)))%Q) by (transitivity (Qred x); [symmetry; exact R|exact E1]).
  assert (A' : (inject_Z 0 <= inject_Z (Qnum (Qred x)))%Q) by (rewrite <- E2; exact A).
  assert (B' : (inject_Z (Qnum (Qred x)) < inject_Z 100)%Q) by (rewrite <- E2; exact B).
  apply inj_le in A'. apply inj_lt in B'. lia.
Qed.

(* the difference of two points of the years 0000..9999, the later minus the earlier *)
Lemma sub_no_raise md sp ep dd : pt_ok md sp -> pt_ok md ep ->
  tp_cmp md sp ep = Some Lt -> tp_sub md ep sp = Some dd ->
  nonneg_dur dd = true /\ dur_str_no_raise dd = true.
Proof.
  intros (Vs & Ys & _) (Ve & Ye & _) C S.
  destruct (tp_sub_spec md ep sp Ve Vs) as (n & h & m & s & E & Len & POS & _).
  rewrite E in S. injection S as <-.
  rewrite (tp_cmp_spec md sp ep Vs Ve) in C. injection C as C. rewrite <- Qlt_alt in C.
  destruct (POS ltac:(lra)) as (N0 & H0 & H1 & M0 & M1 & S0 & S1).
  destruct (instant_bounds md sp Vs Ys) as [I1 I2]. destruct (instant_bounds md ep Ve Ye) as [J1 J2].
  rewrite dur_len_DU' in Len.
  assert (NB : n < 10 ^ Z.of_nat 8).
  { change (10 ^ Z.of_nat 8) with 100000000. apply inj_lt. change (inject_Z 100000000) with 100000000%Q. lra. }
  split.
  - cbn [nonneg_dur]. pose proof (qnum_nonneg h H0). pose proof (qnum_nonneg m M0). pose proof (qnum_nonneg s S0). lia.
  - cbn [dur_str_no_raise].
    rewrite (int_fits_small 0 1%nat ltac:(lia) ltac:(reflexivity)).
    rewrite (int_fits_small n 8%nat ltac:(lia) ltac:(lia)).
    rewrite (q_fits_small h H0 ltac:(lra)), (q_fits_small m M0 ltac:(lra)), (q_fits_small s S0 ltac:(lra)). reflexivity.
Qed.

(* with the int components within CPython's limit, str(d) returns (a text
   the model knows, or one it does not model) *)
Lemma z_unit_status z u : int_fits z = true -> exists s, z_unit z u = TOk s.
Proof.
  intros H. unfold z_unit. destruct (z =? 0); [eexists; reflexivity|].
  unfold tmap, tbind, int_str. unfold int_fits in H. rewrite H. eexists; reflexivity.
Qed.
Lemma q_unit_status x u : (exists s, q_unit x u = TOk s) \/ q_unit x u = TUnmodelled.
Proof.
  unfold q_unit. destruct (Qeq_bool (Qred x) 0); [left; eexists; reflexivity|].
  destruct (Zpos (Qden (Qred x)) =? 1).
  - destruct (float_safe _ _); [left; eexists; reflexivity|right; reflexivity].
  - assert (F : forall r, (exists s, frac_str r = TOk s) \/ frac_str r = TUnmodelled).
    { intros r. unfold frac_str. destruct (Qle_bool _ _); [|right; reflexivity].
      destruct (fdig _ _ _); [|right; reflexivity].
      destruct (float_safe _ _); [left; eexists; reflexivity|right; reflexivity]. }
    destruct (0 <? Qnum (Qred x)); unfold tmap, tbind.
    + destruct (F (Qred x)) as [[s ->]| ->]; [left; eexists; reflexivity|right; reflexivity].
    + destruct (F (Qred (- Qred x))) as [[s ->]| ->]; [left; eexists; reflexivity|right; reflexivity].
Qed.

Lemma unused_ok d : nonneg_dur d = true -> dur_str_no_raise d = true ->
  exists x, duration_text_unused (Some d) = RtOk x.
Proof.
  intros NN NR. unfold duration_text_unused. rewrite NR.
  assert (K : (exists s, dur_str d = TOk s) \/ dur_str d = TUnmodelled).
  { unfold dur_str. destruct (dur_bool d); cbn [negb]; [|left; eexists; reflexivity].
    rewrite (nonneg_not_fully_negative d NN).
    destruct d as [w|y mo dd h mi s]; cbn [dur_str_body dur_str_no_raise] in *.
    - unfold tmap, tbind, int_str. unfold int_fits in NR. rewrite NR. left; eexists; reflexivity.
    - repeat (apply andb_true_iff in NR; destruct NR as [NR ?]).
      destruct (z_unit_status y "Y" NR) as [s1 ->]. destruct (z_unit_status mo "M" H3) as [s2 ->].
      destruct (z_unit_status dd "D" H2) as [s3 ->]. cbn [tbind].
      destruct (q_unit_status h "H") as [[s4 ->]| ->]; cbn [tbind]; [|right; reflexivity].
      destruct (q_unit_status mi "M") as [[s5 ->]| ->]; cbn [tbind]; [|right; reflexivity].
      destruct (q_unit_status s "S") as [[s6 ->]| ->]; cbn [tbind]; [|right; reflexivity].
      left; eexists; reflexivity. }
  destruct K as [[s ->]| ->]; eexists; reflexivity.
Qed.

(* ====================================================================== *)
(* 5. parse(str(r)) == r with the same points                              *)
(* ====================================================================== *)
Lemma isP_false t : contains_char "P" t = false -> isP t = false.
Proof.
  destruct t as [|c r]; [reflexivity|]. cbn [contains_char]. intros H. apply orb_false_iff in H. destruct H as [H _].
  destruct c as [[] [] [] [] [] [] [] []]; try reflexivity. discriminate H.
Qed.

Definition mk_res (x : res recur) : option recur + cres :=
  match x with Ok r => inl (Some r) | Err => inr CExit end.

Lemma dispatch_pp md local reps sp ep : reps_nonneg reps -> pt_ok md sp -> pt_ok md ep ->
  exists s1 e1, same_point s1 sp /\ same_point e1 ep /\
    rec_of_text md local (reps_text reps ++ str_text 0 sp ++ "/" ++ str_text 0 ep) =
    mk_res (rec_make md reps (Some s1) None (Some e1)).
Proof.
  intros RN Ps Pe.
  destruct (str_text_chars md sp Ps) as (S1 & S2 & S3 & S4). destruct (str_text_chars md ep Pe) as (E1 & E2 & E3 & E4).
  destruct (rec_ptp_of_str md local sp Ps) as (s1 & Qs & SPs). destruct (rec_ptp_of_str md local ep Pe) as (e1 & Qe & SPe).
  exists s1, e1. split; [exact SPs|]. split; [exact SPe|].
  rewrite (rec_of_text_parts md local reps _ _ RN S1 E1 S3 E3). unfold rec_dispatch.
  rewrite S4, E4, (isP_false _ S2), (isP_false _ E2), Qs, Qe. reflexivity.
Qed.

Lemma dispatch_pd md local reps sp ds rest d1 : reps_nonneg reps -> pt_ok md sp ->
  ds = String "P" rest -> contains_char "/" ds = false -> is_ascii_str ds = true -> rec_dur_of ds = inl d1 ->
  exists s1, same_point s1 sp /\
    rec_of_text md local (reps_text reps ++ str_text 0 sp ++ "/" ++ ds) = mk_res (rec_make md reps (Some s1) (Some d1) None).
Proof.
  intros RN Ps EP D1 D3 QD.
  destruct (str_text_chars md sp Ps) as (S1 & S2 & S3 & S4).
  destruct (rec_ptp_of_str md local sp Ps) as (s1 & Qs & SPs).
  exists s1. split; [exact SPs|].
  rewrite (rec_of_text_parts md local reps _ _ RN S1 D1 S3 D3). unfold rec_dispatch.
  rewrite S4, (isP_false _ S2), Qs, QD. subst ds. reflexivity.
Qed.

Lemma dispatch_dp md local reps ep ds rest d1 : reps_nonneg reps -> pt_ok md ep ->
  ds = String "P" rest -> contains_char "/" ds = false -> is_ascii_str ds = true -> rec_dur_of ds = inl d1 ->
  exists e1, same_point e1 ep /\
    rec_of_text md local (reps_text reps ++ ds ++ "/" ++ str_text 0 ep) = mk_res (rec_make md reps None (Some d1) (Some e1)).
Proof.
  intros RN Pe EP D1 D3 QD.
  destruct (str_text_chars md ep Pe) as (E1 & E2 & E3 & E4).
  destruct (rec_ptp_of_str md local ep Pe) as (e1 & Qe & SPe).
  exists e1. split; [exact SPe|].
  rewrite (rec_of_text_parts md local reps _ _ RN D1 E1 D3 E3). unfold rec_dispatch.
  rewrite E4, (isP_false _ E2), Qe, QD. subst ds. reflexivity.
Qed.

Lemma orel_sym_sp a b : orel same_point a b -> orel same_point b a.
Proof. destruct a, b; cbn [orel]; try tauto. apply same_point_sym. Qed.
Lemma orel_sym_du a b : orel dur_equiv a b -> orel dur_equiv b a.
Proof. destruct a, b; cbn [orel]; try tauto. apply dur_equiv_sym. Qed.
Lemma rec_equiv_sym a b : rec_equiv a b -> rec_equiv b a.
Proof.
  intros (N & S & D & E & X & F).
  refine (conj _ (conj _ (conj _ (conj _ (conj _ _))))); try (symmetry; assumption);
    try (apply orel_sym_sp; assumption). apply orel_sym_du; assumption.
Qed.

(* what is claimed of the re-parsed recurrence *)
Definition reparsed (md : mode) (local : Z * Z) (r : recur) (t : string) : Prop :=
  exists r', rec_of_text md local t = inl (Some r') /\ rec_eqb md r r' = true /\
             forall k, Forall2 same_point (iter_take md r' k) (iter_take md r k).

Lemma reparsed_equiv md local r t r' : rec_of_text md local t = inl (Some r') -> rec_equiv r' r -> reparsed md local r t.
Proof.
  intros T E. exists r'. split; [exact T|]. split; [apply rec_equiv_eqb; apply rec_equiv_sym; exact E|].
  intros k. apply iter_take_c. exact E.
Qed.

(* the text names the constructor's own arguments: the same constructor call on
   the parsed (equivalent) arguments gives an equivalent recurrence *)
Lemma reparsed_regular md local r t reps s d e s1 d1 e1 :
  rec_make md reps s d e = Ok r ->
  orel same_point s1 s -> orel dur_equiv d1 d -> orel same_point e1 e ->
  rec_of_text md local t = mk_res (rec_make md reps s1 d1 e1) -> reparsed md local r t.
Proof.
  intros M S D E T. pose proof (rec_make_c md reps s1 s d1 d e1 e S D E) as C. rewrite M in C.
  destruct (rec_make md reps s1 d1 e1) as [r'|]; cbn [res_rel] in C; [|contradiction].
  apply (reparsed_equiv md local r t r' T C).
Qed.

Definition du_ok (d : dur) : Prop := nonneg_dur d = true /\ printable d = true.
Definition opt_pt_ok (md : mode) (o : option tp) : Prop := match o with Some p => pt_ok md p | None => True end.
Definition opt_du_ok (o : option dur) : Prop := match o with Some d => du_ok d | None => True end.
Definition shape_ok (s : option tp) (d : option dur) (e : option tp) : Prop :=
  (s <> None /\ d = None /\ e <> None) \/ (s <> None /\ d <> None /\ e = None) \/ (s = None /\ d <> None /\ e <> None).
Definition reps_ok (reps : option Z) : Prop :=
  match reps with None => True | Some n => 1 <= n < 10 ^ 4300 end.

Lemma reps_ok_fit reps : reps_ok reps -> reps_fit reps /\ reps_nonneg reps.
Proof.
  destruct reps as [n|]; cbn [reps_ok reps_fit reps_nonneg]; [|auto]. intros [H1 H2].
  assert (H0 : 0 <= n) by (clear H2; lia). split; [|exact H0].
  apply (int_fits_small n 4300%nat); [clear H2; lia|]. change (Z.of_nat 4300) with 4300.
  rewrite (Z.abs_eq n H0). exact H2.
Qed.
Lemma fit_one : reps_fit (Some 1) /\ reps_nonneg (Some 1).
Proof. split; [reflexivity|cbn; lia]. Qed.

Lemma dur_ltb_dzero_refl md : dur_ltb md dzero dzero = false.
Proof. destruct md; vm_compute; reflexivity. Qed.

Lemma falsy_eqb_dzero d : dur_bool d = false -> dur_eqb d dzero = true.
Proof.
  intros B. assert (E : is_exact d = true).
  { destruct d as [w|y mo dd h mi s]; [reflexivity|]. cbn [dur_bool is_exact] in *. apply negb_false_iff in B.
    repeat (apply andb_true_iff in B; destruct B as [B ?]). rewrite B, H3. reflexivity. }
  apply (dur_eqb_dzero d E). apply dur_bool_false_len. exact B.
Qed.

Lemma rec_dur_of_P0Y : rec_dur_of "P0Y" = inl dzero.
Proof. vm_compute. reflexivity. Qed.

Theorem text_roundtrip : forall md local reps s d e r,
  rec_make md reps s d e = Ok r ->
  shape_ok s d e -> reps_ok reps -> opt_pt_ok md s -> opt_pt_ok md e -> opt_du_ok d ->
  exists t, rec_str md r = RtOk t /\ reparsed md local r t.
Proof.
  intros md local reps s d e r M SH RO PS PE PD.
  destruct (reps_ok_fit reps RO) as [RF RN]. destruct fit_one as [RF1 RN1].
  pose proof M as M0. unfold rec_make in M.
  assert (G1 : match reps with Some n => n <=? 0 | None => false end = false)
    by (destruct reps as [n|]; cbn [reps_ok] in RO; [destruct RO as [RO _]; lia|reflexivity]).
  rewrite G1 in M.
  destruct d as [dd|].
  - (* formats 3 and 4 *)
    destruct PD as [NN PR]. unfold printable in PR. destruct (dur_str dd) as [ds| | | |] eqn:DS; try discriminate PR.
    destruct (dur_ltb md dd dzero) eqn:G2; [discriminate M|].
    destruct (rec_dur_of_str dd ds NN DS) as (d1 & QD & EQ & EV & AS).
    destruct (dur_text_chars dd ds NN DS) as ((rest & EP) & NS).
    destruct s as [sp|], e as [ep|]; try discriminate M;
      try (exfalso; destruct SH as [(A & B & C)|[(A & B & C)|(A & B & C)]]; congruence).
    + (* format 3 *)
      cbn [opt_pt_ok] in PS. pose proof PS as (Vs & Ys & _).
      destruct (zopt_eqb reps 1 || dur_eqb dd dzero) eqn:Z1.
      * injection M as <-.
        exists (reps_text (Some 1) ++ str_text 0 sp ++ "/" ++ "P0Y"). split.
        { apply rec_str_fmt3; try reflexivity; try exact RF1; lia. }
        destruct (dispatch_pd md local (Some 1) sp "P0Y" "0Y" dzero RN1 PS eq_refl eq_refl eq_refl rec_dur_of_P0Y)
          as (s1 & SP1 & T).
        assert (MK : rec_make md (Some 1) (Some s1) (Some dzero) None = Ok (mkRec (Some 1) (Some s1) None (Some s1) None 3)).
        { unfold rec_make. rewrite dur_ltb_dzero_refl. reflexivity. }
        rewrite MK in T. apply (reparsed_equiv md local _ _ _ T).
        refine (conj _ (conj _ (conj _ (conj _ (conj _ _))))); cbn [r_reps r_start r_dur r_end r_second r_fmt orel]; auto.
      * apply orb_false_iff in Z1. destruct Z1 as [Z1 Z2].
        assert (DB : dur_bool dd = true).
        { destruct (dur_bool dd) eqn:B; [reflexivity|]. rewrite (falsy_eqb_dzero dd B) in Z2. discriminate Z2. }
        assert (FACTS : r_reps r = reps /\ r_start r = Some sp /\ r_dur r = Some dd /\ r_fmt r = 3).
        { destruct reps as [n|]; [destruct (tp_add md sp (dur_mul dd (n - 1))); [|discriminate M]|];
            injection M as <-; auto. }
        destruct FACTS as (F1 & F2 & F3 & F4).
        exists (reps_text reps ++ str_text 0 sp ++ "/" ++ ds). split.
        { rewrite <- F1. apply rec_str_fmt3; [exact F4|exact F2|rewrite F1; exact RF| |lia].
          rewrite F3. cbn [duration_text]. rewrite DS. reflexivity. }
        destruct (dispatch_pd md local reps sp ds rest d1 RN PS EP NS AS QD) as (s1 & SP1 & T).
        apply (reparsed_regular md local r _ reps (Some sp) (Some dd) None (Some s1) (Some d1) None M0); cbn [orel]; auto.
    + (* format 4 *)
      cbn [opt_pt_ok] in PE. pose proof PE as (Ve & Ye & _).
      destruct (zopt_eqb reps 1 || dur_eqb dd dzero) eqn:Z1.
      * injection M as <-.
        exists (reps_text (Some 1) ++ "P0Y" ++ "/" ++ str_text 0 ep). split.
        { apply rec_str_fmt4; try reflexivity; try exact RF1; lia. }
        destruct (dispatch_dp md local (Some 1) ep "P0Y" "0Y" dzero RN1 PE eq_refl eq_refl eq_refl rec_dur_of_P0Y)
          as (e1 & SP1 & T).
        assert (MK : rec_make md (Some 1) None (Some dzero) (Some e1) = Ok (mkRec (Some 1) (Some e1) None (Some e1) None 4)).
        { unfold rec_make. rewrite dur_ltb_dzero_refl. reflexivity. }
        rewrite MK in T. apply (reparsed_equiv md local _ _ _ T).
        refine (conj _ (conj _ (conj _ (conj _ (conj _ _))))); cbn [r_reps r_start r_dur r_end r_second r_fmt orel]; auto.
      * apply orb_false_iff in Z1. destruct Z1 as [Z1 Z2].
        assert (DB : dur_bool dd = true).
        { destruct (dur_bool dd) eqn:B; [reflexivity|]. rewrite (falsy_eqb_dzero dd B) in Z2. discriminate Z2. }
        assert (FACTS : r_reps r = reps /\ r_end r = Some ep /\ r_dur r = Some dd /\ r_fmt r = 4).
        { destruct reps as [n|]; [destruct (tp_sub_dur md ep (dur_mul dd (n - 1))); [|discriminate M]|];
            injection M as <-; auto. }
        destruct FACTS as (F1 & F2 & F3 & F4).
        exists (reps_text reps ++ ds ++ "/" ++ str_text 0 ep). split.
        { rewrite <- F1. apply rec_str_fmt4; [exact F4|exact F2|rewrite F1; exact RF| |lia].
          rewrite F3. cbn [duration_text]. rewrite DS. reflexivity. }
        destruct (dispatch_dp md local reps ep ds rest d1 RN PE EP NS AS QD) as (e1 & SP1 & T).
        apply (reparsed_regular md local r _ reps None (Some dd) (Some ep) None (Some d1) (Some e1) M0); cbn [orel]; auto.
  - (* format 1 *)
    destruct s as [sp|], e as [ep|];
      try (exfalso; destruct SH as [(A & B & C)|[(A & B & C)|(A & B & C)]]; congruence).
    cbn [opt_pt_ok] in PS, PE. pose proof PS as (Vs & Ys & _). pose proof PE as (Ve & Ye & _).
    destruct (zopt_eqb reps 1) eqn:Z1.
    + (* one repetition: the second point is dropped *)
      injection M as <-. apply zopt_eqb_true in Z1. subst reps.
      eexists. split.
      { apply (rec_str_fmt1 md _ sp sp "P0Y"); try reflexivity; try exact RF1; lia. }
      destruct (dispatch_pp md local (Some 1) sp sp RN1 PS PS) as (s1 & e1 & SP1 & SP2 & T).
      change (rec_make md (Some 1) (Some s1) None (Some e1)) with (Ok (mkRec (Some 1) (Some s1) None (Some s1) (Some s1) 1)) in T.
      apply (reparsed_equiv md local _ _ _ T).
      refine (conj _ (conj _ (conj _ (conj _ (conj _ _))))); cbn [r_reps r_start r_dur r_end r_second r_fmt orel]; auto.
    + destruct (tp_cmp md sp ep) as [[| |]|] eqn:C; try discriminate M.
      * (* the two points are one instant: a single point, printed with both spellings *)
        injection M as <-.
        eexists. split.
        { apply (rec_str_fmt1 md _ sp ep "P0Y"); try reflexivity; try exact RF1; lia. }
        destruct (dispatch_pp md local (Some 1) sp ep RN1 PS PE) as (s1 & e1 & SP1 & SP2 & T).
        change (rec_make md (Some 1) (Some s1) None (Some e1)) with (Ok (mkRec (Some 1) (Some s1) None (Some s1) (Some s1) 1)) in T.
        exists (mkRec (Some 1) (Some s1) None (Some s1) (Some s1) 1). split; [exact T|].
        assert (C1 : tp_cmp md sp s1 = Some Eq) by (apply same_point_cmp; apply same_point_sym; exact SP1).
        assert (C2 : tp_cmp md ep s1 = Some Eq).
        { rewrite (tp_cmp_c md ep ep s1 sp (same_point_refl ep) SP1). exact (tp_cmp_sym md sp ep Eq Vs Ve C). }
        assert (C3 : tp_cmp md s1 s1 = Some Eq) by (apply same_point_cmp; apply same_point_refl).
        assert (C4 : tp_cmp md sp sp = Some Eq) by (apply same_point_cmp; apply same_point_refl).
        split.
        { unfold rec_eqb. cbn [r_reps r_start r_dur r_end opt_z_eqb opt_tp_eqb opt_dur_eqb]. unfold tp_eqb.
          rewrite C1, C2. reflexivity. }
        intros [|k]; [constructor|].
        unfold iter_take, in_bounds, tp_ltb, tp_gtb.
        cbn [r_reps r_start r_dur r_end zopt_eqb Z.eqb Pos.eqb orb]. rewrite C3, C4, C.
        cbn [cmp_op]. constructor; [exact SP1|constructor].
      * (* the second point is later: the constructor's own arguments are printed *)
        destruct (tp_sub md ep sp) as [dd|] eqn:SB; [|discriminate M].
        destruct (sub_no_raise md sp ep dd PS PE C SB) as [NN NR].
        destruct (unused_ok dd NN NR) as [x UX].
        assert (FACTS : r_reps r = reps /\ r_start r = Some sp /\ r_second r = Some ep /\ r_dur r = Some dd /\ r_fmt r = 1).
        { destruct reps as [n|]; [destruct (tp_add md sp (dur_mul dd (n - 1))); [|discriminate M]|];
            injection M as <-; auto 6. }
        destruct FACTS as (F1 & F2 & F3 & F4 & F5).
        exists (reps_text reps ++ str_text 0 sp ++ "/" ++ str_text 0 ep). split.
        { rewrite <- F1. apply (rec_str_fmt1 md r sp ep x); try assumption; try lia; [rewrite F1; exact RF|].
          rewrite F4. exact UX. }
        destruct (dispatch_pp md local reps sp ep RN PS PE) as (s1 & e1 & SP1 & SP2 & T).
        apply (reparsed_regular md local r _ reps (Some sp) None (Some ep) (Some s1) None (Some e1) M0); cbn [orel]; auto.
Qed.

(* ====================================================================== *)
(* 6. "single-signed and not negative" is "no negative component"           *)
(* ====================================================================== *)
Lemma fully_negative_ltb md d : fully_negative d = true -> dur_ltb md d dzero = true.
Proof.
  intros FN. apply (proj1 (dur_order_spec md d dzero)).
  assert (Z0 : (rough_len md dzero == 0)%Q) by (destruct md; vm_compute; reflexivity).
  rewrite Z0. unfold rough_len.
  destruct d as [w|y mo dd h mi s]; cbn [fully_negative DurSpec.dur_years DurSpec.dur_months] in *.
  - rewrite dur_len_DW. change (0 * DAYS_IN_YEAR md + 0 * 30) with 0. change (inject_Z (0 * 86400)) with 0%Q.
    assert (L : (inject_Z (604800 * w) < inject_Z 0)%Q) by (apply lt_inj; lia).
    change (inject_Z 0) with 0%Q in L. lra.
  - apply andb_true_iff in FN. destruct FN as [A E]. cbn [forallb existsb] in A, E. unfold qsgn in A, E.
    assert (B : y <= 0 /\ mo <= 0 /\ dd <= 0 /\ Qnum h <= 0 /\ Qnum mi <= 0 /\ Qnum s <= 0) by lia.
    destruct B as (B1 & B2 & B3 & B4 & B5 & B6).
    pose proof (Qnum_nonpos_le h B4) as H4. pose proof (Qnum_nonpos_le mi B5) as H5. pose proof (Qnum_nonpos_le s B6) as H6.
    assert (DY : 360 <= DAYS_IN_YEAR md <= 366) by (destruct md; vm_compute; split; discriminate).
    rewrite dur_len_DU'.
    assert (QL : forall q : Q, Qnum q < 0 -> (q < 0)%Q) by (intros q Hq; unfold Qlt; cbn; lia).
    assert (K1 : (inject_Z ((y * DAYS_IN_YEAR md + mo * 30) * 86400) <= inject_Z 0)%Q) by (apply le_inj; nia).
    assert (K2 : (inject_Z dd <= inject_Z 0)%Q) by (apply le_inj; lia).
    change (inject_Z 0) with 0%Q in K1, K2.
    assert (STRICT : y < 0 \/ mo < 0 \/ dd < 0 \/ Qnum h < 0 \/ Qnum mi < 0 \/ Qnum s < 0) by lia.
    destruct STRICT as [S|[S|[S|[S|[S|S]]]]].
    + assert (K : (inject_Z ((y * DAYS_IN_YEAR md + mo * 30) * 86400) < inject_Z 0)%Q) by (apply lt_inj; nia).
      change (inject_Z 0) with 0%Q in K. lra.
    + assert (K : (inject_Z ((y * DAYS_IN_YEAR md + mo * 30) * 86400) < inject_Z 0)%Q) by (apply lt_inj; nia).
      change (inject_Z 0) with 0%Q in K. lra.
    + assert (K : (inject_Z dd < inject_Z 0)%Q) by (apply lt_inj; lia). change (inject_Z 0) with 0%Q in K. lra.
    + pose proof (QL h S). lra.
    + pose proof (QL mi S). lra.
    + pose proof (QL s S). lra.
Qed.

Lemma single_signed_nonneg md d : single_signed d = true -> dur_ltb md d dzero = false -> nonneg_dur d = true.
Proof.
  unfold single_signed. intros S L. destruct (nonneg_dur d); [reflexivity|]. cbn [orb] in S.
  rewrite (fully_negative_ltb md d S) in L. discriminate L.
Qed.

(* the statement with the hypotheses of the property: every given duration is
   single-signed and printable (that it is not negative follows from the
   constructor having accepted it) *)
Definition du_given (d : dur) : Prop := single_signed d = true /\ printable d = true.
Definition opt_du_given (o : option dur) : Prop := match o with Some d => du_given d | None => True end.

Lemma make_not_negative md reps s d e r : rec_make md reps s (Some d) e = Ok r -> dur_ltb md d dzero = false.
Proof.
  unfold rec_make. destruct (match reps with Some n => n <=? 0 | None => false end); [discriminate|].
  destruct (dur_ltb md d dzero); [discriminate|reflexivity].
Qed.

Theorem text_roundtrip_given : forall md local reps s d e r,
  rec_make md reps s d e = Ok r ->
  shape_ok s d e -> reps_ok reps -> opt_pt_ok md s -> opt_pt_ok md e -> opt_du_given d ->
  exists t r', rec_str md r = RtOk t /\ rec_of_text md local t = inl (Some r') /\ rec_eqb md r r' = true /\
               forall k, Forall2 same_point (iter_take md r' k) (iter_take md r k).
Proof.
  intros md local reps s d e r M SH RO PS PE PD.
  assert (PD' : opt_du_ok d).
  { destruct d as [dd|]; [|exact I]. destruct PD as [SS PR]. split; [|exact PR].
    apply (single_signed_nonneg md dd SS). exact (make_not_negative md reps s dd e r M). }
  destruct (text_roundtrip md local reps s d e r M SH RO PS PE PD') as (t & T & r' & A & B & C).
  exists t, r'. auto.
Qed.

(* what the last clause says, index by index *)
Lemma forall2_points : forall (l1 l2 : list tp), Forall2 same_point l1 l2 ->
  List.length l1 = List.length l2 /\
  forall i q, nth_error l1 i = Some q -> exists p, nth_error l2 i = Some p /\ same_point q p.
Proof.
  induction 1 as [|a b l1 l2 H F IH]; [split; [reflexivity|intros [|i] q E; discriminate E]|].
  destruct IH as [L N]. split; [cbn [List.length]; rewrite L; reflexivity|].
  intros [|i] q E; cbn [nth_error] in *.
  - injection E as <-. exists b. auto.
  - apply N. exact E.
Qed.

(* the arithmetic underneath, in one statement *)
Lemma spelling_irrelevant : forall md reps s s' d d' e e',
  orel same_point s s' -> orel dur_equiv d d' -> orel same_point e e' ->
  res_rel rec_equiv (rec_make md reps s d e) (rec_make md reps s' d' e') /\
  (forall r r' k, rec_equiv r r' -> Forall2 same_point (iter_take md r k) (iter_take md r' k)) /\
  (forall r r', rec_equiv r r' -> rec_eqb md r r' = true).
Proof.
  intros md reps s s' d d' e e' S D E. split; [apply rec_make_c; assumption|]. split.
  - intros r r' k R. apply iter_take_c. exact R.
  - intros r r' R. apply rec_equiv_eqb. exact R.
Qed.
