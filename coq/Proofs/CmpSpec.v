(* Proofs/CmpSpec.v -- TimePoint._cmp and __hash__: after re-zoning and
   normalising, (date, second-of-day) keys order exactly like the instants;
   equal instants give equal hash keys (property C02). *)
From Coq Require Import QArith Qround Qabs Lqa.
From Iso Require Import Proofs.Tac Spec.Cal Spec.Instant Model.Num Model.Helpers Model.Duration
  Model.TimePoint Proofs.HelpersSpec Proofs.ConvSpec Proofs.TickSpec Proofs.AddSpec Proofs.ZoneSpec.
Open Scope Z_scope.
Open Scope Q_scope.

(* ---------- booleans on rationals as propositions ---------- *)
Lemma qleb_iff a b : qleb a b = true <-> a <= b.
Proof. unfold qleb. apply Qle_bool_iff. Qed.
Lemma qltb_iff a b : qltb a b = true <-> a < b.
Proof.
  unfold qltb. rewrite negb_true_iff, <- not_true_iff_false, Qle_bool_iff. split; intros H; lra.
Qed.
Lemma qeqb_iff a b : qeqb a b = true <-> a == b.
Proof. apply Qeq_bool_iff. Qed.
Lemma qin_iff lo x hi : qin lo x hi = true <-> inject_Z lo <= x /\ x < inject_Z hi.
Proof. unfold qin, qz. rewrite andb_true_iff, qleb_iff, qltb_iff. tauto. Qed.
Lemma qltb_false a b : qltb a b = false <-> b <= a.
Proof. rewrite <- not_true_iff_false, qltb_iff. split; intros H; lra. Qed.
Lemma qeqb_false a b : qeqb a b = false <-> ~ a == b.
Proof. rewrite <- not_true_iff_false, qeqb_iff. tauto. Qed.

Ltac b2p H :=
  repeat first [rewrite andb_true_iff in H | rewrite orb_true_iff in H | rewrite qin_iff in H
               | rewrite qleb_iff in H | rewrite qltb_iff in H | rewrite qeqb_iff in H
               | rewrite qis_int_iff in H].

Lemma inj_lt a b : inject_Z a < inject_Z b -> (a < b)%Z.
Proof. rewrite <- Zlt_Qlt. tauto. Qed.
Lemma inj_le a b : inject_Z a <= inject_Z b -> (a <= b)%Z.
Proof. rewrite <- Zle_Qle. tauto. Qed.
Lemma lt_inj a b : (a < b)%Z -> inject_Z a < inject_Z b.
Proof. rewrite <- Zlt_Qlt. tauto. Qed.
Lemma le_inj a b : (a <= b)%Z -> inject_Z a <= inject_Z b.
Proof. rewrite <- Zle_Qle. tauto. Qed.

Lemma int_range x z lo hi : x == inject_Z z -> inject_Z lo <= x -> x < inject_Z hi -> (lo <= z < hi)%Z.
Proof. intros E A B. rewrite E in A, B. split; [apply inj_le | apply inj_lt]; assumption. Qed.

Lemma range_inj z lo hi : (lo <= z < hi)%Z -> inject_Z lo <= inject_Z z /\ inject_Z z <= inject_Z (hi - 1).
Proof. intros H. split; apply le_inj; lia. Qed.

Lemma qtrunc_nonneg x : 0 <= x -> qtrunc x = Qfloor x.
Proof. intros H. unfold qtrunc. apply Qle_bool_iff in H. rewrite H. reflexivity. Qed.

Lemma floor_range x lo hi : inject_Z lo <= x -> x < inject_Z hi -> (lo <= Qfloor x < hi)%Z.
Proof.
  intros A B. pose proof (Qfloor_le x) as F1. pose proof (Qlt_floor x) as F2. split.
  - assert (lo < Qfloor x + 1)%Z; [|lia]. apply inj_lt. lra.
  - apply inj_lt. lra.
Qed.

Lemma frac_range x : 0 <= x - inject_Z (Qfloor x) /\ x - inject_Z (Qfloor x) < 1.
Proof.
  pose proof (Qfloor_le x) as F1. pose proof (Qlt_floor x) as F2.
  rewrite inject_Z_plus in F2. change (inject_Z 1) with 1 in F2. split; lra.
Qed.

(* ---------- valid and normal times of day ---------- *)
Lemma valid_not24_normal t : valid_tod t = true -> qeqb (tod_hour t) 24 = false -> normal_tod t = true.
Proof.
  intros V N. unfold normal_tod. rewrite V. cbn [andb]. apply qeqb_false in N. apply qltb_iff.
  destruct t as [h m s | h m | h]; cbn [valid_tod tod_hour] in *; b2p V.
  - change (inject_Z 24) with 24 in V. destruct V as [_ [[[[_ V] _] _] | [[V _] _]]]; [lra | contradiction].
  - change (inject_Z 24) with 24 in V. destruct V as [_ [[[_ V] _] | [V _]]]; [lra | contradiction].
  - destruct V as [_ V]. destruct (Qlt_le_dec h 24) as [L | L]; [exact L|]. exfalso. apply N. lra.
Qed.

Lemma normalised_spec md p : valid_tp md p = true ->
  normal_tp md (normalised md p) = true /\ instant md (normalised md p) == instant md p /\
  rep_kind (tdate (normalised md p)) = rep_kind (tdate p) /\
  tod_kind (ttod (normalised md p)) = tod_kind (ttod p) /\
  tzone (normalised md p) = tzone p.
Proof.
  intros V. destruct (valid_tp_parts md p V) as (VD & VT & VZ). unfold normalised.
  destruct (qeqb (tod_hour (ttod p)) 24) eqn:E.
  - destruct (tick_over_spec md p (valid_month md _ VD)) as (T1 & T2 & T3 & T4 & T5 & T6).
    unfold normal_tp. rewrite T2, T3, T6, VZ. auto.
  - unfold normal_tp. rewrite VD, VZ, (valid_not24_normal _ VT E). repeat split; reflexivity.
Qed.

Lemma normal_tp_parts md p : normal_tp md p = true ->
  valid_date md (tdate p) = true /\ normal_tod (ttod p) = true /\ valid_zone (tzone p) = true.
Proof. unfold normal_tp. intros H. apply andb_prop in H. destruct H as [H H3]. apply andb_prop in H. tauto. Qed.

(* the (hour, minute, second) triple of a time strictly inside the day *)
Definition hms_ok (T : Q) (k : Q * Q * Q) : Prop :=
  let '(h, m, s) := k in
  exists hz mz, h == inject_Z hz /\ m == inject_Z mz /\ (0 <= hz < 24)%Z /\ (0 <= mz < 60)%Z /\
                0 <= s /\ s < 60 /\ 3600 * h + 60 * m + s == T.

Lemma hms_spec t : normal_tod t = true -> hms_ok (tod_secs t) (get_hour_minute_second t).
Proof.
  unfold normal_tod. intros H. apply andb_prop in H. destruct H as [V N]. apply qltb_iff in N.
  destruct t as [h m s | h m | h]; cbn [valid_tod tod_hour get_hour_minute_second tod_secs] in *; b2p V;
    unfold hms_ok; unfold qz in *;
    change (inject_Z 0) with 0 in *; change (inject_Z 24) with 24 in *; change (inject_Z 60) with 60 in *;
    change (inject_Z 3600) with 3600 in *.
  - destruct V as [[[hz Hh] [mz Hm]] [[[[H1 H2] [H3 H4]] [H5 H6]] | [[V _] _]]]; [|lra].
    exists hz, mz. repeat split; try assumption; try lra.
    + apply (int_range h hz 0 24 Hh); assumption.
    + apply (int_range h hz 0 24 Hh); assumption.
    + apply (int_range m mz 0 60 Hm); assumption.
    + apply (int_range m mz 0 60 Hm); assumption.
  - destruct V as [[hz Hh] [[[H1 H2] [H3 H4]] | [V _]]]; [|lra].
    rewrite (qtrunc_nonneg m H3). exists hz, (Qfloor m).
    pose proof (floor_range m 0 60 H3 H4) as Fr. pose proof (frac_range m) as [F1 F2].
    rewrite qmul_eq, qsub_eq.
    repeat split; try assumption; try reflexivity; try lra; try lia.
    + apply (int_range h hz 0 24 Hh); assumption.
    + apply (int_range h hz 0 24 Hh); assumption.
  - destruct V as [H1 _].
    rewrite (qtrunc_nonneg h H1).
    pose proof (floor_range h 0 24 H1 N) as Fh. pose proof (frac_range h) as [F1 F2].
    set (m := qmul 60 (qsub h (inject_Z (Qfloor h)))).
    assert (Hm : m == 60 * (h - inject_Z (Qfloor h))) by (unfold m; rewrite qmul_eq, qsub_eq; reflexivity).
    assert (M1 : 0 <= m) by lra. assert (M2 : m < 60) by lra.
    rewrite (qtrunc_nonneg m M1).
    pose proof (floor_range m 0 60 M1 M2) as Fm. pose proof (frac_range m) as [G1 G2].
    exists (Qfloor h), (Qfloor m). rewrite qmul_eq, qsub_eq.
    repeat split; try reflexivity; try lra; try lia.
Qed.

Lemma hms_ok_bounds T k : hms_ok T k -> 0 <= T /\ T < 86400.
Proof.
  destruct k as [[h m] s]. intros (hz & mz & Hh & Hm & Rh & Rm & S1 & S2 & E).
  destruct (range_inj _ _ _ Rh) as [A1 A2]. destruct (range_inj _ _ _ Rm) as [B1 B2].
  change (inject_Z (24 - 1)) with 23 in A2. change (inject_Z (60 - 1)) with 59 in B2.
  change (inject_Z 0) with 0 in *. rewrite <- Hh in *. rewrite <- Hm in *. split; lra.
Qed.

Lemma tod_secs_range t : normal_tod t = true -> 0 <= tod_secs t /\ tod_secs t < 86400.
Proof. intros H. exact (hms_ok_bounds _ _ (hms_spec t H)). Qed.

(* ---------- dates: conversions used by the comparison key ---------- *)
Open Scope Z_scope.

Lemma get_calendar_date_spec md d : valid_date md d = true ->
  exists y m dd, get_calendar_date md d = Some (y, m, dd) /\ valid_cal md y m dd = true /\
                 dn_cal md y m dd = date_dn md d.
Proof.
  destruct d as [y m dd | y doy | y w dd]; cbn [valid_date get_calendar_date date_dn]; intros V.
  - exists y, m, dd. auto.
  - destruct (proj1 (cal_from_ord_spec md y doy) V) as (m & d & E & Vc & Dc). exists y, m, d. auto.
  - apply cal_from_week_spec. exact V.
Qed.

Lemma get_ordinal_date_spec md d : valid_date md d = true ->
  exists y doy, get_ordinal_date md d = Some (y, doy) /\ valid_ord md y doy = true /\
                dn_ord md y doy = date_dn md d.
Proof.
  destruct d as [y m dd | y doy | y w dd]; cbn [valid_date get_ordinal_date date_dn]; intros V.
  - destruct (proj1 (ord_from_cal_spec md y m dd) V) as (doy & E & Vo & Do). exists y, doy. auto.
  - exists y, doy. auto.
  - apply ord_from_week_spec. exact V.
Qed.

Lemma dn_ord_lex md y doy y' doy' :
  valid_ord md y doy = true -> valid_ord md y' doy' = true ->
  (y < y' \/ y = y' /\ doy < doy') -> dn_ord md y doy < dn_ord md y' doy'.
Proof.
  intros V V' H. pose proof (ord_range _ _ _ V) as (Hd & Hn).
  pose proof (ord_range _ _ _ V') as (Hd' & Hn').
  destruct H as [H | [-> H]].
  - pose proof (dby_mono md (y + 1) y' ltac:(lia)). lia.
  - unfold dn_ord. lia.
Qed.

Ltac cmp_goal :=
  symmetry; first [apply Z.compare_eq_iff | apply Z.compare_lt_iff | apply Z.compare_gt_iff].

Lemma lex_cmp_cal md y m d y' m' d' :
  valid_cal md y m d = true -> valid_cal md y' m' d' = true ->
  lex_cmp [y; m; d] [y'; m'; d'] = (dn_cal md y m d ?= dn_cal md y' m' d').
Proof.
  intros V V'.
  pose proof (dn_cal_lex md y m d y' m' d' V V') as L.
  pose proof (dn_cal_lex md y' m' d' y m d V' V) as L'.
  cbn [lex_cmp].
  destruct (Z.compare_spec y y') as [Ey | Ey | Ey]; [subst y'| |].
  - destruct (Z.compare_spec m m') as [Em | Em | Em]; [subst m'| |].
    + destruct (Z.compare_spec d d') as [Ed | Ed | Ed]; [subst d'| |]; cmp_goal;
        [reflexivity | apply L; lia | apply L'; lia].
    + cmp_goal. apply L; lia.
    + cmp_goal. apply L'; lia.
  - cmp_goal. apply L; lia.
  - cmp_goal. apply L'; lia.
Qed.

Lemma lex_cmp_ord md y d y' d' :
  valid_ord md y d = true -> valid_ord md y' d' = true ->
  lex_cmp [y; d] [y'; d'] = (dn_ord md y d ?= dn_ord md y' d').
Proof.
  intros V V'.
  pose proof (dn_ord_lex md y d y' d' V V') as L.
  pose proof (dn_ord_lex md y' d' y d V' V) as L'.
  cbn [lex_cmp].
  destruct (Z.compare_spec y y') as [Ey | Ey | Ey]; [subst y'| |].
  - destruct (Z.compare_spec d d') as [Ed | Ed | Ed]; [subst d'| |]; cmp_goal;
      [reflexivity | apply L; lia | apply L'; lia].
  - cmp_goal. apply L; lia.
  - cmp_goal. apply L'; lia.
Qed.

Open Scope Q_scope.

Lemma get_second_of_day_eq t : get_second_of_day t == tod_secs t.
Proof.
  destruct t; cbn [get_second_of_day tod_secs]; rewrite Qred_correct; ring.
Qed.

(* (day number, second of day) pairs order like the instants *)
Lemma day_sec_cmp n1 n2 s1 s2 z :
  0 <= s1 -> s1 < 86400 -> 0 <= s2 -> s2 < 86400 ->
  (match (n1 ?= n2)%Z with
   | Eq => if qltb s1 s2 then Lt else if qltb s2 s1 then Gt else Eq
   | c => c
   end) = (inject_Z (86400 * n1) + s1 - z ?= inject_Z (86400 * n2) + s2 - z).
Proof.
  intros A1 A2 B1 B2. rewrite !inject_Z_mult. change (inject_Z 86400) with 86400.
  symmetry.
  destruct (Z.compare_spec n1 n2) as [E | E | E].
  - subst n2. destruct (qltb s1 s2) eqn:L1; [|destruct (qltb s2 s1) eqn:L2].
    + apply qltb_iff in L1. rewrite <- Qlt_alt. lra.
    + apply qltb_iff in L2. rewrite <- Qgt_alt. lra.
    + apply qltb_false in L1, L2. rewrite <- Qeq_alt. lra.
  - assert (H : inject_Z n1 + 1 <= inject_Z n2).
    { change 1 with (inject_Z 1). rewrite <- inject_Z_plus. apply le_inj. lia. }
    rewrite <- Qlt_alt. lra.
  - assert (H : inject_Z n2 + 1 <= inject_Z n1).
    { change 1 with (inject_Z 1). rewrite <- inject_Z_plus. apply le_inj. lia. }
    rewrite <- Qgt_alt. lra.
Qed.

Lemma cmp_key_spec md a b uc :
  normal_tp md a = true -> normal_tp md b = true -> tzone a = tzone b ->
  exists ka kb, cmp_key md uc a = Some ka /\ cmp_key md uc b = Some kb /\
                key_cmp ka kb = (instant md a ?= instant md b).
Proof.
  intros Na Nb Z.
  destruct (normal_tp_parts md a Na) as (Da & Ta & _).
  destruct (normal_tp_parts md b Nb) as (Db & Tb & _).
  destruct (tod_secs_range _ Ta) as [A1 A2]. destruct (tod_secs_range _ Tb) as [B1 B2].
  assert (K : forall n1 n2, n1 = date_dn md (tdate a) -> n2 = date_dn md (tdate b) ->
    (match (n1 ?= n2)%Z with
     | Eq => if qltb (get_second_of_day (ttod a)) (get_second_of_day (ttod b)) then Lt
             else if qltb (get_second_of_day (ttod b)) (get_second_of_day (ttod a)) then Gt else Eq
     | c => c end) = (instant md a ?= instant md b)).
  { intros n1 n2 -> ->. unfold instant, qz. rewrite <- Z.
    pose proof (get_second_of_day_eq (ttod a)) as Ga. pose proof (get_second_of_day_eq (ttod b)) as Gb.
    rewrite <- Ga, <- Gb. apply day_sec_cmp; rewrite ?Ga, ?Gb; assumption. }
  unfold cmp_key, key_cmp. destruct uc.
  - destruct (get_calendar_date_spec md _ Da) as (y1 & m1 & d1 & E1 & V1 & N1).
    destruct (get_calendar_date_spec md _ Db) as (y2 & m2 & d2 & E2 & V2 & N2).
    rewrite E1, E2. eexists; eexists. split; [reflexivity|]. split; [reflexivity|].
    cbn [fst snd]. rewrite (lex_cmp_cal md) by assumption. apply K; assumption.
  - destruct (get_ordinal_date_spec md _ Da) as (y1 & d1 & E1 & V1 & N1).
    destruct (get_ordinal_date_spec md _ Db) as (y2 & d2 & E2 & V2 & N2).
    rewrite E1, E2. eexists; eexists. split; [reflexivity|]. split; [reflexivity|].
    cbn [fst snd]. rewrite (lex_cmp_ord md) by assumption. apply K; assumption.
Qed.

(* ---------- the fast path ---------- *)
Lemma props_eq_instant md a b : tp_props_eqb a b = true -> instant md a == instant md b.
Proof.
  destruct a as [da ta za], b as [db tb zb]. unfold tp_props_eqb, instant. cbn [tdate ttod tzone].
  intros H. rewrite !andb_true_iff in H. destruct H as [[[Hd Ht] Hz1] Hz2].
  assert (Ed : date_dn md da = date_dn md db).
  { destruct da, db; try discriminate Hd; rewrite ?andb_true_iff in Hd; cbn [date_dn]; f_equal; lia. }
  assert (Et : tod_secs ta == tod_secs tb).
  { destruct ta, tb; try discriminate Ht; b2p Ht; cbn [tod_secs].
    - destruct Ht as [[-> ->] ->]. reflexivity.
    - destruct Ht as [-> ->]. reflexivity.
    - rewrite Ht. reflexivity. }
  assert (Ez : zone_secs za = zone_secs zb) by (unfold zone_secs; f_equal; lia).
  rewrite Ed, Et, Ez. reflexivity.
Qed.

(* ---------- property C02 ---------- *)
Lemma tp_cmp_spec : forall md a b, valid_tp md a = true -> valid_tp md b = true ->
  tp_cmp md a b = Some (instant md a ?= instant md b)%Q.
Proof.
  intros md a b Va Vb. unfold tp_cmp.
  destruct (tp_props_eqb a b) eqn:Ep.
  - f_equal. symmetry. rewrite <- Qeq_alt. apply props_eq_instant. exact Ep.
  - destruct (valid_tp_parts md a Va) as (_ & _ & Za).
    destruct (to_time_zone_spec md b (tzone a) Vb Za) as (b1 & E & I1 & Z1 & _ & _ & V1).
    rewrite E.
    destruct (normalised_spec md a Va) as (Na & Ia & _ & _ & Zna).
    destruct (normalised_spec md b1 V1) as (Nb & Ib & _ & _ & Znb).
    assert (ZZ : tzone (normalised md a) = tzone (normalised md b1)) by congruence.
    destruct (cmp_key_spec md _ _
                (match tdate (normalised md a) with Cal _ _ _ => true | _ => false end) Na Nb ZZ)
      as (ka & kb & Ea & Eb & K).
    rewrite Ea, Eb, K. rewrite Ia, Ib, I1. reflexivity.
Qed.

Lemma tp_cmp_operators : forall md a b c, valid_tp md a = true -> valid_tp md b = true ->
  tp_cmp md a b = Some c ->
  (cmp_op 0 c = true <-> (instant md a == instant md b)%Q) /\
  (cmp_op 1 c = true <-> (instant md a < instant md b)%Q) /\
  (cmp_op 2 c = true <-> (instant md a <= instant md b)%Q) /\
  (cmp_op 3 c = true <-> (instant md b < instant md a)%Q) /\
  (cmp_op 4 c = true <-> (instant md b <= instant md a)%Q) /\
  (cmp_op 5 c = true <-> ~ (instant md a == instant md b)%Q).
Proof.
  intros md a b c Va Vb. rewrite (tp_cmp_spec md a b Va Vb). intros H. injection H as <-.
  destruct (Qcompare_spec (instant md a) (instant md b)) as [E | E | E]; cbn [cmp_op];
    repeat split; intros H; try discriminate H; try reflexivity; try lra;
    try (intros H'; lra); try (exfalso; lra).
Qed.

Lemma cmp_op_coherent : forall c,
  (cmp_op 1 c = true /\ cmp_op 0 c = false /\ cmp_op 3 c = false \/
   cmp_op 1 c = false /\ cmp_op 0 c = true /\ cmp_op 3 c = false \/
   cmp_op 1 c = false /\ cmp_op 0 c = false /\ cmp_op 3 c = true) /\
  cmp_op 5 c = negb (cmp_op 0 c) /\
  cmp_op 2 c = cmp_op 1 c || cmp_op 0 c /\ cmp_op 4 c = cmp_op 3 c || cmp_op 0 c.
Proof. intros []; cbn; tauto. Qed.

Lemma tp_cmp_sym : forall md a b c, valid_tp md a = true -> valid_tp md b = true ->
  tp_cmp md a b = Some c -> tp_cmp md b a = Some (CompOpp c).
Proof.
  intros md a b c Va Vb. rewrite (tp_cmp_spec md a b Va Vb), (tp_cmp_spec md b a Vb Va).
  intros H. injection H as <-. rewrite Qcompare_antisym. reflexivity.
Qed.

Lemma tp_cmp_trans : forall md a b c,
  valid_tp md a = true -> valid_tp md b = true -> valid_tp md c = true ->
  (tp_cmp md a b = Some Lt \/ tp_cmp md a b = Some Eq) ->
  (tp_cmp md b c = Some Lt \/ tp_cmp md b c = Some Eq) ->
  (tp_cmp md a c = Some Lt \/ tp_cmp md a c = Some Eq) /\
  (tp_cmp md a b = Some Lt \/ tp_cmp md b c = Some Lt -> tp_cmp md a c = Some Lt).
Proof.
  intros md a b c Va Vb Vc.
  rewrite (tp_cmp_spec md a b Va Vb), (tp_cmp_spec md b c Vb Vc), (tp_cmp_spec md a c Va Vc).
  destruct (Qcompare_spec (instant md a) (instant md b)) as [E1 | E1 | E1];
  destruct (Qcompare_spec (instant md b) (instant md c)) as [E2 | E2 | E2];
  destruct (Qcompare_spec (instant md a) (instant md c)) as [E3 | E3 | E3];
    intros [H1 | H1] [H2 | H2]; try discriminate H1; try discriminate H2;
    try (exfalso; lra); (split; [tauto|]); intros [H | H]; try discriminate H; reflexivity.
Qed.

(* ---------- hashing ---------- *)
Definition hash_key_equiv (k1 k2 : Z * Z * Z * (Q * Q * Q)) : Prop :=
  let '(y1, m1, d1, (h1, i1, s1)) := k1 in
  let '(y2, m2, d2, (h2, i2, s2)) := k2 in
  y1 = y2 /\ m1 = m2 /\ d1 = d2 /\ (h1 == h2)%Q /\ (i1 == i2)%Q /\ (s1 == s2)%Q.

Lemma day_sec_unique n1 n2 T1 T2 :
  0 <= T1 -> T1 < 86400 -> 0 <= T2 -> T2 < 86400 ->
  inject_Z (86400 * n1) + T1 == inject_Z (86400 * n2) + T2 -> n1 = n2 /\ T1 == T2.
Proof.
  intros A1 A2 B1 B2. rewrite !inject_Z_mult. change (inject_Z 86400) with 86400. intros E.
  destruct (Z.lt_trichotomy n1 n2) as [L | [L | L]].
  - exfalso. assert (H : inject_Z n1 + 1 <= inject_Z n2).
    { change 1 with (inject_Z 1). rewrite <- inject_Z_plus. apply le_inj. lia. } lra.
  - subst n2. split; [reflexivity | lra].
  - exfalso. assert (H : inject_Z n2 + 1 <= inject_Z n1).
    { change 1 with (inject_Z 1). rewrite <- inject_Z_plus. apply le_inj. lia. } lra.
Qed.

Lemma hms_unique T1 T2 h1 m1 s1 h2 m2 s2 :
  hms_ok T1 (h1, m1, s1) -> hms_ok T2 (h2, m2, s2) -> T1 == T2 -> h1 == h2 /\ m1 == m2 /\ s1 == s2.
Proof.
  intros (hz1 & mz1 & Hh1 & Hm1 & Rh1 & Rm1 & S1 & S1' & E1)
         (hz2 & mz2 & Hh2 & Hm2 & Rh2 & Rm2 & S2 & S2' & E2) E.
  rewrite Hh1, Hm1, Hh2, Hm2 in *.
  assert (K : inject_Z (3600 * (hz2 - hz1) + 60 * (mz2 - mz1)) == s1 - s2).
  { unfold Z.sub. repeat first [rewrite inject_Z_plus | rewrite inject_Z_mult | rewrite inject_Z_opp].
    change (inject_Z 3600) with 3600. change (inject_Z 60) with 60. lra. }
  assert (R : (-60 < 3600 * (hz2 - hz1) + 60 * (mz2 - mz1) < 60)%Z).
  { split; apply inj_lt; rewrite K; [change (inject_Z (-60)) with (-60) | change (inject_Z 60) with 60]; lra. }
  assert (hz1 = hz2 /\ mz1 = mz2) as [-> ->] by lia.
  split; [reflexivity|]. split; [reflexivity|]. lra.
Qed.

Lemma hash_key_spec md p : valid_tp md p = true ->
  exists y m d k T, tp_hash_key md p = Some (y, m, d, k) /\ valid_cal md y m d = true /\
    hms_ok T k /\ inject_Z (86400 * dn_cal md y m d) + T == instant md p.
Proof.
  intros V. unfold tp_hash_key.
  destruct (to_utc_spec md p V) as (u & E & Iu & Zu & Vu). rewrite E.
  destruct (normalised_spec md u Vu) as (N & In & _ & _ & Zn).
  destruct (normal_tp_parts md _ N) as (Dn & Tn & _).
  destruct (get_calendar_date_spec md _ Dn) as (y & m & d & Ec & Vc & Nc). rewrite Ec.
  exists y, m, d, (get_hour_minute_second (ttod (normalised md u))), (tod_secs (ttod (normalised md u))).
  split; [reflexivity|]. split; [exact Vc|]. split; [apply hms_spec; exact Tn|].
  rewrite <- Iu, <- In. unfold instant, qz. rewrite Zn, Zu, Nc.
  change (inject_Z (zone_secs {| zh := 0; zm := 0 |})) with 0. ring.
Qed.

Lemma tp_eq_hash : forall md a b, valid_tp md a = true -> valid_tp md b = true ->
  tp_cmp md a b = Some Eq ->
  exists k1 k2, tp_hash_key md a = Some k1 /\ tp_hash_key md b = Some k2 /\ hash_key_equiv k1 k2.
Proof.
  intros md a b Va Vb. rewrite (tp_cmp_spec md a b Va Vb). intros H.
  assert (E : instant md a == instant md b) by (apply Qeq_alt; congruence).
  destruct (hash_key_spec md a Va) as (y1 & m1 & d1 & k1 & T1 & H1 & V1 & O1 & I1).
  destruct (hash_key_spec md b Vb) as (y2 & m2 & d2 & k2 & T2 & H2 & V2 & O2 & I2).
  exists (y1, m1, d1, k1), (y2, m2, d2, k2). split; [exact H1|]. split; [exact H2|].
  destruct (hms_ok_bounds _ _ O1) as [A1 A2]. destruct (hms_ok_bounds _ _ O2) as [B1 B2].
  destruct (day_sec_unique (dn_cal md y1 m1 d1) (dn_cal md y2 m2 d2) T1 T2 A1 A2 B1 B2) as [En ET]; [rewrite I1, I2; exact E|].
  pose proof (dn_cal_inj md _ _ _ _ _ _ V1 V2 En) as Ec.
  destruct k1 as [[h1 i1] s1], k2 as [[h2 i2] s2].
  destruct (hms_unique _ _ _ _ _ _ _ _ O1 O2 ET) as (Eh & Ei & Es).
  unfold hash_key_equiv. injection Ec as -> -> ->. auto 7.
Qed.

Open Scope Z_scope.
